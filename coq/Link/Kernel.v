(** Tie T for C03: proposal and acceptance formulas regenerated from mcmc.py. *)
From Coq Require Import Reals Lra Bool.
From Tempest Require Import Proofs.Kernel.
From Tempest Require Gen.Kernel.
Local Open Scope R_scope.

(** the scale is drawn as the inverse of Gamma(shape = (d+nu)/2, scale = 2/(nu+delta)):
    an inverse-gamma with shape (nu+d)/2 and scale (nu+delta)/2 *)
Lemma link_gamma_shape d nu : Gen.Kernel.gamma_shape d nu = (nu + d) / 2.
Proof. unfold Gen.Kernel.gamma_shape. lra. Qed.
Lemma link_gamma_rate nu delta : nu + delta <> 0 -> / Gen.Kernel.gamma_scale nu delta = (nu + delta) / 2.
Proof. intro H. unfold Gen.Kernel.gamma_scale. field. exact H. Qed.
(** Crank-Nicolson coefficients: a = sqrt(1 - sigma^2), noise sigma * sqrt(s) *)
Lemma link_cn_coeff sigma : Gen.Kernel.cn_coeff sigma = sqrt (1 - sigma * sigma).
Proof. reflexivity. Qed.
Lemma link_noise_coeff sigma s : Gen.Kernel.noise_coeff sigma s = sigma * sqrt s.
Proof. reflexivity. Qed.
(** the tpCN correction is log t(current) - log t(proposed) *)
Lemma link_tpcn_factor d nu delta delta' : nu <> 0 ->
  Gen.Kernel.tpcn_factor d nu delta delta' = logt nu d delta - logt nu d delta'.
Proof. intro H. unfold Gen.Kernel.tpcn_factor, logt. field. Qed.
Lemma link_structure :
  Gen.Kernel.rwm_factor_is_zero = true /\ Gen.Kernel.rwm_proposal_is_u_plus_sigma_chol_z = true
  /\ Gen.Kernel.tpcn_proposal_is_mu_plus_a_diff_plus_noise = true
  /\ Gen.Kernel.scale_is_inverse_of_gamma_draw = true /\ Gen.Kernel.delta_uses_inverse_scale_of_assigned_mode = true
  /\ Gen.Kernel.accept_mask_is_uniform_strictly_below_alpha = true /\ Gen.Kernel.alpha_is_min_one_exp_nan_to_zero = true
  /\ Gen.Kernel.out_of_cube_proposals_are_rejected = true
  /\ Gen.Kernel.inverse_and_cholesky_are_of_the_mode_scale_matrix = true
  /\ Gen.Kernel.tpcn_rejects_on_every_coordinate = true
  /\ Gen.Kernel.rwm_wraps_periodic_and_rejects_at_reflective_walls = true.
Proof. repeat split. Qed.
