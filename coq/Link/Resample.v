(** Tie T for C06: the definitions regenerated from /repo's source (Gen.Resample)
    coincide with the hand-written model the theorems are about. *)
From Coq Require Import List Bool Arith.
From Tempest Require Import Base.Ops Model.Resample.
From Tempest Require Gen.Resample.

Lemma link_renorm_needed T (o : Ops T) s e : Gen.Resample.renorm_needed o s e = renorm_needed o s e.
Proof. reflexivity. Qed.
Lemma link_renorm T (o : Ops T) w s : map (fun x => Gen.Resample.renorm_elem o x s) w = renorm o w s.
Proof. reflexivity. Qed.
Lemma link_position T (o : Ops T) u0 size i : Gen.Resample.position o u0 size i = position o u0 size i.
Proof. reflexivity. Qed.
Lemma link_loop_cond T (o : Ops T) p cum : Gen.Resample.loop_cond o p cum = o_geb o p cum.
Proof. reflexivity. Qed.
Lemma link_cum_add T (o : Ops T) (wj : T) : Gen.Resample.cum_add o wj = wj.
Proof. reflexivity. Qed.
Lemma link_inits : Gen.Resample.j_init = 0 /\ Gen.Resample.cum_init_index = 0 /\ Gen.Resample.j_incr = 1.
Proof. repeat split. Qed.
(** the inner loop carries a bound (repair of the IndexError), and the bound is the last non-zero weight *)
Lemma link_loop_bounded : Gen.Resample.loop_bounded = true /\ Gen.Resample.loop_bound_is_last_nonzero = true.
Proof. split; reflexivity. Qed.
(** the teeth are clipped to the largest value of their cell: np.minimum(positions, nextafter((i + 1.0) / size, 0)) *)
Lemma link_cell_end T (o : Ops T) size i : Gen.Resample.cell_end o size i = cell_end o size i.
Proof. reflexivity. Qed.
Lemma link_positions_clipped : Gen.Resample.positions_clipped_by_minimum = true.
Proof. reflexivity. Qed.
Lemma link_dispatch :
  Gen.Resample.dispatch_mult_uses_full_weights_and_n_particles = true
  /\ Gen.Resample.dispatch_syst_uses_full_weights_and_n_particles = true.
Proof. split; reflexivity. Qed.
