(** Tie T for C18: each documented constraint has its check in SamplerConfig, run before any component
    is constructed; nothing on the construction path calls the user's callbacks. *)
From Coq Require Import List Bool.
From Tempest Require Gen.Config.

Lemma link_checks_present :
  Gen.Config.checks_n_dim_is_positive_int = true /\ Gen.Config.checks_n_particles_is_positive_int = true
  /\ Gen.Config.checks_ess_ratio_positive_number = true /\ Gen.Config.checks_volume_variation_positive_number_or_none = true
  /\ Gen.Config.checks_sampler_name = true /\ Gen.Config.checks_resampler_name = true
  /\ Gen.Config.checks_vectorize_blobs_conflict = true /\ Gen.Config.checks_periodic_reflective_overlap = true
  /\ Gen.Config.checks_periodic_indices_in_range = true /\ Gen.Config.checks_reflective_indices_in_range = true
  /\ Gen.Config.errors_raise_value_error = true /\ Gen.Config.post_init_calls_validate = true
  /\ Gen.Config.default_n_particles_is_twice_n_dim = true.
Proof. repeat split. Qed.
Lemma link_construction_path :
  Gen.Config.config_built_before_core_and_steps = true /\ Gen.Config.callbacks_called_during_construction = 0.
Proof. split; reflexivity. Qed.
