(** Tie T for C20: pieces regenerated from tools.py coincide with the model (Q instance). *)
From Coq Require Import List Bool Arith QArith.
From Tempest Require Import Base.Ops Model.Weights.
From Tempest Require Gen.Weights.
Local Open Scope Q_scope.

Lemma link_ess l : Gen.Weights.ess_of_normalised QOps (sumsq (normalise l)) = ess l.
Proof. reflexivity. Qed.
Lemma link_mask w t : map (fun x => Gen.Weights.mask_test QOps x t) w = mask_at w t.
Proof. reflexivity. Qed.
Lemma link_accept w t frac :
  Gen.Weights.accept_test QOps (Gen.Weights.ess_trimmed QOps (sumsq (trimmed_at w t)))
                               (Gen.Weights.ess_total QOps (sumsq w)) frac = ratio_ok w t frac.
Proof. reflexivity. Qed.
Lemma link_structure :
  Gen.Weights.starts_at_top_and_steps_down = true /\ Gen.Weights.same_mask_for_samples_and_weights = true
  /\ Gen.Weights.normalises_input_and_trimmed = true.
Proof. repeat split. Qed.
