(** Tie T for C20: pieces regenerated from tools.py coincide with the model (Q instance). *)
From Coq Require Import List Bool Arith QArith.
From Tempest Require Import Base.Ops Model.Weights.
From Tempest Require Gen.Weights.
Local Open Scope Q_scope.

Lemma link_ess l : Gen.Weights.ess_of_normalised QOps (sumsq (normalise l)) = ess l.
Proof. reflexivity. Qed.
Lemma link_mask w t : map (fun x => Gen.Weights.mask_test QOps x t) w = mask_at w t.
Proof. reflexivity. Qed.
Lemma link_accept w t frac :
  Gen.Weights.accept_test QOps (Gen.Weights.ess_trimmed QOps (sumsq (trimmed_at w t)))
                               (Gen.Weights.ess_total QOps (sumsq w)) frac = ratio_ok w t frac.
Proof. reflexivity. Qed.
Lemma link_structure :
  Gen.Weights.starts_at_top_and_steps_down = true /\ Gen.Weights.stops_at_grid_index_zero_whatever_the_ratio = true
  /\ Gen.Weights.same_mask_for_samples_and_weights = true
  /\ Gen.Weights.normalises_input_and_trimmed = true.
Proof. repeat split. Qed.
(** volume_variation has the shape vvgen K g of Proofs/Volume.v: normalised weights, rows centred at the weighted mean, their weighted
    covariance, K = inverse of that matrix (regularised by 1e-6 trace only when the rank test fires), g = clip to +-1e6, and the value is
    half the root of vvgen *)
Lemma link_volume_shape :
  Gen.Weights.volume_metric_is_half_root_of_squared_normalised_weights_times_clipped_deviation_of_mahalanobis_distance = true
  /\ Gen.Weights.volume_metric_regularises_only_when_rank_deficient_by_trace_times_1e_6 = true.
Proof. repeat split. Qed.
