(** Tie T for C12: termination test and posterior plumbing regenerated from core.py. *)
From Coq Require Import List Bool Arith String.
Import ListNotations.
Local Open Scope string_scope.
From Tempest Require Import Base.Ops Model.Posterior.
From Tempest Require Gen.Posterior.

Lemma link_not_termination T (o : Ops T) tol beta ess n_total :
  Gen.Posterior.not_termination o tol beta ess n_total = not_termination o tol beta ess n_total.
Proof. reflexivity. Qed.
(** every pool field — samples, log-likelihoods, blobs AND log-weights — is indexed in both stages *)
Lemma link_plumbing :
  Gen.Posterior.trim_indexes = ["u"; "x"; "logl"; "blobs"; "logw"] 
  /\ Gen.Posterior.resample_indexes = ["u"; "x"; "logl"; "blobs"; "logw"] 
  /\ Gen.Posterior.trim_uses_arange_and_weights = true
  /\ Gen.Posterior.resample_uses_len_weights_and_weights = true
  /\ Gen.Posterior.resampled_weights_uniform = true
  /\ Gen.Posterior.weights_are_exp_logw_normalised_at_beta_one = true.
Proof. repeat split. Qed.
Lemma link_run_tail :
  Gen.Posterior.tail_recomputes_logz_at_one = true /\ Gen.Posterior.tail_writes = ["logz"] 
  /\ Gen.Posterior.tail_commits_history = false /\ Gen.Posterior.evidence_reads_current_logz = true.
Proof. repeat split. Qed.
