(** Tie T for the kernel's inner loop (mcmc.py), used by C18: a valid configuration's kernel calls terminate. *)
From Coq Require Import ZArith QArith Bool.
From Tempest Require Import Model.KernelLoop.
From Tempest Require Gen.KernelLoop.

Lemma link_adaptive_steps smin smax a : Gen.KernelLoop.adaptive_steps smin smax a = adaptive_steps smin smax a.
Proof. reflexivity. Qed.
Lemma link_loop_shape :
  Gen.KernelLoop.loop_counts_then_steps_then_tests = true /\ Gen.KernelLoop.iteration_starts_at_zero = true
  /\ forall it steps, Gen.KernelLoop.stop_test it steps = Z.leb steps it.
Proof. repeat split. Qed.
