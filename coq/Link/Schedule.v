(** Tie T for C05: tests and expressions regenerated from reweight.py = those of the model. *)
From Coq Require Import List Bool Arith.
From Tempest Require Import Base.Ops Model.Schedule.
From Tempest Require Gen.Schedule.

Section L.
Context {T : Type} (o : Ops T).
Lemma link_ul_stay e t : Gen.Schedule.ul_stay o e t = o_ltb o e t. Proof. reflexivity. Qed.
Lemma link_ul_full e t : Gen.Schedule.ul_full o e t = o_geb o e t. Proof. reflexivity. Qed.
Lemma link_ul_loop hi lo tol : Gen.Schedule.ul_loop o hi lo tol = o_gtb o (o_sub o hi lo) tol. Proof. reflexivity. Qed.
Lemma link_ul_mid hi lo : Gen.Schedule.ul_mid o hi lo = midpoint o lo hi. Proof. reflexivity. Qed.
Lemma link_ul_keep e t : Gen.Schedule.ul_keep o e t = o_geb o e t. Proof. reflexivity. Qed.
Lemma link_bi_mid hi lo : Gen.Schedule.bi_mid o hi lo = midpoint o lo hi. Proof. reflexivity. Qed.
Lemma link_bi_metric_converged m target tol :
  Gen.Schedule.bi_metric_converged o m target tol = o_ltb o (o_abs o (o_sub o m target)) (o_mul o tol target).
Proof. reflexivity. Qed.
Lemma link_bi_beta_converged hi lo tol : Gen.Schedule.bi_beta_converged o hi lo tol = o_ltb o (o_sub o hi lo) tol.
Proof. reflexivity. Qed.
Lemma link_bi_dirs m target :
  Gen.Schedule.bi_ess_shrink_top o m target = o_ltb o m target /\ Gen.Schedule.bi_vol_raise_bottom o m target = o_ltb o m target.
Proof. split; reflexivity. Qed.
Lemma link_run_tests e t bu bp vt v :
  Gen.Schedule.run_stay o e t = o_leb o e t /\ Gen.Schedule.run_advance o e t = o_geb o e t
  /\ Gen.Schedule.run_cannot_advance o bu bp = o_eqb o bu bp
  /\ Gen.Schedule.run_vol_take_upper o vt v = o_geb o vt v /\ Gen.Schedule.run_vol_stay o vt v = o_leb o vt v.
Proof. repeat split. Qed.
End L.
Lemma link_structure :
  Gen.Schedule.branches_assign_matching_beta_weights_ess = true /\ Gen.Schedule.logz_computed_at_chosen_beta = true
  /\ Gen.Schedule.finalize_writes_beta_ess_logz = true /\ Gen.Schedule.other_steps_writing_beta = 0
  /\ Gen.Schedule.warmup_iteration_is_beta_equal_zero_in_train_resample_mutate = true
  /\ Gen.Schedule.reweighter_keeps_no_state_between_calls = true.
Proof. repeat split. Qed.
