(** Tie T for C13: dispatch structure and call accounting regenerated from core.py, mcmc.py, mutate.py. *)
From Coq Require Import List Bool Arith.
From Tempest Require Gen.Dispatch.

Lemma link_dispatch :
  Gen.Dispatch.branch_order_vectorize_pool_map = true
  /\ Gen.Dispatch.pool_results_consumed_in_order_via_list = true
  /\ Gen.Dispatch.blobs_split_from_same_results = true
  /\ Gen.Dispatch.likelihood_called_once_per_batch_in_evaluate = true.
Proof. repeat split. Qed.
Lemma link_accounting :
  Gen.Dispatch.mcmc_increment_is_n_walkers = true
  /\ Gen.Dispatch.warmup_increment_is_n_particles = true
  /\ Gen.Dispatch.mutate_adds_mcmc_calls = true
  /\ Gen.Dispatch.warmup_likelihood_calls = 1 /\ Gen.Dispatch.evaluate_likelihood_calls = 1.
Proof. repeat split. Qed.
