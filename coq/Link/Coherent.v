(** Tie T for C07: which selector the code applies to which field, regenerated from
    steps/resample.py, mcmc.py, steps/mutate.py, core.py. *)
From Coq Require Import List Bool String.
From Tempest Require Gen.Coherent.
Import ListNotations.
Local Open Scope string_scope.

(** resampling: all four fields are indexed by the one vector idx_resampled *)
Lemma link_resample : Gen.Coherent.resample_selectors = [("u", "idx_resampled"); ("x", "idx_resampled"); ("logl", "idx_resampled"); ("blobs", "idx_resampled")].
Proof. reflexivity. Qed.
(** acceptance: all four fields are updated under the one mask mask_accept *)
Lemma link_accept : Gen.Coherent.accept_selectors = [("u", "mask_accept"); ("x", "mask_accept"); ("logl", "mask_accept"); ("blobs", "mask_accept")].
Proof. reflexivity. Qed.
(** warm-up replacement: destination infinite_idx, source idx, for all fields *)
Lemma link_replace : Gen.Coherent.replace_selectors = [("x", "infinite_idx", "idx"); ("u", "infinite_idx", "idx"); ("logl", "infinite_idx", "idx"); ("blobs", "infinite_idx", "idx")].
Proof. reflexivity. Qed.
Lemma link_provenance :
  Gen.Coherent.proposal_x_is_prior_transform_of_proposal_u = true
  /\ Gen.Coherent.proposal_logl_blobs_from_one_call_on_proposal_x = true
  /\ Gen.Coherent.proposals_pass_bounds_check = true
  /\ Gen.Coherent.warmup_x_is_prior_transform_of_u = true
  /\ Gen.Coherent.warmup_logl_blobs_from_one_call_on_x = true
  /\ Gen.Coherent.mutate_writes_back_all_fields = true
  /\ Gen.Coherent.commit_copies_every_field = true.
Proof. repeat split. Qed.
