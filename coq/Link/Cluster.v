(** Tie T for C14: Trainer cadence, mode indexing and assignment source regenerated from
    steps/train.py, modes.py, steps/resample.py, mcmc.py. *)
From Coq Require Import List Bool Arith.
From Tempest Require Import Model.Cluster.
From Tempest Require Gen.Cluster.

(** the refit test fits whenever the model has never been fitted *)
Lemma link_refit every it fitted : Gen.Cluster.refit every it fitted = refit true every it fitted.
Proof. reflexivity. Qed.
Lemma link_indexing :
  Gen.Cluster.modes_built_per_sorted_unique_predicted_label = true
  /\ Gen.Cluster.trainer_labels_are_predict_of_training_points = true
  /\ Gen.Cluster.assignments_are_predict_of_resampled_points = true
  /\ Gen.Cluster.kernels_index_statistics_by_assignment = true
  /\ Gen.Cluster.nonfinite_dof_replaced_by_fallback = true
  /\ Gen.Cluster.trainer_and_resampler_share_one_clusterer = true
  /\ Gen.Cluster.reuse_tests_coverage_and_refits = true.
Proof. repeat split. Qed.
