(** Tie T for C04: the expression pieces regenerated from StateManager.compute_logw_and_logz
    assemble to the code-form definitions the theorems are about. *)
From Coq Require Import Reals List.
From Tempest Require Import Model.MIS.
From Tempest Require Gen.MIS.
Local Open Scope R_scope.

Lemma link_b N l it :
  Gen.MIS.b_weighted (Gen.MIS.b l (beta_t it) (z_t it)) (Gen.MIS.log_mixture_weight (INR (n_t it)) N) = code_b N l it.
Proof. reflexivity. Qed.
Lemma link_logw H beta l : Gen.MIS.logw (Gen.MIS.A l beta) (code_B H l) = code_logw H beta l.
Proof. reflexivity. Qed.
Lemma link_logz H beta ls :
  Gen.MIS.logz_new (lse (map (code_logw H beta) ls)) (INR (length ls)) = code_logz H beta ls.
Proof. reflexivity. Qed.
Lemma link_norm H beta ls l :
  Gen.MIS.logw_normalised (code_logw H beta l) (lse (map (code_logw H beta) ls)) = code_logw_norm H beta ls l.
Proof. reflexivity. Qed.
Lemma link_structure :
  Gen.MIS.reduces_with_logaddexp_over_iterations = true /\ Gen.MIS.n_per_iter_is_batch_length = true
  /\ Gen.MIS.N_total_is_sum_of_batch_lengths = true /\ Gen.MIS.empty_history_returns_empty_and_neg_inf = true
  /\ Gen.MIS.logz_uses_unnormalised_logw = true.
Proof. repeat split. Qed.
