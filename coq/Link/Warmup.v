(** Tie T for C11: the warm-up evidence update regenerated from steps/mutate.py. *)
From Coq Require Import Reals List Bool String.
From Tempest Require Gen.Warmup.
Import ListNotations.
Local Open Scope R_scope.

(** the new log-evidence is the log-fraction itself: assigned, not added to the running value *)
Lemma link_warmup_logz cur lf : Gen.Warmup.warmup_logz cur lf = lf.
Proof. reflexivity. Qed.
Lemma link_warmup_structure :
  Gen.Warmup.correction_only_inside_beta_zero_branch = true
  /\ Gen.Warmup.correction_only_when_some_draw_is_infinite = true
  /\ Gen.Warmup.log_fraction_is_n_finite_over_n_total = true
  /\ Gen.Warmup.replaced_fields = ["x"; "u"; "logl"; "blobs"]%string
  /\ Gen.Warmup.replacement_index_drawn_from_finite_rows = true.
Proof. repeat split. Qed.
