(** Tie T for C08: IO protocol of save_sampler_state, load plumbing and save cadence regenerated from core.py. *)
From Coq Require Import List Bool Arith.
From Tempest Require Import Model.Crash Proofs.Crash Model.RunBook.
From Tempest Require Gen.Checkpoint.
Import ListNotations.

(** the save follows the atomic protocol, whatever byte chunks the pickler writes *)
Lemma link_save_is_atomic chunks : Gen.Checkpoint.save_io chunks = atomic_save 1 0 chunks.
Proof. reflexivity. Qed.
Lemma link_save_shape chunks : is_atomic_shape 1 0 (Gen.Checkpoint.save_io chunks) false false false = true.
Proof. rewrite link_save_is_atomic. apply atomic_save_has_shape. discriminate. Qed.
Lemma link_load_and_pool :
  Gen.Checkpoint.load_updates_state_manager_in_place = true
  /\ Gen.Checkpoint.pool_detached_without_frozen_assignment = true
  /\ Gen.Checkpoint.pool_restored_in_finally = true
  /\ Gen.Checkpoint.save_exports_state_with_to_dict = true
  /\ Gen.Checkpoint.resume_sets_t0_from_restored_iter = true.
Proof. repeat split. Qed.
Lemma link_cadence iter t0 every :
  Gen.Checkpoint.saves_at iter t0 every = (Nat.eqb ((iter - t0) mod every) 0 && negb (Nat.eqb iter t0)).
Proof. reflexivity. Qed.

(** the bookkeeping machine Model/RunBook.v is the code's: same cadence test, one checkpoint test / reweight / train / resample / mutate /
    commit per iteration in this order, the iteration counter advanced once per iteration, counters of a fresh run start at 0
    (call accounting: Link/Dispatch.v; which iterations draw a fresh prior batch: Link/Schedule.v) *)
Lemma link_runbook_cadence it t0 e : Gen.Checkpoint.saves_at it t0 e = RunBook.saves_at it t0 e.
Proof. reflexivity. Qed.
Lemma link_runbook_pipeline :
  Gen.Checkpoint.iteration_is_checkpoint_reweight_train_resample_mutate_commit = true
  /\ Gen.Checkpoint.iteration_counter_advanced_once_per_iteration_in_reweight = true
  /\ Gen.Checkpoint.fresh_run_starts_counters_at_zero = true
  /\ Gen.Checkpoint.resume_sets_t0_from_restored_iter = true.
Proof. repeat split. Qed.
