(** Tie T for C15: M-step formulas and split-loop structure regenerated from cluster.py / core.py. *)
From Coq Require Import List Bool QArith.
From Tempest Require Import Base.Ops Model.Mixture.
From Tempest Require Gen.Mixture.
Local Open Scope Q_scope.

(** the M-step uses responsibilities times sample weights; the means are divided by the mass itself (1 for a massless component) *)
Lemma link_mean_denominator m : Gen.Mixture.mean_denominator QOps m = safe_mass m.
Proof. unfold Gen.Mixture.mean_denominator, safe_mass. cbn [o_ltb o_zero o_one QOps]. unfold Qltb.
  destruct (Qle_bool m 0); reflexivity. Qed.
Lemma link_structure :
  Gen.Mixture.weighted_resp_is_resp_times_sample_weight = true
  /\ Gen.Mixture.weights_are_masses_over_total = true
  /\ Gen.Mixture.full_cov_is_weighted_outer_product_over_mass_plus_eps = true
  /\ Gen.Mixture.diag_cov_is_weighted_squares_over_mass_plus_eps = true
  /\ Gen.Mixture.sample_weight_normalised_before_em = true.
Proof. repeat split. Qed.
Lemma link_split_loop :
  Gen.Mixture.split_requires_both_children_min_points = true
  /\ Gen.Mixture.children_partition_parent_by_binary_labels = true
  /\ Gen.Mixture.split_replaces_parent_by_two_children = true
  /\ Gen.Mixture.loop_bounded_by_max_iterations = true
  /\ Gen.Mixture.core_passes_cap_minus_one_iterations = true
  /\ Gen.Mixture.labels_assigned_from_partition = true
  /\ Gen.Mixture.predict_is_argmax_over_n_clusters_columns = true
  /\ Gen.Mixture.fallback_is_argmin_over_centres = true.
Proof. repeat split. Qed.
