(** Tie T for C10: where the log-likelihood enters the kernel and the reweighter (mcmc.py, reweight.py). *)
From Coq Require Import Reals Bool.
From Tempest Require Gen.Shift.
Local Open Scope R_scope.
Lemma link_accept_exponent beta l l' factor : Gen.Shift.accept_exponent beta l l' factor = beta * (l' - l) + factor.
Proof. reflexivity. Qed.
Lemma link_shift_structure :
  Gen.Shift.metric_weights_are_exp_of_logw_minus_max = true
  /\ Gen.Shift.metric_logw_from_compute_logw_and_logz = true
  /\ Gen.Shift.warmup_test_is_isinf_of_logl = true
  /\ Gen.Shift.acceptance_factor_does_not_read_logl = true
  /\ Gen.Shift.final_evidence_recomputed_at_beta_one = true.
Proof. repeat split. Qed.
