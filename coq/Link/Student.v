(** Tie T for C19: structure of fit_mvstud's ECME loop and the dof fallback, regenerated from student.py / modes.py. *)
From Coq Require Import Bool.
From Tempest Require Gen.Student.
Lemma link_ecme :
  Gen.Student.delta_is_mahalanobis_of_centred_rows_with_current_scale = true
  /\ Gen.Student.weights_are_nu_plus_dim_over_nu_plus_delta = true
  /\ Gen.Student.scale_update_is_weighted_outer_products_over_n_with_old_location = true
  /\ Gen.Student.location_update_is_weighted_mean_normalised_by_weight_sum = true
  /\ Gen.Student.nu_update_reads_only_deltas_dim_and_n = true
  /\ Gen.Student.stopping_test_reads_only_nu = true
  /\ Gen.Student.initial_location_is_coordinate_median = true
  /\ Gen.Student.initial_scale_is_biased_covariance_plus_diagonal_variance_over_n = true.
Proof. repeat split. Qed.
Lemma link_fallback :
  Gen.Student.nonfinite_dof_replaced_in_from_particles = true /\ Gen.Student.nonfinite_dof_replaced_in_from_global = true
  /\ Gen.Student.each_mode_fitted_to_its_own_cluster = true
  /\ Gen.Student.global_mode_fitted_to_a_weighted_resample_of_all_particles = true
  /\ Gen.Student.trainer_passes_its_fallback_to_every_mode_construction = true
  /\ Gen.Student.core_hands_the_configured_fallback_to_the_trainer = true
  /\ Gen.Student.infinite_nu_returned_when_root_bracket_has_no_sign_change = true.
Proof. repeat split. Qed.
