(** Tie T for C09: seeding call sites found in the package source. *)
From Coq Require Import List Bool ZArith.
From Tempest Require Import Model.Seeding.
From Tempest Require Gen.Seeding.
Import ListNotations.

(** no call site reachable from run / sample / posterior / fit / predict seeds the global stream with a
    hard-wired value *)
Lemma link_no_constant_reseed : existsb site_resets_to_constant Gen.Seeding.seed_sites = false.
Proof. reflexivity. Qed.
(** a fresh run seeds the global stream with the configuration's random_state (when one is given) *)
Lemma link_fresh_run_seeds_with_random_state : Gen.Seeding.fresh_init_seeds_with_config_random_state = true.
Proof. reflexivity. Qed.
(** no caller inside the package forwards a seed to a routine that seeds the global stream *)
Lemma link_no_forwarded_seed : Gen.Seeding.seeds_forwarded_to_global_seeding_routines = 0.
Proof. reflexivity. Qed.
(** every seeding call is guarded by "is not None" *)
Lemma link_all_guarded : forallb site_guarded_by_not_none Gen.Seeding.seed_sites = true.
Proof. reflexivity. Qed.
(** the checkpoint of a seeded sampler records the generator state, load restores it, and the seed itself is used on load only for
    checkpoints without one *)
Lemma link_resume_continues_the_stream : Gen.Seeding.seeded_checkpoint_records_the_stream_and_load_restores_it = true.
Proof. reflexivity. Qed.
