(** Tie T for C16: pieces regenerated from mcmc.py coincide with the model. *)
From Coq Require Import List Bool Arith.
From Tempest Require Import Base.Ops Model.Boundary.
From Tempest Require Gen.Boundary.

Lemma link_fold T (o : Ops T) (floorT : T -> T) (is_even : T -> bool) v :
  (let n := floorT v in let r := Gen.Boundary.remainder o v n in
   if is_even n then Gen.Boundary.fold_even_branch o r else Gen.Boundary.fold_odd_branch o r)
  = fold1 o floorT is_even v.
Proof. reflexivity. Qed.
Lemma link_in_unit T (o : Ops T) v :
  Gen.Boundary.bound_a o v && Gen.Boundary.bound_b o v = in_unit o v.
Proof. reflexivity. Qed.
(** the reflection count stays in floating point (repair of the int64 overflow) *)
Lemma link_no_int_cast : Gen.Boundary.reflect_count_int64_cast = false.
Proof. reflexivity. Qed.
Lemma link_structure :
  Gen.Boundary.copies_input = true /\ Gen.Boundary.periodic_map_is_mod_one = true
  /\ Gen.Boundary.periodic_then_reflective = true /\ Gen.Boundary.strict_is_complement_of_designated = true
  /\ Gen.Boundary.designations_reach_the_runners_under_their_own_names = true.
Proof. repeat split. Qed.
