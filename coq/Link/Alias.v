(** Tie T for C17: the copy/share classification regenerated from state_manager.py, core.py, sampler.py. *)
From Coq Require Import List Bool.
From Tempest Require Import Model.Alias.
From Tempest Require Gen.Alias.

(** every public accessor copies what crosses the API boundary *)
Lemma link_policy_all_fresh : all_fresh Gen.Alias.policy_of_source = true.
Proof. reflexivity. Qed.
Lemma link_sampler_accessors :
  Gen.Alias.sample_returns_get_current = true /\ Gen.Alias.results_returns_compute_results = true
  /\ Gen.Alias.posterior_built_from_flat_history = true /\ Gen.Alias.ensure_copy_copies_ndarrays = true
  /\ Gen.Alias.rejected_commit_raises_before_any_append = true.
Proof. repeat split. Qed.
