(** Likelihood dispatch (scalar map / vectorised call / worker pool with arbitrary completion
    order) and call accounting (C13). *)
From Coq Require Import List Bool Arith.
Import ListNotations.

Section Pool.
Context {A B : Type}.
Variable f : A -> B.

(** a pool evaluates the indexed tasks in some order and stores each result in its own slot;
    the caller reads the slots in index order *)
Definition tasks (xs : list A) : list (nat * A) := combine (seq 0 (length xs)) xs.
Definition slot (done : list (nat * B)) (i : nat) : option B :=
  option_map snd (find (fun p => Nat.eqb (fst p) i) done).
Definition pool_map (order : list (nat * A)) (n : nat) : list (option B) :=
  map (slot (map (fun p => (fst p, f (snd p))) order)) (seq 0 n).

(** _log_like: vectorised call / pool.map / map *)
Inductive strategy := Vectorised | Pool (order : list (nat * A)) | Scalar.
Definition log_like (fvec : list A -> list B) (s : strategy) (xs : list A) : list (option B) :=
  match s with
  | Vectorised => map Some (fvec xs)
  | Pool order => pool_map order (length xs)
  | Scalar => map (fun x => Some (f x)) xs
  end.
End Pool.

(** call accounting: an iteration is a warm-up batch of n draws, or an MCMC phase of [steps] steps with
    n walkers each; every likelihood evaluation is an event carrying the number of rows evaluated *)
Inductive iteration := Warmup (n : nat) | Mcmc (n steps : nat).
Definition events (it : iteration) : list nat :=
  match it with Warmup n => [n] | Mcmc n steps => repeat n steps end.
(** the counters as the code updates them *)
Definition mcmc_counter (n steps : nat) : nat := fold_left (fun c _ => c + n) (seq 0 steps) 0.  (* n_calls += n_walkers *)
Definition calls_after (calls : nat) (it : iteration) : nat :=
  match it with Warmup n => calls + n | Mcmc n steps => calls + mcmc_counter n steps end.
Definition run_calls (its : list iteration) (calls0 : nat) : nat := fold_left calls_after its calls0.
Definition rows_evaluated (its : list iteration) : nat := fold_right plus 0 (flat_map events its).
