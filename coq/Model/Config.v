(** Model of SamplerConfig.__post_init__ / validate (C18): Python values as a small sum type. *)
From Coq Require Import List Bool Arith ZArith QArith String.
Import ListNotations.
Local Open Scope Z_scope.

Inductive pyval := PInt (z : Z) | PBool (b : bool) | PFloat (q : Q) | PNone | POther.
(** isinstance(v, int): Python booleans are ints *)
Definition is_int (v : pyval) : bool := match v with PInt _ | PBool _ => true | _ => false end.
Definition int_of (v : pyval) : Z := match v with PInt z => z | PBool b => if b then 1 else 0 | _ => 0 end.
Definition is_num (v : pyval) : bool := match v with PInt _ | PBool _ | PFloat _ => true | _ => false end.
Definition num_of (v : pyval) : Q := match v with PInt z => inject_Z z | PBool b => if b then 1%Q else 0%Q | PFloat q => q | _ => 0%Q end.

Record config := mkConfig {
  c_n_dim : pyval; c_n_particles : pyval; c_ess_ratio : pyval; c_volume_variation : pyval;
  c_sample : string; c_resample : string; c_vectorize : bool; c_blobs : bool;
  c_periodic : option (list pyval); c_reflective : option (list pyval) }.

Definition Qpos (q : Q) : bool := negb (Qle_bool q 0).
Definition idx_ok (n_dim : Z) (v : pyval) : bool := is_int v && (0 <=? int_of v) && (int_of v <? n_dim).
Definition overlap (a b : list pyval) : bool :=
  existsb (fun x => is_int x && existsb (fun y => is_int y && (int_of x =? int_of y)) b) a.

(** the code: __post_init__ raises if n_dim is not an int, fills n_particles = 2*n_dim when None, then
    validate() collects errors (a comparison on a non-number raises TypeError: also a rejection) *)
Definition chk_n_dim (c : config) : bool := is_int (c_n_dim c) && (0 <? int_of (c_n_dim c)).
Definition chk_n_particles (c : config) : bool :=
  let np := match c_n_particles c with PNone => PInt (2 * int_of (c_n_dim c)) | v => v end in
  is_int np && (0 <? int_of np).
Definition chk_ess_ratio (c : config) : bool := is_num (c_ess_ratio c) && Qpos (num_of (c_ess_ratio c)).
Definition chk_volume (c : config) : bool :=
  match c_volume_variation c with PNone => true | v => is_num v && Qpos (num_of v) end.
Definition chk_sample (c : config) : bool := String.eqb (c_sample c) "tpcn" || String.eqb (c_sample c) "rwm".
Definition chk_resample (c : config) : bool := String.eqb (c_resample c) "mult" || String.eqb (c_resample c) "syst".
Definition chk_vec_blobs (c : config) : bool := negb (c_vectorize c && c_blobs c).
Definition chk_overlap (c : config) : bool :=
  match c_periodic c, c_reflective c with Some p, Some r => negb (overlap p r) | _, _ => true end.
Definition chk_periodic (c : config) : bool :=
  match c_periodic c with Some p => forallb (idx_ok (int_of (c_n_dim c))) p | None => true end.
Definition chk_reflective (c : config) : bool :=
  match c_reflective c with Some r => forallb (idx_ok (int_of (c_n_dim c))) r | None => true end.
Definition accepts (c : config) : bool :=
  chk_n_dim c && chk_n_particles c && chk_ess_ratio c && chk_volume c && chk_sample c && chk_resample c
  && chk_vec_blobs c && chk_overlap c && chk_periodic c && chk_reflective c.

(** the documented constraints, as the statement lists them *)
Definition pos_int (v : pyval) : Prop := is_int v = true /\ 0 < int_of v.
Definition pos_num (v : pyval) : Prop := is_num v = true /\ (0 < num_of v)%Q.
Definition documented_ok (c : config) : Prop :=
  pos_int (c_n_dim c)
  /\ (c_n_particles c = PNone \/ pos_int (c_n_particles c))
  /\ pos_num (c_ess_ratio c)
  /\ (c_volume_variation c = PNone \/ pos_num (c_volume_variation c))
  /\ (c_sample c = "tpcn"%string \/ c_sample c = "rwm"%string)
  /\ (c_resample c = "mult"%string \/ c_resample c = "syst"%string)
  /\ ~ (c_vectorize c = true /\ c_blobs c = true)
  /\ (forall p r, c_periodic c = Some p -> c_reflective c = Some r -> overlap p r = false)
  /\ (forall p, c_periodic c = Some p -> forall v, In v p -> idx_ok (int_of (c_n_dim c)) v = true)
  /\ (forall r, c_reflective c = Some r -> forall v, In v r -> idx_ok (int_of (c_n_dim c)) v = true).
