(** The run-level bookkeeping of SamplerCore.run_sampling / execute_iteration as a state machine: iteration counter, call
    counter, committed history (one record per iteration) and the checkpoints written, driven by what the adaptive parts
    decide (inverse temperature, number of kernel steps, batch size). Used by C08 (resume continues the run). *)
From Coq Require Import List Bool Arith Lia QArith.
Import ListNotations.
Local Open Scope nat_scope.

Record orc := mkOrc { o_beta : Q; o_steps : nat; o_n : nat }.          (* decided by the schedule / the kernel / the caller *)
Record rec := mkRec { h_iter : nat; h_calls : nat; h_steps : nat; h_beta : Q; h_n : nat }.
Record book := mkBook { iter : nat; calls : nat; hist : list rec; saved : list nat }.

Definition saves_at (it t0 every : nat) : bool := Nat.eqb ((it - t0) mod every) 0 && negb (Nat.eqb it t0).
Definition warm (o : orc) : bool := Qeq_bool (o_beta o) 0%Q.
(** likelihood rows of one iteration: a fresh prior batch at beta = 0, n_walkers rows per kernel step otherwise *)
Definition rows (o : orc) : nat := if warm o then o_n o else o_steps o * o_n o.
Definition steps_rec (o : orc) : nat := if warm o then 1 else o_steps o.

Definition iteration (every : option nat) (t0 : nat) (s : book) (o : orc) : book :=
  let saved' := match every with
                | Some e => if saves_at (iter s) t0 e then saved s ++ [iter s] else saved s
                | None => saved s end in
  let it := S (iter s) in
  let c := calls s + rows o in
  mkBook it c (hist s ++ [mkRec it c (steps_rec o) (o_beta o) (o_n o)]) saved'.

Definition run (every : option nat) (t0 : nat) (os : list orc) (s : book) : book := fold_left (iteration every t0) os s.
Definition fresh : book := mkBook 0 0 [] [].
(** what a checkpoint holds and a load restores: everything but the list of files written *)
Definition core (s : book) : nat * nat * list rec := (iter s, calls s, hist s).
Definition resume_from (s : book) : book := mkBook (iter s) (calls s) (hist s) [].
