(** Prior-sampling (beta = 0) phase in the linear domain: Z = exp(logz), exact rationals.
    Batch k has n_k prior draws of which m_k have finite likelihood. *)
From Coq Require Import List Bool Arith QArith.
Import ListNotations.
Local Open Scope Q_scope.

Definition nQ (n : nat) : Q := inject_Z (Z.of_nat n).

(** what the reweighter records at a beta=0 iteration with history [(n_t, Z_t)]:
    logZ(0) = -ln sum_t (n_t/N) exp(-z_t), i.e. the n_t-weighted harmonic mean of the Z_t *)
Definition harmonic (hist : list (nat * Q)) : Q :=
  let N := fold_right (fun p a => nQ (fst p) + a) 0 hist in
  1 / fold_right (fun p a => nQ (fst p) / N / snd p + a) 0 hist.

(** what the mutator then writes.  [accumulate] = the pinned tree's rule
    logz = current logz + log(n_finite/n_total); the repaired rule assigns log(n_finite/n_total). *)
Definition mutator_Z (accumulate : bool) (Zcur : Q) (n m : nat) : Q :=
  if Nat.ltb m n then (if accumulate then Zcur * (nQ m / nQ n) else nQ m / nQ n) else Zcur.

(** one warm-up iteration: reweight (first iteration records Z = 1), then mutate *)
Definition warm_step (accumulate : bool) (hist : list (nat * Q)) (n m : nat) : list (nat * Q) :=
  let Zrw := match hist with [] => 1 | _ => harmonic hist end in
  hist ++ [(n, mutator_Z accumulate Zrw n m)].

Fixpoint warm_run (accumulate : bool) (hist : list (nat * Q)) (batches : list (nat * nat)) : list (nat * Q) :=
  match batches with
  | [] => hist
  | (n, m) :: r => warm_run accumulate (warm_step accumulate hist n m) r
  end.
