(** Mixture-importance-sampling (balance heuristic) formulas over the reals:
    specification and the form in which StateManager.compute_logw_and_logz evaluates them. *)
From Coq Require Import Reals List.
Import ListNotations.
Local Open Scope R_scope.

Record iter := mkIter { beta_t : R; z_t : R; n_t : nat }.

Definition sumR (l : list R) : R := fold_right Rplus 0 l.
Definition Ntot (H : list iter) : nat := fold_right (fun it a => (n_t it + a)%nat) 0%nat H.

(** specification *)
Definition mix_terms (N : R) (H : list iter) (l : R) : list R :=
  map (fun it => INR (n_t it) / N * exp (beta_t it * l - z_t it)) H.
Definition mix (H : list iter) (l : R) : R := sumR (mix_terms (INR (Ntot H)) H l).
Definition logmix (H : list iter) (l : R) : R := ln (mix H l).
Definition logw_un (H : list iter) (beta l : R) : R := beta * l - logmix H l.
Definition lse (xs : list R) : R := ln (sumR (map exp xs)).          (* np.logaddexp.reduce *)
Definition logZ (H : list iter) (beta : R) (ls : list R) : R :=
  ln (sumR (map (fun l => exp (logw_un H beta l)) ls) / INR (length ls)).
Definition logw_norm (H : list iter) (beta : R) (ls : list R) (l : R) : R :=
  logw_un H beta l - lse (map (logw_un H beta) ls).

(** the code's evaluation: b = l*beta_t - logz_t ; + (log n_t - log N) ; logaddexp.reduce over t *)
Definition code_b (N : R) (l : R) (it : iter) : R :=
  (l * beta_t it - z_t it) + (ln (INR (n_t it)) - ln N).
Definition code_B (H : list iter) (l : R) : R := lse (map (code_b (INR (Ntot H)) l) H).
Definition code_logw (H : list iter) (beta l : R) : R := l * beta - code_B H l.
Definition code_logz (H : list iter) (beta : R) (ls : list R) : R :=
  lse (map (code_logw H beta) ls) - ln (INR (length ls)).
Definition code_logw_norm (H : list iter) (beta : R) (ls : list R) (l : R) : R :=
  code_logw H beta l - lse (map (code_logw H beta) ls).
