(** Model of SamplerCore._not_termination / run_sampling's loop and of compute_posterior's plumbing. *)
From Coq Require Import List Bool Arith.
From Tempest Require Import Base.Ops.
Import ListNotations.

(** ---- the run loop ---- *)
Section Loop.
Context {St : Type}.
Variable cond : St -> bool.            (* _not_termination *)
Variable step : St -> St.              (* execute_iteration *)
Fixpoint run_loop (fuel : nat) (s : St) : option St :=
  if cond s then match fuel with O => None | S f => run_loop f (step s) end else Some s.
End Loop.

Section Term.
Context {T : Type} (o : Ops T).
(** return 1.0 - beta >= 1e-4 or ess < n_total *)
Definition not_termination (tol beta ess n_total : T) : bool :=
  o_geb o (o_sub o (o_one o) beta) tol || o_ltb o ess n_total.
End Term.

(** ---- posterior plumbing ---- *)
(** numpy fancy indexing a[idx] (indices in range) *)
Definition take {A} (d : A) (idx : list nat) (l : list A) : list A := map (fun i => nth i l d) idx.

Record pool (TX TL TB TW : Type) := mkPool { p_x : list TX; p_logl : list TL; p_blobs : option (list TB); p_logw : list TW }.
Arguments p_x {TX TL TB TW}. Arguments p_logl {TX TL TB TW}. Arguments p_blobs {TX TL TB TW}. Arguments p_logw {TX TL TB TW}.
Arguments mkPool {TX TL TB TW}.

Record post (TX TL TB TW TQ : Type) := mkPost {
  r_x : list TX; r_weights : list TQ; r_logl : list TL; r_blobs : option (list TB); r_logw : option (list TW) }.
Arguments r_x {TX TL TB TW TQ}. Arguments r_weights {TX TL TB TW TQ}. Arguments r_logl {TX TL TB TW TQ}.
Arguments r_blobs {TX TL TB TW TQ}. Arguments r_logw {TX TL TB TW TQ}. Arguments mkPost {TX TL TB TW TQ}.

Section Post.
Context {TX TL TB TW TQ : Type} (dx : TX) (dl : TL) (db : TB) (dw : TW).
(** [trim_sel]/[trim_w]: result of trim_weights(arange(N), weights); [res_sel]: result of
    systematic_resample(len(weights), weights) on the (possibly trimmed) weights; [unif n] = ones(n)/n *)
Variable unif : nat -> list TQ.

Definition posterior (P : pool TX TL TB TW) (weights : list TQ)
           (trim resample return_blobs return_logw : bool)
           (trim_sel : list nat) (trim_w : list TQ) (res_sel : list nat) : post TX TL TB TW TQ :=
  let x1 := if trim then take dx trim_sel (p_x P) else p_x P in
  let l1 := if trim then take dl trim_sel (p_logl P) else p_logl P in
  let b1 := if trim then option_map (take db trim_sel) (p_blobs P) else p_blobs P in
  let lw1 := if trim then take dw trim_sel (p_logw P) else p_logw P in
  let w1 := if trim then trim_w else weights in
  let x2 := if resample then take dx res_sel x1 else x1 in
  let l2 := if resample then take dl res_sel l1 else l1 in
  let b2 := if resample then option_map (take db res_sel) b1 else b1 in
  let lw2 := if resample then take dw res_sel lw1 else lw1 in
  let w2 := if resample then unif (length res_sel) else w1 in
  mkPost x2 w2 l2 (if return_blobs then b2 else None) (if return_logw then Some lw2 else None).

(** the one selection of pool rows that every returned array follows *)
Definition selection (N : nat) (trim resample : bool) (trim_sel res_sel : list nat) : list nat :=
  let s1 := if trim then trim_sel else seq 0 N in
  if resample then take 0 res_sel s1 else s1.
End Post.
