(** Executable model of tempest.tools.systematic_resample (tools.py) and of the
    inverse-CDF search used as the specification of numpy.random.choice(p=...).
    No proofs here: the model must still run when a proof breaks. *)
From Coq Require Import List Bool Arith.
From Tempest Require Import Base.Ops.
Import ListNotations.

Section Sysres.
Context {T : Type} (o : Ops T).
(** [bounded]: whether the inner while loop carries the guard [j < len(weights) - 1]
    (the repaired code does; the pinned code did not and raised IndexError). *)
Variable bounded : bool.

(** inner loop:  while positions[i] >= cumulative_sum [and j < len-1]: j += 1; cumulative_sum += weights[j]
    [rest] = weights[j+1:].  None = IndexError. *)
Fixpoint advance (rest : list T) (p : T) (j : nat) (cum : T) : option (nat * T * list T) :=
  if o_geb o p cum then
    match rest with
    | [] => if bounded then Some (j, cum, []) else None
    | x :: r => advance r p (S j) (o_add o cum x)
    end
  else Some (j, cum, rest).

Fixpoint comb (ps : list T) (rest : list T) (j : nat) (cum : T) : option (list nat) :=
  match ps with
  | [] => Some []
  | p :: ps' =>
      match advance rest p j cum with
      | None => None
      | Some (j', cum', rest') => option_map (cons j') (comb ps' rest' j' cum')
      end
  end.

Definition position (u0 : T) (size i : nat) : T :=
  o_div o (o_add o u0 (o_ofnat o i)) (o_ofnat o size).
Definition positions (u0 : T) (size : nat) : list T := map (position u0 size) (seq 0 size).

Definition renorm_needed (s sqrteps : T) : bool := o_gtb o (o_abs o (o_sub o s (o_one o))) sqrteps.
Definition renorm (w : list T) (s : T) : list T := map (fun x => o_div o x s) w.

(** [s] is the value of np.sum(weights) (exact sum over Q; numpy's pairwise float sum,
    supplied by the harness, in the binary64 twin). *)
Definition sysres_with_sum (size : nat) (w : list T) (s sqrteps u0 : T) : option (list nat) :=
  let w' := if renorm_needed s sqrteps then renorm w s else w in
  match w' with
  | [] => None
  | x :: r => comb (positions u0 size) r 0 x
  end.

(** ---- the repaired routine: clipped teeth and a loop bound at the last non-zero weight ---- *)
(** np.minimum on non-NaN values *)
Definition o_minT (a b : T) : T := if o_leb o a b then a else b.
(** np.nextafter((i + 1.0) / size, 0.0): the largest value of cell i *)
Definition cell_end (size i : nat) : T := o_prev o (o_div o (o_add o (o_ofnat o i) (o_one o)) (o_ofnat o size)).
Definition cposition (u0 : T) (size i : nat) : T := o_minT (position u0 size i) (cell_end size i).
Definition cpositions (u0 : T) (size : nat) : list T := map (cposition u0 size) (seq 0 size).
(** last = np.flatnonzero(weights)[-1] (len(weights)-1 when every weight is zero); the loop never looks beyond it,
    so the routine is the comb run on weights[:last+1] *)
Definition is_zero (x : T) : bool := o_eqb o x (o_zero o).
Fixpoint drop_zeros (l : list T) : list T :=
  match l with [] => [] | x :: r => if is_zero x then drop_zeros r else l end.
Definition upto_last_nonzero (w : list T) : list T :=
  match drop_zeros (rev w) with [] => w | r => rev r end.
Definition sysres2_with_sum (size : nat) (w : list T) (s sqrteps u0 : T) : option (list nat) :=
  let w' := if renorm_needed s sqrteps then renorm w s else w in
  match upto_last_nonzero w' with
  | [] => None
  | x :: r => comb (cpositions u0 size) r 0 x
  end.

Definition sum_list (w : list T) : T := fold_left (o_add o) w (o_zero o).
Definition sysres2 (size : nat) (w : list T) (sqrteps u0 : T) : option (list nat) :=
  sysres2_with_sum size w (fold_left (o_add o) w (o_zero o)) sqrteps u0.
Definition sysres (size : nat) (w : list T) (sqrteps u0 : T) : option (list nat) :=
  sysres_with_sum size w (sum_list w) sqrteps u0.

(** inverse-CDF search: smallest k with r < W_k (numpy legacy choice: searchsorted(cdf, r, side='right')) *)
Fixpoint cdf_search (w : list T) (r : T) (k : nat) (cum : T) : nat :=
  match w with
  | [] => k
  | x :: w' => let c := o_add o cum x in
               if o_ltb o r c then k else
               match w' with [] => k | _ => cdf_search w' r (S k) c end
  end.
End Sysres.

(** numpy.random.choice(m, size, replace=True, p=w) (legacy RandomState):
      cdf = cumsum(w); cdf /= cdf[-1]; idx = searchsorted(cdf, r, side='right')
    for each uniform draw r: the number of cdf entries <= r. *)
Section Choice.
Context {T : Type} (o : Ops T).
Fixpoint cumsum_from (acc : T) (w : list T) : list T :=
  match w with [] => [] | x :: w' => let c := o_add o acc x in c :: cumsum_from c w' end.
(* numpy's cumsum starts from the first element itself (no 0 + x): *)
Definition cumsum (w : list T) : list T :=
  match w with [] => [] | x :: w' => x :: cumsum_from x w' end.
Definition cdf (w : list T) : list T :=
  let c := cumsum w in let tot := last c (o_one o) in map (fun v => o_div o v tot) c.
Definition searchsorted_right (c : list T) (r : T) : nat := length (filter (fun v => o_leb o v r) c).
Definition choice_idx (w : list T) (r : T) : nat := searchsorted_right (cdf w) r.
End Choice.
