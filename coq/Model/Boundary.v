(** Executable model of tempest.mcmc.apply_boundary_conditions / check_bounds. *)
From Coq Require Import List Bool Arith ZArith QArith Qround PrimFloat.
From Tempest Require Import Base.Ops.
Import ListNotations.

Section Bc.
Context {T : Type} (o : Ops T).
Variable floorT : T -> T.        (* np.floor *)
Variable is_even : T -> bool.    (* np.mod(n, 2) == 0 on an integral value *)
Variable mod_one : T -> T.       (* x % 1.0 (numpy remainder: sign of the divisor) *)

Definition wrap1 (v : T) : T := mod_one v.
Definition fold1 (v : T) : T :=
  let n := floorT v in
  let r := o_sub o v n in
  if is_even n then r else o_sub o (o_one o) r.

Fixpoint update (u : list T) (i : nat) (f : T -> T) : list T :=
  match u, i with
  | [], _ => []
  | x :: u', O => f x :: u'
  | x :: u', S i' => x :: update u' i' f
  end.

(** for idx in periodic: u[idx] %= 1 ; then for idx in reflective: fold *)
Definition apply_bc (periodic reflective : list nat) (u : list T) : list T :=
  let u1 := fold_left (fun acc i => update acc i wrap1) periodic u in
  fold_left (fun acc i => update acc i fold1) reflective u1.

Definition in_unit (v : T) : bool := o_leb o (o_zero o) v && o_leb o v (o_one o).
Definition special (periodic reflective : list nat) (j : nat) : bool :=
  existsb (Nat.eqb j) periodic || existsb (Nat.eqb j) reflective.
Definition check_bounds (periodic reflective : list nat) (u : list T) : bool :=
  forallb (fun jv => special periodic reflective (fst jv) || in_unit (snd jv))
          (combine (seq 0 (length u)) u).
End Bc.

(** exact instance *)
Definition Qfloor_q (x : Q) : Q := inject_Z (Qfloor x).
Definition Qeven_q (x : Q) : bool := Z.even (Qfloor x).
Definition Qmod_one (x : Q) : Q := (x - inject_Z (Qfloor x))%Q.
Definition wrapQ := wrap1 (T:=Q) Qmod_one.
Definition foldQ := fold1 QOps Qfloor_q Qeven_q.
Definition apply_bcQ := apply_bc QOps Qfloor_q Qeven_q Qmod_one.
Definition check_boundsQ := check_bounds QOps.

(** binary64 instance *)
Local Open Scope float_scope.
Definition two52 : float := 0x1p52.
(* floor of a finite double *)
Definition ffloor (x : float) : float :=
  let a := PrimFloat.abs x in
  if PrimFloat.leb two52 a then x
  else if PrimFloat.is_nan x then x
  else
    let t := (a + two52) - two52 in                (* nearest integer to |x| *)
    let fa := if PrimFloat.ltb a t then t - 1 else t in   (* floor |x| *)
    if PrimFloat.ltb x 0 then
      (if PrimFloat.eqb fa a then - fa else - (fa + 1))
    else if PrimFloat.eqb x 0 then x   (* keeps the sign of zero *)
    else fa.
(* integral double is even *)
Definition feven (n : float) : bool :=
  let h := n * 0.5 in PrimFloat.eqb (ffloor h) h.
(* numpy remainder(x, 1.0) = python x % 1.0 *)
Definition fmod_one (x : float) : float :=
  let a := PrimFloat.abs x in
  let ra := if PrimFloat.leb two52 a then 0 else a - ffloor a in   (* fmod(|x|,1), exact *)
  if PrimFloat.eqb ra 0 then 0                                      (* copysign(0, 1.0) *)
  else if PrimFloat.ltb x 0 then (- ra) + 1 else ra.
Definition wrapF := wrap1 (T:=float) fmod_one.
Definition foldF := fold1 FOps ffloor feven.
Definition apply_bcF := apply_bc FOps ffloor feven fmod_one.
Definition check_boundsF := check_bounds FOps.
