(** Weighted M-step algebra (GaussianMixture._m_step / _compute_covariances) over exact rationals,
    and the split loop of HierarchicalGaussianMixture.fit as a state machine on index lists (C15). *)
From Coq Require Import List Bool Arith QArith.
Import ListNotations.
Local Open Scope Q_scope.

Fixpoint dot (a b : list Q) : Q :=
  match a, b with x :: a', y :: b' => x * y + dot a' b' | _, _ => 0 end.
Definition total (a : list Q) : Q := fold_right Qplus 0 a.
Definition had (a b : list Q) : list Q := map (fun p => fst p * snd p) (combine a b).   (* responsibilities * sample weights *)

(** component k: r = responsibilities of the points for k, s = sample weights, eps = 1e-10 *)
Definition mass (r s : list Q) : Q := total (had r s).
Definition mix_weights (masses : list Q) : list Q := map (fun m => m / total masses) masses.
Definition mean_coord (eps : Q) (r s xs : list Q) : Q := dot (had r s) xs / (mass r s + eps).
(** the repaired mean: np.where(mass > 0, mass, 1.0) in the denominator - the weighted average itself; a component without mass
    keeps a zero mean *)
Definition safe_mass (m : Q) : Q := if Qle_bool m 0 then 1 else m.
Definition mean_guarded (r s xs : list Q) : Q := dot (had r s) xs / safe_mass (mass r s).
(** v^T Cov_k v, where proj_i = v . (x_i - mean_k) *)
Definition quad_form (eps : Q) (r s proj : list Q) : Q := dot (had r s) (map (fun t => t * t) proj) / (mass r s + eps).
(** Cov_k[a][b], with da_i, db_i the centred coordinates a and b of point i *)
Definition cov_entry (eps : Q) (r s da db : list Q) : Q := dot (had r s) (had da db) / (mass r s + eps).

(** integer sample weights as replication *)
Fixpoint replicate {A} (xs : list A) (ns : list nat) : list A :=
  match xs, ns with x :: xs', n :: ns' => repeat x n ++ replicate xs' ns' | _, _ => [] end.

(** ---- hierarchical split loop ---- *)
Definition clusters := list (list nat).
(** one accepted split of cluster number [parent] into (c1, c2): clusters.pop(parent); clusters.extend((c1, c2)) *)
Definition remove_nth {A} (n : nat) (l : list A) : list A := firstn n l ++ skipn (S n) l.
Definition apply_split (cl : clusters) (parent : nat) (c1 c2 : list nat) : clusters := remove_nth parent cl ++ [c1; c2].
(** a proposed split is accepted only if both children reach min_points *)
Definition split_ok (min_points : nat) (c1 c2 : list nat) : bool :=
  Nat.leb min_points (length c1) && Nat.leb min_points (length c2).
(** the loop: at most max_iterations rounds; each round either accepts one split (oracle) or stops *)
Fixpoint split_loop (fuel : nat) (min_points : nat) (oracle : clusters -> option (nat * list nat * list nat)) (cl : clusters) : clusters :=
  match fuel with
  | O => cl
  | S f => match oracle cl with
           | Some (parent, c1, c2) => if split_ok min_points c1 c2 then split_loop f min_points oracle (apply_split cl parent c1 c2) else cl
           | None => cl
           end
  end.
(** argmax over K columns *)
Fixpoint argmax_from (best : nat) (bestv : Q) (i : nat) (vs : list Q) : nat :=
  match vs with [] => best | v :: r => if Qle_bool v bestv then argmax_from best bestv (S i) r else argmax_from i v (S i) r end.
Definition argmax (vs : list Q) : nat := match vs with [] => O | v :: r => argmax_from 0 v 1 r end.
