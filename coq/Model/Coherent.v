(** Particle records (u, x, logL, blob) as four parallel arrays and the plumbing operations that
    move them (C07). Each operation takes ONE selector PER FIELD, so that "the same index vector /
    mask is applied to every field" is a statement about the extracted plumbing, not true by construction. *)
From Coq Require Import List Bool Arith.
Import ListNotations.

Section Coh.
Context {U X LL BB : Type}.
Variable T : U -> X.                 (* prior transform *)
Variable L : X -> LL * BB.           (* likelihood: log-likelihood and blob *)
Variable in_cube : U -> bool.        (* u in [0,1]^d *)

Record batch := mkBatch { b_u : list U; b_x : list X; b_l : list LL; b_b : list BB }.

Definition row_ok (u : U) (x : X) (l : LL) (b : BB) : Prop := x = T u /\ L x = (l, b) /\ in_cube u = true.
Inductive rows_ok : list U -> list X -> list LL -> list BB -> Prop :=
| rows_nil : rows_ok [] [] [] []
| rows_cons u x l b us xs ls bs : row_ok u x l b -> rows_ok us xs ls bs -> rows_ok (u :: us) (x :: xs) (l :: ls) (b :: bs).
Definition coherent (p : batch) : Prop := rows_ok (b_u p) (b_x p) (b_l p) (b_b p).

(** a[idx] *)
Definition sel {A} (d : A) (idx : list nat) (l : list A) : list A := map (fun i => nth i l d) idx.
Definition gather4 (du : U) (dx : X) (dl : LL) (db : BB) (iu ix il ib : list nat) (p : batch) : batch :=
  mkBatch (sel du iu (b_u p)) (sel dx ix (b_x p)) (sel dl il (b_l p)) (sel db ib (b_b p)).

(** a[mask] = new[mask] *)
Fixpoint mask_upd {A} (m : list bool) (new old : list A) : list A :=
  match m, new, old with
  | b :: m', n :: new', o :: old' => (if b then n else o) :: mask_upd m' new' old'
  | _, _, _ => old
  end.
Definition accept4 (mu mx ml mb : list bool) (prop cur : batch) : batch :=
  mkBatch (mask_upd mu (b_u prop) (b_u cur)) (mask_upd mx (b_x prop) (b_x cur))
          (mask_upd ml (b_l prop) (b_l cur)) (mask_upd mb (b_b prop) (b_b cur)).

(** a[dst] = a[src]  (dst, src index lists of equal length; right-hand side evaluated first) *)
Fixpoint put {A} (l : list A) (i : nat) (v : A) : list A :=
  match l, i with [], _ => [] | _ :: t, O => v :: t | h :: t, S i' => h :: put t i' v end.
Definition assign {A} (d : A) (dst src : list nat) (l : list A) : list A :=
  fold_left (fun acc p => put acc (fst p) (snd p)) (combine dst (sel d src l)) l.
Definition replace4 (du : U) (dx : X) (dl : LL) (db : BB) (dst su sx sl sb : list nat) (p : batch) : batch :=
  mkBatch (assign du dst su (b_u p)) (assign dx dst sx (b_x p)) (assign dl dst sl (b_l p)) (assign db dst sb (b_b p)).

(** a freshly evaluated batch: x = T u, (l, b) = L x *)
Definition fresh (us : list U) : batch :=
  mkBatch us (map T us) (map (fun u => fst (L (T u))) us) (map (fun u => snd (L (T u))) us).
End Coh.
