(** Seeding traces over an abstract pseudo-random generator (C09). *)
From Coq Require Import List Bool Arith ZArith.
Import ListNotations.

Inductive seed_op :=
| SeedUser (s : Z)      (* np.random.seed(<the configuration's random_state / caller-supplied value>) *)
| SeedConst (c : Z)     (* np.random.seed(<literal hard-wired in the library>) *)
| Draw (k : nat).       (* k variates consumed from the global stream *)

Section Gen.
Variable G : Type.
Variable seed : Z -> G.
Variable advance : G -> nat -> G.

Definition exec1 (g : G) (o : seed_op) : G :=
  match o with SeedUser s => seed s | SeedConst c => seed c | Draw k => advance g k end.
Definition exec (tr : list seed_op) (g : G) : G := fold_left exec1 tr g.

Definition is_seed (o : seed_op) : bool := match o with Draw _ => false | _ => true end.
Definition total_draws (tr : list seed_op) : nat :=
  fold_right (fun o a => match o with Draw k => k + a | _ => a end) 0 tr.
End Gen.

(** classification of the seeding call sites found in the package *)
(* CheckpointStreamState: np.random.set_state(<generator state recorded in the checkpoint>) -- a continuation, not a seed *)
Inductive seed_arg := ConfigRandomState | CheckpointRandomState | CheckpointStreamState | CallerArgument | Literal (c : Z) | AttributeSetFromLiteral (c : Z).
Record seed_site := mkSite { site_where : nat; site_arg : seed_arg; site_on_run_or_fit_path : bool; site_guarded_by_not_none : bool }.
Definition site_resets_to_constant (s : seed_site) : bool :=
  site_on_run_or_fit_path s && match site_arg s with Literal _ | AttributeSetFromLiteral _ => true | _ => false end.
