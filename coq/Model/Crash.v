(** Crash model of a checkpoint save: a tiny file system with durable and not-yet-durable bytes. *)
From Coq Require Import List Bool Arith.
Import ListNotations.

Definition name := nat.
Definition bytes := list nat.
Inductive io :=
| Mkdir
| Open_trunc (n : name)            (* open(n, 'wb'): n exists and is empty from now on *)
| Write (n : name) (bs : bytes)    (* into the process's own buffer: lost entirely if the process or machine dies *)
| Flush (n : name)                 (* buffer -> operating system (page cache): survives in any prefix on power loss *)
| Fsync (n : name)                 (* everything already handed to the OS becomes durable (NOT the process buffer) *)
| Close (n : name)                 (* flushes *)
| Rename (a b : name).             (* atomic: b now names a's file, a disappears *)

(** a file: durable bytes, bytes in the OS cache (a crash may cut them anywhere), bytes still in the process buffer *)
Definition file := (bytes * bytes * bytes)%type.
Definition fs := name -> option file.
Definition upd (f : fs) (n : name) (v : option file) : fs := fun m => if Nat.eqb m n then v else f m.

Definition exec1 (f : fs) (o : io) : fs :=
  match o with
  | Mkdir => f
  | Open_trunc n => upd f n (Some ([], [], []))
  | Write n bs => match f n with Some (d, p, u) => upd f n (Some (d, p, u ++ bs)) | None => f end
  | Flush n | Close n => match f n with Some (d, p, u) => upd f n (Some (d, p ++ u, [])) | None => f end
  | Fsync n => match f n with Some (d, p, u) => upd f n (Some (d ++ p, [], u)) | None => f end
  | Rename a b => match f a with Some x => upd (upd f b (Some x)) a None | None => f end
  end.
Definition exec (ops : list io) (f : fs) : fs := fold_left exec1 ops f.

(** what a reader may find under name n after a crash *)
Definition after_crash (f : fs) (n : name) (c : option bytes) : Prop :=
  match f n, c with
  | None, None => True
  | Some (d, p, _), Some bs => exists k, k <= length p /\ bs = d ++ firstn k p
  | _, _ => False
  end.

(** the atomic protocol: write everything to a temporary name, make it durable, rename *)
Definition atomic_save (tmp final : name) (chunks : list bytes) : list io :=
  [Mkdir; Open_trunc tmp] ++ map (Write tmp) chunks ++ [Flush tmp; Fsync tmp; Close tmp; Rename tmp final].
(** the direct protocol of the pinned tree *)
Definition direct_save (final : name) (chunks : list bytes) : list io :=
  [Mkdir; Open_trunc final] ++ map (Write final) chunks ++ [Close final].

(** syntactic checker used on the op list extracted from the source *)
Definition touches (n : name) (o : io) : bool :=
  match o with
  | Open_trunc m | Write m _ | Fsync m | Flush m | Close m => Nat.eqb m n
  | Rename a b => Nat.eqb a n || Nat.eqb b n
  | _ => false
  end.
(** [opened]: tmp exists; [flushed]: its process buffer is empty; [synced]: additionally its OS cache is empty *)
Fixpoint is_atomic_shape (tmp final : name) (ops : list io) (opened flushed synced : bool) : bool :=
  match ops with
  | [] => false
  | [Rename a b] => Nat.eqb a tmp && Nat.eqb b final && opened && flushed && synced
  | o :: r =>
      negb (touches final o) &&
      match o with
      | Open_trunc m => Nat.eqb m tmp && is_atomic_shape tmp final r true true true
      | Write m _ => Nat.eqb m tmp && opened && is_atomic_shape tmp final r opened false false
      | Flush m | Close m => Nat.eqb m tmp && is_atomic_shape tmp final r opened opened (flushed && synced)
      | Fsync m => Nat.eqb m tmp && is_atomic_shape tmp final r opened flushed (opened && flushed)
      | Rename _ _ => false
      | Mkdir => is_atomic_shape tmp final r opened flushed synced
      end
  end.
