(** Crash model of a checkpoint save: a tiny file system with durable and not-yet-durable bytes. *)
From Coq Require Import List Bool Arith.
Import ListNotations.

Definition name := nat.
Definition bytes := list nat.
Inductive io :=
| Mkdir
| Open_trunc (n : name)            (* open(n, 'wb'): n exists and is empty from now on *)
| Write (n : name) (bs : bytes)    (* buffered / page-cache write: may be lost, in any prefix, on a crash *)
| Flush (n : name)
| Fsync (n : name)                 (* everything written so far becomes durable *)
| Close (n : name)
| Rename (a b : name).             (* atomic: b now names a's file, a disappears *)

(** a file: durable bytes, then bytes a crash may cut anywhere *)
Definition file := (bytes * bytes)%type.
Definition fs := name -> option file.
Definition upd (f : fs) (n : name) (v : option file) : fs := fun m => if Nat.eqb m n then v else f m.

Definition exec1 (f : fs) (o : io) : fs :=
  match o with
  | Mkdir | Flush _ | Close _ => f
  | Open_trunc n => upd f n (Some ([], []))
  | Write n bs => match f n with Some (d, p) => upd f n (Some (d, p ++ bs)) | None => f end
  | Fsync n => match f n with Some (d, p) => upd f n (Some (d ++ p, [])) | None => f end
  | Rename a b => match f a with Some x => upd (upd f b (Some x)) a None | None => f end
  end.
Definition exec (ops : list io) (f : fs) : fs := fold_left exec1 ops f.

(** what a reader may find under name n after a crash *)
Definition after_crash (f : fs) (n : name) (c : option bytes) : Prop :=
  match f n, c with
  | None, None => True
  | Some (d, p), Some bs => exists k, k <= length p /\ bs = d ++ firstn k p
  | _, _ => False
  end.

(** the atomic protocol: write everything to a temporary name, make it durable, rename *)
Definition atomic_save (tmp final : name) (chunks : list bytes) : list io :=
  [Mkdir; Open_trunc tmp] ++ map (Write tmp) chunks ++ [Flush tmp; Fsync tmp; Close tmp; Rename tmp final].
(** the direct protocol of the pinned tree *)
Definition direct_save (final : name) (chunks : list bytes) : list io :=
  [Mkdir; Open_trunc final] ++ map (Write final) chunks ++ [Close final].

(** syntactic checker used on the op list extracted from the source *)
Definition touches (n : name) (o : io) : bool :=
  match o with
  | Open_trunc m | Write m _ | Fsync m => Nat.eqb m n
  | Rename a b => Nat.eqb a n || Nat.eqb b n
  | _ => false
  end.
Fixpoint is_atomic_shape (tmp final : name) (ops : list io) (opened synced : bool) : bool :=
  match ops with
  | [] => false
  | [Rename a b] => Nat.eqb a tmp && Nat.eqb b final && opened && synced
  | o :: r =>
      negb (touches final o) &&
      match o with
      | Open_trunc m => Nat.eqb m tmp && is_atomic_shape tmp final r true false
      | Write m _ => Nat.eqb m tmp && opened && is_atomic_shape tmp final r opened false
      | Fsync m => Nat.eqb m tmp && is_atomic_shape tmp final r opened opened
      | Rename _ _ => false
      | _ => is_atomic_shape tmp final r opened synced
      end
  end.
