(** Heap model of StateManager / Sampler accessors for C17: arrays are heap locations,
    the caller holds locations it obtained from accessors (or created itself) and may
    overwrite them at any time ([Scribble]). Whether an accessor hands out / stores a fresh
    copy or the object itself is a POLICY extracted from the source (Gen.Alias). *)
From Coq Require Import List Bool Arith ZArith.
Import ListNotations.

Definition loc := nat.
Definition content := list Z.
Definition heap := list content.
Definition deref (h : heap) (l : loc) : content := nth l h [].
Definition alloc (h : heap) (c : content) : heap * loc := (h ++ [c], length h).
Fixpoint set_nth {A} (l : list A) (i : nat) (x : A) : list A :=
  match l, i with [], _ => [] | _ :: t, O => x :: t | y :: t, S i' => y :: set_nth t i' x end.

(** per-accessor policy: true = a fresh copy crosses the API boundary *)
Record policy := mkPolicy {
  fresh_set_current : bool;      (* set_current / update_current (copy=True) store a copy *)
  fresh_get_current : bool;      (* get_current(key) / get_current() / Sampler.sample() *)
  fresh_get_history : bool;      (* get_history(key, index) / get_last_history *)
  fresh_get_history_all : bool;  (* get_history(key) (np.array) / flat (np.concatenate) / posterior() *)
  fresh_commit : bool;           (* commit_current_to_history appends a copy *)
  fresh_to_dict : bool;          (* to_dict exports copies of the arrays *)
  fresh_import : bool;           (* from_dict / update_from_dict copy the arrays they are given *)
  fresh_results : bool           (* compute_results / Sampler.results() return copies of the cache *)
}.

(** state manager with K array-valued keys *)
Record sm := mkSm {
  cur : list (option loc);        (* key -> current array *)
  hist : list (list loc);         (* key -> committed batches, oldest first *)
  cache : option (list loc);      (* results cache: one stacked array per key *)
  hp : heap
}.

Inductive op :=
| SetCurrent (k : nat) (c : content)          (* caller creates an array with content c and stores it *)
| GetCurrent (k : nat)
| GetCurrentAll
| GetHistory (k i : nat)
| GetHistoryAll (k : nat)
| Commit
| ToDict
| Import (d : nat)                             (* import the d-th dictionary obtained from ToDict *)
| Results
| Scribble (i : nat) (c : content).             (* overwrite the i-th array the caller holds *)

(** caller's view: arrays it holds, dictionaries it exported (cur, hist as locations) *)
Record caller := mkCaller { held : list loc; dicts : list (list (option loc) * list (list loc)) }.

Definition copy_loc (fresh : bool) (h : heap) (l : loc) : heap * loc :=
  if fresh then alloc h (deref h l) else (h, l).
Definition copy_opt (fresh : bool) (h : heap) (o : option loc) : heap * option loc :=
  match o with None => (h, None) | Some l => let (h', l') := copy_loc fresh h l in (h', Some l') end.
Fixpoint copy_list (fresh : bool) (h : heap) (ls : list loc) : heap * list loc :=
  match ls with [] => (h, []) | l :: t => let (h1, l') := copy_loc fresh h l in
                                          let (h2, t') := copy_list fresh h1 t in (h2, l' :: t') end.
Fixpoint copy_opts (fresh : bool) (h : heap) (os : list (option loc)) : heap * list (option loc) :=
  match os with [] => (h, []) | o :: t => let (h1, o') := copy_opt fresh h o in
                                          let (h2, t') := copy_opts fresh h1 t in (h2, o' :: t') end.
Fixpoint copy_lists (fresh : bool) (h : heap) (lss : list (list loc)) : heap * list (list loc) :=
  match lss with [] => (h, []) | ls :: t => let (h1, ls') := copy_list fresh h ls in
                                            let (h2, t') := copy_lists fresh h1 t in (h2, ls' :: t') end.
Definition somes (os : list (option loc)) : list loc := flat_map (fun o => match o with Some l => [l] | None => [] end) os.

Section Step.
Variable pol : policy.

Definition step (sc : sm * caller) (o : op) : sm * caller :=
  let (s, c) := sc in
  match o with
  | SetCurrent k ct =>
      let (h1, l) := alloc (hp s) ct in                       (* the caller's own array *)
      let (h2, l') := copy_loc (fresh_set_current pol) h1 l in
      (mkSm (set_nth (cur s) k (Some l')) (hist s) None h2, mkCaller (l :: held c) (dicts c))
  | GetCurrent k =>
      match nth k (cur s) None with
      | None => (s, c)
      | Some l => let (h1, l') := copy_loc (fresh_get_current pol) (hp s) l in
                  (mkSm (cur s) (hist s) (cache s) h1, mkCaller (l' :: held c) (dicts c))
      end
  | GetCurrentAll =>
      let (h1, os) := copy_opts (fresh_get_current pol) (hp s) (cur s) in
      (mkSm (cur s) (hist s) (cache s) h1, mkCaller (somes os ++ held c) (dicts c))
  | GetHistory k i =>
      match nth_error (nth k (hist s) []) i with
      | None => (s, c)
      | Some l => let (h1, l') := copy_loc (fresh_get_history pol) (hp s) l in
                  (mkSm (cur s) (hist s) (cache s) h1, mkCaller (l' :: held c) (dicts c))
      end
  | GetHistoryAll k =>
      (* np.array(list) / np.concatenate(list): one new array built from the batches *)
      let ls := nth k (hist s) [] in
      if fresh_get_history_all pol then
        let (h1, l') := alloc (hp s) (flat_map (deref (hp s)) ls) in
        (mkSm (cur s) (hist s) (cache s) h1, mkCaller (l' :: held c) (dicts c))
      else (s, mkCaller (ls ++ held c) (dicts c))
  | Commit =>
      let (h1, os) := copy_opts (fresh_commit pol) (hp s) (cur s) in
      (mkSm (cur s)
            (map (fun p => match snd p with Some l => fst p ++ [l] | None => fst p end) (combine (hist s) os))
            None h1, c)
  | ToDict =>
      let (h1, cs) := copy_opts (fresh_to_dict pol) (hp s) (cur s) in
      let (h2, hs) := copy_lists (fresh_to_dict pol) h1 (hist s) in
      (mkSm (cur s) (hist s) (cache s) h2,
       mkCaller (somes cs ++ concat hs ++ held c) ((cs, hs) :: dicts c))
  | Import d =>
      match nth_error (dicts c) d with
      | None => (s, c)
      | Some (cs, hs) =>
          let (h1, cs') := copy_opts (fresh_import pol) (hp s) cs in
          let (h2, hs') := copy_lists (fresh_import pol) h1 hs in
          (mkSm cs' hs' None h2, c)
      end
  | Results =>
      let '(h1, cch) := match cache s with
                        | Some cch => (hp s, cch)
                        | None => fold_right (fun ls acc => let '(h, out) := acc in
                                                            let (h', l) := alloc h (flat_map (deref (hp s)) ls) in
                                                            (h', l :: out))
                                             (hp s, []) (hist s)
                        end in
      let (h2, out) := copy_list (fresh_results pol) h1 cch in
      (mkSm (cur s) (hist s) (Some cch) h2, mkCaller (out ++ held c) (dicts c))
  | Scribble i ct =>
      match nth_error (held c) i with
      | None => (s, c)
      | Some l => (mkSm (cur s) (hist s) (cache s) (set_nth (hp s) l ct), c)
      end
  end.

Definition run (ops : list op) (sc : sm * caller) : sm * caller := fold_left step ops sc.
End Step.

Definition init (K : nat) : sm * caller := (mkSm (repeat None K) (repeat [] K) None [], mkCaller [] []).

(** what the state manager means, as pure data (what any later accessor would return) *)
Definition view (s : sm) : list (option content) * list (list content) :=
  (map (option_map (deref (hp s))) (cur s), map (map (deref (hp s))) (hist s)).

Definition is_scribble (o : op) : bool := match o with Scribble _ _ => true | _ => false end.
Definition all_fresh (p : policy) : bool :=
  fresh_set_current p && fresh_get_current p && fresh_get_history p && fresh_get_history_all p
  && fresh_commit p && fresh_to_dict p && fresh_import p && fresh_results p.
