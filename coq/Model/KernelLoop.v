(** The kernel's inner loop (mcmc.py BaseMCMCRunner.run / _calculate_adaptive_steps / _check_convergence):
      while True: iteration += 1; ...one MCMC step...; if iteration >= int(min(max(smin, adaptive), smax)): break
    where smin = n_steps * n_dim, smax = n_max * n_dim and [adaptive] is computed from the step's acceptance rate and the
    adapted step sizes. The adaptive value is an ORACLE here: any rational per iteration. No proofs in this file. *)
From Coq Require Import List Bool ZArith QArith Qround.
Import ListNotations.
Local Open Scope Q_scope.

(** Python: max(a, b) returns a unless b > a; min(a, b) returns a unless b < a *)
Definition pymax (a b : Q) : Q := if Qle_bool b a then a else b.
Definition pymin (a b : Q) : Q := if Qle_bool a b then a else b.
(** int(x) truncates towards zero *)
Definition pyint (x : Q) : Z := if Qle_bool 0 x then Qfloor x else Qceiling x.

Definition adaptive_steps (smin smax adaptive : Q) : Z := pyint (pymin (pymax smin adaptive) smax).

(** the loop: [it] iterations done so far; returns the iteration at which it stops, None when the fuel runs out *)
Fixpoint kernel_loop (fuel : nat) (it : Z) (smin smax : Q) (oracle : Z -> Q) : option Z :=
  match fuel with
  | O => None
  | S f => let it' := (it + 1)%Z in
           if Z.leb (adaptive_steps smin smax (oracle it')) it' then Some it'
           else kernel_loop f it' smin smax oracle
  end.
