(** Executable models of tempest.tools.effective_sample_size and trim_weights over Q. *)
From Coq Require Import List Bool Arith QArith.
From Tempest Require Import Base.Ops.
Import ListNotations.
Local Open Scope Q_scope.

Definition sumQ (l : list Q) : Q := fold_right Qplus 0 l.
Definition sumsq (l : list Q) : Q := fold_right (fun x a => x * x + a) 0 l.
(* Qred only keeps the executable model's numerals small; it is the identity up to == *)
Definition normalise (l : list Q) : list Q := let s := Qred (sumQ l) in map (fun x => Qred (x / s)) l.

(** weights = weights / np.sum(weights); return 1.0 / np.sum(weights ** 2.0) *)
Definition ess (l : list Q) : Q := 1 / sumsq (normalise l).

(** trim_weights(samples, weights, ess, bins):
      weights /= sum; ess_total = 1/sum(w^2); i = bins-1
      while True: threshold = percentile(weights, percentiles[i]); mask = weights >= threshold;
                  wt = weights[mask]; wt /= sum(wt); if (1/sum(wt^2)) / ess_total >= ess: break; i -= 1
      return samples[mask], wt
    [thr i] is the value np.percentile returns for grid index i (an oracle). *)
Definition mask_at (w : list Q) (t : Q) : list bool := map (fun x => Qle_bool t x) w.
Fixpoint select {A} (m : list bool) (l : list A) : list A :=
  match m, l with
  | b :: m', x :: l' => if b then x :: select m' l' else select m' l'
  | _, _ => []
  end.
Definition trimmed_at (w : list Q) (t : Q) : list Q := normalise (select (mask_at w t) w).
Definition ratio_ok (w : list Q) (t frac : Q) : bool :=
  Qle_bool frac ((1 / sumsq (trimmed_at w t)) / (1 / sumsq w)).

(** search from the top grid index downwards; None = the loop would step below index 0 *)
Fixpoint trim_index (w : list Q) (thr : nat -> Q) (frac : Q) (i : nat) : option nat :=
  if ratio_ok w (thr i) frac then Some i
  else match i with O => None | S i' => trim_index w thr frac i' end.

(** the index the code's loop stops at: it also stops at grid index 0 whatever the ratio test says there (the test can only fail at
    index 0 through rounding: every sample is kept) - so it stops for EVERY threshold oracle and every requested fraction *)
Definition trim_stop (w : list Q) (thr : nat -> Q) (frac : Q) (i : nat) : nat :=
  match trim_index w thr frac i with Some k => k | None => 0%nat end.

(** the loop on already-normalised weights (always Some: kept as an option for the callers written against the earlier loop) *)
Definition trim_core {A} (samples : list A) (w : list Q) (thr : nat -> Q) (frac : Q) (bins : nat)
  : option (list A * list Q * nat) :=
  let i := trim_stop w thr frac (bins - 1) in
  Some (select (mask_at w (thr i)) samples, trimmed_at w (thr i), i).
Definition trim_weights {A} (samples : list A) (weights : list Q) (thr : nat -> Q) (frac : Q) (bins : nat)
  : option (list A * list Q * nat) :=
  trim_core samples (normalise weights) thr frac bins.
