(** Clustering cadence, label/mode indexing (C14) and the hierarchical split loop (C15). *)
From Coq Require Import List Bool Arith.
Import ListNotations.

(** ---- cadence (Trainer.run) ---- *)
(** refit decision at an annealing iteration numbered [it] *)
Definition refit (require_fitted : bool) (every it : nat) (fitted : bool) : bool :=
  Nat.eqb (it mod every) 0 || Nat.eqb it 0 || (require_fitted && negb fitted).

Inductive outcome := Ok (fitted : bool) | PredictOnUnfitted.
(** one iteration: [annealing] = (beta > 0); warm-up iterations neither fit nor predict *)
Definition trainer_step (require_fitted : bool) (every it : nat) (annealing fitted : bool) : outcome :=
  if annealing then
    if refit require_fitted every it fitted then Ok true
    else if fitted then Ok true else PredictOnUnfitted
  else Ok fitted.

(** a run: iteration numbers it0+1, it0+2, ... with an arbitrary annealing flag each *)
Fixpoint trainer_run (rf : bool) (every it : nat) (flags : list bool) (fitted : bool) : outcome :=
  match flags with
  | [] => Ok fitted
  | a :: r => match trainer_step rf every (S it) a fitted with
              | Ok f => trainer_run rf every (S it) r f
              | PredictOnUnfitted => PredictOnUnfitted
              end
  end.

(** ---- label / mode indexing (ModeStatistics.from_particles, kernels) ---- *)
(** np.unique(labels) for labels < K: the occurring labels in increasing order *)
Definition occurring (K : nat) (labels : list nat) : list nat :=
  filter (fun k => existsb (Nat.eqb k) labels) (seq 0 K).
(** mode j is fitted from the training points whose predicted label is the j-th occurring label *)
Definition mode_label (K : nat) (labels : list nat) (j : nat) : option nat := nth_error (occurring K labels) j.
(** the kernel reads means[assignment] *)
Definition kernel_mode (K : nat) (labels : list nat) (assignment : nat) : option nat := mode_label K labels assignment.

(** ---- labels of the active particles (Resampler.run): assignments = predict(u[idx_resampled]) ---- *)
(** [pool] = unit-cube positions of the pool (abstract type U), [idx] = resampled indices in ANY order *)
Definition gather {U} (pool : list U) (d : U) (idx : list nat) : list U := map (fun i => nth i pool d) idx.
Definition assign {U} (predict : U -> nat) (pool : list U) (d : U) (idx : list nat) : list nat := map predict (gather pool d idx).
(** the "label each distinct ancestor once" shortcut: predict the distinct indices (in increasing order) and repeat by multiplicity *)
Fixpoint repeat_by {A} (xs : list A) (counts : list nat) : list A :=
  match xs, counts with x :: xs', c :: cs => repeat x c ++ repeat_by xs' cs | _, _ => [] end.

(** len(np.unique(labels)) == n_clusters_ for labels below K: every cluster attracts a training point *)
Definition covers (K : nat) (labels : list nat) : bool := forallb (fun k => existsb (Nat.eqb k) labels) (seq 0 K).
(** an iteration that reuses the clustering (Trainer.run, predict-only branch): the old model's predictions are kept when they
    cover its K_old clusters; otherwise the model is refitted on the trimmed pool and the new model's predictions are used.
    [check] = the coverage test is present; the result is (number of clusters of the model now installed, training labels) *)
Definition reuse_labels (check : bool) (K_old : nat) (pred_old : list nat) (K_new : nat) (pred_new : list nat) : nat * list nat :=
  if negb check || covers K_old pred_old then (K_old, pred_old) else (K_new, pred_new).
