(** Clustering cadence, label/mode indexing (C14) and the hierarchical split loop (C15). *)
From Coq Require Import List Bool Arith.
Import ListNotations.

(** ---- cadence (Trainer.run) ---- *)
(** refit decision at an annealing iteration numbered [it] *)
Definition refit (require_fitted : bool) (every it : nat) (fitted : bool) : bool :=
  Nat.eqb (it mod every) 0 || Nat.eqb it 0 || (require_fitted && negb fitted).

Inductive outcome := Ok (fitted : bool) | PredictOnUnfitted.
(** one iteration: [annealing] = (beta > 0); warm-up iterations neither fit nor predict *)
Definition trainer_step (require_fitted : bool) (every it : nat) (annealing fitted : bool) : outcome :=
  if annealing then
    if refit require_fitted every it fitted then Ok true
    else if fitted then Ok true else PredictOnUnfitted
  else Ok fitted.

(** a run: iteration numbers it0+1, it0+2, ... with an arbitrary annealing flag each *)
Fixpoint trainer_run (rf : bool) (every it : nat) (flags : list bool) (fitted : bool) : outcome :=
  match flags with
  | [] => Ok fitted
  | a :: r => match trainer_step rf every (S it) a fitted with
              | Ok f => trainer_run rf every (S it) r f
              | PredictOnUnfitted => PredictOnUnfitted
              end
  end.

(** ---- label / mode indexing (ModeStatistics.from_particles, kernels) ---- *)
(** np.unique(labels) for labels < K: the occurring labels in increasing order *)
Definition occurring (K : nat) (labels : list nat) : list nat :=
  filter (fun k => existsb (Nat.eqb k) labels) (seq 0 K).
(** mode j is fitted from the training points whose predicted label is the j-th occurring label *)
Definition mode_label (K : nat) (labels : list nat) (j : nat) : option nat := nth_error (occurring K labels) j.
(** the kernel reads means[assignment] *)
Definition kernel_mode (K : nat) (labels : list nat) (assignment : nat) : option nat := mode_label K labels assignment.
