(** Executable twin (exact rationals, lists) of one ECME step of fit_mvstud given the new degrees of
    freedom: used by the correspondence check of C19. *)
From Coq Require Import List Bool Arith QArith.
Import ListNotations.
Local Open Scope Q_scope.

Definition vec := list Q.
Definition mat := list vec.
Definition vdot (a b : vec) : Q := Qred (fold_right Qplus 0 (map (fun p => fst p * snd p) (combine a b))).
Definition vsub (a b : vec) : vec := map (fun p => Qred (fst p - snd p)) (combine a b).
Definition vscale (c : Q) (a : vec) : vec := map (fun x => Qred (c * x)) a.
Definition vadd (a b : vec) : vec := map (fun p => Qred (fst p + snd p)) (combine a b).
Definition mvec (m : mat) (v : vec) : vec := map (fun r => vdot r v) m.

(** Gauss-Jordan elimination on the augmented rows [row ++ rhs], pivoting on the first non-zero entry *)
Fixpoint elim_col (fuel : nat) (c : nat) (rows done : list vec) : list vec :=
  match fuel with
  | O => done ++ rows
  | S f =>
    match partition (fun r => negb (Qeq_bool (nth c r 0) 0)) rows with
    | ([], _) => done ++ rows
    | (p :: others, zeros) =>
        let pv := nth c p 0 in
        let pn := map (fun x => Qred (x / pv)) p in
        let red := fun r => let k := nth c r 0 in map (fun q => Qred (fst q - k * snd q)) (combine r pn) in
        elim_col f (S c) (map red (others ++ zeros)) (map red done ++ [pn])
    end
  end.
Definition solve (S : mat) (rhs : vec) : vec :=
  let d := length S in
  let aug := map (fun p => fst p ++ [snd p]) (combine S rhs) in
  map (fun r => nth d r 0) (elim_col d 0 aug []).

(** one step with the new degrees of freedom [nu] supplied by the oracle *)
Definition step (xs : list vec) (mu : vec) (S : mat) (nu : Q) : mat * vec :=
  let d := length mu in
  let n := length xs in
  let diffs := map (fun x => vsub x mu) xs in
  let deltas := map (fun r => vdot r (solve S r)) diffs in
  let ws := map (fun de => Qred ((nu + inject_Z (Z.of_nat d)) / (nu + de))) deltas in
  let nQ := inject_Z (Z.of_nat n) in
  let Sigma := map (fun a => map (fun b =>
                 Qred (fold_right Qplus 0 (map (fun p => fst p * nth a (snd p) 0 * nth b (snd p) 0) (combine ws diffs)) / nQ))
                 (seq 0 d)) (seq 0 d) in
  let W := fold_right Qplus 0 ws in
  let munew := map (fun a => Qred (fold_right Qplus 0 (map (fun p => fst p * nth a (snd p) 0) (combine ws xs)) / W)) (seq 0 d) in
  (Sigma, munew).
