(** Executable twin (exact rationals, lists) of one ECME step of fit_mvstud given the new degrees of
    freedom: used by the correspondence check of C19. *)
From Coq Require Import List Bool Arith QArith.
Import ListNotations.
Local Open Scope Q_scope.

Definition vec := list Q.
Definition mat := list vec.
Definition vdot (a b : vec) : Q := Qred (fold_right Qplus 0 (map (fun p => fst p * snd p) (combine a b))).
Definition vsub (a b : vec) : vec := map (fun p => Qred (fst p - snd p)) (combine a b).
Definition vscale (c : Q) (a : vec) : vec := map (fun x => Qred (c * x)) a.
Definition vadd (a b : vec) : vec := map (fun p => Qred (fst p + snd p)) (combine a b).
Definition mvec (m : mat) (v : vec) : vec := map (fun r => vdot r v) m.

(** Gauss-Jordan elimination on the augmented rows [row ++ rhs], pivoting on the first non-zero entry *)
Fixpoint elim_col (fuel : nat) (c : nat) (rows done : list vec) : list vec :=
  match fuel with
  | O => done ++ rows
  | S f =>
    match partition (fun r => negb (Qeq_bool (nth c r 0) 0)) rows with
    | ([], _) => done ++ rows
    | (p :: others, zeros) =>
        let pv := nth c p 0 in
        let pn := map (fun x => Qred (x / pv)) p in
        let red := fun r => let k := nth c r 0 in map (fun q => Qred (fst q - k * snd q)) (combine r pn) in
        elim_col f (S c) (map red (others ++ zeros)) (map red done ++ [pn])
    end
  end.
Definition solve (S : mat) (rhs : vec) : vec :=
  let d := length S in
  let aug := map (fun p => fst p ++ [snd p]) (combine S rhs) in
  map (fun r => nth d r 0) (elim_col d 0 aug []).

(** one step with the new degrees of freedom [nu] supplied by the oracle *)
Definition step (xs : list vec) (mu : vec) (S : mat) (nu : Q) : mat * vec :=
  let d := length mu in
  let n := length xs in
  let diffs := map (fun x => vsub x mu) xs in
  let deltas := map (fun r => vdot r (solve S r)) diffs in
  let ws := map (fun de => Qred ((nu + inject_Z (Z.of_nat d)) / (nu + de))) deltas in
  let nQ := inject_Z (Z.of_nat n) in
  let Sigma := map (fun a => map (fun b =>
                 Qred (fold_right Qplus 0 (map (fun p => fst p * nth a (snd p) 0 * nth b (snd p) 0) (combine ws diffs)) / nQ))
                 (seq 0 d)) (seq 0 d) in
  let W := fold_right Qplus 0 ws in
  let munew := map (fun a => Qred (fold_right Qplus 0 (map (fun p => fst p * nth a (snd p) 0) (combine ws xs)) / W)) (seq 0 d) in
  (Sigma, munew).

(** the starting point: coordinate medians, biased covariance + diag(biased variances)/n *)
Fixpoint insertq (x : Q) (l : list Q) : list Q :=
  match l with [] => [x] | y :: r => if Qle_bool x y then x :: l else y :: insertq x r end.
Definition sortq (l : list Q) : list Q := fold_right insertq [] l.
Definition medq (l : list Q) : Q :=
  let t := sortq l in
  let n := length l in
  if Nat.odd n then nth (Nat.div2 n) t 0
  else Qred ((nth (Nat.div2 n - 1) t 0 + nth (Nat.div2 n) t 0) / 2).
Definition column (xs : list vec) (j : nat) : vec := map (fun x => nth j x 0) xs.
Definition meanq (l : vec) : Q := Qred (fold_right Qplus 0 l / inject_Z (Z.of_nat (length l))).
Definition covq (a b : vec) : Q :=
  let ma := meanq a in let mb := meanq b in
  Qred (fold_right Qplus 0 (map (fun p => (fst p - ma) * (snd p - mb)) (combine a b)) / inject_Z (Z.of_nat (length a))).
Definition init (xs : list vec) : mat * vec :=
  let d := length (hd [] xs) in
  let nQ := inject_Z (Z.of_nat (length xs)) in
  (map (fun a => map (fun b => let c := covq (column xs a) (column xs b) in
                               if Nat.eqb a b then Qred (c + c / nQ) else c) (seq 0 d)) (seq 0 d),
   map (fun a => medq (column xs a)) (seq 0 d)).
