(** Executable model of tempest.steps.reweight.Reweighter: _find_beta_upper_limit,
    _find_beta_bisection and the branch structure of run(), polymorphic in the arithmetic
    and in the oracle  metric : beta -> (ess, volume metric)  (= _compute_metric_and_weights). *)
From Coq Require Import List Bool Arith.
From Tempest Require Import Base.Ops.
Import ListNotations.

Section Schedule.
Context {T : Type} (o : Ops T).
Variable finite : T -> bool.             (* np.isfinite *)
Variable E : T -> T.                     (* ESS of the pool at beta *)
Variable V : T -> T.                     (* volume-variation metric at beta *)
Variable beta_tol ess_tol big : T.       (* BETA_TOLERANCE, ESS_TOLERANCE, 1e10 *)

Definition midpoint (lo hi : T) : T := o_mul o (o_add o hi lo) (o_half o).

(** while beta_high - beta_low > BETA_TOLERANCE: ... ; None = out of fuel *)
Fixpoint upper_loop (fuel : nat) (target lo hi : T) : option T :=
  if o_gtb o (o_sub o hi lo) beta_tol then
    match fuel with
    | O => None
    | S f => let mid := midpoint lo hi in
             if o_geb o (E mid) target then upper_loop f target mid hi else upper_loop f target lo mid
    end
  else Some lo.

Definition find_beta_upper_limit (fuel : nat) (beta_current target : T) : option T :=
  if o_ltb o (E beta_current) target then Some beta_current
  else if o_geb o (E (o_one o)) target then Some (o_one o)
  else upper_loop fuel target beta_current (o_one o).

(** ess_mode = (volume_variation is None); metric = E in ESS mode, V otherwise *)
Fixpoint bisection (fuel : nat) (ess_mode : bool) (metric : T -> T) (target bmin bmax : T) : option T :=
  match fuel with
  | O => None
  | S f =>
    let beta := midpoint bmin bmax in
    let m0 := metric beta in
    let m := if finite m0 then m0 else big in
    let metric_converged := o_ltb o (o_abs o (o_sub o m target)) (o_mul o ess_tol target) in
    let beta_converged := o_ltb o (o_sub o bmax bmin) beta_tol in
    if metric_converged || beta_converged || o_eqb o beta (o_one o) then Some beta
    else if ess_mode then
      (if o_ltb o m target then bisection f ess_mode metric target bmin beta
       else bisection f ess_mode metric target beta bmax)
    else
      (if o_ltb o m target then bisection f ess_mode metric target beta bmax
       else bisection f ess_mode metric target bmin beta)
  end.

(** result of one reweighting: the new beta, the beta at which the returned weights, the
    recorded ESS and the recorded evidence were computed, and which branch decided *)
Record step_out := mkOut { new_beta : T; weights_at : T; ess_at : T; logz_at : T; branch : nat }.

(** ESS mode (volume_variation is None); ess_target = ess_ratio * n_particles *)
Definition step_ess (fuel : nat) (beta_prev ess_target : T) : option step_out :=
  match find_beta_upper_limit fuel beta_prev ess_target with
  | None => None
  | Some beta_upper =>
    if o_leb o (E beta_prev) ess_target then Some (mkOut beta_prev beta_prev beta_prev beta_prev 1)
    else if o_geb o (E beta_upper) ess_target then Some (mkOut beta_upper beta_upper beta_upper beta_upper 2)
    else match bisection fuel true E ess_target beta_prev beta_upper with
         | None => None
         | Some b => Some (mkOut b b b b 3)
         end
  end.

(** dynamic mode (volume_variation = vtarget) *)
Definition step_vol (fuel : nat) (beta_prev ess_target vtarget : T) : option step_out :=
  match find_beta_upper_limit fuel beta_prev ess_target with
  | None => None
  | Some beta_upper =>
    if o_eqb o beta_upper beta_prev then Some (mkOut beta_prev beta_prev beta_prev beta_prev 4)
    else if o_geb o vtarget (V beta_upper) then Some (mkOut beta_upper beta_upper beta_upper beta_upper 5)
    else if o_leb o vtarget (V beta_prev) then Some (mkOut beta_prev beta_prev beta_prev beta_prev 6)
    else match bisection fuel false V vtarget beta_prev beta_upper with
         | None => None
         | Some b => Some (mkOut b b b b 7)
         end
  end.
End Schedule.
