(** C03 — Mutation kernels leave the tempered target invariant (detailed balance). Statements only. *)
From Coq Require Import Reals List.
From Tempest Require Import Proofs.Kernel Link.Kernel Link.Shift.
Local Open Scope R_scope.

(** Metropolis-Hastings on ANY state space: a proposal reversible w.r.t. a positive reference m, accepted with
    min(1, pi(y) m(x) / (pi(x) m(y))), is in detailed balance with pi for every pair of states *)
Theorem C03_mh_detailed_balance : forall X (pi m : X -> R) (q : X -> X -> R),
  (forall x, 0 < pi x) -> (forall x, 0 < m x) -> (forall x y, m x * q x y = m y * q y x) ->
  forall x y, flow X pi m q x y = flow X pi m q y x.
Proof. exact mh_detailed_balance. Qed.
Print Assumptions C03_mh_detailed_balance.

(** ... hence pi is invariant under the full kernel on a finite state space *)
Theorem C03_invariance : forall n (pi : nat -> R) (K : nat -> nat -> R),
  (forall x y, pi x * K x y = pi y * K y x) -> forall y, next n pi K y = pi y.
Proof. exact invariant. Qed.
Print Assumptions C03_invariance.

(** the exponent computed by the code (extracted) is the log of that ratio with pi = L^beta and m = t_nu(mu, Sigma)
    for tpCN, and m = Lebesgue (factor 0) for RWM *)
Theorem C03_acceptance_is_mh_ratio : forall beta l l' d nu delta delta', nu <> 0 ->
  exp (Gen.Shift.accept_exponent beta l l' (Gen.Kernel.tpcn_factor d nu delta delta'))
  = (exp (beta * l') * exp (logt nu d delta)) / (exp (beta * l) * exp (logt nu d delta')).
Proof.
  intros. rewrite link_accept_exponent, link_tpcn_factor by assumption. apply accept_is_mh_ratio.
Qed.
Print Assumptions C03_acceptance_is_mh_ratio.

(** the drawn scale is the inverse-gamma conditional of the t scale mixture: with the extracted shape and scale *)
Theorem C03_conditional_scale_is_inverse_gamma : forall nu d delta s, 0 < s -> nu + delta <> 0 ->
  igk (nu / 2) (nu / 2) s * gk d delta s = igk (Gen.Kernel.gamma_shape d nu) (/ Gen.Kernel.gamma_scale nu delta) s.
Proof. intros. rewrite link_gamma_shape, link_gamma_rate by assumption. now apply ig_conjugate. Qed.
Print Assumptions C03_conditional_scale_is_inverse_gamma.

(** the joint density of (x, s, y) under "x ~ t, s | x ~ IG, y | x,s ~ pCN step" is symmetric in (x, y) whenever the
    Crank-Nicolson energies agree (Proofs/PCN.v: they do for every symmetric bilinear form when a^2 + sigma^2 = 1) *)
Theorem C03_tpcn_joint_symmetric : forall nu d dx dy exy eyx s, 0 < s -> dx + exy = dy + eyx ->
  joint nu d dx exy s = joint nu d dy eyx s.
Proof. exact joint_symmetric. Qed.
Print Assumptions C03_tpcn_joint_symmetric.

Theorem C03_cn_coefficients : forall sigma, 0 <= sigma <= 1 ->
  Gen.Kernel.cn_coeff sigma * Gen.Kernel.cn_coeff sigma + sigma * sigma = 1.
Proof. intros. rewrite link_cn_coeff. now apply cn_coefficients. Qed.
Print Assumptions C03_cn_coefficients.

(** hard boundaries. The code draws one proposal and rejects it when it lies outside the unit cube (tied by
    Gen.Kernel.out_of_cube_proposals_are_rejected): for every reference-reversible proposal on the whole space (tpCN with its
    Student-t reference, RWM with a constant one) the chain is in detailed balance with the target extended by zero outside
    the cube, for every pair of points, and never leaves the cube. *)
Theorem C03_reject_outside_detailed_balance : forall X (inside : X -> bool) (pi m : X -> R) (q : X -> X -> R),
  (forall x, inside x = true -> 0 < pi x) -> (forall x, 0 < m x) -> (forall x y, m x * q x y = m y * q y x) -> forall x y,
  pi_ext X inside pi x * q x y * alpha_rej X inside pi m x y = pi_ext X inside pi y * q y x * alpha_rej X inside pi m y x.
Proof. exact reject_outside_detailed_balance. Qed.
Print Assumptions C03_reject_outside_detailed_balance.
Theorem C03_reject_outside_stays_inside : forall X (inside : X -> bool) (pi m : X -> R) x y,
  inside y = false -> alpha_rej X inside pi m x y = 0.
Proof. exact reject_outside_stays_inside. Qed.
Print Assumptions C03_reject_outside_stays_inside.
Theorem C03_out_of_cube_rule_is_rejection : Gen.Kernel.out_of_cube_proposals_are_rejected = true.
Proof. reflexivity. Qed.

(** periodic / reflective coordinates. A symmetric one-coordinate (RWM) step keeps a symmetric density after wrapping or folding
    (sum over the pre-images, any symmetric truncation); with several coordinates only wrapping survives a correlated step law
    (below), so the RWM runner wraps periodic coordinates and rejects at reflective walls; the tpCN runner
    does not wrap or fold at all (Gen.Kernel.tpcn_rejects_on_every_coordinate): it rejects out-of-cube proposals on every
    coordinate, which is the case of C03_reject_outside_detailed_balance. Wrapping a proposal that is reversible w.r.t. a
    non-periodic reference is refuted by a three-residue example. *)
Theorem C03_rwm_wrap_symmetric : forall (phi : R -> R), (forall t, phi (- t) = phi t) ->
  forall K u u', q_wrap phi K u u' = q_wrap phi K u' u.
Proof. exact wrap_symmetric. Qed.
Print Assumptions C03_rwm_wrap_symmetric.
Theorem C03_rwm_fold_symmetric : forall (phi : R -> R), (forall t, phi (- t) = phi t) ->
  forall K u u', q_fold phi K u u' = q_fold phi K u' u.
Proof. exact fold_symmetric. Qed.
Print Assumptions C03_rwm_fold_symmetric.
(** several coordinates, a step law even only under the JOINT sign change (any correlated Gaussian): wrapping one coordinate
    keeps the step symmetric (the rule the RWM runner keeps for periodic coordinates) ... *)
Theorem C03_rwm_wrap_symmetric_correlated : forall (phi2 : R -> R -> R), (forall a b, phi2 (- a) (- b) = phi2 a b) ->
  forall K u1 u2 v1 v2, q_wrap2 phi2 K u1 u2 v1 v2 = q_wrap2 phi2 K v1 v2 u1 u2.
Proof. exact wrap2_symmetric. Qed.
Print Assumptions C03_rwm_wrap_symmetric_correlated.
(** ... folding it does not (refuted, for every truncation of the image sum): the pinned tree folded RWM proposals at
    reflective walls, which is in detailed balance only for scale matrices that do not couple the folded coordinate to the
    others; repaired in /repo (the RWM runner now rejects at reflective walls: C03_reject_outside_detailed_balance). *)
Example C03_rwm_fold_correlated_refuted :
  (forall a b, phi_corr (- a) (- b) = phi_corr a b)
  /\ forall K, q_fold2 phi_corr K (1/5) 0 (1/10) (1/2) = 0 /\ q_fold2 phi_corr K (1/10) (1/2) (1/5) 0 = 1.
Proof. split; [exact phi_corr_even|exact fold2_not_symmetric]. Qed.
Print Assumptions C03_rwm_fold_correlated_refuted.
Theorem C03_boundary_rules_of_the_code :
  Gen.Kernel.tpcn_rejects_on_every_coordinate = true /\ Gen.Kernel.rwm_wraps_periodic_and_rejects_at_reflective_walls = true.
Proof. split; reflexivity. Qed.
Example C03_wrapped_tpcn_refuted :
  (forall x y, m_ex x * q_ex x y = m_ex y * q_ex y x)
  /\ m_ex 0 * q_ex_wrapped 0 2 = / 2 /\ m_ex 2 * q_ex_wrapped 2 0 = / 32 /\ / 2 <> / 32.
Proof. split; [exact q_ex_reversible|exact wrapped_contracting_proposal_not_reversible]. Qed.

(** the pinned tree's rule, refuted: redrawing an out-of-cube proposal until it is inside is in detailed balance with
    pi(x) * P(step from x lands inside), NOT with pi (repaired in /repo; kept as the reason the rule matters). *)
Theorem C03_redraw_balances_tilted_target : forall X (pi : X -> R) (phi : X -> X -> R) (Pin : X -> R),
  (forall x, 0 < pi x) -> (forall x, 0 < Pin x) -> (forall x y, phi x y = phi y x) -> forall x y,
  (pi x * Pin x) * q_redraw X phi Pin x y * alpha_code X pi x y = (pi y * Pin y) * q_redraw X phi Pin y x * alpha_code X pi y x.
Proof. exact redraw_balances_tilted_target. Qed.
Print Assumptions C03_redraw_balances_tilted_target.

Theorem C03_reject_outside_reversible : forall X (pi : X -> R) (phi : X -> X -> R),
  (forall x, 0 < pi x) -> (forall x y, phi x y = phi y x) -> forall x y,
  pi x * phi x y * alpha_code X pi x y = pi y * phi y x * alpha_code X pi y x.
Proof. exact reject_outside_balances_target. Qed.
Print Assumptions C03_reject_outside_reversible.
