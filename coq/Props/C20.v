(** C20 — Weight utilities: ESS bounds, trimming contract, affine-invariant volume metric. Statements only. *)
From Coq Require Import List Bool Arith ZArith QArith.
From Tempest Require Import Base.Ops Model.Weights Proofs.Weights Link.Weights.
Import ListNotations.
Local Open Scope Q_scope.

(** ESS lies in [1, N], for every non-negative weight vector with positive sum *)
Theorem C20_ess_bounds : forall l, nonnegl l -> 0 < sumQ l -> 1 <= ess l /\ ess l <= lenQ l.
Proof. exact ess_bounds. Qed.
Print Assumptions C20_ess_bounds.

Theorem C20_ess_scale : forall c l, 0 < c -> nonnegl l -> 0 < sumQ l -> ess (map (Qmult c) l) == ess l.
Proof. exact ess_scale. Qed.
Print Assumptions C20_ess_scale.

Theorem C20_ess_uniform : forall c n, 0 < c -> (0 < n)%nat -> ess (repeat c n) == inject_Z (Z.of_nat n).
Proof. exact ess_uniform. Qed.
Print Assumptions C20_ess_uniform.

(** trimming: for EVERY threshold oracle, the result is the upper set at the largest grid index
    (searching from the top) whose ESS ratio meets the request; samples and weights are selected by
    the same mask; the trimmed weights are renormalised. *)
Theorem C20_trim_contract :
  forall A (samples : list A) weights thr frac bins s wt k,
  trim_index (normalise weights) thr frac (bins - 1) <> None ->
  trim_weights samples weights thr frac bins = Some (s, wt, k) ->
  let w := normalise weights in
  (k <= bins - 1)%nat
  /\ s = select (mask_at w (thr k)) samples
  /\ wt = normalise (select (mask_at w (thr k)) w)
  /\ (forall x, In x (select (mask_at w (thr k)) w) -> thr k <= x)
  /\ frac <= (1 / sumsq wt) / (1 / sumsq w)
  /\ (forall j, (k < j <= bins - 1)%nat -> ratio_ok w (thr j) frac = false)
  /\ (~ sumQ (select (mask_at w (thr k)) w) == 0 -> sumQ wt == 1).
Proof. exact @trim_weights_contract. Qed.
Print Assumptions C20_trim_contract.

(** the routine returns for EVERY threshold oracle, every fraction and every grid (the code stops at grid index 0 whatever the ratio
    test says there), with samples and weights cut by one mask *)
Theorem C20_trim_total : forall A (samples : list A) weights thr frac bins,
  exists s wt k, trim_weights samples weights thr frac bins = Some (s, wt, k)
    /\ (k <= bins - 1)%nat
    /\ s = select (mask_at (normalise weights) (thr k)) samples
    /\ wt = normalise (select (mask_at (normalise weights) (thr k)) (normalise weights))
    /\ (trim_index (normalise weights) thr frac (bins - 1) = None -> k = 0%nat).
Proof. exact @trim_weights_total. Qed.
Print Assumptions C20_trim_total.

(** ... and some grid index always meets the request when the lowest threshold is the minimum weight and the fraction is at most 1: the
    hypothesis of the contract above holds, the stop at index 0 is never forced in exact arithmetic *)
Theorem C20_trim_terminates :
  forall w thr frac i, nonnegl w -> sumQ w == 1 -> frac <= 1 -> (forall x, In x w -> thr 0%nat <= x) ->
  exists k, trim_index w thr frac i = Some k.
Proof. exact trim_index_terminates. Qed.
Print Assumptions C20_trim_terminates.

(** samples and weights stay aligned: selecting rows of the zipped table = zipping the selections *)
Theorem C20_trim_aligned : forall A B (m : list bool) (l : list A) (l' : list B),
  select m (combine l l') = combine (select m l) (select m l').
Proof. exact @select_combine. Qed.
Print Assumptions C20_trim_aligned.

Example C20_instance :
  ess [1#2; 1#4; 1#4] == 8 # 3 /\
  (exists wt, trim_weights [10;11;12;13]%nat [4#10; 3#10; 2#10; 1#10]
     (fun i => match i with O => 1#10 | 1%nat => 2#10 | _ => 35#100 end) (8#10) 3
     = Some ([10; 11; 12]%nat, wt, 1%nat)).
Proof. split; [vm_compute; reflexivity|]. eexists. vm_compute. reflexivity. Qed.
