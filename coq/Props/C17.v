(** C17 — Accessors never alias internal state; committed history is append-only. Statements only. *)
From Coq Require Import List Bool Arith ZArith.
From Tempest Require Import Model.Alias Proofs.Alias Link.Alias.
Import ListNotations.

(** for every interleaving of set/get/commit/export/import/results operations and caller overwrites:
    arrays owned by the state manager and arrays held by the caller are disjoint *)
Theorem C17_fresh : forall K ops,
  let sc := run Gen.Alias.policy_of_source ops (init K) in
  forall l, In l (internal (fst sc)) -> ~ In l (held (snd sc)).
Proof.
  intros K ops sc l Hl. pose proof (reachable_inv Gen.Alias.policy_of_source K ops link_policy_all_fresh) as Hi.
  fold sc in Hi. destruct sc as [s c]. destruct Hi as (_ & _ & Hd & _). now apply Hd.
Qed.
Print Assumptions C17_fresh.

(** consequently a caller overwriting anything it holds changes nothing the manager would later return *)
Theorem C17_noninterference : forall K ops i ct,
  let sc := run Gen.Alias.policy_of_source ops (init K) in
  let s' := fst (step Gen.Alias.policy_of_source sc (Scribble i ct)) in
  view s' = view (fst sc) /\ cache s' = cache (fst sc)
  /\ forall l, In l (internal (fst sc)) -> deref (hp s') l = deref (hp (fst sc)) l.
Proof.
  intros K ops i ct sc s'. pose proof (reachable_inv Gen.Alias.policy_of_source K ops link_policy_all_fresh) as Hi.
  fold sc in Hi. destruct sc as [s c].
  destruct (scribble_harmless Gen.Alias.policy_of_source s c i ct Hi) as (_ & _ & C & D & V). cbn [fst]. auto.
Qed.
Print Assumptions C17_noninterference.

(** committed history is append-only: no operation alters the contents of an owned array; only
    Commit/Import change the history structure; Commit appends exactly one batch per set key *)
Theorem C17_append_only : forall K ops o,
  let sc := run Gen.Alias.policy_of_source ops (init K) in
  (forall l, In l (internal (fst sc)) ->
     deref (hp (fst (step Gen.Alias.policy_of_source sc o))) l = deref (hp (fst sc)) l)
  /\ match o with Commit | Import _ => True
     | _ => hist (fst (step Gen.Alias.policy_of_source sc o)) = hist (fst sc) end.
Proof.
  intros K ops o sc. pose proof (reachable_inv Gen.Alias.policy_of_source K ops link_policy_all_fresh) as Hi.
  fold sc in Hi. destruct sc as [s c]. split.
  - intros l Hl. now apply owned_contents_stable; [apply link_policy_all_fresh| |].
  - apply history_structure.
Qed.
Print Assumptions C17_append_only.

Theorem C17_commit_appends_one : forall s c k,
  length (cur s) = length (hist s) -> k < length (hist s) ->
  exists ext, nth k (hist (fst (step Gen.Alias.policy_of_source (s, c) Commit))) [] = nth k (hist s) [] ++ ext
  /\ length ext = (if nth k (cur s) None then 1 else 0).
Proof. intros. apply commit_appends_one; [reflexivity|assumption|assumption]. Qed.
Print Assumptions C17_commit_appends_one.

(** the pinned tree's policy (export, import and results shared) is refuted: after exporting and
    overwriting the exported array, the manager's current value has changed *)
Definition pinned_policy := mkPolicy true true true true true false false false.
Example C17_to_dict_refuted :
  let sc := run pinned_policy [SetCurrent 0 [1;2;3]%Z; ToDict; Scribble 0 [9;9;9]%Z] (init 1) in
  view (fst sc) = ([Some [9;9;9]%Z], [[]]).
Proof. vm_compute. reflexivity. Qed.
Example C17_results_refuted :
  let sc := run pinned_policy [SetCurrent 0 [1;2]%Z; Commit; Results; Scribble 0 [7;7]%Z; Results] (init 1) in
  map (deref (hp (fst sc))) (firstn 1 (held (snd sc))) = [[7;7]%Z].
Proof. vm_compute. reflexivity. Qed.
Example C17_fixed_policy_instance :
  let sc := run Gen.Alias.policy_of_source [SetCurrent 0 [1;2;3]%Z; Commit; ToDict; Scribble 0 [9;9;9]%Z; Scribble 1 [8;8;8]%Z; Results; Scribble 0 [5]%Z] (init 1) in
  view (fst sc) = ([Some [1;2;3]%Z], [[[1;2;3]%Z]]).
Proof. vm_compute. reflexivity. Qed.
