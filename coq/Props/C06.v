(** C06 — Resampling returns exactly n valid indices and is unbiased.
    Only statements here; proofs live in Proofs/Resample*.v. The routine is [sysres2]: teeth clipped to their cell
    (np.minimum with nextafter((i+1)/size, 0)), inner loop bounded at the last non-zero weight; it is the comb of the
    closed-form theorems run on the weights up to that index. *)
From Coq Require Import List Bool Arith ZArith QArith Qround.
From Tempest Require Import Base.Ops Model.Resample Proofs.Resample Proofs.ResampleQ Proofs.ResampleU Proofs.ResampleZ Proofs.ResampleNZ Proofs.ResampleF Link.Resample.
Import ListNotations.

(** For every arithmetic instance (exact rationals and binary64 alike), every non-empty
    weight vector, every value of the sum and every offset, systematic resampling returns
    exactly [size] indices, each valid and not beyond the last non-zero weight, in non-decreasing order. *)
Theorem C06_exactly_n_valid :
  forall T (o : Ops T) size (w : list T) s sqrteps u0, w <> [] ->
  exists idx, sysres2_with_sum o true size w s sqrteps u0 = Some idx
    /\ length idx = size
    /\ (forall x, In x idx -> (x < length (upto_last_nonzero o (if renorm_needed o s sqrteps then renorm o w s else w)))%nat)
    /\ (forall x, In x idx -> (x < length w)%nat) /\ nondecreasing idx.
Proof. exact @sysres2_total_valid. Qed.
Print Assumptions C06_exactly_n_valid.

(** Closed form of the comb over Q: tooth i receives the index reached from the start. *)
Theorem C06_comb_closed_form :
  forall x r u0 n, (0 <= x)%Q -> (0 <= u0)%Q ->
  comb QOps true (positions QOps u0 n) r 0 x = Some (map (reach x r) (positions QOps u0 n)).
Proof. exact comb_closed_form. Qed.
Print Assumptions C06_comb_closed_form.

(** Tooth at position p receives index k+1 exactly when p lies in the half-open bin
    [W_k, W_{k+1}) (or beyond the last cumulative sum, for the last index). *)
Theorem C06_characterisation :
  forall x r p k, nonneg r -> (k < length r)%nat ->
  (reach x r p = S k <->
   (W x r k <= p /\ p < W x r (S k))%Q \/ (S k = length r /\ (W x r k <= p)%Q)).
Proof. exact reach_characterisation. Qed.
Print Assumptions C06_characterisation.

(** Copies of every index are floor(n w_k) or ceil(n w_k): for every n >= 1, every non-negative
    weight vector of exact sum 1 (zero weights anywhere, including at the end), every offset u0 in [0,1). *)
Theorem C06_floor_ceil :
  forall n w sqrteps u0,
  (0 < n)%nat -> nonneg w -> (0 <= sqrteps)%Q -> (0 <= u0)%Q -> (u0 < 1)%Q ->
  (sum_list QOps w == 1)%Q ->
  exists idx, sysres2 QOps true n w sqrteps u0 = Some idx /\
    forall k, (k < length w)%nat ->
      (Qfloor (iQ n * nth k w 0)%Q <= Z.of_nat (copies idx k) <= Qceiling (iQ n * nth k w 0)%Q)%Z.
Proof. exact sysres2_floor_ceil. Qed.
Print Assumptions C06_floor_ceil.

(** An index of weight zero is never selected. *)
Theorem C06_zero_weight_never_selected :
  forall n w sqrteps u0 k,
  (0 < n)%nat -> nonneg w -> (0 <= sqrteps)%Q -> (0 <= u0)%Q -> (u0 < 1)%Q -> (sum_list QOps w == 1)%Q ->
  (k < length w)%nat -> (nth k w 0 == 0)%Q ->
  exists idx, sysres2 QOps true n w sqrteps u0 = Some idx /\ copies idx k = 0%nat.
Proof. exact sysres2_skips_zero_weights. Qed.
Print Assumptions C06_zero_weight_never_selected.

(** The same for EVERY arithmetic in which (A) adding a zero weight does not change the loop test and (B) every tooth is
    >= a zero weight: whenever some weight is non-zero, every returned index carries a non-zero weight. *)
Theorem C06_nonzero_selection_any_arithmetic :
  forall T (o : Ops T), (forall p c z, is_zero o z = true -> o_geb o p (o_add o c z) = o_geb o p c) ->
  forall size w s sqrteps u0 idx,
  let w' := if renorm_needed o s sqrteps then renorm o w s else w in
  drop_zeros o (rev w') <> [] ->
  (forall p, In p (cpositions o u0 size) -> forall z, is_zero o z = true -> o_geb o p z = true) ->
  sysres2_with_sum o true size w s sqrteps u0 = Some idx ->
  forall i, In i idx -> exists wi, nth_error w' i = Some wi /\ is_zero o wi = false.
Proof. exact @sysres2_selects_nonzero. Qed.
Print Assumptions C06_nonzero_selection_any_arithmetic.

(** ... and for binary64 itself: both laws are IEEE facts (proved through Flocq's formalisation), so the twin that is
    executed bit for bit against the implementation never returns an index whose weight compares equal to zero, as soon
    as every tooth compares >= +0. *)
Theorem C06_binary64_never_selects_zero_weight :
  forall size w s sqrteps u0 idx,
  let w' := if renorm_needed FOps s sqrteps then renorm FOps w s else w in
  drop_zeros FOps (rev w') <> [] ->
  (forall p, In p (cpositions FOps u0 size) -> o_leb FOps (o_zero FOps) p = true) ->
  sysres2_with_sum FOps true size w s sqrteps u0 = Some idx ->
  forall i, In i idx -> exists wi, nth_error w' i = Some wi /\ o_eqb FOps wi (o_zero FOps) = false.
Proof. exact sysres2_binary64_selects_nonzero. Qed.
Print Assumptions C06_binary64_never_selects_zero_weight.

(** Unbiasedness, measure-free: for weights (x :: r) >= 0 with exact sum 1 and n >= 1 teeth, the offsets u0 in [0,1)
    for which tooth i of the comb's output is index k form exactly the half-open interval [lo i k, hi i k), and the
    lengths of the n intervals of index k add up to n * w_k. Under a uniform offset the probability of an interval is
    its length, so every index is selected n * w_k times in expectation. *)
Theorem C06_unbiased :
  forall x r n k, (0 < n)%nat -> (0 <= x)%Q -> nonneg r -> (W x r (length r) == 1)%Q -> (k <= length r)%nat ->
  (forall u0 i, (0 <= u0)%Q -> (u0 < 1)%Q -> (i < n)%nat ->
     exists idx, comb QOps true (positions QOps u0 n) r 0 x = Some idx /\
       (nth i idx 0%nat = k <-> (lo x r n i k <= u0)%Q /\ (u0 < hi x r n i k)%Q))
  /\ (sumQ (fun i => hi x r n i k - lo x r n i k)%Q n == iQ n * wt x r k)%Q
  /\ (forall i, (lo x r n i k <= hi x r n i k)%Q).
Proof.
  intros x r n k Hn Hx Hr Hone Hk. split; [|split].
  - intros u0 i Hu0 Hu1 Hi. exists (map (reach x r) (positions QOps u0 n)). split; [now apply comb_closed_form|].
    rewrite (nth_indep _ 0%nat (reach x r 0%Q)) by (rewrite map_length; unfold positions; rewrite map_length, seq_length; exact Hi).
    rewrite map_nth. rewrite positions_nth by exact Hi. now apply tooth_selects_iff.
  - now apply expected_copies.
  - intro i. now apply lo_le_hi.
Qed.
Print Assumptions C06_unbiased.

(** Multinomial scheme under the inverse-CDF specification of numpy.random.choice:
    every uniform draw r < 1 lands on a valid index. *)
Theorem C06_multinomial_in_range :
  forall (w : list Q) (r : Q), w <> [] -> (0 < last (cumsum QOps w) 1)%Q -> (r < 1)%Q ->
  (choice_idx QOps w r < length w)%nat.
Proof. exact choice_idx_in_range. Qed.
Print Assumptions C06_multinomial_in_range.

(** Non-vacuity: a concrete non-trivial instance meets the hypotheses, and the pinned code's
    tie rule (strict [>]) is refuted on it: with u0 = 0, n = 2, w = [1/2;1/2] the strict rule
    copies index 0 twice (floor = ceil = 1). *)
Example C06_floor_ceil_instance :
  sysres2 QOps true 2 [1#2; 1#2]%Q (1#100000000)%Q 0%Q = Some [0; 1]%nat.
Proof. vm_compute. reflexivity. Qed.

Section StrictRule.
(* the pinned tree's inner loop: while positions[i] > cumulative_sum (no bound) *)
Fixpoint advance_strict (rest : list Q) (p : Q) (j : nat) (cum : Q) : option (nat * Q * list Q) :=
  if Qltb cum p then match rest with [] => None | x :: r => advance_strict r p (S j) (cum + x)%Q end
  else Some (j, cum, rest).
Fixpoint comb_strict (ps rest : list Q) (j : nat) (cum : Q) : option (list nat) :=
  match ps with [] => Some [] | p :: ps' =>
    match advance_strict rest p j cum with None => None
    | Some (j', cum', rest') => option_map (cons j') (comb_strict ps' rest' j' cum') end end.
End StrictRule.
Example C06_strict_rule_refuted :
  comb_strict (positions QOps 0 2) [1#2]%Q 0 (1#2)%Q = Some [0; 0]%nat.
Proof. vm_compute. reflexivity. Qed.
Example C06_unbounded_loop_refuted :
  (* sum inside the no-renormalise band, last tooth above the last cumulative sum: IndexError *)
  comb_strict (positions QOps (999999999999 # 1000000000000) 2) [499999999 # 1000000000]%Q 0 (1#2)%Q = None.
Proof. vm_compute. reflexivity. Qed.
