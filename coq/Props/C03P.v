(** C03, Crank-Nicolson energy symmetry (MathComp; any field, any symmetric bilinear form). *)
From mathcomp Require Import all_ssreflect all_algebra.
From Tempest Require Import Proofs.PCN.
Import GRing.Theory.
Local Open Scope ring_scope.

Theorem C03_pcn_symmetric_integrand :
  forall (F : fieldType) (V : lmodType F) (B : V -> V -> F),
  (forall x y, B x y = B y x) -> (forall x y z, B (x - y) z = B x z - B y z) -> (forall a x y, B (a *: x) y = a * B x y) ->
  forall (a sigma : F) (x y : V), a ^+ 2 + sigma ^+ 2 = 1 -> sigma != 0 ->
  energy B a sigma x y = energy B a sigma y x.
Proof. move=> F V B Bs Bl Bc a sigma x y. exact: pcn_energy_symmetric. Qed.
Print Assumptions C03_pcn_symmetric_integrand.
