(** C11 — Zero-likelihood prior regions are excluded and counted exactly once. Statements only. *)
From Coq Require Import List Bool Arith QArith.
From Tempest Require Import Model.Warmup Proofs.Warmup Link.Warmup.
Import ListNotations.
Local Open Scope Q_scope.

(** the evidence the reweighter records at a beta=0 iteration is the weighted harmonic mean of the
    earlier batches' values, hence stays between their extremes *)
Theorem C11_reweight_at_zero_in_range : forall a b hist, 0 < a -> a <= b -> hist <> [] -> in_range a b hist ->
  a <= harmonic hist /\ harmonic hist <= b.
Proof. exact harmonic_in_range. Qed.
Print Assumptions C11_reweight_at_zero_in_range.

(** counted once: for every number of warm-up iterations, batch sizes and finite counts 1 <= m_k <= n_k,
    every recorded evidence lies between the smallest and largest single-batch fraction *)
Theorem C11_counted_once : forall a b, 0 < a -> a <= 1 -> 1 <= b ->
  forall batches hist, in_range a b hist -> fractions_in a b batches ->
  in_range a b (warm_run false hist batches).
Proof. exact counted_once. Qed.
Print Assumptions C11_counted_once.

Theorem C11_records_own_fraction : forall hist n m, (m < n)%nat ->
  snd (last (warm_step false hist n m) (0%nat, 0)) = nQ m / nQ n.
Proof. exact records_own_fraction. Qed.
Print Assumptions C11_records_own_fraction.

(** the pinned tree's accumulating rule is refuted: two half-supported batches record 1/4 *)
Example C11_double_count_refuted :
  map snd (warm_run true [] [(4,2); (4,2)]%nat) = [nQ 2 / nQ 4; harmonic [(4%nat, nQ 2 / nQ 4)] * (nQ 2 / nQ 4)]
  /\ harmonic [(4%nat, nQ 2 / nQ 4)] * (nQ 2 / nQ 4) == 1 # 4.
Proof. split; vm_compute; reflexivity. Qed.
Example C11_repaired_instance :
  Forall (fun p => snd p == 1 # 2) (warm_run false [] [(4,2); (4,2); (6,3)]%nat).
Proof. repeat constructor; vm_compute; reflexivity. Qed.
(** edge of the quantifier: a batch with NO finite draw records evidence 0 (log-evidence -inf) *)
Example C11_all_inf_batch_refuted : map snd (warm_run false [] [(4,0)]%nat) = [nQ 0 / nQ 4].
Proof. vm_compute. reflexivity. Qed.
