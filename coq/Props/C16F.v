(** C16, float layer (Flocq real-valued model of binary64 round-to-nearest-even). *)
From Coq Require Import Reals ZArith.
From Flocq Require Import Core.
From Tempest Require Import Proofs.BoundaryFloat.
Local Open Scope R_scope.

Theorem C16_float_range : forall x : R, (0 <= fold_fl x <= 1) /\ (0 <= wrap_fl x <= 1).
Proof. intro x. split; [apply fold_fl_range|apply wrap_fl_range]. Qed.
Print Assumptions C16_float_range.
