(** C20, volume-variation metric (MathComp matrices over any real field). Statements only. *)
From mathcomp Require Import all_ssreflect all_algebra.
From Tempest Require Import Proofs.Volume.
Import GRing.Theory Num.Theory.
Local Open Scope ring_scope.

Theorem C20_volume_nonneg : forall (F : realFieldType) (n d : nat) (x : 'I_n -> 'rV[F]_d) (w : 'I_n -> F),
  0 <= vv2 x w.
Proof. exact vv2_ge0. Qed.
Print Assumptions C20_volume_nonneg.

Theorem C20_volume_weight_scale :
  forall (F : realFieldType) (n d : nat) (c : F) (x : 'I_n -> 'rV[F]_d) (w : 'I_n -> F),
  c != 0 -> vv2 x (fun j => c * w j) = vv2 x w.
Proof. exact vv2_weight_scale. Qed.
Print Assumptions C20_volume_weight_scale.

(** invariance under x |-> x A + b for invertible A, on the full-rank (unregularised, unclipped) branch *)
Theorem C20_volume_affine :
  forall (F : realFieldType) (n d : nat) (A : 'M[F]_d) (b : 'rV[F]_d) (x : 'I_n -> 'rV[F]_d) (w : 'I_n -> F),
  wsum w != 0 -> A \in unitmx -> wcov x w \in unitmx -> vv2 (aff A b x) w = vv2 x w.
Proof. exact vv2_affine. Qed.
Print Assumptions C20_volume_affine.

(** every branch of the routine at once. K = what is done to the weighted covariance before it multiplies the centred rows (its inverse,
    or the inverse of the matrix regularised by 1e-6 * trace when the rank test fires); g = what is done to the deviation d_i^2 - d
    (np.clip to +-1e6). Non-negativity and invariance under rescaling of the weights hold for EVERY K and g ... *)
Theorem C20_volume_every_branch :
  forall (F : realFieldType) (n d : nat) (K : 'M[F]_d -> 'M[F]_d) (g : F -> F) (x : 'I_n -> 'rV[F]_d) (w : 'I_n -> F),
  0 <= vvgen K g x w /\ forall c : F, c != 0 -> vvgen K g x (fun j => c * w j) = vvgen K g x w.
Proof. move=> F n d K g x w; split; [exact: vvgen_ge0|move=> c; exact: vvgen_weight_scale]. Qed.
Print Assumptions C20_volume_every_branch.

(** ... and affine invariance for the plain inverse with every g: the clip does not matter (the regularised branch is not affine
    invariant, and is not claimed) *)
Theorem C20_volume_affine_clipped :
  forall (F : realFieldType) (n d : nat) (g : F -> F) (A : 'M[F]_d) (b : 'rV[F]_d) (x : 'I_n -> 'rV[F]_d) (w : 'I_n -> F),
  wsum w != 0 -> A \in unitmx -> wcov x w \in unitmx -> vvgen invmx g (aff A b x) w = vvgen invmx g x w.
Proof. move=> F n d g A b x w. exact: vvgen_affine. Qed.
Print Assumptions C20_volume_affine_clipped.

Theorem C20_volume_plain_is_the_general_one :
  forall (F : realFieldType) (n d : nat) (x : 'I_n -> 'rV[F]_d) (w : 'I_n -> F), vvgen invmx id x w = vv2 x w.
Proof. by []. Qed.
