(** C20, volume-variation metric (MathComp matrices over any real field). Statements only. *)
From mathcomp Require Import all_ssreflect all_algebra.
From Tempest Require Import Proofs.Volume.
Import GRing.Theory Num.Theory.
Local Open Scope ring_scope.

Theorem C20_volume_nonneg : forall (F : realFieldType) (n d : nat) (x : 'I_n -> 'rV[F]_d) (w : 'I_n -> F),
  0 <= vv2 x w.
Proof. exact vv2_ge0. Qed.
Print Assumptions C20_volume_nonneg.

Theorem C20_volume_weight_scale :
  forall (F : realFieldType) (n d : nat) (c : F) (x : 'I_n -> 'rV[F]_d) (w : 'I_n -> F),
  c != 0 -> vv2 x (fun j => c * w j) = vv2 x w.
Proof. exact vv2_weight_scale. Qed.
Print Assumptions C20_volume_weight_scale.

(** invariance under x |-> x A + b for invertible A, on the full-rank (unregularised, unclipped) branch *)
Theorem C20_volume_affine :
  forall (F : realFieldType) (n d : nat) (A : 'M[F]_d) (b : 'rV[F]_d) (x : 'I_n -> 'rV[F]_d) (w : 'I_n -> F),
  wsum w != 0 -> A \in unitmx -> wcov x w \in unitmx -> vv2 (aff A b x) w = vv2 x w.
Proof. exact vv2_affine. Qed.
Print Assumptions C20_volume_affine.
