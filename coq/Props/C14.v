(** C14 — Cluster labels and proposal modes stay coherent for every history and cadence. Statements only. *)
From Coq Require Import List Bool Arith.
From Tempest Require Import Model.Cluster Proofs.Cluster Link.Cluster.
Import ListNotations.

(** for every clustering cadence, every sequence of warm-up / annealing iterations and every starting
    iteration number (fresh run or resume with an unfitted model), prediction never meets an unfitted model *)
Theorem C14_never_unfitted : forall every flags it fitted,
  trainer_run true every it flags fitted <> PredictOnUnfitted.
Proof. intros. apply never_unfitted. Qed.
Print Assumptions C14_never_unfitted.

(** under coverage (every label below K is predicted for some training point) the kernel's mode for
    assignment a is the mode fitted from the points labelled a *)
Theorem C14_label_is_mode : forall K labels a, (forall k, k < K -> In k labels) -> a < K ->
  kernel_mode K labels a = Some a.
Proof. exact label_is_mode. Qed.
Print Assumptions C14_label_is_mode.

(** iterations that reuse the clustering: whatever the old model predicts for the new training points (in particular when
    one of its clusters attracts none), the labels handed to the kernels index the modes fitted from their own cluster,
    provided a freshly fitted model covers its own training set *)
Theorem C14_reuse_label_is_mode : forall K_old pred_old K_new pred_new a,
  covers K_new pred_new = true ->
  let r := reuse_labels true K_old pred_old K_new pred_new in
  a < fst r -> kernel_mode (fst r) (snd r) a = Some a.
Proof. exact reuse_label_is_mode. Qed.
Print Assumptions C14_reuse_label_is_mode.
(** non-vacuity: a reused two-cluster model whose cluster 0 attracts nothing is replaced *)
Example C14_reuse_example : reuse_labels true 2 [1; 1; 1] 1 [0; 0; 0] = (1, [0; 0; 0]) /\ covers 1 [0; 0; 0] = true.
Proof. split; reflexivity. Qed.

(** the labels handed to the kernels are the clusters of the resampled particles, row by row, for every order of the resampled
    indices (multinomial resampling returns them unsorted) *)
Theorem C14_assignment_is_cluster_of_the_particle : forall U (predict : U -> nat) pool (d : U) idx r,
  r < length idx -> nth r (assign predict pool d idx) 0 = predict (nth r (gather pool d idx) d).
Proof. exact @assign_pointwise. Qed.
Print Assumptions C14_assignment_is_cluster_of_the_particle.
(** "predict each distinct ancestor once and repeat by multiplicity" is refuted for unsorted indices: pool positions 0,1,2 with
    clusters 0,1,0; indices [2;1;1]: distinct ancestors [1;2] with counts [2;1] give labels [1;1;0], the particles' clusters are [0;1;1] *)
Example C14_repeat_shortcut_refuted :
  assign (fun u => nth u [0; 1; 0] 0) [0; 1; 2] 0 [2; 1; 1] = [0; 1; 1]
  /\ repeat_by (map (fun u => nth u [0; 1; 0] 0) [1; 2]) [2; 1] = [1; 1; 0].
Proof. split; reflexivity. Qed.

Theorem C14_modes_count : forall K labels, length (occurring K labels) <= K.
Proof. exact modes_count. Qed.
Print Assumptions C14_modes_count.

(** the pinned tree's cadence (no "never fitted" clause) is refuted: cluster_every = 3, two warm-up
    iterations, first annealing iteration numbered 2 *)
Example C14_unfitted_refuted : trainer_run false 3 0 [false; true] false = PredictOnUnfitted.
Proof. reflexivity. Qed.
(** without the coverage test on reuse (the tree before the repair) label 1 has no mode *)
Example C14_reuse_unchecked_refuted :
  let r := reuse_labels false 2 [1; 1; 1] 1 [0; 0; 0] in kernel_mode (fst r) (snd r) 1 = None.
Proof. reflexivity. Qed.
(** without coverage the rank-indexed modes and the raw labels disagree *)
Example C14_rank_mismatch_refuted :
  kernel_mode 3 [0; 2; 2; 0] 2 = None /\ kernel_mode 3 [1; 2; 2; 1] 1 = Some 2.
Proof. split; reflexivity. Qed.
