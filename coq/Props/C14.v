(** C14 — Cluster labels and proposal modes stay coherent for every history and cadence. Statements only. *)
From Coq Require Import List Bool Arith.
From Tempest Require Import Model.Cluster Proofs.Cluster Link.Cluster.
Import ListNotations.

(** for every clustering cadence, every sequence of warm-up / annealing iterations and every starting
    iteration number (fresh run or resume with an unfitted model), prediction never meets an unfitted model *)
Theorem C14_never_unfitted : forall every flags it fitted,
  trainer_run true every it flags fitted <> PredictOnUnfitted.
Proof. intros. apply never_unfitted. Qed.
Print Assumptions C14_never_unfitted.

(** under coverage (every label below K is predicted for some training point) the kernel's mode for
    assignment a is the mode fitted from the points labelled a *)
Theorem C14_label_is_mode : forall K labels a, (forall k, k < K -> In k labels) -> a < K ->
  kernel_mode K labels a = Some a.
Proof. exact label_is_mode. Qed.
Print Assumptions C14_label_is_mode.

Theorem C14_modes_count : forall K labels, length (occurring K labels) <= K.
Proof. exact modes_count. Qed.
Print Assumptions C14_modes_count.

(** the pinned tree's cadence (no "never fitted" clause) is refuted: cluster_every = 3, two warm-up
    iterations, first annealing iteration numbered 2 *)
Example C14_unfitted_refuted : trainer_run false 3 0 [false; true] false = PredictOnUnfitted.
Proof. reflexivity. Qed.
(** without coverage the rank-indexed modes and the raw labels disagree *)
Example C14_rank_mismatch_refuted :
  kernel_mode 3 [0; 2; 2; 0] 2 = None /\ kernel_mode 3 [1; 2; 2; 1] 1 = Some 2.
Proof. split; reflexivity. Qed.
