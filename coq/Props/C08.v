(** C08 — Checkpoints restore exactly, resume continues the run, saves are crash-safe. Statements only. *)
From Coq Require Import List Bool Arith Lia.
From Tempest Require Import Model.Alias Proofs.Alias Model.Crash Proofs.Crash Link.Alias Link.Checkpoint.
From Tempest Require Model.RunBook Proofs.RunBook.
Module RB := Tempest.Model.RunBook.
Module RBP := Tempest.Proofs.RunBook.
Import ListNotations.

(** export (save) followed by import (load) into the state manager restores exactly the same current
    values and the same full history, for every reachable state *)
Theorem C08_roundtrip : forall K ops,
  let sc := run Gen.Alias.policy_of_source ops (init K) in
  let sc1 := step Gen.Alias.policy_of_source sc ToDict in
  let sc2 := step Gen.Alias.policy_of_source sc1 (Import 0) in
  view (fst sc2) = view (fst sc).
Proof.
  intros K ops sc sc1 sc2. pose proof (reachable_inv Gen.Alias.policy_of_source K ops link_policy_all_fresh) as Hi.
  fold sc in Hi. subst sc1 sc2. destruct sc as [s c]. now apply export_import_roundtrip.
Qed.
Print Assumptions C08_roundtrip.

(** crash at ANY IO call of the save, with ANY prefix of un-synced bytes surviving: the checkpoint's
    final name is absent / still holds the complete old content, or holds the complete new content *)
Theorem C08_crash_safe : forall chunks f0 old,
  f0 0 = old -> (match old with Some (_, p, _) => p = [] | None => True end) ->
  forall p q c, Gen.Checkpoint.save_io chunks = p ++ q -> after_crash (exec p f0) 0 c ->
  (c = option_map (fun x => fst (fst x)) old) \/ (q = [] /\ exists d, exec p f0 0 = Some (d, [], []) /\ c = Some d).
Proof.
  intros chunks f0 old Hold Hclean p q c Hpq Hc.
  eapply (atomic_save_crash_safe 1 0 (Gen.Checkpoint.save_io chunks)); eauto. apply link_save_shape.
Qed.
Print Assumptions C08_crash_safe.

(** the complete save leaves exactly the written bytes, all durable *)
Theorem C08_complete_save : forall chunks f0,
  exec (Gen.Checkpoint.save_io chunks) f0 0 = Some (concat chunks, [], []).
Proof.
  intros chunks f0. rewrite link_save_is_atomic. unfold atomic_save.
  unfold exec. rewrite !fold_left_app. cbn [fold_left exec1].
  set (f1 := upd f0 1 (Some ([], [], []))).
  assert (G : forall cs f acc, f 1 = Some ([], [], acc) ->
             fold_left exec1 (map (Write 1) cs) f 1 = Some ([], [], acc ++ concat cs)).
  { induction cs as [|c cs IH]; intros f acc Hf; cbn [map fold_left concat]; [now rewrite app_nil_r|].
    rewrite (IH _ (acc ++ c)); [now rewrite app_assoc|]. cbn [exec1]. rewrite Hf. apply upd_same. }
  specialize (G chunks f1 [] (upd_same _ _ _)). cbn [app] in G.
  rewrite G. rewrite !upd_same. cbn [app]. rewrite upd_other by discriminate. now rewrite upd_same.
Qed.
Print Assumptions C08_complete_save.

(** checkpoints are written exactly every save_every iterations after the (re)start *)
Theorem C08_cadence : forall iter t0 every, 0 < every -> t0 <= iter ->
  (Gen.Checkpoint.saves_at iter t0 every = true <-> exists k, 0 < k /\ iter = t0 + k * every).
Proof.
  intros iter t0 every He Hle. rewrite link_cadence. rewrite andb_true_iff, Nat.eqb_eq, negb_true_iff, Nat.eqb_neq. split.
  - intros [Hm Hne]. apply Nat.mod_divides in Hm; [|lia]. destruct Hm as [k Hk].
    exists k. split; [destruct k; [lia|lia]|]. rewrite Nat.mul_comm. lia.
  - intros (k & Hk & ->). split.
    + replace (t0 + k * every - t0) with (k * every) by lia. now apply Nat.mod_mul; lia.
    + destruct k; [lia|]. cbn. lia.
Qed.
Print Assumptions C08_cadence.

(** ---- resume continues the run. The run-level bookkeeping machine (Model/RunBook.v: iteration counter, call counter, one history
    record per iteration, numbered checkpoints; driven by whatever the schedule, the kernel and the caller decide) ---- *)

(** run os1, checkpoint, load into a fresh sampler, run os2 -- with ANY save cadence, any batch size, restarted where the code restarts
    (t0 = restored iteration counter): iteration numbers, call counts and the whole history are those of the uninterrupted run *)
Theorem C08_resume_continues : forall e1 e2 os1 os2,
  let s1 := RB.run e1 0 os1 RB.fresh in
  RB.core (RB.run e2 (RB.iter s1) os2 (RB.resume_from s1)) = RB.core (RB.run e1 0 (os1 ++ os2) RB.fresh).
Proof. exact RBP.resume_continues. Qed.
Print Assumptions C08_resume_continues.

(** the restored history prefix is left as it is; exactly one record per iteration is appended; numbers are 1, 2, 3, ... without gap *)
Theorem C08_history_prefix_and_numbering : forall e t0 os s,
  (exists tail, RB.hist (RB.run e t0 os s) = RB.hist s ++ tail /\ length tail = length os)
  /\ RB.iter (RB.run e t0 os s) = RB.iter s + length os
  /\ (RBP.well_numbered s -> RBP.well_numbered (RB.run e t0 os s)).
Proof. intros e t0 os s. split; [apply RBP.run_hist_prefix|split; [apply RBP.run_iter|apply RBP.run_numbered]]. Qed.
Print Assumptions C08_history_prefix_and_numbering.

(** the call counter continues: initial value plus the likelihood rows of every iteration, each record holding the running total *)
Theorem C08_call_counter_continues : forall e t0 os s,
  RB.calls (RB.run e t0 os s) = RB.calls s + fold_right plus 0 (map RB.rows os)
  /\ (RBP.counter_is_last s -> RBP.calls_consistent s -> RBP.calls_consistent (RB.run e t0 os s)).
Proof. intros e t0 os s. split; [apply RBP.run_calls|apply RBP.run_calls_consistent]. Qed.
Print Assumptions C08_call_counter_continues.

(** checkpoints written by a (re)started run: exactly the iteration counts t0 + k * every that it passes *)
Theorem C08_checkpoints_written : forall e t0 os s,
  RB.saved (RB.run (Some e) t0 os s) = RB.saved s ++ filter (fun i => Gen.Checkpoint.saves_at i t0 e) (seq (RB.iter s) (length os)).
Proof. intros e t0 os s. rewrite RBP.run_saved. reflexivity. Qed.
Print Assumptions C08_checkpoints_written.

(** the pinned tree's direct write is refuted by a concrete crash *)
Example C08_direct_write_refuted :
  exists p q c, direct_save 0 [[1;2;3]] = p ++ q /\
    after_crash (exec p (fun n => if Nat.eqb n 0 then Some ([7;7], [], []) else None)) 0 c /\ c = Some [].
Proof. exact direct_save_refuted. Qed.
(** fsync before flush: the shape checker rejects it and a power loss after the rename leaves an empty file *)
Example C08_fsync_before_flush_refuted :
  let ops := [Open_trunc 1; Write 1 [1;2;3]; Fsync 1; Flush 1; Close 1; Rename 1 0] in
  is_atomic_shape 1 0 ops false false false = false /\ after_crash (exec ops (fun _ => None)) 0 (Some []).
Proof. exact fsync_before_flush_refuted. Qed.
