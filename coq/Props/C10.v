(** C10 — Rescaling the likelihood shifts log-evidence only. Statements only. *)
From Coq Require Import Reals List Bool.
From Tempest Require Import Base.Ops Model.MIS Proofs.MIS Model.Schedule Proofs.Shift Link.MIS Link.Shift.
Import ListNotations.
Local Open Scope R_scope.

(** under l -> l + c, z_t -> z_t + beta_t c: normalised weights and ESS coincide at every beta,
    the evidence estimate shifts by beta c *)
Theorem C10_weights_invariant : forall c H beta ls, ls <> [] ->
  nweights (shiftH c H) beta (map (fun l => l + c) ls) = nweights H beta ls
  /\ essR (nweights (shiftH c H) beta (map (fun l => l + c) ls)) = essR (nweights H beta ls)
  /\ logZ (shiftH c H) beta (map (fun l => l + c) ls) = logZ H beta ls + beta * c.
Proof. intros. split; [now apply nweights_shift|]. split; [now apply ess_shift|now apply logZ_shift]. Qed.
Print Assumptions C10_weights_invariant.

(** the reweighting step reads the pool only through its oracles: equal oracles, equal decisions *)
Theorem C10_decisions_invariant : forall T (o : Ops T) finite bt et big (E E' V V' : T -> T),
  (forall b, E b = E' b) -> (forall b, V b = V' b) -> forall fuel bp target vt,
  step_ess o finite E bt et big fuel bp target = step_ess o finite E' bt et big fuel bp target
  /\ step_vol o finite E V bt et big fuel bp target vt = step_vol o finite E' V' bt et big fuel bp target vt.
Proof. intros. split; [now apply step_ess_ext|now apply step_vol_ext]. Qed.
Print Assumptions C10_decisions_invariant.

Theorem C10_acceptance_invariant : forall beta l l' c factor,
  Gen.Shift.accept_exponent beta (l + c) (l' + c) factor = Gen.Shift.accept_exponent beta l l' factor.
Proof. intros. rewrite !link_accept_exponent. apply acceptance_shift. Qed.
Print Assumptions C10_acceptance_invariant.

(** whole runs, for every schedule rule that reads normalised weights only and every shift-equivariant
    mutation: temperatures and particles coincide, recorded evidences shift by beta_t c, the final one by c *)
Theorem C10_simulation : forall (sched : (R -> list R) -> R) (mut : hist -> R -> list R),
  (forall c h b, h_logl h <> [] -> mut (shift_hist c h) b = map (fun l => l + c) (mut h b)) ->
  (forall h b, mut h b <> []) ->
  (forall f g, (forall b, f b = g b) -> sched f = sched g) ->
  forall c k h, h_logl h <> [] ->
  run sched mut k (shift_hist c h) = shift_hist c (run sched mut k h)
  /\ map beta_t (h_iters (run sched mut k (shift_hist c h))) = map beta_t (h_iters (run sched mut k h))
  /\ logZ (h_iters (run sched mut k (shift_hist c h))) 1 (h_logl (run sched mut k (shift_hist c h)))
     = logZ (h_iters (run sched mut k h)) 1 (h_logl (run sched mut k h)) + c.
Proof.
  intros sched mut Hm Hn Hs c k h Hne. split; [apply run_shift; assumption|].
  destruct (final_evidence_shift sched mut Hm Hs c k h Hne) as (A & _ & B). split; assumption.
Qed.
Print Assumptions C10_simulation.
