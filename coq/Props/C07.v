(** C07 — Every stored or returned particle is a coherent (u, x, logL, blob) record. Statements only. *)
From Coq Require Import List Bool Arith.
From Tempest Require Import Model.Coherent Proofs.Coherent Link.Coherent.
Import ListNotations.

Section S.
Context {U X LL BB : Type} (T : U -> X) (L : X -> LL * BB) (in_cube : U -> bool).

(** resampling / trimming / posterior selection with ONE index vector moves whole records *)
Theorem C07_gather : forall du dx dl db idx p, coherent T L in_cube p -> (forall i, In i idx -> i < length (b_u p)) ->
  coherent T L in_cube (gather4 du dx dl db idx idx idx idx p).
Proof. intros. now apply gather_coherent. Qed.

(** Metropolis acceptance with ONE mask, for every mask *)
Theorem C07_accept : forall m prop cur, coherent T L in_cube prop -> coherent T L in_cube cur ->
  coherent T L in_cube (accept4 m m m m prop cur).
Proof. intros. now apply accept_coherent. Qed.

(** fresh prior batch, and replacement of its -inf rows by copies of other rows *)
Theorem C07_warmup : forall du dx dl db us dst src,
  (forall u, In u us -> in_cube u = true) -> (forall i, In i src -> i < length us) ->
  coherent T L in_cube (fresh T L us)
  /\ coherent T L in_cube (replace4 du dx dl db dst src src src src (fresh T L us)).
Proof.
  intros du dx dl db us dst src Hc Hs. split; [now apply fresh_coherent|].
  apply replace_coherent; [now apply fresh_coherent|exact Hs].
Qed.

(** invariant: along ANY sequence of such steps the current batch stays coherent (so every committed
    batch, being a copy of it, is coherent) *)
Theorem C07_invariant : forall du dx dl db cur cur',
  coherent T L in_cube cur -> pstep T L in_cube du dx dl db cur cur' -> coherent T L in_cube cur'.
Proof. intros. eapply pstep_preserves; eauto. Qed.
End S.
Print Assumptions C07_gather.
Print Assumptions C07_accept.
Print Assumptions C07_warmup.
Print Assumptions C07_invariant.

(** non-vacuity and the reason the single-selector premise matters: a mask applied to u,x,blob but not
    to logl breaks coherence *)
Example C07_partial_mask_refuted :
  let T := fun u : nat => u + 100 in let L := fun x : nat => (x * 2, x * 3) in
  let cur := fresh T L [1; 2] in let prop := fresh T L [7; 8] in
  b_l (accept4 [true; false] [true; false] [false; false] [true; false] prop cur) = [202; 204]
  /\ b_x (accept4 [true; false] [true; false] [false; false] [true; false] prop cur) = [107; 102].
Proof. split; reflexivity. Qed.
