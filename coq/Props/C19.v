(** C19 — Student-t proposal fit is well-posed and equivariant. Statements only (MathComp, any real field). *)
From mathcomp Require Import all_ssreflect all_fingroup all_algebra.
From Tempest Require Import Proofs.Volume Proofs.Student Proofs.StudentInit Link.Student.
Import GRing.Theory Num.Theory.
Local Open Scope ring_scope.

(** one ECME step commutes with x |-> x A + b for every invertible A (hence with per-coordinate positive
    scalings and coordinate permutations) and every translation: nu is unchanged, the scale transforms as
    A^T Sigma A, the location as mu A + b; for EVERY degrees-of-freedom oracle that reads the distances only *)
Theorem C19_step_equivariant :
  forall (F : realFieldType) (n d : nat) (optnu : {ffun 'I_n -> F} -> F) (A : 'M[F]_d) (b : 'rV[F]_d)
         (x : 'I_n -> 'rV[F]_d) (mu : 'rV[F]_d) (S : 'M[F]_d),
  A \in unitmx -> S \in unitmx -> \sum_i new_w optnu x mu S i != 0 ->
  [/\ new_nu optnu (affx A b x) (mu *m A + b) (A^T *m S *m A) = new_nu optnu x mu S,
      new_Sigma optnu (affx A b x) (mu *m A + b) (A^T *m S *m A) = A^T *m new_Sigma optnu x mu S *m A
    & new_mu optnu (affx A b x) (mu *m A + b) (A^T *m S *m A) = new_mu optnu x mu S *m A + b].
Proof. move=> F n d optnu A b x mu S. exact: step_equivariant. Qed.
Print Assumptions C19_step_equivariant.

Theorem C19_location_in_box :
  forall (F : realFieldType) (n d : nat) (optnu : {ffun 'I_n -> F} -> F) (x : 'I_n -> 'rV[F]_d) (mu : 'rV[F]_d)
         (S : 'M[F]_d) (j : 'I_d) (lo hi : F),
  (forall i, 0 < new_w optnu x mu S i) -> (0 < n)%N ->
  (forall i, lo <= x i 0 j <= hi) -> lo <= new_mu optnu x mu S 0 j <= hi.
Proof. move=> F n d optnu x mu S j lo hi. exact: location_in_box. Qed.
Print Assumptions C19_location_in_box.

Theorem C19_scale_sym_psd :
  forall (F : realFieldType) (n d : nat) (optnu : {ffun 'I_n -> F} -> F) (x : 'I_n -> 'rV[F]_d) (mu : 'rV[F]_d) (S : 'M[F]_d),
  (new_Sigma optnu x mu S)^T = new_Sigma optnu x mu S
  /\ forall v : 'rV[F]_d, (forall i, 0 <= new_w optnu x mu S i) -> 0 <= (v *m new_Sigma optnu x mu S *m v^T) 0 0.
Proof. move=> F n d optnu x mu S; split; [exact: scale_symmetric|move=> v; exact: scale_psd]. Qed.
Print Assumptions C19_scale_sym_psd.

Theorem C19_weights_positive :
  forall (F : realFieldType) (n d : nat) (nu : F) (de : {ffun 'I_n -> F}) i, 0 < nu -> 0 <= de i -> 0 < wgt d nu de i.
Proof. move=> F n d nu de i. exact: wgt_pos. Qed.
Print Assumptions C19_weights_positive.

(** ---- the starting point (coordinate medians; biased covariance + diag(biased variances)/n), which is also the
    RETURNED value whenever the root bracket of the nu update has no sign change (Link: link_ecme, link_fallback) ---- *)

(** equivariance under x_j |-> a_j x_(s j) + b_j : per-coordinate positive scalings, translations and permutations of
    the coordinates, all at once, for every data set *)
Theorem C19_init_equivariant :
  forall (F : realFieldType) (n d : nat) (a b : 'rV[F]_d) (s : 'S_d) (x : 'I_n -> 'rV[F]_d),
  (0 < n)%N -> (forall j, 0 < a 0 j) ->
  (forall j, mu0 (tr a b s x) 0 j = a 0 j * mu0 x 0 (s j) + b 0 j)
  /\ (forall j k, Sigma0 (tr a b s x) j k = a 0 j * a 0 k * Sigma0 x (s j) (s k)).
Proof. move=> F n d a b s x. exact: init_equivariant. Qed.
Print Assumptions C19_init_equivariant.

Theorem C19_init_location_in_box :
  forall (F : realFieldType) (n d : nat) (x : 'I_n -> 'rV[F]_d) (j : 'I_d) (lo hi : F),
  (0 < n)%N -> (forall i, lo <= x i 0 j <= hi) -> lo <= mu0 x 0 j <= hi.
Proof. move=> F n d x j lo hi. exact: init_location_in_box. Qed.
Print Assumptions C19_init_location_in_box.

(** symmetric, and positive definite as soon as no coordinate is constant (non-degenerate data) *)
Theorem C19_init_scale_spd :
  forall (F : realFieldType) (n d : nat) (x : 'I_n -> 'rV[F]_d),
  (forall j k, Sigma0 x j k = Sigma0 x k j)
  /\ ((0 < n)%N -> (forall j, exists i1 i2, x i1 0 j != x i2 0 j) ->
      forall v : 'rV[F]_d, v != 0 -> 0 < \sum_j \sum_k v 0 j * Sigma0 x j k * v 0 k).
Proof.
  move=> F n d x; split; first exact: init_scale_symmetric.
  move=> npos nd v vnz. apply: init_scale_posdef => // j.
  case: (nd j) => i1 [i2 ne]. exact: (var_pos npos ne).
Qed.
Print Assumptions C19_init_scale_spd.
