(** C18 — Invalid configurations are rejected up front; valid ones always run. Statements only. *)
From Coq Require Import List Bool Arith ZArith QArith String.
From Coq Require Import Qround.
From Tempest Require Import Model.Config Proofs.Config Link.Config Model.Cluster Proofs.Cluster Model.KernelLoop Proofs.KernelLoop.
Import ListNotations.

(** the validator is neither weaker nor stricter than the documented constraints *)
Theorem C18_rejects_and_accepts : forall c, accepts c = true <-> documented_ok c.
Proof. exact accepts_iff_documented. Qed.
Print Assumptions C18_rejects_and_accepts.

Corollary C18_rejects : forall c, ~ documented_ok c -> accepts c = false.
Proof. intros c H. destruct (accepts c) eqn:E; [|reflexivity]. exfalso. apply H. now apply accepts_iff_documented. Qed.
Print Assumptions C18_rejects.

(** validation happens in the configuration object, which is built before the core and the steps, and
    no user callback is invoked on the construction path *)
Theorem C18_before_any_call :
  Gen.Config.post_init_calls_validate = true /\ Gen.Config.config_built_before_core_and_steps = true
  /\ Gen.Config.callbacks_called_during_construction = 0%nat.
Proof. repeat split. Qed.
Print Assumptions C18_before_any_call.

(** the option-dependent run-time hazard of the clustering cadence is excluded for every cluster_every >= 1
    (composition with C14; the remaining hazards are covered by C06, C08, C12) *)
Theorem C18_cadence_hazard_free : forall every flags it fitted,
  trainer_run true every it flags fitted <> PredictOnUnfitted.
Proof. intros. apply never_unfitted. Qed.
Print Assumptions C18_cadence_hazard_free.

(** liveness of the kernel: for every acceptance / step-size history (the adaptive step count is an arbitrary oracle) the inner
    MCMC loop stops within max(1, floor(n_max_steps * n_dim)) iterations - a valid configuration cannot hang inside a kernel call *)
Theorem C18_kernel_loop_terminates : forall smin smax oracle fuel,
  (Z.to_nat (Z.max 1 (Qfloor smax)) <= fuel)%nat ->
  exists it, kernel_loop fuel 0 smin smax oracle = Some it /\ (1 <= it <= Z.max 1 (Qfloor smax))%Z.
Proof. exact kernel_loop_terminates. Qed.
Print Assumptions C18_kernel_loop_terminates.

Example C18_instances :
  accepts (mkConfig (PInt 2) PNone (PFloat (2#1)) PNone "tpcn" "mult" false false (Some [PInt 0]) (Some [PInt 1])) = true
  /\ accepts (mkConfig (PInt 2) (PFloat (10#1)) (PInt 2) PNone "tpcn" "mult" false false None None) = false
  /\ accepts (mkConfig (PInt 2) PNone (PInt 2) PNone "tpcn" "mult" false false (Some [PInt 0]) (Some [PInt 0])) = false
  /\ accepts (mkConfig (PInt 2) PNone (PInt 2) (PFloat 0) "tpcn" "mult" false false None None) = false
  /\ accepts (mkConfig (PInt 2) PNone (PInt 2) PNone "hmc" "mult" false false None None) = false
  /\ accepts (mkConfig (PInt 2) PNone (PInt 2) PNone "rwm" "syst" true true None None) = false
  /\ accepts (mkConfig (PInt 2) PNone (PInt 2) PNone "rwm" "syst" false false (Some [PInt 2]) None) = false.
Proof. vm_compute. repeat split. Qed.
