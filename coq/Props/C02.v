(** C02 — Reported log-evidence is consistent and independent across seeded runs.
    PARTIAL: exact identities + seeding-trace facts; the 1/sqrt(R) rate and the O(1/N) bias of plug-in
    normalisers are not carried. Statements only. *)
From Coq Require Import Reals List ZArith Bool.
From Tempest Require Import Model.MIS Proofs.MIS Proofs.Estimator Model.Seeding Proofs.Seeding
     Link.MIS Link.Posterior Link.Seeding.
Import ListNotations.
Local Open Scope R_scope.

(** the evidence estimate is the log of the mean unnormalised weight (generated pieces), and run() writes the value
    recomputed at beta = 1 after the loop; evidence() returns that value *)
Theorem C02_evidence_is_mis_mean : forall H ls, H <> [] -> all_pos H -> ls <> [] ->
  code_logz H 1 ls = ln (sumR (map (fun l => exp (logw_un H 1 l)) ls) / INR (length ls))
  /\ Gen.Posterior.tail_recomputes_logz_at_one = true /\ Gen.Posterior.evidence_reads_current_logz = true.
Proof. intros. split; [now apply code_logz_is_spec|split; reflexivity]. Qed.
Print Assumptions C02_evidence_is_mis_mean.

(** the mean unnormalised weight is unbiased for Z_beta when every batch is drawn from its tempered law *)
Theorem C02_unbiased_given_exact_batches : forall X (pts : list X) (prior : X -> R) (Lb : R -> X -> R),
  (forall b x, 0 < Lb b x) -> forall comps : list comp,
  (forall c, In c comps -> 0 < c_Z c /\ (0 < c_n c)%nat) -> comps <> [] ->
  forall b, expected_estimator X pts prior Lb comps b (fun _ => 1) = sumR (map (fun x => prior x * Lb b x) pts).
Proof. intros. now apply evidence_unbiased. Qed.
Print Assumptions C02_unbiased_given_exact_batches.

(** independence of differently seeded runs, in trace form: no seeding call on a run path resets the stream to a
    constant, so the stream a run consumes is the seed's own stream advanced by its draw count *)
Theorem C02_independence_trace :
  existsb site_resets_to_constant Gen.Seeding.seed_sites = false
  /\ Gen.Seeding.seeds_forwarded_to_global_seeding_routines = 0%nat
  /\ forall G (seed : Z -> G) (advance : G -> nat -> G),
     (forall g a b, advance (advance g a) b = advance g (a + b)%nat) -> (forall g, advance g 0%nat = g) ->
     forall tr, forallb (fun o => negb (is_seed o)) tr = true ->
     forall g, exec G seed advance tr g = advance g (total_draws tr).
Proof.
  split; [exact link_no_constant_reseed|]. split; [exact link_no_forwarded_seed|].
  intros. now apply stream_position.
Qed.
Print Assumptions C02_independence_trace.
