(** C12 — run() postconditions and the posterior()/evidence() contract. Statements only. *)
From Coq Require Import List Bool Arith QArith.
From Tempest Require Import Base.Ops Model.Posterior Proofs.Posterior Link.Posterior.
Import ListNotations.

(** whatever the iteration does and however long it takes: if run()'s loop returns, the exit test
    is false on the state the caller sees: 1 - beta < tol and ESS >= n_total *)
Theorem C12_exit : forall St (step : St -> St) (beta ess : St -> Q) (tol n_total : Q) fuel s s',
  run_loop (fun s => not_termination QOps tol (beta s) (ess s) n_total) step fuel s = Some s' ->
  (1 - beta s' < tol /\ n_total <= ess s')%Q.
Proof.
  intros St step beta ess tol n_total fuel s s' H. apply run_loop_exit in H. now apply not_termination_false.
Qed.
Print Assumptions C12_exit.

(** every invariant of the iteration body survives the loop *)
Theorem C12_invariant : forall St (cond : St -> bool) (step : St -> St) (Inv : St -> Prop) fuel,
  (forall s, Inv s -> cond s = true -> Inv (step s)) ->
  forall s s', Inv s -> run_loop cond step fuel s = Some s' -> Inv s'.
Proof. intros. eapply run_loop_invariant; eauto. Qed.
Print Assumptions C12_invariant.

(** all 2^4 option combinations, all trimming / resampling outcomes: samples, log-likelihoods,
    blobs and log-weights are one and the same selection of pool rows, hence of equal length *)
Theorem C12_posterior_aligned :
  forall TX TL TB TW TQ (dx : TX) (dl : TL) (db : TB) (dw : TW) (unif : nat -> list TQ)
         (P : pool TX TL TB TW) (weights : list TQ) (trim resample rb rl : bool)
         (trim_sel : list nat) (trim_w : list TQ) (res_sel : list nat) (N : nat),
  pool_ok P N ->
  (resample = true -> forall i, In i res_sel -> (i < (if trim then length trim_sel else N))%nat) ->
  let r := posterior dx dl db dw unif P weights trim resample rb rl trim_sel trim_w res_sel in
  let sel := selection N trim resample trim_sel res_sel in
  r_x r = take dx sel (p_x P)
  /\ r_logl r = take dl sel (p_logl P)
  /\ (rl = true -> r_logw r = Some (take dw sel (p_logw P)))
  /\ (rb = true -> r_blobs r = option_map (take db sel) (p_blobs P))
  /\ length (r_x r) = length sel /\ length (r_logl r) = length sel.
Proof. intros. now apply posterior_aligned. Qed.
Print Assumptions C12_posterior_aligned.

Theorem C12_posterior_weights :
  forall TX TL TB TW (dx : TX) (dl : TL) (db : TB) (dw : TW) (P : pool TX TL TB TW) (weights : list Q)
         (trim resample rb rl : bool) (trim_sel : list nat) (trim_w : list Q) (res_sel : list nat),
  r_weights (posterior dx dl db dw unifQ P weights trim resample rb rl trim_sel trim_w res_sel)
    = (if resample then unifQ (length res_sel) else if trim then trim_w else weights)
  /\ ((0 < length res_sel)%nat -> (fold_right Qplus 0 (unifQ (length res_sel)) == 1)%Q).
Proof. intros. split; [apply posterior_weights|apply unifQ_sum]. Qed.
Print Assumptions C12_posterior_weights.

Example C12_instance :
  let P := mkPool [10;11;12;13]%nat [20;21;22;23]%nat (Some [30;31;32;33]%nat) [40;41;42;43]%nat in
  posterior 0%nat 0%nat 0%nat 0%nat (fun n => repeat 1%nat n) P [1;1;1;1]%nat true true true true
            [0;2;3]%nat [5;5;5]%nat [1;1;2]%nat
  = mkPost [12;12;13]%nat [1;1;1]%nat [22;22;23]%nat (Some [32;32;33]%nat) (Some [42;42;43]%nat).
Proof. vm_compute. reflexivity. Qed.
