(** C16 — Boundary maps fold every real number into the unit interval correctly. Statements only. *)
From Coq Require Import List Bool Arith ZArith QArith Qround.
From Tempest Require Import Base.Ops Model.Boundary Proofs.Boundary Link.Boundary.
Import ListNotations.
Local Open Scope Q_scope.

(** periodic map: value modulo 1 *)
Theorem C16_wrap : forall x,
  (0 <= wrapQ x /\ wrapQ x < 1) /\ wrapQ (x + 1) == wrapQ x /\ wrapQ (wrapQ x) == wrapQ x
  /\ (0 <= x -> x < 1 -> wrapQ x == x).
Proof.
  intro x. split; [apply wrapQ_range|]. split; [apply wrapQ_period|]. split; [apply wrapQ_idem|apply wrapQ_id].
Qed.
Print Assumptions C16_wrap.

(** reflective map: the period-2 triangle wave *)
Theorem C16_fold : forall x,
  (0 <= foldQ x /\ foldQ x <= 1) /\ (0 <= x -> x <= 1 -> foldQ x == x)
  /\ foldQ (x + 2) == foldQ x /\ foldQ (- x) == foldQ x /\ foldQ (foldQ x) == foldQ x.
Proof.
  intro x. split; [apply foldQ_range|]. split; [apply foldQ_id|]. split; [apply foldQ_period2|].
  split; [apply foldQ_even_fn|apply foldQ_idem].
Qed.
Print Assumptions C16_fold.

(** non-designated coordinates untouched; designated ones receive their map; length preserved
    (any arithmetic instance, so also binary64) *)
Theorem C16_untouched : forall T (o : Ops T) floorT is_even mod_one periodic reflective (u : list T) j d,
  ~ In j periodic -> ~ In j reflective ->
  nth j (apply_bc o floorT is_even mod_one periodic reflective u) d = nth j u d.
Proof. intros. now apply apply_bc_untouched. Qed.
Print Assumptions C16_untouched.

Theorem C16_designated : forall T (o : Ops T) floorT is_even mod_one periodic reflective (u : list T) j d,
  (j < length u)%nat ->
  (NoDup periodic -> In j periodic -> ~ In j reflective ->
     nth j (apply_bc o floorT is_even mod_one periodic reflective u) d = wrap1 mod_one (nth j u d))
  /\ (NoDup reflective -> In j reflective -> ~ In j periodic ->
     nth j (apply_bc o floorT is_even mod_one periodic reflective u) d = fold1 o floorT is_even (nth j u d))
  /\ length (apply_bc o floorT is_even mod_one periodic reflective u) = length u.
Proof.
  intros. split; [intros; now apply apply_bc_periodic|]. split; [intros; now apply apply_bc_reflective|].
  apply apply_bc_length.
Qed.
Print Assumptions C16_designated.

(** the bounds check accepts a point exactly when all remaining coordinates lie in [0,1] *)
Theorem C16_check_bounds : forall T (o : Ops T) periodic reflective (u : list T) d,
  check_bounds o periodic reflective u = true <->
  forall j, (j < length u)%nat -> ~ In j periodic -> ~ In j reflective -> in_unit o (nth j u d) = true.
Proof. intros T o periodic reflective u d. apply (check_bounds_spec o (fun x => x) (fun _ => true) (fun x => x)). Qed.
Print Assumptions C16_check_bounds.

(** symmetric proposal on the folded space, per coordinate: a displacement z taking x to
    y = F(x+z) is matched by a displacement of the same magnitude taking y back to x. *)
Theorem C16_symmetric_proposal : forall x z,
  (0 <= x -> x < 1 -> wrapQ (wrapQ (x + z) - z) == x)
  /\ (0 <= x -> x <= 1 ->
      foldQ (foldQ (x + z) + (if Z.even (Qfloor (x + z)) then - z else z)) == x).
Proof. intros x z. split; [apply wrapQ_symmetric|apply foldQ_symmetric]. Qed.
Print Assumptions C16_symmetric_proposal.

Example C16_instances :
  foldQ (5 # 2) == 1 # 2 /\ foldQ (- (13 # 10)) == 7 # 10 /\ wrapQ (- (3 # 10)) == 7 # 10
  /\ check_boundsQ [0%nat] [] [(7#2); (1#2)] = true /\ check_boundsQ [] [0%nat] [(1#2); (3#2)] = false.
Proof. vm_compute. repeat split; reflexivity. Qed.
