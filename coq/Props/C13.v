(** C13 — Likelihood evaluation strategy is transparent; calls are counted exactly. Statements only. *)
From Coq Require Import List Bool Arith Permutation.
From Tempest Require Import Model.Dispatch Proofs.Dispatch Link.Dispatch.
Import ListNotations.

(** any completion order of the worker pool (a permutation of the indexed tasks) gives map f xs *)
Theorem C13_pool_order_irrelevant : forall A B (f : A -> B) (xs : list A) (order : list (nat * A)),
  Permutation order (tasks xs) -> pool_map f order (length xs) = map (fun x => Some (f x)) xs.
Proof. intros. now apply pool_order_irrelevant. Qed.
Print Assumptions C13_pool_order_irrelevant.

Theorem C13_dispatch_transparent : forall A B (f : A -> B) (fvec : list A -> list B) (xs : list A) (s : strategy),
  fvec xs = map f xs ->
  (match s with Pool order => Permutation order (tasks xs) | _ => True end) ->
  log_like f fvec s xs = map (fun x => Some (f x)) xs.
Proof. intros. now apply dispatch_transparent. Qed.
Print Assumptions C13_dispatch_transparent.

(** for every run (any sequence of warm-up and MCMC iterations, any step counts) the counter equals
    its initial value plus the number of rows passed to the likelihood *)
Theorem C13_calls_exact : forall its c0, run_calls its c0 = c0 + rows_evaluated its.
Proof. exact calls_exact. Qed.
Print Assumptions C13_calls_exact.

Example C13_instance :
  pool_map (fun x => x * x) [(2, 7); (0, 5); (1, 6)] 3 = [Some 25; Some 36; Some 49]
  /\ run_calls [Warmup 8; Warmup 8; Mcmc 8 3; Mcmc 8 5] 0 = 80.
Proof. split; vm_compute; reflexivity. Qed.
