(** C04 — Importance weights follow the balance-heuristic mixture formula. Statements only. *)
From Coq Require Import Reals List Permutation.
From Tempest Require Import Model.MIS Proofs.MIS Link.MIS.
Import ListNotations.
Local Open Scope R_scope.

(** the evaluation in the code (log-sum-exp over iterations with log n_t - log N offsets)
    is beta*l - ln sum_t (n_t/N) exp(beta_t l - z_t); the evidence is ln of the mean unnormalised weight *)
Theorem C04_formula : forall H beta l ls, H <> [] -> all_pos H -> ls <> [] ->
  code_logw H beta l = beta * l - ln (sumR (map (fun it => INR (n_t it) / INR (Ntot H) * exp (beta_t it * l - z_t it)) H))
  /\ code_logz H beta ls = ln (sumR (map (fun l => exp (logw_un H beta l)) ls) / INR (length ls)).
Proof.
  intros H beta l ls Hne Hp Hl. split.
  - rewrite code_logw_is_spec by assumption. reflexivity.
  - rewrite code_logz_is_spec by assumption. reflexivity.
Qed.
Print Assumptions C04_formula.

Theorem C04_normalised : forall H beta ls, ls <> [] ->
  sumR (map (fun l => exp (code_logw_norm H beta ls l)) ls) = 1.
Proof.
  intros H beta ls Hl. unfold code_logw_norm.
  pose proof (normalised_sum_one (map (code_logw H beta) ls)) as E.
  rewrite map_map in E. apply E. destruct ls; [congruence|discriminate].
Qed.
Print Assumptions C04_normalised.

Theorem C04_order_independent : forall H H' beta l ls, Permutation H H' ->
  logw_un H beta l = logw_un H' beta l /\ logZ H beta ls = logZ H' beta ls.
Proof. intros. split; [now apply logw_perm|now apply logZ_perm]. Qed.
Print Assumptions C04_order_independent.

Theorem C04_shift : forall c H beta ls l, ls <> [] ->
  mix (shiftH c H) (l + c) = mix H l
  /\ logw_un (shiftH c H) beta (l + c) = logw_un H beta l + beta * c
  /\ logZ (shiftH c H) beta (map (fun l => l + c) ls) = logZ H beta ls + beta * c
  /\ logw_norm (shiftH c H) beta (map (fun l => l + c) ls) (l + c) = logw_norm H beta ls l.
Proof.
  intros. split; [apply mix_shift|]. split; [apply logw_shift|]. split; [now apply logZ_shift|now apply logw_norm_shift].
Qed.
Print Assumptions C04_shift.

Theorem C04_bounded : forall (xs : list R) M, xs <> [] ->
  (forall x, In x xs -> x <= lse xs) /\ ((forall x, In x xs -> x <= M) -> lse xs <= M + ln (INR (length xs))).
Proof. intros xs M Hne. split; [intros x Hx; now apply lse_lower|now apply lse_upper]. Qed.
Print Assumptions C04_bounded.
