(** C09 — Seeded runs are reproducible and the library never resets the global RNG. Statements only. *)
From Coq Require Import List Bool Arith ZArith.
From Tempest Require Import Model.Seeding Proofs.Seeding Link.Seeding.
Import ListNotations.

(** a run that starts by seeding with the user's random_state ends, and hence proceeds, independently
    of whatever state the global generator had before: equal random_state => equal stream *)
Theorem C09_reproducible : forall G (seed : Z -> G) (advance : G -> nat -> G) s tr g g',
  exec G seed advance (SeedUser s :: tr) g = exec G seed advance (SeedUser s :: tr) g'.
Proof. intros. apply seeded_run_reproducible. Qed.
Print Assumptions C09_reproducible.

(** any reseed to a constant makes everything after it independent of the seed in force before:
    the formal content of "replays the same innovations" *)
Theorem C09_const_reseed_forgets : forall G (seed : Z -> G) (advance : G -> nat -> G) tr,
  existsb is_seed tr = true -> forall g g', exec G seed advance tr g = exec G seed advance tr g'.
Proof. intros. now apply reseed_forgets. Qed.
Print Assumptions C09_const_reseed_forgets.

(** without seeding calls the stream position is the earlier state advanced by the number of draws, and
    different earlier states stay different (for a generator whose advance map is injective) *)
Theorem C09_stream_position : forall G (seed : Z -> G) (advance : G -> nat -> G),
  (forall g a b, advance (advance g a) b = advance g (a + b)) -> (forall g, advance g 0 = g) ->
  forall tr, forallb (fun o => negb (is_seed o)) tr = true ->
  (forall g, exec G seed advance tr g = advance g (total_draws tr))
  /\ ((forall g g' k, advance g k = advance g' k -> g = g') ->
      forall g g', g <> g' -> exec G seed advance tr g <> exec G seed advance tr g').
Proof.
  intros G seed advance Hadd H0 tr Htr. split.
  - now apply stream_position.
  - intros Hinj. now apply no_seed_keeps_dependence.
Qed.
Print Assumptions C09_stream_position.

(** the package's own seeding sites, as extracted from the source on this run *)
Theorem C09_no_const_on_paths :
  existsb site_resets_to_constant Gen.Seeding.seed_sites = false
  /\ Gen.Seeding.fresh_init_seeds_with_config_random_state = true
  /\ forallb site_guarded_by_not_none Gen.Seeding.seed_sites = true.
Proof. split; [exact link_no_constant_reseed|split; [exact link_fresh_run_seeds_with_random_state|exact link_all_guarded]]. Qed.
Print Assumptions C09_no_const_on_paths.

(** the pinned tree's clustering fit: a literal 42 reaches np.random.seed on the fit path *)
(** a resumed seeded run continues the stream of the run that wrote the checkpoint (the code records and restores the generator state:
    link_resume_continues_the_stream); seeding again on load -- the pinned rule once fresh runs are seeded -- replays it *)
Theorem C09_resume_continues_stream : forall G (seed : Z -> G) (advance : G -> nat -> G),
  (forall g a b, advance (advance g a) b = advance g (a + b)) ->
  forall s k1 k2 g0,
  advance (exec G seed advance [SeedUser s; Draw k1] g0) k2 = exec G seed advance [SeedUser s; Draw (k1 + k2)] g0.
Proof. intros G seed advance H s k1 k2 g0. now apply restore_continues. Qed.
Print Assumptions C09_resume_continues_stream.
Theorem C09_reseed_on_resume_replays : forall G (seed : Z -> G) (advance : G -> nat -> G) s k1 k2 g0,
  exec G seed advance [SeedUser s; Draw k1; SeedUser s; Draw k2] g0 = exec G seed advance [SeedUser s; Draw k2] g0.
Proof. intros. apply reseed_on_resume_replays. Qed.
Theorem C09_code_records_and_restores_the_stream : Gen.Seeding.seeded_checkpoint_records_the_stream_and_load_restores_it = true.
Proof. exact link_resume_continues_the_stream. Qed.

Example C09_const_reseed_refuted :
  site_resets_to_constant (mkSite 0 (AttributeSetFromLiteral 42) true true) = true
  /\ forall (seed : Z -> nat) adv, exec nat seed adv [Draw 3; SeedConst 42; Draw 1] 1 = exec nat seed adv [Draw 3; SeedConst 42; Draw 1] 2.
Proof. split; [reflexivity|]. intros. reflexivity. Qed.
