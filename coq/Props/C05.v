(** C05 — Temperature schedule is monotone, bounded and ESS-controlled. Statements only.
    All theorems hold for ARBITRARY oracles E (ESS as a function of beta) and V (volume metric):
    no monotonicity is assumed. *)
From Coq Require Import List Bool Arith QArith.
From Tempest Require Import Base.Ops Model.Schedule Proofs.Schedule Link.Schedule.
Import ListNotations.
Local Open Scope Q_scope.

Theorem C05_upper_limit : forall (E : Q -> Q) beta_tol fuel b0 target b, b0 <= 1 ->
  find_beta_upper_limit QOps E beta_tol fuel b0 target = Some b ->
  b0 <= b /\ b <= 1 /\ (E b0 < target -> b = b0) /\ (target <= E b0 -> target <= E b).
Proof. intros E tol. exact (upper_limit_spec E tol). Qed.
Print Assumptions C05_upper_limit.

(** 14 halvings of a bracket inside [0,1] bring it below 1e-4: the searches cannot run out of fuel *)
Theorem C05_fuel : forall (E : Q -> Q) b0 target, 0 <= b0 ->
  exists b, find_beta_upper_limit QOps E (1 # 10000) 14 b0 target = Some b.
Proof.
  intros E b0 target H0. apply upper_limit_terminates; [reflexivity|].
  assert (P : pow2 14 == 16384) by (vm_compute; reflexivity). rewrite P.
  apply Qle_trans with 1; [|vm_compute; discriminate].
  apply Qle_minus_iff. setoid_replace (1 + - (1 - b0)) with b0 by ring. exact H0.
Qed.
Print Assumptions C05_fuel.

Theorem C05_ess_mode_step : forall finite (E : Q -> Q) beta_tol ess_tol big fuel bp target out, bp <= 1 ->
  step_ess QOps finite E beta_tol ess_tol big fuel bp target = Some out ->
  bp <= new_beta out /\ new_beta out <= 1
  /\ (~ new_beta out == bp -> target <= E (new_beta out))
  /\ branch out <> 3%nat
  /\ weights_at out = new_beta out /\ ess_at out = new_beta out /\ logz_at out = new_beta out.
Proof. intros finite E tol etol big. exact (step_ess_spec finite E tol etol big). Qed.
Print Assumptions C05_ess_mode_step.

Theorem C05_volume_mode_step : forall finite (E V : Q -> Q) beta_tol ess_tol big fuel bp target vt out, bp <= 1 ->
  step_vol QOps finite E V beta_tol ess_tol big fuel bp target vt = Some out ->
  exists bu, find_beta_upper_limit QOps E beta_tol fuel bp target = Some bu
  /\ bp <= new_beta out /\ new_beta out <= bu /\ bu <= 1
  /\ (target <= E bp -> target <= E bu)
  /\ weights_at out = new_beta out /\ ess_at out = new_beta out /\ logz_at out = new_beta out.
Proof. intros finite E V tol etol big. exact (step_vol_spec finite E V tol etol big). Qed.
Print Assumptions C05_volume_mode_step.

(** whole runs: any number of iterations, each with its own arbitrary oracles, either metric mode *)
Theorem C05_schedule : forall finite beta_tol ess_tol big target vmode fuel orcs betas,
  schedule finite beta_tol ess_tol big target vmode fuel orcs 0 = Some betas -> chain_ok 0 betas.
Proof. intros. eapply schedule_monotone; [|eassumption]. discriminate. Qed.
Print Assumptions C05_schedule.

Theorem C05_bisection_in_bracket : forall finite beta_tol ess_tol big fuel mode metric target bmin bmax b,
  bmin <= bmax -> bisection QOps finite beta_tol ess_tol big fuel mode metric target bmin bmax = Some b ->
  bmin <= b /\ b <= bmax.
Proof. intros finite tol etol big. exact (bisect_range finite tol etol big). Qed.
Print Assumptions C05_bisection_in_bracket.

(** non-vacuity: a non-monotone oracle on which the step advances *)
Example C05_instance :
  let E := fun b : Q => if Qle_bool b (1#2) then 10 else if Qle_bool b (3#4) then 3 else 4 in
  exists b, option_map (@new_beta Q) (step_ess QOps (fun _ => true) E (1#10000) (1#100) 10000000000 20 0 5) = Some b
            /\ 0 < b /\ b <= 1#2.
Proof. eexists. split; [vm_compute; reflexivity|]. split; vm_compute; congruence. Qed.
