(** C02 — the warm-up part of the evidence: a zero-likelihood region of the prior is counted once, whatever the number
    of warm-up iterations (imported from the C11 development and tied to the same generated update). Statements only. *)
From Coq Require Import List Bool Arith QArith.
From Tempest Require Import Model.Warmup Proofs.Warmup Link.Warmup.
Import ListNotations.
Local Open Scope Q_scope.

Theorem C02_warmup_counted_once : forall a b, 0 < a -> a <= 1 -> 1 <= b ->
  forall batches hist, in_range a b hist -> fractions_in a b batches ->
  in_range a b (warm_run false hist batches).
Proof. exact counted_once. Qed.
Print Assumptions C02_warmup_counted_once.

(** the generated update assigns the log-fraction; it does not add it to the running evidence *)
Theorem C02_warmup_update_assigns : forall cur lf, Gen.Warmup.warmup_logz cur lf = lf.
Proof. exact link_warmup_logz. Qed.
Print Assumptions C02_warmup_update_assigns.
