(** C15 — Weighted mixture and hierarchical clustering models satisfy their invariants. Statements only. *)
From Coq Require Import List Bool Arith QArith Permutation.
From Tempest Require Import Model.Mixture Proofs.Mixture Link.Mixture.
Import ListNotations.
Local Open Scope Q_scope.

Theorem C15_weights_simplex : forall masses, nn masses -> 0 < total masses ->
  nn (mix_weights masses) /\ total (mix_weights masses) == 1.
Proof. exact mix_weights_simplex. Qed.
Print Assumptions C15_weights_simplex.

(** every covariance is symmetric and its quadratic form is non-negative, for every direction *)
Theorem C15_cov_sym_psd : forall eps r s, 0 < eps -> nn r -> nn s ->
  (forall da db, cov_entry eps r s da db == cov_entry eps r s db da)
  /\ (forall proj, 0 <= quad_form eps r s proj).
Proof. intros. split; [intros; apply cov_symmetric|intros; now apply quad_form_nonneg]. Qed.
Print Assumptions C15_cov_sym_psd.

(** each mean coordinate of a component that has mass lies in the data's range (the code divides by the mass itself, guarded only
    against a zero mass: Gen.Mixture.mean_denominator); a component without mass keeps the mean 0 *)
Theorem C15_mean_in_box : forall r s xs lo hi, nn r -> nn s -> 0 < mass r s ->
  length r = length s -> length s = length xs -> (forall x, In x xs -> lo <= x /\ x <= hi) ->
  lo <= mean_guarded r s xs /\ mean_guarded r s xs <= hi.
Proof. exact mean_in_box. Qed.
Print Assumptions C15_mean_in_box.
Theorem C15_mean_of_dead_component : forall r s xs, nn r -> nn s -> mass r s == 0 -> mean_guarded r s xs == 0.
Proof. exact mean_of_dead_component. Qed.
Print Assumptions C15_mean_of_dead_component.

(** the pinned tree's rule (denominator mass + 1e-10) only gives the box scaled by c = S/(S+eps), and leaves it: ten copies of 5 *)
Theorem C15_mean_in_shrunk_box : forall eps r s xs lo hi, 0 < eps -> nn r -> nn s ->
  length r = length s -> length s = length xs -> (forall x, In x xs -> lo <= x /\ x <= hi) ->
  let c := mass r s / (mass r s + eps) in
  c * lo <= mean_coord eps r s xs /\ mean_coord eps r s xs <= c * hi.
Proof. exact mean_in_shrunk_box. Qed.
Print Assumptions C15_mean_in_shrunk_box.
Example C15_mean_outside_box_refuted :
  let xs := repeat 5 10 in let r := repeat 1 10 in let s := repeat (1#10) 10 in
  mean_coord (1 # 10000000000) r s xs < 5 /\ mean_guarded r s xs == 5.
Proof. split; vm_compute; reflexivity. Qed.

Theorem C15_replication : forall (f : Q -> Q) xs ns, length xs = length ns ->
  total (map f (replicate xs ns)) == dot (map (fun n => inject_Z (Z.of_nat n)) ns) (map f xs).
Proof. exact replication_sum. Qed.
Print Assumptions C15_replication.

(** hierarchical model: for every split oracle whose proposals partition their parent *)
Theorem C15_partition_cap_minsize : forall n min_points oracle,
  (forall cl parent c1 c2, oracle cl = Some (parent, c1, c2) ->
     exists p, nth_error cl parent = Some p /\ Permutation (c1 ++ c2) p) ->
  forall fuel cl,
  is_partition n cl -> (forall c, In c cl -> (min_points <= length c)%nat \/ cl = [c]) ->
  let out := split_loop fuel min_points oracle cl in
  is_partition n out /\ (length out <= length cl + fuel)%nat
  /\ (forall c, In c out -> (min_points <= length c)%nat \/ out = [c]).
Proof. exact split_loop_spec. Qed.
Print Assumptions C15_partition_cap_minsize.

Theorem C15_cap : forall n min_points oracle cap all,
  (forall cl parent c1 c2, oracle cl = Some (parent, c1, c2) ->
     exists p, nth_error cl parent = Some p /\ Permutation (c1 ++ c2) p) ->
  (0 < cap)%nat -> is_partition n [all] ->
  (length (split_loop (cap - 1) min_points oracle [all]) <= cap)%nat.
Proof. exact cap_respected. Qed.
Print Assumptions C15_cap.

Theorem C15_predict_range : forall vs : list Q, vs <> [] -> (argmax vs < length vs)%nat.
Proof. exact argmax_in_range. Qed.
Print Assumptions C15_predict_range.
