(** C01 — Weighted posterior samples estimate posterior expectations consistently.
    PARTIAL: the exact identities the estimator's consistency rests on, each tied to the code; the
    finite-particle bias bound and the adaptive-kernel argument are not carried. Statements only. *)
From Coq Require Import Reals List.
From Tempest Require Import Model.MIS Proofs.MIS Proofs.Estimator Proofs.Kernel Proofs.Shift
     Link.MIS Link.Posterior Link.Schedule Link.Kernel Link.Resample.
Import ListNotations.
Local Open Scope R_scope.

(** (1) balance-heuristic mixture importance sampling is unbiased for sum_x prior(x) L(x)^beta f(x):
    every number of iterations, unequal batch sizes, any order of temperatures, any f *)
Theorem C01_mis_unbiased : forall X (pts : list X) (prior : X -> R) (Lb : R -> X -> R),
  (forall b x, 0 < Lb b x) -> forall comps : list comp,
  (forall c, In c comps -> 0 < c_Z c /\ (0 < c_n c)%nat) -> comps <> [] ->
  forall b f, expected_estimator X pts prior Lb comps b f = sumR (map (fun x => prior x * Lb b x * f x) pts).
Proof. intros. now apply mis_unbiased. Qed.
Print Assumptions C01_mis_unbiased.

(** (2) the self-normalised estimator is the ratio of two quantities with the right expectations *)
Theorem C01_selfnormalised : forall X (pts : list X) (prior : X -> R) (Lb : R -> X -> R),
  (forall b x, 0 < Lb b x) -> forall comps : list comp,
  (forall c, In c comps -> 0 < c_Z c /\ (0 < c_n c)%nat) -> comps <> [] ->
  forall b f, 0 < sumR (map (fun x => prior x * Lb b x) pts) ->
  expected_estimator X pts prior Lb comps b f / expected_estimator X pts prior Lb comps b (fun _ => 1)
  = sumR (map (fun x => prior x * Lb b x * f x) pts) / sumR (map (fun x => prior x * Lb b x) pts).
Proof. intros. now apply selfnormalised_target. Qed.
Print Assumptions C01_selfnormalised.

(** (3) the weight the code computes (C04's formula, generated pieces) is that balance-heuristic weight, and
    posterior()'s exp(logw - max)/sum is its normalisation *)
Theorem C01_weights_are_mis : forall (H : list iter) (b Lx : R), 0 < Lx -> H <> [] -> all_pos H ->
  exp (code_logw H b (ln Lx))
  = exp (b * ln Lx) / sumR (map (fun it => INR (n_t it) / INR (Ntot H) * (exp (beta_t it * ln Lx) / exp (z_t it))) H).
Proof. intros. rewrite code_logw_is_spec by assumption. now apply code_weight_is_balance_heuristic. Qed.
Print Assumptions C01_weights_are_mis.

Theorem C01_posterior_weights_normalised : forall (xs : list R) (m x : R), xs <> [] ->
  exp (x - m) / sumR (map (fun y => exp (y - m)) xs) = exp (x - lse xs).
Proof. exact maxshift_normalisation. Qed.
Print Assumptions C01_posterior_weights_normalised.

(** (4)-(6) imported ingredients: the temperature is coherent across the pipeline (C05), the mutation kernel is
    pi_beta-reversible, out-of-cube proposals being rejected (C03),
    resampling copies floor/ceil(n w) (C06) *)
Theorem C01_ingredients :
  Gen.Schedule.other_steps_writing_beta = 0%nat
  /\ Gen.Posterior.weights_are_exp_logw_normalised_at_beta_one = true
  /\ Gen.Resample.loop_bounded = true
  /\ Gen.Kernel.out_of_cube_proposals_are_rejected = true.
Proof. repeat split. Qed.
Print Assumptions C01_ingredients.
