(** C06, unbiasedness of systematic resampling, measure-free:
    for every tooth i and every index k, the offsets u0 in [0,1) for which tooth i selects k are exactly the
    half-open interval [lo i k, hi i k), and the lengths of these intervals add up, over the n teeth, to n * w_k.
    Under a uniform offset the probability of an interval is its length, so the expected number of copies of
    index k is n * w_k. *)
From Coq Require Import List Bool Arith Lia ZArith QArith Qround Lqa.
From Tempest Require Import Base.Ops Base.QFloor Model.Resample Proofs.Resample Proofs.ResampleQ.
Import ListNotations.
Local Open Scope Q_scope.

(** clamp to [0,1] *)
Definition clamp01 (t : Q) : Q := if Qle_bool t 0 then 0 else if Qle_bool 1 t then 1 else t.

Lemma clamp01_cases t :
  (t <= 0 /\ clamp01 t = 0) \/ (1 <= t /\ 0 < t /\ clamp01 t = 1) \/ (0 < t /\ t < 1 /\ clamp01 t = t).
Proof.
  unfold clamp01. destruct (Qle_bool t 0) eqn:E0.
  - left. apply Qle_bool_iff in E0. split; [exact E0|reflexivity].
  - assert (H0 : 0 < t). { apply Qnot_le_lt. intro H. apply Qle_bool_iff in H. congruence. }
    destruct (Qle_bool 1 t) eqn:E1.
    + right; left. apply Qle_bool_iff in E1. repeat split; assumption.
    + right; right. assert (t < 1). { apply Qnot_le_lt. intro H. apply Qle_bool_iff in H. congruence. }
      repeat split; assumption.
Qed.

Lemma clamp01_range t : 0 <= clamp01 t /\ clamp01 t <= 1.
Proof. destruct (clamp01_cases t) as [[? ->]|[[? [? ->]]|[? [? ->]]]]; lra. Qed.

Lemma clamp01_mono a b : a <= b -> clamp01 a <= clamp01 b.
Proof.
  intro H. destruct (clamp01_cases a) as [[? ->]|[[? [? ->]]|[? [? ->]]]];
    destruct (clamp01_cases b) as [[? ->]|[[? [? ->]]|[? [? ->]]]]; lra.
Qed.

(** membership in [a, b) of an offset in [0,1) is membership in the clamped interval *)
Lemma clamp01_interval a b u : 0 <= u -> u < 1 -> ((a <= u /\ u < b) <-> (clamp01 a <= u /\ u < clamp01 b)).
Proof.
  intros H0 H1.
  destruct (clamp01_cases a) as [[? ->]|[[? [? ->]]|[? [? ->]]]];
    destruct (clamp01_cases b) as [[? ->]|[[? [? ->]]|[? [? ->]]]]; split; intros [? ?]; split; lra.
Qed.

(** sum over the n teeth *)
Fixpoint sumQ (f : nat -> Q) (n : nat) : Q := match n with O => 0 | S m => sumQ f m + f m end.

Lemma sumQ_ext f g n : (forall i, (i < n)%nat -> f i == g i) -> sumQ f n == sumQ g n.
Proof.
  induction n as [|n IH]; intro H; cbn; [reflexivity|].
  rewrite IH by (intros; apply H; lia). rewrite (H n) by lia. reflexivity.
Qed.

Lemma sumQ_minus f g n : sumQ (fun i => f i - g i) n == sumQ f n - sumQ g n.
Proof. induction n as [|n IH]; cbn; [ring|]. rewrite IH. ring. Qed.

(** clamp to [0, m] written with the same tests *)
Definition clampN (m : nat) (t : Q) : Q := if Qle_bool t 0 then 0 else if Qle_bool (iQ m) t then iQ m else t.

Lemma clampN_cases m t :
  (t <= 0 /\ clampN m t = 0) \/ (iQ m <= t /\ 0 < t /\ clampN m t = iQ m) \/ (0 < t /\ t < iQ m /\ clampN m t = t).
Proof.
  unfold clampN. destruct (Qle_bool t 0) eqn:E0.
  - left. apply Qle_bool_iff in E0. split; [exact E0|reflexivity].
  - assert (H0 : 0 < t). { apply Qnot_le_lt. intro H. apply Qle_bool_iff in H. congruence. }
    destruct (Qle_bool (iQ m) t) eqn:E1.
    + right; left. apply Qle_bool_iff in E1. repeat split; assumption.
    + right; right. assert (t < iQ m). { apply Qnot_le_lt. intro H. apply Qle_bool_iff in H. congruence. }
      repeat split; assumption.
Qed.

(** the unit cells [i, i+1), i < m, tile [0, m): the clamped parts of t add up to t clamped to [0, m] *)
Lemma sum_clamp_cells t : forall m, sumQ (fun i => clamp01 (t - iQ i)) m == clampN m t.
Proof.
  induction m as [|m IH].
  - cbn [sumQ]. assert (Z0 : iQ 0 == 0) by reflexivity.
    destruct (clampN_cases 0 t) as [[? ->]|[[? [? ->]]|[? [? ->]]]]; lra.
  - cbn [sumQ]. rewrite IH. pose proof (iQ_S m) as ES.
    destruct (clampN_cases m t) as [[? ->]|[[? [? ->]]|[? [? ->]]]];
      destruct (clampN_cases (S m) t) as [[? ->]|[[? [? ->]]|[? [? ->]]]];
      destruct (clamp01_cases (t - iQ m)) as [[? ->]|[[? [? ->]]|[? [? ->]]]];
      assert (0 <= iQ m) by (unfold iQ; change 0 with (inject_Z 0); rewrite <- Zle_Qle; lia); lra.
Qed.

(** the interval lengths of one bin [a, b) of the cumulative weights, over the n teeth, add up to n (b - a) *)
Theorem hit_lengths_sum n a b : 0 <= a -> a <= b -> b <= 1 ->
  sumQ (fun i => clamp01 (b * iQ n - iQ i) - clamp01 (a * iQ n - iQ i)) n == iQ n * (b - a).
Proof.
  intros Ha Hab Hb.
  rewrite (sumQ_minus (fun i => clamp01 (b * iQ n - iQ i)) (fun i => clamp01 (a * iQ n - iQ i))).
  rewrite !sum_clamp_cells.
  assert (Hn : 0 <= iQ n) by (unfold iQ; change 0 with (inject_Z 0); rewrite <- Zle_Qle; lia).
  assert (Ha' : 0 <= a * iQ n /\ a * iQ n <= iQ n) by (split; nra).
  assert (Hb' : 0 <= b * iQ n /\ b * iQ n <= iQ n) by (split; nra).
  destruct (clampN_cases n (a * iQ n)) as [[? ->]|[[? [? ->]]|[? [? ->]]]];
    destruct (clampN_cases n (b * iQ n)) as [[? ->]|[[? [? ->]]|[? [? ->]]]]; nra.
Qed.

(** which offsets make tooth i select index k *)
Definition lo (x : Q) (r : list Q) (n i k : nat) : Q :=
  match k with O => 0 | S k' => clamp01 (W x r k' * iQ n - iQ i) end.
Definition hi (x : Q) (r : list Q) (n i k : nat) : Q := clamp01 (W x r k * iQ n - iQ i).

Lemma W_le_total x r k : nonneg r -> (k <= length r)%nat -> W x r k <= W x r (length r).
Proof.
  intros Hr Hk.
  assert (G : forall m, (k <= m)%nat -> W x r k <= W x r m).
  { induction m as [|m IH]; intro H.
    - assert (k = 0)%nat by lia. subst. lra.
    - destruct (Nat.eq_dec k (S m)) as [->|]; [lra|].
      specialize (IH ltac:(lia)). pose proof (W_nonneg_mono r x m Hr). lra. }
  apply G. exact Hk.
Qed.

Lemma position_scaled u0 n i t : (0 < n)%nat ->
  (t <= position QOps u0 n i <-> t * iQ n - iQ i <= u0) /\ (position QOps u0 n i < t <-> u0 < t * iQ n - iQ i).
Proof.
  intro Hn. unfold position. cbn [o_div o_add o_ofnat QOps]. fold (iQ i). fold (iQ n).
  pose proof (iQ_pos n Hn) as Hp.
  assert (Hmul : (u0 + iQ i) / iQ n * iQ n == u0 + iQ i) by (field; lra).
  split; split; intro H.
  - apply (Qmult_le_r _ _ (iQ n) Hp) in H. rewrite Hmul in H. lra.
  - apply (Qmult_le_r _ _ (iQ n) Hp). rewrite Hmul. lra.
  - apply (Qmult_lt_r _ _ (iQ n) Hp) in H. rewrite Hmul in H. lra.
  - apply (Qmult_lt_r _ _ (iQ n) Hp). rewrite Hmul. lra.
Qed.

Lemma position_lt_one u0 n i : (0 < n)%nat -> (i < n)%nat -> u0 < 1 -> position QOps u0 n i < 1.
Proof.
  intros Hn Hi Hu. apply (position_scaled u0 n i 1 Hn).
  assert (iQ i + 1 <= iQ n). { rewrite <- iQ_S. apply iQ_le. lia. } lra.
Qed.

(** tooth i selects index k exactly for the offsets in [lo, hi) *)
Theorem tooth_selects_iff x r u0 n i k :
  (0 < n)%nat -> (i < n)%nat -> 0 <= x -> nonneg r -> W x r (length r) == 1 -> 0 <= u0 -> u0 < 1 -> (k <= length r)%nat ->
  (reach x r (position QOps u0 n i) = k <-> lo x r n i k <= u0 /\ u0 < hi x r n i k).
Proof.
  intros Hn Hi Hx Hr Hone Hu0 Hu1 Hk.
  set (p := position QOps u0 n i).
  assert (Hp1 : p < 1) by (apply position_lt_one; assumption).
  pose proof (position_scaled u0 n i) as PS. fold p in PS.
  destruct k as [|k].
  - (* index 0: p < x *)
    unfold lo, hi. assert (W0 : W x r 0 = x) by (destruct r; reflexivity). rewrite W0.
    assert (E : reach x r p = 0%nat <-> p < x).
    { destruct r as [|y r'].
      - cbn [reach]. cbn [W length] in Hone. split; [intros _; lra|]. intros _. destruct (Qle_bool x p); reflexivity.
      - pose proof (reach_le_iff (y :: r') x p 0 Hr ltac:(cbn; lia)) as H. cbn [W] in H.
        split; intro A; [apply H; lia|]. apply H in A. lia. }
    rewrite E. destruct (PS x Hn) as [_ P2]. rewrite P2.
    pose proof (clamp01_interval (0 - 1) (x * iQ n - iQ i) u0 Hu0 Hu1) as CI.
    assert (C0 : clamp01 (0 - 1) = 0) by reflexivity. rewrite C0 in CI.
    split; intro A.
    + apply CI. split; lra.
    + apply CI in A. lra.
  - unfold lo, hi.
    assert (Hk' : (k < length r)%nat) by lia.
    pose proof (reach_characterisation x r p k Hr Hk') as RC.
    pose proof (W_le_total x r (S k) Hr Hk) as Hle. rewrite Hone in Hle.
    assert (E : reach x r p = S k <-> W x r k <= p /\ p < W x r (S k)).
    { rewrite RC. split.
      - intros [A|[El A]]; [exact A|]. split; [exact A|]. rewrite El. rewrite Hone. exact Hp1.
      - intro A. left. exact A. }
    rewrite E. destruct (PS (W x r k) Hn) as [P1 _]. destruct (PS (W x r (S k)) Hn) as [_ P2].
    rewrite P1, P2. apply clamp01_interval; assumption.
Qed.

(** the interval of tooth i for index k is well formed: lo <= hi, inside [0,1] *)
Lemma lo_le_hi x r n i k : nonneg r -> 0 <= x -> (k <= length r)%nat -> lo x r n i k <= hi x r n i k.
Proof.
  intros Hr Hx Hk. unfold lo, hi. destruct k as [|k].
  - apply clamp01_range.
  - apply clamp01_mono.
    assert (0 <= iQ n) by (unfold iQ; change 0 with (inject_Z 0); rewrite <- Zle_Qle; lia).
    pose proof (W_nonneg_mono r x k Hr). nra.
Qed.

(** weight of index k in the cumulative representation *)
Definition wt (x : Q) (r : list Q) (k : nat) : Q := match k with O => x | S k' => W x r (S k') - W x r k' end.

(** the n intervals of index k have total length n * w_k: the expected number of copies under a uniform offset *)
Theorem expected_copies x r n k :
  0 <= x -> nonneg r -> W x r (length r) == 1 -> (k <= length r)%nat ->
  sumQ (fun i => hi x r n i k - lo x r n i k) n == iQ n * wt x r k.
Proof.
  intros Hx Hr Hone Hk.
  assert (Hle : forall j, (j <= length r)%nat -> W x r j <= 1).
  { intros j Hj. rewrite <- Hone. apply W_le_total; assumption. }
  destruct k as [|k].
  - unfold hi, lo, wt. assert (W0 : W x r 0 = x) by (destruct r; reflexivity). rewrite W0.
    pose proof (hit_lengths_sum n 0 x ltac:(lra) Hx ltac:(specialize (Hle 0%nat ltac:(lia)); rewrite W0 in Hle; exact Hle)) as H.
    rewrite (sumQ_ext _ (fun i => clamp01 (x * iQ n - iQ i) - clamp01 (0 * iQ n - iQ i))).
    + rewrite H. ring.
    + intros i _. assert (E : clamp01 (0 * iQ n - iQ i) == 0).
      { destruct (clamp01_cases (0 * iQ n - iQ i)) as [[? ->]|[[A [? ?]]|[A [? ?]]]]; [reflexivity| |];
          assert (0 <= iQ i) by (unfold iQ; change 0 with (inject_Z 0); rewrite <- Zle_Qle; lia); lra. }
      rewrite E. reflexivity.
  - unfold hi, lo, wt.
    assert (Hk' : (k <= length r)%nat) by lia.
    pose proof (W_mono r x k Hr) as H0.
    pose proof (W_nonneg_mono r x k Hr) as H1.
    apply (hit_lengths_sum n (W x r k) (W x r (S k))); [lra|exact H1|apply Hle; exact Hk].
Qed.

(** non-vacuity: three weights 1/2, 1/4, 1/4, four teeth: index 1 has intervals of total length 4 * 1/4 = 1 *)
Example expected_copies_example :
  sumQ (fun i => hi (1#2) [1#4; 1#4] 4 i 1 - lo (1#2) [1#4; 1#4] 4 i 1) 4 == 1
  /\ hi (1#2) [1#4; 1#4] 4 2 1 == 1 /\ lo (1#2) [1#4; 1#4] 4 2 1 == 0.
Proof. repeat split; vm_compute; reflexivity. Qed.
