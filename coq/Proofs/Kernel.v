(** C03: Metropolis-Hastings detailed balance, the Student-t correction, inverse-gamma conjugacy. Over R. *)
From Coq Require Import Reals List Lra Lia.
Import ListNotations.
Local Open Scope R_scope.

(** ---- (1) generic Metropolis-Hastings on any state space ---- *)
Section MH.
Variable X : Type.
Variable pi m : X -> R.                 (* target and reference densities (unnormalised), positive *)
Variable q : X -> X -> R.               (* proposal density *)
Hypothesis pi_pos : forall x, 0 < pi x.
Hypothesis m_pos : forall x, 0 < m x.
Hypothesis q_reversible : forall x y, m x * q x y = m y * q y x.   (* q is reversible w.r.t. m *)

Definition alpha (x y : X) : R := Rmin 1 ((pi y * m x) / (pi x * m y)).
Definition flow (x y : X) : R := pi x * q x y * alpha x y.

Lemma Rmin_scale c a b : 0 <= c -> c * Rmin a b = Rmin (c * a) (c * b).
Proof.
  intro Hc. unfold Rmin. destruct (Rle_dec a b) as [H|H]; destruct (Rle_dec (c * a) (c * b)) as [H'|H']; try reflexivity.
  - exfalso. apply H'. now apply Rmult_le_compat_l.
  - assert (b < a) by lra. destruct Hc as [Hc|<-]; [|lra]. assert (c * b < c * a) by now apply Rmult_lt_compat_l. lra.
Qed.

(** detailed balance: pi(x) q(x,y) alpha(x,y) = pi(y) q(y,x) alpha(y,x) for every pair of states *)
Theorem mh_detailed_balance x y : flow x y = flow y x.
Proof.
  unfold flow, alpha.
  pose proof (pi_pos x) as Px. pose proof (pi_pos y) as Py. pose proof (m_pos x) as Mx. pose proof (m_pos y) as My.
  assert (Hq := q_reversible x y).
  (* both sides equal  (q x y / m y) * min (pi x m y) (pi y m x) *)
  assert (L : pi x * q x y * Rmin 1 (pi y * m x / (pi x * m y)) = q x y / m y * Rmin (pi x * m y) (pi y * m x)).
  { replace (pi x * q x y) with (q x y / m y * (pi x * m y)) by (field; lra).
    rewrite Rmult_assoc. rewrite Rmin_scale by (apply Rlt_le, Rmult_lt_0_compat; assumption).
    f_equal. f_equal; field; lra. }
  assert (R' : pi y * q y x * Rmin 1 (pi x * m y / (pi y * m x)) = q y x / m x * Rmin (pi y * m x) (pi x * m y)).
  { replace (pi y * q y x) with (q y x / m x * (pi y * m x)) by (field; lra).
    rewrite Rmult_assoc. rewrite Rmin_scale by (apply Rlt_le, Rmult_lt_0_compat; assumption).
    f_equal. f_equal; field; lra. }
  rewrite L, R'. rewrite (Rmin_comm (pi y * m x)). f_equal.
  apply (Rmult_eq_reg_l (m x * m y)); [|apply Rgt_not_eq, Rmult_lt_0_compat; assumption].
  replace (m x * m y * (q x y / m y)) with (m x * q x y) by (field; lra).
  replace (m x * m y * (q y x / m x)) with (m y * q y x) by (field; lra). exact Hq.
Qed.
End MH.

(** finite state space: detailed balance gives invariance of pi under the full kernel (moves + rejections) *)
Section Finite.
Variable n : nat.
Variable pi : nat -> R.
Variable K : nat -> nat -> R.           (* off-diagonal transition probabilities x -> y *)
Hypothesis balance : forall x y, pi x * K x y = pi y * K y x.
Fixpoint sum_to (k : nat) (f : nat -> R) : R := match k with O => 0 | S k' => sum_to k' f + f k' end.
(** mass arriving at y: from the moves x -> y, plus the mass that stayed at y (1 - sum_z K y z) *)
Definition next (y : nat) : R := sum_to n (fun x => pi x * K x y) + pi y * (1 - sum_to n (fun z => K y z)).
Lemma sum_to_ext k f g : (forall i, f i = g i) -> sum_to k f = sum_to k g.
Proof. intro H. induction k; cbn; [reflexivity|]. now rewrite IHk, H. Qed.
Lemma sum_to_scale k c f : sum_to k (fun i => c * f i) = c * sum_to k f.
Proof. induction k as [|k IH]; cbn [sum_to]; [now rewrite Rmult_0_r|]. rewrite IH. now rewrite Rmult_plus_distr_l. Qed.
Theorem invariant y : next y = pi y.
Proof.
  unfold next. rewrite (sum_to_ext n (fun x => pi x * K x y) (fun x => pi y * K y x)) by (intro; apply balance).
  rewrite sum_to_scale. rewrite Rmult_minus_distr_l, Rmult_1_r. unfold Rminus. rewrite (Rplus_comm (pi y)), <- Rplus_assoc, Rplus_opp_r. apply Rplus_0_l.
Qed.
End Finite.

(** ---- (2) the acceptance exponent is the log of the MH ratio ---- *)
(** Student-t log-density up to a constant: logt delta = -((nu + d)/2) ln (1 + delta/nu) *)
Definition logt (nu d delta : R) : R := - ((nu + d) / 2) * ln (1 + delta / nu).
Lemma exp_accept beta l l' lt lt' :
  exp (beta * (l' - l) + lt - lt') = (exp (beta * l') * exp lt) / (exp (beta * l) * exp lt').
Proof.
  unfold Rdiv. rewrite <- !exp_plus. rewrite <- exp_Ropp, <- exp_plus. f_equal. ring.
Qed.

(** ---- (4) inverse-gamma conjugacy of the scale ---- *)
(** unnormalised inverse-gamma kernel and the s-dependent part of a d-variate N(mu, s Sigma) density *)
Definition igk (a b s : R) : R := Rpower s (- (a + 1)) * exp (- b / s).
Definition gk (d delta s : R) : R := Rpower s (- (d / 2)) * exp (- delta / (2 * s)).
Theorem ig_conjugate nu d delta s : 0 < s ->
  igk (nu / 2) (nu / 2) s * gk d delta s = igk ((nu + d) / 2) ((nu + delta) / 2) s.
Proof.
  intro Hs. unfold igk, gk.
  replace (Rpower s (- (nu / 2 + 1)) * exp (- (nu / 2) / s) * (Rpower s (- (d / 2)) * exp (- delta / (2 * s))))
    with ((Rpower s (- (nu / 2 + 1)) * Rpower s (- (d / 2))) * (exp (- (nu / 2) / s) * exp (- delta / (2 * s)))) by ring.
  rewrite <- Rpower_plus, <- exp_plus. f_equal; [f_equal; lra|f_equal; field; lra].
Qed.

(** ---- (5) the joint density  t-mixing(s) x N(x; mu, s Sigma) x N(y; mu + a(x-mu), sigma^2 s Sigma)
    depends on (x, y) only through  delta(x) + e(x,y),  e(x,y) = Qf(y - a x)/sigma^2 (centred coordinates) *)
Definition joint (nu d dx exy s : R) : R := igk (nu / 2) (nu / 2) s * gk d dx s * gk d exy s.
Theorem joint_symmetric nu d dx dy exy eyx s : 0 < s -> dx + exy = dy + eyx ->
  joint nu d dx exy s = joint nu d dy eyx s.
Proof.
  intros Hs H. unfold joint, gk, igk.
  replace (Rpower s (- (nu / 2 + 1)) * exp (- (nu / 2) / s) * (Rpower s (- (d / 2)) * exp (- dx / (2 * s))) * (Rpower s (- (d / 2)) * exp (- exy / (2 * s))))
    with (Rpower s (- (nu / 2 + 1)) * exp (- (nu / 2) / s) * Rpower s (- (d / 2)) * Rpower s (- (d / 2)) * (exp (- dx / (2 * s)) * exp (- exy / (2 * s)))) by ring.
  replace (Rpower s (- (nu / 2 + 1)) * exp (- (nu / 2) / s) * (Rpower s (- (d / 2)) * exp (- dy / (2 * s))) * (Rpower s (- (d / 2)) * exp (- eyx / (2 * s))))
    with (Rpower s (- (nu / 2 + 1)) * exp (- (nu / 2) / s) * Rpower s (- (d / 2)) * Rpower s (- (d / 2)) * (exp (- dy / (2 * s)) * exp (- eyx / (2 * s)))) by ring.
  f_equal. rewrite <- !exp_plus. f_equal.
  replace (- dx / (2 * s) + - exy / (2 * s)) with (- (dx + exy) / (2 * s)) by (field; lra).
  replace (- dy / (2 * s) + - eyx / (2 * s)) with (- (dy + eyx) / (2 * s)) by (field; lra). now rewrite H.
Qed.

(** ---- (7) hard boundaries: what "redraw until inside the cube" does ---- *)
Section Redraw.
Variable X : Type.
Variable pi : X -> R.                    (* tempered target on the cube *)
Variable phi : X -> X -> R.              (* symmetric step density (RWM: Gaussian of y - x) *)
Variable Pin : X -> R.                   (* probability that a step from x lands inside the cube *)
Hypothesis pi_pos : forall x, 0 < pi x.
Hypothesis Pin_pos : forall x, 0 < Pin x.
Hypothesis phi_sym : forall x y, phi x y = phi y x.

(** redrawing until the proposal is inside turns the step density into phi(x,y)/Pin(x) *)
Definition q_redraw (x y : X) : R := phi x y / Pin x.
(** the kernel's acceptance probability ignores Pin: min(1, pi y / pi x) *)
Definition alpha_code (x y : X) : R := Rmin 1 (pi y / pi x).

(** the chain the code runs is in detailed balance with pi * Pin, NOT with pi *)
Theorem redraw_balances_tilted_target x y :
  (pi x * Pin x) * q_redraw x y * alpha_code x y = (pi y * Pin y) * q_redraw y x * alpha_code y x.
Proof.
  pose proof (mh_detailed_balance X (fun z => pi z * Pin z) Pin q_redraw) as H.
  assert (Hp : forall z, 0 < pi z * Pin z) by (intro; apply Rmult_lt_0_compat; auto).
  assert (Hq : forall a b, Pin a * q_redraw a b = Pin b * q_redraw b a).
  { intros a b. unfold q_redraw. pose proof (Pin_pos a). pose proof (Pin_pos b). rewrite (phi_sym b a). field. split; lra. }
  specialize (H Hp Pin_pos Hq x y). unfold flow, alpha in H.
  assert (E : forall a b, pi b * Pin b * Pin a / (pi a * Pin a * Pin b) = pi b / pi a).
  { intros a b. pose proof (Pin_pos a). pose proof (Pin_pos b). pose proof (pi_pos a). field. repeat split; lra. }
  rewrite !E in H. exact H.
Qed.

(** counting an outside proposal as a rejection keeps the step density symmetric: detailed balance with pi *)
Theorem reject_outside_balances_target x y :
  pi x * phi x y * alpha_code x y = pi y * phi y x * alpha_code y x.
Proof.
  pose proof (mh_detailed_balance X pi (fun _ => 1) phi pi_pos (fun _ => Rlt_0_1)) as H.
  assert (Hq : forall a b, 1 * phi a b = 1 * phi b a) by (intros; rewrite phi_sym; reflexivity).
  specialize (H Hq x y). unfold flow, alpha in H.
  assert (E : forall a b, pi b * 1 / (pi a * 1) = pi b / pi a) by (intros a b; pose proof (pi_pos a); field; lra).
  rewrite !E in H. exact H.
Qed.
End Redraw.

(** ---- (7b) the rule the code uses now: one draw; a proposal outside the cube is rejected ----
    X is the whole space the proposal ranges over, [inside] the unit cube. The target is pi on the cube and 0 outside;
    the reference density m (Student-t for tpCN, constant for RWM) is positive everywhere and q is m-reversible on the
    whole space. The acceptance probability is the Metropolis-Hastings one for inside proposals and 0 for outside ones. *)
Section RejectOutside.
Variable X : Type.
Variable inside : X -> bool.
Variable pi m : X -> R.
Variable q : X -> X -> R.
Hypothesis pi_pos_inside : forall x, inside x = true -> 0 < pi x.
Hypothesis m_pos : forall x, 0 < m x.
Hypothesis q_reversible : forall x y, m x * q x y = m y * q y x.

Definition pi_ext (x : X) : R := if inside x then pi x else 0.
Definition alpha_rej (x y : X) : R := if inside y then Rmin 1 ((pi y * m x) / (pi x * m y)) else 0.

(** detailed balance with the zero-extended target, for EVERY pair of points of the whole space *)
Theorem reject_outside_detailed_balance x y :
  pi_ext x * q x y * alpha_rej x y = pi_ext y * q y x * alpha_rej y x.
Proof.
  unfold pi_ext, alpha_rej. destruct (inside x) eqn:Ex; destruct (inside y) eqn:Ey; try ring.
  set (pi' := fun z => if inside z then pi z else 1).
  assert (Hp : forall z, 0 < pi' z). { intro z. unfold pi'. destruct (inside z) eqn:E; [now apply pi_pos_inside|lra]. }
  pose proof (mh_detailed_balance X pi' m q Hp m_pos q_reversible x y) as H.
  unfold flow, alpha, pi' in H. rewrite Ex, Ey in H. exact H.
Qed.

(** the chain never leaves the cube: from an inside point, an outside proposal has acceptance probability 0 *)
Lemma reject_outside_stays_inside x y : inside y = false -> alpha_rej x y = 0.
Proof. intro E. unfold alpha_rej. now rewrite E. Qed.
End RejectOutside.

(** ---- (7c) periodic and reflective coordinates under the SYMMETRIC (RWM) proposal ----
    The density of "u + step, then wrap into [0,1)" at u' is the sum over the pre-images u' + k of the step density;
    for "fold" the pre-images are u' + 2k and -u' + 2k. For an even step density both sums are symmetric in (u, u'),
    for every symmetric truncation |k| <= K - so wrapping/folding keeps the RWM proposal symmetric and the plain
    Metropolis ratio exact. *)
Section WrapFold.
Variable phi : R -> R.
Hypothesis phi_even : forall t, phi (- t) = phi t.

Fixpoint sym_sum (K : nat) (f : Z -> R) : R :=
  match K with O => f 0%Z | S K' => sym_sum K' f + (f (Z.of_nat K) + f (- Z.of_nat K)%Z) end.

Lemma sym_sum_ext K f g : (forall k, f k + f (- k)%Z = g k + g (- k)%Z) -> f 0%Z = g 0%Z -> sym_sum K f = sym_sum K g.
Proof. intros H H0. induction K as [|K IH]; cbn [sym_sum]; [exact H0|]. rewrite IH. f_equal. apply H. Qed.

Definition q_wrap (K : nat) (u u' : R) : R := sym_sum K (fun k => phi (u' - u + IZR k)).
Definition q_fold (K : nat) (u u' : R) : R := sym_sum K (fun k => phi (u' - u + 2 * IZR k) + phi (- u' - u + 2 * IZR k)).

Theorem wrap_symmetric K u u' : q_wrap K u u' = q_wrap K u' u.
Proof.
  unfold q_wrap. apply sym_sum_ext.
  - intro k. rewrite opp_IZR.
    replace (u - u' + IZR k) with (- (u' - u + - IZR k)) by ring.
    replace (u - u' + - IZR k) with (- (u' - u + IZR k)) by ring.
    rewrite !phi_even. ring.
  - replace (u - u' + 0) with (- (u' - u + 0)) by ring. now rewrite phi_even.
Qed.

Theorem fold_symmetric K u u' : q_fold K u u' = q_fold K u' u.
Proof.
  unfold q_fold. apply sym_sum_ext.
  - intro k. rewrite opp_IZR.
    replace (u - u' + 2 * IZR k) with (- (u' - u + 2 * - IZR k)) by ring.
    replace (u - u' + 2 * - IZR k) with (- (u' - u + 2 * IZR k)) by ring.
    replace (- u - u' + 2 * IZR k) with (- u' - u + 2 * IZR k) by ring.
    replace (- u - u' + 2 * - IZR k) with (- u' - u + 2 * - IZR k) by ring.
    rewrite !phi_even. ring.
  - replace (u - u' + 2 * 0) with (- (u' - u + 2 * 0)) by ring. rewrite phi_even.
    replace (- u - u' + 2 * 0) with (- u' - u + 2 * 0) by ring. reflexivity.
Qed.
End WrapFold.

(** ---- two coordinates, a step law that is even only under the JOINT sign change (a correlated Gaussian): wrapping the
    first coordinate keeps the step symmetric, folding it does not. This is why the RWM runner wraps periodic coordinates
    but rejects at reflective walls. ---- *)
Section Wrap2.
Variable phi2 : R -> R -> R.
Hypothesis phi2_even : forall a b, phi2 (- a) (- b) = phi2 a b.
Definition q_wrap2 (K : nat) (u1 u2 v1 v2 : R) : R := sym_sum K (fun k => phi2 (v1 - u1 + IZR k) (v2 - u2)).
Theorem wrap2_symmetric K u1 u2 v1 v2 : q_wrap2 K u1 u2 v1 v2 = q_wrap2 K v1 v2 u1 u2.
Proof.
  unfold q_wrap2. apply sym_sum_ext.
  - intro k. rewrite opp_IZR.
    replace (u1 - v1 + IZR k) with (- (v1 - u1 + - IZR k)) by ring.
    replace (u1 - v1 + - IZR k) with (- (v1 - u1 + IZR k)) by ring.
    replace (u2 - v2) with (- (v2 - u2)) by ring.
    rewrite !phi2_even. ring.
  - replace (u1 - v1 + 0) with (- (v1 - u1 + 0)) by ring. replace (u2 - v2) with (- (v2 - u2)) by ring. now rewrite phi2_even.
Qed.
End Wrap2.

Definition q_fold2 (phi2 : R -> R -> R) (K : nat) (u1 u2 v1 v2 : R) : R :=
  sym_sum K (fun k => phi2 (v1 - u1 + 2 * IZR k) (v2 - u2) + phi2 (- v1 - u1 + 2 * IZR k) (v2 - u2)).

(** a step density supported on positively correlated displacements shorter than one (even under the joint sign change) *)
Definition phi_corr (a b : R) : R := if Rlt_dec 0 (a * b) then (if Rlt_dec (a * a) 1 then 1 else 0) else 0.
Lemma phi_corr_even a b : phi_corr (- a) (- b) = phi_corr a b.
Proof. unfold phi_corr. replace (- a * - b) with (a * b) by ring. replace (- a * - a) with (a * a) by ring. reflexivity. Qed.
Lemma phi_corr_far a b : 1 <= a * a -> phi_corr a b = 0.
Proof. intro H. unfold phi_corr. destruct (Rlt_dec 0 (a * b)); [|reflexivity]. destruct (Rlt_dec (a * a) 1); [lra|reflexivity]. Qed.
Lemma phi_corr_anti a b : a * b <= 0 -> phi_corr a b = 0.
Proof. intro H. unfold phi_corr. destruct (Rlt_dec 0 (a * b)); [lra|reflexivity]. Qed.

Lemma sym_sum_zero_tail K f : (forall k, (1 <= k)%nat -> f (Z.of_nat k) = 0 /\ f (- Z.of_nat k)%Z = 0) -> sym_sum K f = f 0%Z.
Proof.
  intro H. induction K as [|K IH]; cbn [sym_sum]; [reflexivity|].
  rewrite IH. destruct (H (S K)) as [A B]; [lia|]. rewrite A, B. ring.
Qed.

(** from (1/5, 0) the folded step never reaches (1/10, 1/2); from (1/10, 1/2) it reaches (1/5, 0) with density 1: whatever
    the truncation K of the image sum *)
Example fold2_not_symmetric K :
  q_fold2 phi_corr K (1/5) 0 (1/10) (1/2) = 0 /\ q_fold2 phi_corr K (1/10) (1/2) (1/5) 0 = 1.
Proof.
  assert (Hk : forall k, (1 <= k)%nat -> 1 <= IZR (Z.of_nat k)).
  { intros k Hk. apply IZR_le. lia. }
  unfold q_fold2. split; rewrite sym_sum_zero_tail.
  - rewrite !phi_corr_anti; [ring| |]; cbn; nra.
  - intros k Hk1. specialize (Hk k Hk1). rewrite opp_IZR. set (z := IZR (Z.of_nat k)) in *.
    split; rewrite !phi_corr_far; try ring; nra.
  - rewrite (phi_corr_anti (1/5 - 1/10 + 2 * 0)); [|nra].
    unfold phi_corr. destruct (Rlt_dec 0 ((- (1/5) - 1/10 + 2 * 0) * (0 - 1/2))) as [_|N]; [|exfalso; apply N; nra].
    destruct (Rlt_dec ((- (1/5) - 1/10 + 2 * 0) * (- (1/5) - 1/10 + 2 * 0)) 1) as [_|N]; [ring|exfalso; apply N; nra].
  - intros k Hk1. specialize (Hk k Hk1). rewrite opp_IZR. set (z := IZR (Z.of_nat k)) in *.
    split; rewrite !phi_corr_far; try ring; nra.
Qed.

(** a proposal that is reversible w.r.t. a NON-periodic reference m (tpCN: it contracts towards the mode mean) does not
    stay m-reversible when wrapped: on the integers with m(x) = 2^-|x| and q(x,y) = m(y) [|x-y| <= 1], wrapped onto the
    residues mod 3, the pair (0, 2) has m(0) q~(0,2) = 1/2 but m(2) q~(2,0) = 1/32. This is why the tpCN runner rejects
    instead of wrapping. *)
Definition m_ex (x : Z) : R := / 2 ^ Z.abs_nat x.
Definition q_ex (x y : Z) : R := if Z.leb (Z.abs (x - y)) 1 then m_ex y else 0.
Definition q_ex_wrapped (x y : Z) : R := q_ex x (y - 3) + q_ex x y + q_ex x (y + 3).
Lemma q_ex_reversible x y : m_ex x * q_ex x y = m_ex y * q_ex y x.
Proof.
  unfold q_ex. replace (Z.abs (y - x)) with (Z.abs (x - y)) by (rewrite <- Z.abs_opp; f_equal; ring).
  destruct (Z.leb (Z.abs (x - y)) 1); ring.
Qed.

Example wrapped_contracting_proposal_not_reversible :
  m_ex 0 * q_ex_wrapped 0 2 = / 2 /\ m_ex 2 * q_ex_wrapped 2 0 = / 32 /\ / 2 <> / 32.
Proof.
  unfold q_ex_wrapped, q_ex, m_ex. cbn.
  change (Pos.to_nat 1) with 1%nat. change (Pos.to_nat 2) with 2%nat. change (Pos.to_nat 3) with 3%nat.
  cbn [pow]. split; [|split]; lra.
Qed.

(** the Student-t correction: the code's exponent is the log of the MH ratio with reference density t *)
Theorem accept_is_mh_ratio beta l l' nu d delta delta' :
  exp (beta * (l' - l) + (logt nu d delta - logt nu d delta'))
  = (exp (beta * l') * exp (logt nu d delta)) / (exp (beta * l) * exp (logt nu d delta')).
Proof. replace (beta * (l' - l) + (logt nu d delta - logt nu d delta')) with (beta * (l' - l) + logt nu d delta - logt nu d delta') by ring. apply exp_accept. Qed.

Lemma cn_coefficients sigma : 0 <= sigma <= 1 -> sqrt (1 - sigma * sigma) * sqrt (1 - sigma * sigma) + sigma * sigma = 1.
Proof. intros [H0 H1]. rewrite sqrt_sqrt; [lra|]. assert (sigma * sigma <= 1) by nra. lra. Qed.
