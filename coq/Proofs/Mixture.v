From Coq Require Import List Bool Arith ZArith QArith Lqa Lia Permutation.
From Tempest Require Import Model.Mixture.
Import ListNotations.
Local Open Scope Q_scope.

Definition nn (l : list Q) : Prop := forall x, In x l -> 0 <= x.

Lemma total_cons x l : total (x :: l) = x + total l. Proof. reflexivity. Qed.
Lemma nn_cons x l : nn (x :: l) -> 0 <= x /\ nn l.
Proof. intro H. split; [apply H; now left|intros y Hy; apply H; now right]. Qed.
Lemma total_nn l : nn l -> 0 <= total l.
Proof. induction l as [|x l IH]; intro H; [cbn; lra|]. rewrite total_cons. apply nn_cons in H. destruct H. specialize (IH H0). lra. Qed.

Lemma had_cons x a y b : had (x :: a) (y :: b) = x * y :: had a b. Proof. reflexivity. Qed.
Lemma had_nn a b : nn a -> nn b -> nn (had a b).
Proof.
  revert b; induction a as [|x a IH]; intros [|y b] Ha Hb;
    try (intros w Hw; cbn in Hw; contradiction).
  rewrite had_cons. apply nn_cons in Ha. apply nn_cons in Hb. destruct Ha as [Hx Ha], Hb as [Hy Hb].
  intros w [<-|Hz]; [apply Qmult_le_0_compat; assumption|]. now apply (IH b Ha Hb).
Qed.

(** (1) component weights: non-negative, sum to one *)
Theorem mix_weights_simplex masses : nn masses -> 0 < total masses ->
  nn (mix_weights masses) /\ total (mix_weights masses) == 1.
Proof.
  intros Hn Hp. unfold mix_weights. set (S := total masses) in *. split.
  - intros z Hz. apply in_map_iff in Hz. destruct Hz as (m & <- & Hm). apply Qle_shift_div_l; [exact Hp|]. specialize (Hn m Hm). lra.
  - assert (G : forall l, total (map (fun m => m / S) l) == total l / S).
    { induction l as [|m l IH]; [cbn; unfold Qdiv; ring|]. cbn [map]. rewrite !total_cons, IH. field. lra. }
    rewrite G. subst S. field. lra.
Qed.

(** (2) covariances: v^T C v is a non-negatively weighted sum of squares (and C is symmetric) *)
Lemma dot_nn a b : nn a -> nn b -> 0 <= dot a b.
Proof.
  revert b; induction a as [|x a IH]; intros [|y b] Ha Hb; cbn; try lra.
  apply nn_cons in Ha. apply nn_cons in Hb. destruct Ha, Hb. specialize (IH b H0 H2).
  assert (0 <= x * y) by (apply Qmult_le_0_compat; assumption). lra.
Qed.
Lemma squares_nn l : nn (map (fun t => t * t) l).
Proof.
  intros z Hz. apply in_map_iff in Hz. destruct Hz as (t & <- & _).
  destruct (Qlt_le_dec t 0); [setoid_replace (t * t) with ((- t) * (- t)) by ring|]; apply Qmult_le_0_compat; lra.
Qed.
Theorem quad_form_nonneg eps r s proj : 0 < eps -> nn r -> nn s -> 0 <= quad_form eps r s proj.
Proof.
  intros He Hr Hs. unfold quad_form.
  pose proof (total_nn _ (had_nn _ _ Hr Hs)) as Hm. fold (mass r s) in Hm.
  apply Qle_shift_div_l; [lra|]. rewrite Qmult_0_l. apply dot_nn; [now apply had_nn|apply squares_nn].
Qed.
Lemma had_comm a b : had a b = had b a -> True. Proof. trivial. Qed.
Lemma had_sym : forall a b, Forall2 Qeq (had a b) (had b a).
Proof.
  induction a as [|x a IH]; intros [|y b]; try (cbn; constructor; fail).
  rewrite !had_cons. constructor; [ring|apply IH].
Qed.
Lemma dot_compat_r a : forall b b', Forall2 Qeq b b' -> dot a b == dot a b'.
Proof.
  induction a as [|x a IH]; intros b b' H; [reflexivity|]. destruct H; cbn; [reflexivity|]. rewrite H, (IH _ _ H0). reflexivity.
Qed.
Theorem cov_symmetric eps r s da db : cov_entry eps r s da db == cov_entry eps r s db da.
Proof. unfold cov_entry. rewrite (dot_compat_r _ _ _ (had_sym da db)). reflexivity. Qed.

(** (3) means: the weighted mean shrunk by c = S/(S+eps): inside the data's bounding box scaled by c *)
Lemma dot_bounds a xs lo hi : nn a -> length a = length xs -> (forall x, In x xs -> lo <= x /\ x <= hi) ->
  lo * total a <= dot a xs /\ dot a xs <= hi * total a.
Proof.
  revert xs; induction a as [|w a IH]; intros [|x xs] Hn Hl Hb; cbn in Hl; try discriminate.
  - cbn. lra.
  - apply nn_cons in Hn. destruct Hn as [Hw Hn]. rewrite total_cons. cbn [dot].
    destruct (Hb x (or_introl eq_refl)) as [B1 B2].
    destruct (IH xs Hn ltac:(lia) (fun y Hy => Hb y (or_intror Hy))) as [I1 I2]. nra.
Qed.
Theorem mean_in_shrunk_box eps r s xs lo hi : 0 < eps -> nn r -> nn s ->
  length r = length s -> length s = length xs -> (forall x, In x xs -> lo <= x /\ x <= hi) ->
  let c := mass r s / (mass r s + eps) in
  c * lo <= mean_coord eps r s xs /\ mean_coord eps r s xs <= c * hi.
Proof.
  intros He Hr Hs L1 L2 Hb c. subst c. unfold mean_coord.
  pose proof (had_nn _ _ Hr Hs) as Hh. pose proof (total_nn _ Hh) as Hm. fold (mass r s) in Hm.
  assert (Hl : length (had r s) = length xs).
  { unfold had. rewrite map_length, combine_length. lia. }
  destruct (dot_bounds (had r s) xs lo hi Hh Hl Hb) as [B1 B2]. fold (mass r s) in B1, B2.
  set (M := mass r s) in *. set (D := dot (had r s) xs) in *.
  assert (Hp : 0 < M + eps) by lra.
  split.
  - apply Qle_shift_div_l; [exact Hp|]. setoid_replace (M / (M + eps) * lo * (M + eps)) with (lo * M) by (field; lra). exact B1.
  - apply Qle_shift_div_r; [exact Hp|]. setoid_replace (M / (M + eps) * hi * (M + eps)) with (hi * M) by (field; lra). exact B2.
Qed.

(** the repaired mean lies in the bounding box itself whenever the component has mass; without mass it is 0 *)
Theorem mean_in_box r s xs lo hi : nn r -> nn s -> 0 < mass r s ->
  length r = length s -> length s = length xs -> (forall x, In x xs -> lo <= x /\ x <= hi) ->
  lo <= mean_guarded r s xs /\ mean_guarded r s xs <= hi.
Proof.
  intros Hr Hs Hm L1 L2 Hb. unfold mean_guarded, safe_mass.
  assert (E : Qle_bool (mass r s) 0 = false).
  { destruct (Qle_bool (mass r s) 0) eqn:E; [|reflexivity]. apply Qle_bool_iff in E. lra. }
  rewrite E.
  pose proof (had_nn _ _ Hr Hs) as Hh.
  assert (Hl : length (had r s) = length xs).
  { unfold had. rewrite map_length, combine_length. lia. }
  destruct (dot_bounds (had r s) xs lo hi Hh Hl Hb) as [B1 B2]. fold (mass r s) in B1, B2.
  split; [apply Qle_shift_div_l|apply Qle_shift_div_r]; try exact Hm; lra.
Qed.

Lemma dot_zero_total a xs : nn a -> total a == 0 -> dot a xs == 0.
Proof.
  revert xs. induction a as [|w a IH]; intros xs Hn Ht; [destruct xs; reflexivity|].
  apply nn_cons in Hn. destruct Hn as [Hw Hn]. rewrite total_cons in Ht. pose proof (total_nn _ Hn).
  assert (w == 0) by lra. assert (total a == 0) by lra.
  destruct xs as [|x xs]; cbn [dot]; [reflexivity|]. rewrite (IH xs Hn H1). rewrite H0. ring.
Qed.

Theorem mean_of_dead_component r s xs : nn r -> nn s -> mass r s == 0 -> mean_guarded r s xs == 0.
Proof.
  intros Hr Hs Hm. unfold mean_guarded. rewrite (dot_zero_total (had r s) xs (had_nn _ _ Hr Hs) Hm).
  unfold Qdiv. ring.
Qed.

(** (4) integer sample weights are replication: a weighted sum over (x_i, n_i) equals the plain sum
    over the replicated list *)
Lemma total_app a b : total (a ++ b) == total a + total b.
Proof. induction a as [|x a IH]; [change (total ([] ++ b)) with (total b); change (total []) with 0; ring|]. cbn [app]. rewrite !total_cons, IH. ring. Qed.
Lemma total_repeat x n : total (repeat x n) == inject_Z (Z.of_nat n) * x.
Proof. induction n as [|n IH]; [change (total (repeat x 0)) with 0; change (inject_Z (Z.of_nat 0)) with 0; ring|]. cbn [repeat]. rewrite total_cons, IH, Nat2Z.inj_succ. unfold Z.succ. rewrite inject_Z_plus. ring. Qed.
Lemma map_repeat' {A B} (f : A -> B) x n : map f (repeat x n) = repeat (f x) n.
Proof. induction n; cbn; [reflexivity|now f_equal]. Qed.
Theorem replication_sum (f : Q -> Q) xs ns : length xs = length ns ->
  total (map f (replicate xs ns)) == dot (map (fun n => inject_Z (Z.of_nat n)) ns) (map f xs).
Proof.
  revert ns; induction xs as [|x xs IH]; intros [|n ns] H; cbn in H; try discriminate; [reflexivity|].
  cbn [replicate map dot]. rewrite map_app, total_app, map_repeat', total_repeat, IH by lia. reflexivity.
Qed.

Local Close Scope Q_scope.
(** ---- hierarchical split loop ---- *)
Definition is_partition (n : nat) (cl : clusters) : Prop := Permutation (concat cl) (seq 0 n).

Lemma concat_remove_nth (cl : clusters) k c : nth_error cl k = Some c ->
  Permutation (concat cl) (c ++ concat (remove_nth k cl)).
Proof.
  revert k; induction cl as [|h cl IH]; intros [|k] H; cbn in H; try discriminate.
  - inversion H; subst. unfold remove_nth. cbn. reflexivity.
  - unfold remove_nth in *. cbn [firstn skipn concat app]. specialize (IH k H).
    rewrite IH. rewrite !app_assoc. apply Permutation_app_tail. apply Permutation_app_comm.
Qed.

(** a split that partitions its parent keeps the clusters a partition of the training points *)
Theorem split_keeps_partition n cl k parent c1 c2 :
  is_partition n cl -> nth_error cl k = Some parent -> Permutation (c1 ++ c2) parent ->
  is_partition n (apply_split cl k c1 c2).
Proof.
  intros Hp Hk Hc. unfold is_partition, apply_split in *. rewrite concat_app. cbn [concat]. rewrite app_nil_r.
  rewrite <- Hp. rewrite (concat_remove_nth cl k parent Hk). rewrite <- Hc.
  apply Permutation_app_comm.
Qed.

Lemma remove_nth_length {A} (l : list A) k : k < length l -> length (remove_nth k l) = length l - 1.
Proof.
  intro H. unfold remove_nth. rewrite app_length, firstn_length, skipn_length. lia.
Qed.

(** the loop: partition preserved, at most one new cluster per round, no accepted child below min_points *)
Theorem split_loop_spec n min_points oracle :
  (forall cl parent c1 c2, oracle cl = Some (parent, c1, c2) ->
     exists p, nth_error cl parent = Some p /\ Permutation (c1 ++ c2) p) ->
  forall fuel cl,
  is_partition n cl -> (forall c, In c cl -> min_points <= length c \/ cl = [c]) ->
  let out := split_loop fuel min_points oracle cl in
  is_partition n out /\ length out <= length cl + fuel
  /\ (forall c, In c out -> min_points <= length c \/ out = [c]).
Proof.
  intros Hor. induction fuel as [|f IH]; intros cl Hp Hm; cbn [split_loop].
  - repeat split; [exact Hp|lia|exact Hm].
  - destruct (oracle cl) as [[[parent c1] c2]|] eqn:E; [|repeat split; [exact Hp|lia|exact Hm]].
    destruct (split_ok min_points c1 c2) eqn:S; [|repeat split; [exact Hp|lia|exact Hm]].
    destruct (Hor _ _ _ _ E) as (p & Hk & Hperm).
    apply andb_true_iff in S. destruct S as [S1 S2]. apply Nat.leb_le in S1, S2.
    assert (Hlen : parent < length cl) by (apply nth_error_Some; congruence).
    specialize (IH (apply_split cl parent c1 c2) (split_keeps_partition _ _ _ _ _ _ Hp Hk Hperm)).
    assert (Hm' : forall c, In c (apply_split cl parent c1 c2) -> min_points <= length c \/ apply_split cl parent c1 c2 = [c]).
    { intros c Hc. unfold apply_split in Hc. apply in_app_or in Hc. destruct Hc as [Hc|[<-|[<-|[]]]]; try (left; assumption).
      assert (In c cl).
      { unfold remove_nth in Hc. apply in_app_or in Hc. destruct Hc as [Hc|Hc].
        - rewrite <- (firstn_skipn parent cl). apply in_or_app. now left.
        - rewrite <- (firstn_skipn (S parent) cl). apply in_or_app. now right. }
      destruct (Hm c H) as [A|A]; [now left|].
      (* cl = [c]: then c is the parent and was removed *)
      subst cl. destruct parent; [|cbn in Hlen; lia]. unfold remove_nth in Hc. cbn in Hc. destruct Hc. }
    destruct (IH Hm') as (A & B & C). repeat split; [exact A| |exact C].
    unfold apply_split in *. rewrite app_length, remove_nth_length in B by exact Hlen. cbn in B. lia.
Qed.

(** cluster cap: starting from one cluster, K <= 1 + max_iterations; with max_iterations = cap - 1, K <= cap *)
Corollary cap_respected n min_points oracle cap all :
  (forall cl parent c1 c2, oracle cl = Some (parent, c1, c2) ->
     exists p, nth_error cl parent = Some p /\ Permutation (c1 ++ c2) p) ->
  0 < cap -> is_partition n [all] ->
  length (split_loop (cap - 1) min_points oracle [all]) <= cap.
Proof.
  intros Hor Hc Hp.
  destruct (split_loop_spec n min_points oracle Hor (cap - 1) [all] Hp) as (_ & B & _).
  - intros c [<-|[]]. now right.
  - cbn in B. lia.
Qed.

(** predicted labels: the argmax over K columns is a column index *)
Lemma argmax_from_range (vs : list Q) : forall best (bestv : Q) i, best < i -> argmax_from best bestv i vs < i + length vs.
Proof.
  induction vs as [|v r IH]; intros best bestv i H; cbn; [lia|].
  destruct (Qle_bool v bestv); [specialize (IH best bestv (S i) ltac:(lia))|specialize (IH i v (S i) ltac:(lia))]; lia.
Qed.
Theorem argmax_in_range (vs : list Q) : vs <> [] -> argmax vs < length vs.
Proof.
  destruct vs as [|v r]; [congruence|]. intros _. unfold argmax.
  pose proof (argmax_from_range r 0 v 1 ltac:(lia)). cbn. lia.
Qed.
