From Coq Require Import List Bool Arith Lia QArith Lqa.
From Tempest Require Import Base.Ops Model.Posterior.
Import ListNotations.

(** ---- loop exit ---- *)
Lemma run_loop_exit {St} (cond : St -> bool) (step : St -> St) fuel : forall s s',
  run_loop cond step fuel s = Some s' -> cond s' = false.
Proof.
  induction fuel as [|f IH]; intros s s'; cbn [run_loop]; destruct (cond s) eqn:C; try discriminate.
  - intro H; inversion H; subst; exact C.
  - apply IH.
  - intro H; inversion H; subst; exact C.
Qed.

Lemma run_loop_invariant {St} (cond : St -> bool) (step : St -> St) (Inv : St -> Prop) fuel :
  (forall s, Inv s -> cond s = true -> Inv (step s)) ->
  forall s s', Inv s -> run_loop cond step fuel s = Some s' -> Inv s'.
Proof.
  intro Hstep. induction fuel as [|f IH]; intros s s' Hi; cbn [run_loop]; destruct (cond s) eqn:C; try discriminate.
  - intro H; inversion H; subst; exact Hi.
  - apply IH. now apply Hstep.
  - intro H; inversion H; subst; exact Hi.
Qed.

Local Open Scope Q_scope.
Lemma not_termination_false tol beta ess n_total :
  not_termination QOps tol beta ess n_total = false -> 1 - beta < tol /\ n_total <= ess.
Proof.
  unfold not_termination. intro H. apply orb_false_iff in H. destruct H as [H1 H2].
  unfold o_geb in H1. cbn [o_leb o_sub o_one o_ltb QOps] in *. split.
  - apply Qnot_le_lt. intro C. apply Qle_bool_iff in C. congruence.
  - now apply Qltb_ge.
Qed.
Local Close Scope Q_scope.

(** ---- plumbing ---- *)
Lemma take_length {A} (d : A) idx l : length (take d idx l) = length idx.
Proof. unfold take. apply map_length. Qed.

Lemma take_take {A} (d : A) (s2 s1 : list nat) (l : list A) :
  (forall i, In i s2 -> i < length s1) ->
  take d s2 (take d s1 l) = take d (take 0 s2 s1) l.
Proof.
  intro H. unfold take. rewrite map_map. apply map_ext_in. intros i Hi.
  rewrite (nth_indep _ d (nth 0 l d)) by (rewrite map_length; now apply H).
  now rewrite (map_nth (fun j => nth j l d) s1 0 i).
Qed.

Lemma take_seq {A} (d : A) (l : list A) : take d (seq 0 (length l)) l = l.
Proof.
  unfold take. apply nth_ext with (d := d) (d' := d).
  - now rewrite map_length, seq_length.
  - intros n Hn. rewrite map_length, seq_length in Hn.
    rewrite (nth_indep _ d (nth 0 l d)) by (now rewrite map_length, seq_length).
    rewrite (map_nth (fun j => nth j l d) (seq 0 (length l)) 0 n). now rewrite seq_nth.
Qed.

Section Align.
Context {TX TL TB TW TQ : Type} (dx : TX) (dl : TL) (db : TB) (dw : TW) (unif : nat -> list TQ).

Definition pool_ok (P : pool TX TL TB TW) (N : nat) : Prop :=
  length (p_x P) = N /\ length (p_logl P) = N /\ length (p_logw P) = N
  /\ match p_blobs P with Some b => length b = N | None => True end.

Lemma field_aligned {A} (d : A) (f : list A) (trim resample : bool) (trim_sel res_sel : list nat) (N : nat) :
  length f = N ->
  (resample = true -> forall i, In i res_sel -> i < (if trim then length trim_sel else N)) ->
  (let f1 := if trim then take d trim_sel f else f in if resample then take d res_sel f1 else f1)
  = take d (selection N trim resample trim_sel res_sel) f.
Proof.
  intros Hf Hres. unfold selection. destruct trim, resample; cbn zeta.
  - apply take_take. exact (Hres eq_refl).
  - reflexivity.
  - rewrite <- (take_seq d f) at 1. rewrite Hf. apply take_take. intros i Hi. rewrite seq_length. exact (Hres eq_refl i Hi).
  - rewrite <- Hf. symmetry. apply take_seq.
Qed.

(** for all 16 option combinations: every returned array is the SAME selection of pool rows *)
Theorem posterior_aligned (P : pool TX TL TB TW) (weights : list TQ) (trim resample rb rl : bool)
  (trim_sel : list nat) (trim_w : list TQ) (res_sel : list nat) (N : nat) :
  pool_ok P N ->
  (resample = true -> forall i, In i res_sel -> i < (if trim then length trim_sel else N)) ->
  let r := posterior dx dl db dw unif P weights trim resample rb rl trim_sel trim_w res_sel in
  let sel := selection N trim resample trim_sel res_sel in
  r_x r = take dx sel (p_x P)
  /\ r_logl r = take dl sel (p_logl P)
  /\ (rl = true -> r_logw r = Some (take dw sel (p_logw P)))
  /\ (rb = true -> r_blobs r = option_map (take db sel) (p_blobs P))
  /\ length (r_x r) = length sel /\ length (r_logl r) = length sel.
Proof.
  intros (Hx & Hl & Hw & Hb) Hres r sel.
  assert (Ex : r_x r = take dx sel (p_x P)).
  { subst r sel. unfold posterior. cbn [r_x]. now apply field_aligned. }
  assert (El : r_logl r = take dl sel (p_logl P)).
  { subst r sel. unfold posterior. cbn [r_logl]. now apply field_aligned. }
  split; [exact Ex|]. split; [exact El|]. split; [|split].
  - intros ->. subst r sel. unfold posterior. cbn [r_logw]. f_equal. now apply field_aligned.
  - intros ->. subst r sel. unfold posterior. cbn [r_blobs].
    destruct (p_blobs P) as [bl|]; cbn [option_map].
    + pose proof (field_aligned db bl trim resample trim_sel res_sel N Hb Hres) as E. cbn zeta in E.
      destruct trim, resample; cbn [option_map]; f_equal; exact E.
    + destruct trim, resample; reflexivity.
  - rewrite Ex, El, !take_length. split; reflexivity.
Qed.

Theorem posterior_weights (P : pool TX TL TB TW) (weights : list TQ) (trim resample rb rl : bool)
  (trim_sel : list nat) (trim_w : list TQ) (res_sel : list nat) :
  r_weights (posterior dx dl db dw unif P weights trim resample rb rl trim_sel trim_w res_sel)
  = if resample then unif (length res_sel) else if trim then trim_w else weights.
Proof. unfold posterior. cbn. destruct trim, resample; reflexivity. Qed.
End Align.

Local Open Scope Q_scope.
(** uniform weights ones(n)/n sum to one *)
Definition unifQ (n : nat) : list Q := repeat (1 / inject_Z (Z.of_nat n)) n.
Lemma unifQ_sum n : (0 < n)%nat -> fold_right Qplus 0 (unifQ n) == 1.
Proof.
  intro Hn. unfold unifQ. set (c := 1 / inject_Z (Z.of_nat n)).
  assert (E : forall k, fold_right Qplus 0 (repeat c k) == inject_Z (Z.of_nat k) * c).
  { induction k as [|k IH]; [cbn; ring|]. cbn [repeat fold_right]. rewrite IH, Nat2Z.inj_succ. unfold Z.succ.
    rewrite inject_Z_plus. ring. }
  rewrite E. subst c. field. intro C.
  assert (0 < inject_Z (Z.of_nat n)) by (change 0 with (inject_Z 0); rewrite <- Zlt_Qlt; lia). lra.
Qed.
