(** C03 (3): the Crank-Nicolson step is reversible for N(mu, s Sigma): pointwise symmetry of the exponent,
    for EVERY symmetric bilinear form B (B x y = x Sigma^-1 y^T in the code) over any field. *)
From mathcomp Require Import all_ssreflect all_algebra ring.
Set Implicit Arguments. Unset Strict Implicit. Unset Printing Implicit Defensive.
Import GRing.Theory.
Local Open Scope ring_scope.

Section PCN.
Variable (F : fieldType) (V : lmodType F).
Variable B : V -> V -> F.
Hypothesis Bsym : forall x y, B x y = B y x.
Hypothesis Bsubl : forall x y z, B (x - y) z = B x z - B y z.
Hypothesis Bscalel : forall a x y, B (a *: x) y = a * B x y.
Definition Qf (x : V) : F := B x x.

Lemma Bsubr x y z : B z (x - y) = B z x - B z y.
Proof. by rewrite Bsym Bsubl ![B _ z]Bsym. Qed.
Lemma Bscaler a x y : B x (a *: y) = a * B x y.
Proof. by rewrite Bsym Bscalel Bsym. Qed.

Lemma Qf_step a x y : Qf (y - a *: x) = Qf y - 2%:R * a * B x y + a ^+ 2 * Qf x.
Proof.
  rewrite /Qf Bsubl !Bsubr Bscalel !Bscaler Bscalel [B y x]Bsym. ring.
Qed.

(** energy of "x then y" for the proposal  y = a x + sigma sqrt(s) L z  (centred coordinates) *)
Definition energy (a sigma : F) (x y : V) : F := Qf x + Qf (y - a *: x) / sigma ^+ 2.

Theorem pcn_energy_symmetric (a sigma : F) x y : a ^+ 2 + sigma ^+ 2 = 1 -> sigma != 0 ->
  energy a sigma x y = energy a sigma y x.
Proof.
  move=> cn s0. rewrite /energy !Qf_step [B y x]Bsym.
  have s2 : sigma ^+ 2 != 0 by rewrite expf_neq0.
  have -> : a ^+ 2 = 1 - sigma ^+ 2 by rewrite -cn addrK.
  field. exact: s0.
Qed.
End PCN.
