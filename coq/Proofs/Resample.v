From Coq Require Import List Bool Arith Lia.
From Tempest Require Import Base.Ops Model.Resample.
Import ListNotations.

Section Generic.
Context {T : Type} (o : Ops T).

(** Facts that hold for every arithmetic instance (so also for binary64). *)
Lemma advance_bounded_some rest p j cum :
  exists j' cum' rest', advance o true rest p j cum = Some (j', cum', rest')
    /\ j <= j' /\ j' + length rest' = j + length rest.
Proof.
  revert j cum. induction rest as [|x r IH]; intros j cum; cbn [advance].
  - destruct (o_geb o p cum); eexists _, _, _; (split; [reflexivity|cbn; lia]).
  - destruct (o_geb o p cum).
    + destruct (IH (S j) (o_add o cum x)) as (j' & cum' & rest' & E & H1 & H2).
      exists j', cum', rest'. rewrite E. cbn [length]. split; [reflexivity|lia].
    + eexists _, _, _; (split; [reflexivity|cbn; lia]).
Qed.

Lemma advance_some_inv b rest p j cum j' cum' rest' :
  advance o b rest p j cum = Some (j', cum', rest') ->
  j <= j' /\ j' + length rest' = j + length rest.
Proof.
  revert j cum. induction rest as [|x r IH]; intros j cum; cbn [advance].
  - destruct (o_geb o p cum); [destruct b|]; intro E; inversion E; subst; cbn; lia.
  - destruct (o_geb o p cum).
    + intro E. apply IH in E. cbn [length]. lia.
    + intro E; inversion E; subst; cbn; lia.
Qed.

Definition nondecreasing (l : list nat) : Prop :=
  forall i k, i <= k -> k < length l -> nth i l 0 <= nth k l 0.

Lemma nondecreasing_cons a l :
  (forall x, In x l -> a <= x) -> nondecreasing l -> nondecreasing (a :: l).
Proof.
  intros Ha Hl i k Hik Hk. destruct i as [|i], k as [|k]; cbn in *; try lia.
  - apply Ha. apply nth_In. lia.
  - apply Hl; lia.
Qed.

Lemma comb_some_inv b ps : forall rest j cum out,
  comb o b ps rest j cum = Some out ->
  length out = length ps
  /\ (forall x, In x out -> j <= x /\ x <= j + length rest)
  /\ nondecreasing out.
Proof.
  induction ps as [|p ps IH]; intros rest j cum out; cbn [comb].
  - intro E; inversion E; subst. split; [reflexivity|]. split; [intros x []|].
    intros i k _ Hk; cbn in Hk; lia.
  - destruct (advance o b rest p j cum) as [[[j' cum'] rest']|] eqn:Ea; [|discriminate].
    destruct (comb o b ps rest' j' cum') as [out'|] eqn:Ec; [|discriminate].
    cbn. intro E; inversion E; subst.
    apply advance_some_inv in Ea. apply IH in Ec. destruct Ec as (Hl & Hr & Hn).
    split; [cbn; lia|]. split.
    + intros x [<-|Hx]; [lia|]. apply Hr in Hx. lia.
    + apply nondecreasing_cons; [|exact Hn]. intros x Hx. apply Hr in Hx. lia.
Qed.

Lemma comb_bounded_some ps : forall rest j cum, exists out, comb o true ps rest j cum = Some out.
Proof.
  induction ps as [|p ps IH]; intros rest j cum; cbn [comb].
  - eexists; reflexivity.
  - destruct (advance_bounded_some rest p j cum) as (j' & cum' & rest' & E & _). rewrite E.
    destruct (IH rest' j' cum') as (out & Eo). rewrite Eo. eexists; reflexivity.
Qed.

Lemma positions_length u0 size : length (positions o u0 size) = size.
Proof. unfold positions. now rewrite map_length, seq_length. Qed.

(** C06, clause "exactly n valid indices, non-decreasing", for EVERY arithmetic
    (Q and binary64 alike), every weight vector with at least one entry, every
    value [s] of the sum, every offset: the repaired loop cannot raise. *)
Theorem sysres_total_valid size w s sqrteps u0 :
  w <> [] ->
  exists idx, sysres_with_sum o true size w s sqrteps u0 = Some idx
    /\ length idx = size
    /\ (forall x, In x idx -> x < length w)
    /\ nondecreasing idx.
Proof.
  intros Hw. unfold sysres_with_sum.
  set (w' := if renorm_needed o s sqrteps then renorm o w s else w).
  assert (Hlen : length w' = length w).
  { subst w'. destruct (renorm_needed o s sqrteps); [unfold renorm; now rewrite map_length|reflexivity]. }
  destruct w' as [|x r] eqn:Ew'.
  - destruct w; [congruence|discriminate].
  - destruct (comb_bounded_some (positions o u0 size) r 0 x) as (out & Eo).
    exists out. split; [exact Eo|]. apply comb_some_inv in Eo. destruct Eo as (Hl & Hr & Hn).
    rewrite positions_length in Hl. split; [exact Hl|]. split; [|exact Hn].
    intros y Hy. apply Hr in Hy. cbn in Hlen. lia.
Qed.

(** ---- the repaired routine (clipped teeth, loop bound at the last non-zero weight) ---- *)
Lemma drop_zeros_length l : length (drop_zeros o l) <= length l.
Proof. induction l as [|x r IH]; cbn; [lia|]. destruct (is_zero o x); cbn; lia. Qed.

Lemma upto_last_nonzero_length w : length (upto_last_nonzero o w) <= length w.
Proof.
  unfold upto_last_nonzero. destruct (drop_zeros o (rev w)) as [|y r] eqn:E; [lia|].
  rewrite rev_length. pose proof (drop_zeros_length (rev w)) as H. rewrite E, rev_length in H. exact H.
Qed.

Lemma upto_last_nonzero_nonempty w : w <> [] -> upto_last_nonzero o w <> [].
Proof.
  intro Hw. unfold upto_last_nonzero. destruct (drop_zeros o (rev w)) as [|y r] eqn:E; [exact Hw|].
  intro C. apply (f_equal (@length T)) in C. rewrite rev_length in C. cbn in C. lia.
Qed.

Lemma cpositions_length u0 size : length (cpositions o u0 size) = size.
Proof. unfold cpositions. now rewrite map_length, seq_length. Qed.

(** C06, clause "exactly n valid indices, non-decreasing", for the routine as it is now, for EVERY arithmetic (Q and
    binary64 alike), every non-empty weight vector, every value [s] of the sum and every offset; moreover no index
    beyond the last non-zero weight is ever returned. *)
Theorem sysres2_total_valid size w s sqrteps u0 :
  w <> [] ->
  exists idx, sysres2_with_sum o true size w s sqrteps u0 = Some idx
    /\ length idx = size
    /\ (forall x, In x idx -> x < length (upto_last_nonzero o (if renorm_needed o s sqrteps then renorm o w s else w)))
    /\ (forall x, In x idx -> x < length w)
    /\ nondecreasing idx.
Proof.
  intros Hw. unfold sysres2_with_sum.
  set (w' := if renorm_needed o s sqrteps then renorm o w s else w).
  assert (Hlen : length w' = length w).
  { subst w'. destruct (renorm_needed o s sqrteps); [unfold renorm; now rewrite map_length|reflexivity]. }
  assert (Hw' : w' <> []). { intro C. rewrite C in Hlen. destruct w; [congruence|discriminate]. }
  pose proof (upto_last_nonzero_length w') as Hle.
  pose proof (upto_last_nonzero_nonempty w' Hw') as Hne.
  destruct (upto_last_nonzero o w') as [|x r] eqn:Eu; [congruence|].
  destruct (comb_bounded_some (cpositions o u0 size) r 0 x) as (out & Eo).
  exists out. split; [exact Eo|]. apply comb_some_inv in Eo. destruct Eo as (Hl & Hr & Hn).
  rewrite cpositions_length in Hl. split; [exact Hl|]. split; [|split; [|exact Hn]].
  - intros y Hy. apply Hr in Hy. cbn. lia.
  - intros y Hy. apply Hr in Hy. cbn in Hle. lia.
Qed.

(** Whenever the unrepaired loop does return, it returns the same thing. *)
Lemma advance_unbounded_agrees rest p j cum r :
  advance o false rest p j cum = Some r -> advance o true rest p j cum = Some r.
Proof.
  revert j cum. induction rest as [|x rs IH]; intros j cum; cbn [advance].
  - destruct (o_geb o p cum); [discriminate|auto].
  - destruct (o_geb o p cum); auto.
Qed.
End Generic.
