(** C10: adding a constant to the log-likelihood. Builds on the MIS shift laws (Proofs/MIS.v) and on the
    schedule model (Model/Schedule.v). *)
From Coq Require Import Reals List Lra Lia Bool.
From Tempest Require Import Base.Ops Model.MIS Proofs.MIS Model.Schedule.
Import ListNotations.
Local Open Scope R_scope.

(** normalised weights and their effective sample size *)
Definition nweights (H : list iter) (beta : R) (ls : list R) : list R := map (fun l => exp (logw_norm H beta ls l)) ls.
Definition essR (ws : list R) : R := 1 / sumR (map (fun w => w * w) ws).

Lemma nweights_shift c H beta ls : ls <> [] ->
  nweights (shiftH c H) beta (map (fun l => l + c) ls) = nweights H beta ls.
Proof.
  intro Hne. unfold nweights. rewrite map_map. apply map_ext_in. intros l _.
  f_equal. now apply logw_norm_shift.
Qed.

Theorem ess_shift c H beta ls : ls <> [] ->
  essR (nweights (shiftH c H) beta (map (fun l => l + c) ls)) = essR (nweights H beta ls).
Proof. intro Hne. now rewrite nweights_shift. Qed.

(** the schedule routines depend on the pool only through the oracle: pointwise equal oracles give equal
    decisions (no functional-extensionality axiom: by induction on the fuel) *)
Section Ext.
Context {T : Type} (o : Ops T) (finite : T -> bool) (bt et big : T).
Variables E E' V V' : T -> T.
Hypothesis HE : forall b, E b = E' b.
Hypothesis HV : forall b, V b = V' b.

Lemma upper_loop_ext fuel : forall target lo hi, upper_loop o E bt fuel target lo hi = upper_loop o E' bt fuel target lo hi.
Proof.
  induction fuel as [|f IH]; intros; cbn [upper_loop]; [reflexivity|].
  destruct (o_gtb o (o_sub o hi lo) bt); [|reflexivity]. rewrite HE. destruct (o_geb o _ target); apply IH.
Qed.
Lemma find_upper_ext fuel b0 target : find_beta_upper_limit o E bt fuel b0 target = find_beta_upper_limit o E' bt fuel b0 target.
Proof. unfold find_beta_upper_limit. rewrite !HE. destruct (o_ltb o _ target); [reflexivity|]. destruct (o_geb o _ target); [reflexivity|]. apply upper_loop_ext. Qed.
Lemma bisection_ext (M M' : T -> T) (HM : forall b, M b = M' b) fuel : forall mode target bmin bmax,
  bisection o finite bt et big fuel mode M target bmin bmax = bisection o finite bt et big fuel mode M' target bmin bmax.
Proof.
  induction fuel as [|f IH]; intros; cbn [bisection]; [reflexivity|]. rewrite HM.
  destruct (_ || _ || _); [reflexivity|]. destruct mode; destruct (o_ltb o _ target); apply IH.
Qed.
Theorem step_ess_ext fuel bp target : step_ess o finite E bt et big fuel bp target = step_ess o finite E' bt et big fuel bp target.
Proof.
  unfold step_ess. rewrite find_upper_ext. destruct (find_beta_upper_limit _ _ _ _ _ _) as [bu|]; [|reflexivity].
  rewrite !HE. destruct (o_leb o _ target); [reflexivity|]. destruct (o_geb o _ target); [reflexivity|].
  now rewrite (bisection_ext E E' HE).
Qed.
Theorem step_vol_ext fuel bp target vt : step_vol o finite E V bt et big fuel bp target vt = step_vol o finite E' V' bt et big fuel bp target vt.
Proof.
  unfold step_vol. rewrite find_upper_ext. destruct (find_beta_upper_limit _ _ _ _ _ _) as [bu|]; [|reflexivity].
  destruct (o_eqb o bu bp); [reflexivity|]. rewrite !HV. destruct (o_geb o vt _); [reflexivity|]. destruct (o_leb o vt _); [reflexivity|].
  now rewrite (bisection_ext V V' HV).
Qed.
End Ext.

(** the Metropolis exponent reads the log-likelihood only through a difference *)
Lemma acceptance_shift beta l l' c factor : beta * ((l' + c) - (l + c)) + factor = beta * (l' - l) + factor.
Proof. ring. Qed.

(** whole runs.  A run is a list of iterations; iteration k appends (beta_k, logZ_H(beta_k), batch_k) where
    beta_k is ANY function of the history that reads it only through normalised weights (sched), and the new
    batch's log-likelihoods are ANY function (mut) of the history that is shift-equivariant (the kernel reads
    logL through differences, the resampler through normalised weights: lemmas above). *)
Record hist := mkHist { h_iters : list iter; h_logl : list R }.
Definition shift_hist (c : R) (h : hist) : hist := mkHist (shiftH c (h_iters h)) (map (fun l => l + c) (h_logl h)).

Section Run.
Variable sched : (R -> list R) -> R.              (* chooses beta from  b |-> normalised weights at b *)
Variable mut : hist -> R -> list R.               (* the new batch's log-likelihoods *)
Hypothesis mut_equivariant : forall c h b, h_logl h <> [] -> mut (shift_hist c h) b = map (fun l => l + c) (mut h b).
Hypothesis mut_nonempty : forall h b, mut h b <> [].
Hypothesis sched_ext : forall f g, (forall b, f b = g b) -> sched f = sched g.

Definition iterate (h : hist) : hist :=
  let b := sched (fun b => nweights (h_iters h) b (h_logl h)) in
  let z := logZ (h_iters h) b (h_logl h) in
  let batch := mut h b in
  mkHist (h_iters h ++ [mkIter b z (length batch)]) (h_logl h ++ batch).

Lemma shiftH_app c a b : shiftH c (a ++ b) = shiftH c a ++ shiftH c b.
Proof. unfold shiftH. apply map_app. Qed.

Theorem iterate_shift c h : h_logl h <> [] -> iterate (shift_hist c h) = shift_hist c (iterate h).
Proof.
  intro Hne. unfold iterate. cbn [shift_hist h_iters h_logl].
  assert (Eb : sched (fun b => nweights (shiftH c (h_iters h)) b (map (fun l => l + c) (h_logl h)))
               = sched (fun b => nweights (h_iters h) b (h_logl h))).
  { apply sched_ext. intro b. now apply nweights_shift. }
  rewrite Eb. set (b := sched _).
  rewrite (mut_equivariant c h b Hne). rewrite logZ_shift by exact Hne.
  unfold shift_hist. cbn [h_iters h_logl]. rewrite shiftH_app, map_app, map_length. cbn [shiftH map beta_t z_t n_t].
  reflexivity.
Qed.

Fixpoint run (k : nat) (h : hist) : hist := match k with O => h | S k' => run k' (iterate h) end.

Lemma iterate_nonempty h : h_logl h <> [] -> h_logl (iterate h) <> [].
Proof. intros Hne C. unfold iterate in C. cbn in C. apply app_eq_nil in C. tauto. Qed.

(** simulation: the shifted run is the shift of the run, for every number of iterations *)
Theorem run_shift c k : forall h, h_logl h <> [] -> run k (shift_hist c h) = shift_hist c (run k h).
Proof.
  induction k as [|k IH]; intros h Hne; cbn [run]; [reflexivity|].
  rewrite iterate_shift by exact Hne. apply IH. now apply iterate_nonempty.
Qed.

(** hence: same temperatures, same normalised weights, every recorded evidence shifted by beta_t * c and the
    final evidence (beta = 1) by c *)
Theorem final_evidence_shift c k h : h_logl h <> [] ->
  let hk := run k h in let hk' := run k (shift_hist c h) in
  map beta_t (h_iters hk') = map beta_t (h_iters hk)
  /\ map z_t (h_iters hk') = map (fun it => z_t it + beta_t it * c) (h_iters hk)
  /\ logZ (h_iters hk') 1 (h_logl hk') = logZ (h_iters hk) 1 (h_logl hk) + c.
Proof.
  intros Hne hk hk'. subst hk hk'. rewrite run_shift by exact Hne. set (hk := run k h).
  assert (Hk : h_logl hk <> []).
  { subst hk. clear c. revert h Hne. induction k as [|k IH]; intros h Hne; cbn [run]; [exact Hne|]. apply IH. now apply iterate_nonempty. }
  cbn [shift_hist h_iters h_logl]. unfold shiftH. rewrite !map_map. cbn [beta_t z_t].
  split; [reflexivity|]. split; [reflexivity|].
  fold (shiftH c (h_iters hk)). rewrite logZ_shift by exact Hk. ring.
Qed.
End Run.
