From Coq Require Import List Bool Arith Lia Permutation.
From Tempest Require Import Model.Dispatch.
Import ListNotations.

Lemma map_fst_combine {A B} (l : list A) (l' : list B) : length l = length l' -> map fst (combine l l') = l.
Proof. revert l'; induction l as [|a l IH]; intros [|b l'] H; cbn in *; try reflexivity; try discriminate. f_equal. apply IH. lia. Qed.

Section P.
Context {A B : Type} (f : A -> B).
Let g (p : nat * A) : nat * B := (fst p, f (snd p)).

Lemma find_perm_nodup (l l' : list (nat * B)) i :
  Permutation l l' -> NoDup (map fst l) ->
  find (fun p => Nat.eqb (fst p) i) l = find (fun p => Nat.eqb (fst p) i) l'.
Proof.
  intros P. induction P as [|x l l' P IH|x y l|l l' l'' P1 IH1 P2 IH2]; intro ND; cbn.
  - reflexivity.
  - destruct (Nat.eqb (fst x) i); [reflexivity|]. apply IH. now inversion ND.
  - destruct (Nat.eqb (fst y) i) eqn:Ey, (Nat.eqb (fst x) i) eqn:Ex; try reflexivity.
    apply Nat.eqb_eq in Ey, Ex. exfalso. inversion ND as [|? ? Hni _]; subst. apply Hni. cbn. left. congruence.
  - rewrite IH1 by exact ND. apply IH2. eapply Permutation_NoDup; [apply Permutation_map; exact P1|exact ND].
Qed.

Lemma in_order_slots (xs : list A) : forall s,
  map (slot (map g (combine (seq s (length xs)) xs))) (seq s (length xs)) = map (fun x => Some (f x)) xs.
Proof.
  induction xs as [|x r IH]; intro s; [reflexivity|].
  cbn [length seq combine map]. f_equal.
  - unfold slot. cbn. now rewrite Nat.eqb_refl.
  - rewrite <- (IH (S s)). apply map_ext_in. intros i Hi. apply in_seq in Hi.
    unfold slot. cbn [find g fst]. assert (E : Nat.eqb s i = false) by (apply Nat.eqb_neq; lia). now rewrite E.
Qed.

(** C13 (1): whatever order the pool completes the tasks in, index-ordered assembly gives map f xs *)
Theorem pool_order_irrelevant (xs : list A) (order : list (nat * A)) :
  Permutation order (tasks xs) -> pool_map f order (length xs) = map (fun x => Some (f x)) xs.
Proof.
  intro P. unfold pool_map. fold g. rewrite <- (in_order_slots xs 0).
  apply map_ext. intro i. unfold slot. f_equal. apply find_perm_nodup.
  - apply Permutation_map. exact P.
  - rewrite map_map.
    rewrite (map_ext (fun x => fst (g x)) fst) by reflexivity.
    eapply Permutation_NoDup; [apply Permutation_map; apply Permutation_sym; exact P|].
    unfold tasks. rewrite map_fst_combine by now rewrite seq_length. apply seq_NoDup.
Qed.

(** C13 (2): all three evaluation strategies return the same values, for a pointwise identical
    vectorised likelihood and any completion order *)
Theorem dispatch_transparent (fvec : list A -> list B) (xs : list A) (s : strategy) :
  fvec xs = map f xs ->
  (match s with Pool order => Permutation order (tasks xs) | _ => True end) ->
  log_like f fvec s xs = map (fun x => Some (f x)) xs.
Proof.
  intros Hv Hs. destruct s; cbn [log_like].
  - rewrite Hv, map_map. reflexivity.
  - now apply pool_order_irrelevant.
  - reflexivity.
Qed.
End P.

(** C13 (3): the reported number of calls is the number of rows at which the likelihood was evaluated *)
Lemma mcmc_counter_eq n steps : mcmc_counter n steps = steps * n.
Proof.
  unfold mcmc_counter.
  assert (G : forall l c, fold_left (fun c0 (_ : nat) => c0 + n) l c = c + length l * n).
  { induction l as [|a l IH]; intro c; cbn; [lia|]. rewrite IH. lia. }
  rewrite G, seq_length. lia.
Qed.

Lemma events_sum it : fold_right plus 0 (events it) = calls_after 0 it.
Proof.
  destruct it as [n|n steps]; cbn; [lia|]. rewrite mcmc_counter_eq.
  induction steps as [|k IH]; cbn; [reflexivity|]. rewrite IH. lia.
Qed.

Lemma calls_after_shift c it : calls_after c it = c + calls_after 0 it.
Proof. destruct it; cbn; lia. Qed.

Theorem calls_exact its : forall c0, run_calls its c0 = c0 + rows_evaluated its.
Proof.
  unfold run_calls, rows_evaluated. induction its as [|it its IH]; intro c0; cbn [fold_left flat_map]; [cbn; lia|].
  rewrite IH. rewrite calls_after_shift.
  assert (E : forall a b : list nat, fold_right plus 0 (a ++ b) = fold_right plus 0 a + fold_right plus 0 b).
  { induction a as [|x a IHa]; intro b; cbn; [reflexivity|]. rewrite IHa. lia. }
  rewrite E, events_sum. lia.
Qed.
