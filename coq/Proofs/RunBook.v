(** C08: the run-level bookkeeping machine -- resume continues the run (numbers, call counter, history prefix, cadence). *)
From Coq Require Import List Bool Arith Lia QArith.
From Tempest Require Import Model.RunBook.
Import ListNotations.
Local Open Scope nat_scope.

Lemma core_iteration e1 t1 e2 t2 s s' o : core s = core s' -> core (iteration e1 t1 s o) = core (iteration e2 t2 s' o).
Proof. unfold core. intro H. injection H as Hi Hc Hh. unfold iteration. cbn [iter calls hist]. now rewrite Hi, Hc, Hh. Qed.

Lemma core_run e1 t1 e2 t2 os : forall s s', core s = core s' -> core (run e1 t1 os s) = core (run e2 t2 os s').
Proof.
  induction os as [|o os IH]; intros s s' H; cbn [run fold_left]; [exact H|].
  apply IH. now apply core_iteration.
Qed.

(** RESUME: run os1, checkpoint, load into a fresh sampler, run os2 with ANY cadence and the restart point the code takes
    (t0 = restored iteration counter) -- the iteration numbers, call counts and the whole history are those of the
    uninterrupted run over os1 ++ os2 *)
Theorem resume_continues e1 e2 os1 os2 :
  let s1 := run e1 0 os1 fresh in
  core (run e2 (iter s1) os2 (resume_from s1)) = core (run e1 0 (os1 ++ os2) fresh).
Proof.
  intros s1.
  assert (E : run e1 0 (os1 ++ os2) fresh = run e1 0 os2 s1) by (unfold run, s1; apply fold_left_app).
  rewrite E. apply core_run. reflexivity.
Qed.

Lemma run_iter e t0 os : forall s, iter (run e t0 os s) = iter s + length os.
Proof. induction os as [|o os IH]; intro s; cbn [run fold_left length]; [lia|]. fold (run e t0 os (iteration e t0 s o)). rewrite IH. cbn. lia. Qed.

(** the history only grows: the restored prefix is left as it is, one record per iteration is appended *)
Lemma run_hist_prefix e t0 os : forall s, exists tail, hist (run e t0 os s) = hist s ++ tail /\ length tail = length os.
Proof.
  induction os as [|o os IH]; intro s; cbn [run fold_left].
  - exists []. now rewrite app_nil_r.
  - fold (run e t0 os (iteration e t0 s o)). destruct (IH (iteration e t0 s o)) as (tl & E & L).
    eexists. split; [rewrite E; cbn [iteration hist]; rewrite <- app_assoc; reflexivity|]. cbn. now rewrite L.
Qed.

(** numbering: iteration numbers of the history are 1, 2, 3, ... without gap or repetition, whatever was resumed *)
Definition well_numbered (s : book) : Prop := map h_iter (hist s) = seq 1 (iter s).
Lemma iteration_numbered e t0 s o : well_numbered s -> well_numbered (iteration e t0 s o).
Proof.
  unfold well_numbered, iteration. cbn [hist iter]. intro H. rewrite map_app, H. cbn [map h_iter].
  now rewrite seq_S.
Qed.
Theorem run_numbered e t0 os : forall s, well_numbered s -> well_numbered (run e t0 os s).
Proof. induction os as [|o os IH]; intros s H; cbn [run fold_left]; [exact H|]. apply IH. now apply iteration_numbered. Qed.

(** call counter: initial value plus the rows of every iteration; each record holds the running total *)
Theorem run_calls e t0 os : forall s, calls (run e t0 os s) = calls s + fold_right plus 0 (map rows os).
Proof. induction os as [|o os IH]; intro s; cbn [run fold_left map fold_right]; [lia|]. fold (run e t0 os (iteration e t0 s o)). rewrite IH. cbn. lia. Qed.

Definition calls_consistent (s : book) : Prop :=
  forall k r, nth_error (hist s) k = Some r ->
    h_calls r = (match k with O => 0 | S k' => match nth_error (hist s) k' with Some r' => h_calls r' | None => 0 end end)
                + (if Qeq_bool (h_beta r) 0%Q then h_n r else h_steps r * h_n r).

(** invariant tying the counter to the history: the counter is the last record's total (0 for an empty history) *)
Definition counter_is_last (s : book) : Prop :=
  calls s = match rev (hist s) with [] => 0 | r :: _ => h_calls r end.
Lemma iteration_counter e t0 s o : counter_is_last (iteration e t0 s o).
Proof. unfold counter_is_last, iteration. cbn [calls hist]. rewrite rev_app_distr. reflexivity. Qed.

Theorem run_calls_consistent e t0 os : forall s, counter_is_last s -> calls_consistent s -> calls_consistent (run e t0 os s).
Proof.
  induction os as [|o os IH]; intros s Hc H; cbn [run fold_left]; [exact H|].
  apply IH; [apply iteration_counter|].
  unfold calls_consistent, iteration. cbn [hist]. intros k r Hk.
  destruct (Nat.lt_ge_cases k (length (hist s))) as [Hlt|Hge].
  - rewrite nth_error_app1 in Hk by exact Hlt. rewrite (H k r Hk). f_equal.
    destruct k as [|k']; [reflexivity|]. rewrite nth_error_app1 by lia. reflexivity.
  - rewrite nth_error_app2 in Hk by exact Hge.
    destruct (k - length (hist s)) as [|j] eqn:Ej; [|destruct j; discriminate].
    cbn in Hk. injection Hk as <-. cbn [h_calls h_beta h_n h_steps].
    assert (Ek : k = length (hist s)) by lia. subst k.
    assert (Eprev : match length (hist s) with O => 0 | S k' => match nth_error (hist s ++ [mkRec (S (iter s)) (calls s + rows o) (steps_rec o) (o_beta o) (o_n o)]) k' with Some r' => h_calls r' | None => 0 end end = calls s).
    { unfold counter_is_last in Hc. rewrite Hc. destruct (hist s) as [|a l] eqn:El using rev_ind; [reflexivity|].
      clear IHl. rewrite app_length. cbn [length]. replace (length l + 1) with (S (length l)) by lia.
      rewrite nth_error_app1 by (rewrite app_length; cbn; lia). rewrite nth_error_app2 by lia. rewrite Nat.sub_diag. cbn.
      rewrite rev_app_distr. reflexivity. }
    rewrite Eprev. unfold rows, steps_rec, warm. destruct (Qeq_bool (o_beta o) 0%Q); lia.
Qed.

(** checkpoints written by a run with cadence e restarted at t0: exactly the iteration counts t0 + k e (k >= 1) passed *)
Theorem run_saved e t0 os : forall s,
  saved (run (Some e) t0 os s) = saved s ++ filter (fun i => saves_at i t0 e) (seq (iter s) (length os)).
Proof.
  induction os as [|o os IH]; intro s; cbn [run fold_left length seq filter]; [now rewrite app_nil_r|].
  fold (run (Some e) t0 os (iteration (Some e) t0 s o)). rewrite IH. cbn [iteration saved iter].
  destruct (saves_at (iter s) t0 e); [now rewrite <- app_assoc|reflexivity].
Qed.

Example run_example :
  let os := [mkOrc 0%Q 7 8; mkOrc 0%Q 7 8; mkOrc (1#4)%Q 3 8; mkOrc 1%Q 5 8] in
  core (run (Some 2) 0 os fresh)
  = (4, 80, [mkRec 1 8 1 0%Q 8; mkRec 2 16 1 0%Q 8; mkRec 3 40 3 (1#4)%Q 8; mkRec 4 80 5 1%Q 8])
  /\ saved (run (Some 2) 0 os fresh) = [2].
Proof. vm_compute. split; reflexivity. Qed.
