From Coq Require Import Reals List Lra Lia Permutation.
From Tempest Require Import Model.MIS.
Import ListNotations.
Local Open Scope R_scope.

Lemma sumR_cons x l : sumR (x :: l) = x + sumR l. Proof. reflexivity. Qed.
Lemma sumR_nil : sumR [] = 0. Proof. reflexivity. Qed.
Lemma sumR_app a b : sumR (a ++ b) = sumR a + sumR b.
Proof. induction a as [|x a IH]; [rewrite sumR_nil; cbn [app]; lra|]. cbn [app]. rewrite !sumR_cons, IH. lra. Qed.

Lemma sumR_pos l : l <> [] -> (forall x, In x l -> 0 < x) -> 0 < sumR l.
Proof.
  induction l as [|x l IH]; intros Hne Hp; [congruence|]. rewrite sumR_cons.
  assert (0 < x) by (apply Hp; now left).
  destruct l as [|y l']; [rewrite sumR_nil; lra|].
  assert (0 < sumR (y :: l')) by (apply IH; [discriminate|intros z Hz; apply Hp; now right]). lra.
Qed.

Lemma sumR_map_exp_pos (xs : list R) : xs <> [] -> 0 < sumR (map exp xs).
Proof.
  intro H. apply sumR_pos; [destruct xs; [congruence|discriminate]|].
  intros x Hx. apply in_map_iff in Hx. destruct Hx as (y & <- & _). apply exp_pos.
Qed.

Lemma sumR_perm a b : Permutation a b -> sumR a = sumR b.
Proof. induction 1; rewrite ?sumR_cons. all: lra. Qed.

Lemma sumR_scale c l : sumR (map (Rmult c) l) = c * sumR l.
Proof. induction l as [|x l IH]; [cbn [map]; rewrite sumR_nil; lra|]. cbn [map]. rewrite !sumR_cons, IH. lra. Qed.

Lemma Ntot_cons it H : Ntot (it :: H) = (n_t it + Ntot H)%nat. Proof. reflexivity. Qed.
Lemma Ntot_perm H H' : Permutation H H' -> Ntot H = Ntot H'.
Proof. induction 1; rewrite ?Ntot_cons. all: lia. Qed.

Definition all_pos (H : list iter) : Prop := forall it, In it H -> (0 < n_t it)%nat.

Lemma Ntot_pos H : H <> [] -> all_pos H -> (0 < Ntot H)%nat.
Proof.
  destruct H as [|it H]; intros Hne Hp; [congruence|]. rewrite Ntot_cons.
  assert (0 < n_t it)%nat by (apply Hp; now left). lia.
Qed.

(** (1) the code's log-sum-exp with log(n_t) - log(N) offsets IS the balance-heuristic mixture *)
Lemma code_b_exp N l it : 0 < N -> (0 < n_t it)%nat ->
  exp (code_b N l it) = INR (n_t it) / N * exp (beta_t it * l - z_t it).
Proof.
  intros HN Hn. unfold code_b. rewrite exp_plus. unfold Rminus at 2. rewrite exp_plus, exp_Ropp.
  rewrite !exp_ln; [|exact HN|apply lt_0_INR; exact Hn].
  replace (l * beta_t it) with (beta_t it * l) by ring. unfold Rdiv. ring.
Qed.

Theorem code_B_is_logmix H l : H <> [] -> all_pos H -> code_B H l = logmix H l.
Proof.
  intros Hne Hp. unfold code_B, logmix, lse, mix. f_equal.
  assert (HN : 0 < INR (Ntot H)) by (apply lt_0_INR; now apply Ntot_pos).
  generalize dependent (INR (Ntot H)). intros N HN. clear Hne.
  induction H as [|it H IH]; [reflexivity|]. cbn [map sumR fold_right mix_terms].
  rewrite code_b_exp; [|exact HN|apply Hp; now left].
  f_equal. apply IH. intros it' Hin. apply Hp. now right.
Qed.

Theorem code_logw_is_spec H beta l : H <> [] -> all_pos H -> code_logw H beta l = logw_un H beta l.
Proof. intros. unfold code_logw, logw_un. rewrite code_B_is_logmix by assumption. ring. Qed.

Lemma map_ext_in' {A B} (f g : A -> B) l : (forall a, f a = g a) -> map f l = map g l.
Proof. intro H. apply map_ext. exact H. Qed.

Theorem code_logz_is_spec H beta ls : H <> [] -> all_pos H -> ls <> [] ->
  code_logz H beta ls = logZ H beta ls.
Proof.
  intros Hne Hp Hl. unfold code_logz, logZ, lse.
  rewrite (map_ext_in' (code_logw H beta) (logw_un H beta)) by (intro; now apply code_logw_is_spec).
  rewrite map_map.
  assert (Hs : 0 < sumR (map (fun x => exp (logw_un H beta x)) ls)).
  { rewrite <- map_map. apply sumR_map_exp_pos. destruct ls; [congruence|discriminate]. }
  assert (Hn : 0 < INR (length ls)) by (apply lt_0_INR; destruct ls; [congruence|cbn; lia]).
  unfold Rdiv. rewrite ln_mult; [|exact Hs|now apply Rinv_0_lt_compat]. rewrite ln_Rinv by exact Hn. ring.
Qed.

(** (2) normalised weights sum to one *)
Theorem normalised_sum_one (xs : list R) : xs <> [] ->
  sumR (map (fun x => exp (x - lse xs)) xs) = 1.
Proof.
  intro Hne. unfold lse. pose proof (sumR_map_exp_pos xs Hne) as Hs.
  assert (E : map (fun x => exp (x - ln (sumR (map exp xs)))) xs
              = map (Rmult (/ sumR (map exp xs))) (map exp xs)).
  { rewrite map_map. apply map_ext. intro x. unfold Rminus. rewrite exp_plus, exp_Ropp, exp_ln by exact Hs. ring. }
  rewrite E, sumR_scale. field. lra.
Qed.

(** (3) order independence: the weight depends on the history only through the multiset of iterations *)
Theorem mix_perm H H' l : Permutation H H' -> mix H l = mix H' l.
Proof.
  intro P. unfold mix. rewrite (Ntot_perm _ _ P). apply sumR_perm. unfold mix_terms. now apply Permutation_map.
Qed.
Theorem logw_perm H H' beta l : Permutation H H' -> logw_un H beta l = logw_un H' beta l.
Proof. intro P. unfold logw_un, logmix. now rewrite (mix_perm _ _ l P). Qed.
Theorem logZ_perm H H' beta ls : Permutation H H' -> logZ H beta ls = logZ H' beta ls.
Proof.
  intro P. unfold logZ. f_equal. f_equal. f_equal. apply map_ext. intro l. now rewrite (logw_perm _ _ beta l P).
Qed.
(** ... and permuting the samples permutes nothing but the order of the sum *)
Theorem logZ_perm_samples H beta ls ls' : Permutation ls ls' -> logZ H beta ls = logZ H beta ls'.
Proof.
  intro P. unfold logZ. rewrite (Permutation_length P). f_equal. f_equal. apply sumR_perm. now apply Permutation_map.
Qed.

(** (4) likelihood rescaling: l -> l + c, z_t -> z_t + beta_t c *)
Definition shiftH (c : R) (H : list iter) : list iter :=
  map (fun it => mkIter (beta_t it) (z_t it + beta_t it * c) (n_t it)) H.

Lemma Ntot_shift c H : Ntot (shiftH c H) = Ntot H.
Proof. induction H as [|it H IH]; [reflexivity|]. cbn [shiftH map]. rewrite !Ntot_cons. cbn [n_t]. unfold shiftH in IH. now rewrite IH. Qed.

Theorem mix_shift c H l : mix (shiftH c H) (l + c) = mix H l.
Proof.
  unfold mix. rewrite Ntot_shift. unfold mix_terms, shiftH. rewrite map_map. f_equal. apply map_ext.
  intro it. cbn. f_equal. f_equal. ring.
Qed.
Theorem logw_shift c H beta l : logw_un (shiftH c H) beta (l + c) = logw_un H beta l + beta * c.
Proof. unfold logw_un, logmix. rewrite mix_shift. ring. Qed.

Lemma lse_shift k xs : xs <> [] -> lse (map (fun x => x + k) xs) = lse xs + k.
Proof.
  intro Hne. unfold lse. rewrite map_map.
  assert (E : map (fun x => exp (x + k)) xs = map (Rmult (exp k)) (map exp xs)).
  { rewrite map_map. apply map_ext. intro x. rewrite exp_plus. ring. }
  rewrite E, sumR_scale, ln_mult; [|apply exp_pos|now apply sumR_map_exp_pos]. rewrite ln_exp. ring.
Qed.

Theorem logZ_shift c H beta ls : ls <> [] ->
  logZ (shiftH c H) beta (map (fun l => l + c) ls) = logZ H beta ls + beta * c.
Proof.
  intro Hne. unfold logZ. rewrite map_length, map_map.
  assert (E : map (fun x => exp (logw_un (shiftH c H) beta (x + c))) ls
              = map (Rmult (exp (beta * c))) (map (fun l => exp (logw_un H beta l)) ls)).
  { rewrite map_map. apply map_ext. intro x. rewrite logw_shift, exp_plus. ring. }
  rewrite E, sumR_scale.
  assert (Hs : 0 < sumR (map (fun l => exp (logw_un H beta l)) ls)).
  { rewrite <- map_map. apply sumR_map_exp_pos. destruct ls; [congruence|discriminate]. }
  assert (Hn : 0 < INR (length ls)) by (apply lt_0_INR; destruct ls; [congruence|cbn; lia]).
  unfold Rdiv. rewrite Rmult_assoc, ln_mult; [|apply exp_pos|].
  - rewrite ln_exp. ring.
  - apply Rmult_lt_0_compat; [exact Hs|now apply Rinv_0_lt_compat].
Qed.

Theorem logw_norm_shift c H beta ls l : ls <> [] ->
  logw_norm (shiftH c H) beta (map (fun l => l + c) ls) (l + c) = logw_norm H beta ls l.
Proof.
  intro Hne. unfold logw_norm. rewrite logw_shift, map_map.
  rewrite (map_ext_in' (fun x => logw_un (shiftH c H) beta (x + c)) (fun x => logw_un H beta x + beta * c))
    by (intro; apply logw_shift).
  rewrite <- (map_map (logw_un H beta) (fun y => y + beta * c)).
  rewrite lse_shift by (destruct ls; [congruence|discriminate]). ring.
Qed.

(** (5) log-sum-exp is bracketed by the maximum: no overflow for finite inputs *)
Theorem lse_lower (xs : list R) x : In x xs -> x <= lse xs.
Proof.
  intro Hin. unfold lse.
  assert (Hle : exp x <= sumR (map exp xs)).
  { induction xs as [|y xs IH]; [destruct Hin|]. cbn [map]. rewrite sumR_cons.
    destruct Hin as [->|Hin].
    - assert (0 <= sumR (map exp xs)).
      { clear. induction xs as [|z xs IH]; [cbn [map]; rewrite sumR_nil; lra|].
        cbn [map]. rewrite sumR_cons. pose proof (exp_pos z). lra. }
      lra.
    - specialize (IH Hin). pose proof (exp_pos y). lra. }
  rewrite <- (ln_exp x) at 1.
  destruct (Rle_lt_or_eq_dec _ _ Hle) as [Hlt|Heq]; [left; apply ln_increasing; [apply exp_pos|exact Hlt]|].
  right. now rewrite Heq.
Qed.

Theorem lse_upper (xs : list R) M : xs <> [] -> (forall x, In x xs -> x <= M) ->
  lse xs <= M + ln (INR (length xs)).
Proof.
  intros Hne HM. unfold lse.
  assert (Hle : sumR (map exp xs) <= INR (length xs) * exp M).
  { clear Hne. induction xs as [|y xs IH]; [cbn [map length INR]; rewrite sumR_nil; lra|].
    change (sumR (map exp (y :: xs))) with (exp y + sumR (map exp xs)).
    change (length (y :: xs)) with (S (length xs)). rewrite S_INR.
    assert (exp y <= exp M).
    { destruct (HM y (or_introl eq_refl)) as [Hlt|Heq]; [left; now apply exp_increasing|right; now rewrite Heq]. }
    specialize (IH (fun x Hx => HM x (or_intror Hx))). lra. }
  assert (Hn : 0 < INR (length xs)) by (apply lt_0_INR; destruct xs; [congruence|cbn; lia]).
  pose proof (sumR_map_exp_pos xs Hne) as Hs.
  rewrite <- (ln_exp M) at 1. rewrite <- ln_mult; [|apply exp_pos|exact Hn].
  destruct (Rle_lt_or_eq_dec _ _ Hle) as [Hlt|Heq].
  - left. apply ln_increasing; [exact Hs|]. lra.
  - right. rewrite Heq. f_equal. ring.
Qed.
