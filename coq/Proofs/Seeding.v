From Coq Require Import List Bool Arith ZArith Lia.
From Tempest Require Import Model.Seeding.
Import ListNotations.

Section P.
Variable G : Type.
Variable seed : Z -> G.
Variable advance : G -> nat -> G.
Hypothesis advance_add : forall g a b, advance (advance g a) b = advance g (a + b).
Hypothesis advance_0 : forall g, advance g 0 = g.

Notation exec := (exec G seed advance).

(** (1) without any seeding call the stream is simply advanced: its position depends on the state in
    force before *)
Theorem stream_position tr : forallb (fun o => negb (is_seed o)) tr = true ->
  forall g, exec tr g = advance g (total_draws tr).
Proof.
  induction tr as [|o tr IH]; intros H g; cbn.
  - now rewrite advance_0.
  - cbn in H. apply andb_true_iff in H. destruct H as [Ho Hr]. destruct o; cbn in Ho; try discriminate.
    cbn. unfold Seeding.exec in IH. rewrite (IH Hr). apply advance_add.
Qed.

(** (2) any seeding call forgets the state in force before it: two executions that differ only in the
    earlier seed end in the same generator state (they replay the same innovations from there on) *)
Theorem reseed_forgets tr : existsb is_seed tr = true -> forall g g', exec tr g = exec tr g'.
Proof.
  induction tr as [|o tr IH]; intros H g g'; cbn in *; [discriminate|].
  destruct o; cbn in *; try reflexivity.
  apply IH. exact H.
Qed.

(** (3) a run that seeds with the user's value first is a function of that value alone *)
Corollary seeded_run_reproducible s tr : forall g g', exec (SeedUser s :: tr) g = exec (SeedUser s :: tr) g'.
Proof. intros. apply reseed_forgets. reflexivity. Qed.

(** (4) if, in addition, advancing is injective (distinct states stay distinct), a run with no
    seeding call keeps different initial seeds apart *)
Theorem no_seed_keeps_dependence tr :
  (forall g g' k, advance g k = advance g' k -> g = g') ->
  forallb (fun o => negb (is_seed o)) tr = true ->
  forall g g', g <> g' -> exec tr g <> exec tr g'.
Proof.
  intros Hinj H g g' Hne. rewrite !stream_position by exact H. intro C. apply Hne. eapply Hinj; eauto.
Qed.
(** (5) RESUME. The checkpoint of a seeded run records the generator as it stands (after k1 variates); a resumed run that restores
    it and draws k2 more is where the uninterrupted run is after k1 + k2 ... *)
Theorem restore_continues s k1 k2 g0 :
  advance (exec [SeedUser s; Draw k1] g0) k2 = exec [SeedUser s; Draw (k1 + k2)] g0.
Proof. cbn. apply advance_add. Qed.
(** ... whereas seeding with the run's seed again on load (the pinned rule) puts the resumed run where a FRESH run is after k2
    variates: it consumes the innovations of the first iterations a second time *)
Theorem reseed_on_resume_replays s k1 k2 g0 :
  exec [SeedUser s; Draw k1; SeedUser s; Draw k2] g0 = exec [SeedUser s; Draw k2] g0.
Proof. reflexivity. Qed.
End P.
