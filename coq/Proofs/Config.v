From Coq Require Import List Bool Arith ZArith QArith String Lia.
From Tempest Require Import Model.Config.
Import ListNotations.
Local Open Scope Z_scope.

Lemma Qpos_iff q : Qpos q = true <-> (0 < q)%Q.
Proof.
  unfold Qpos. rewrite negb_true_iff. split; intro H.
  - apply Qnot_le_lt. intro C. apply Qle_bool_iff in C. congruence.
  - destruct (Qle_bool q 0) eqn:E; [|reflexivity]. apply Qle_bool_iff in E. exfalso. apply (Qlt_not_le _ _ H E).
Qed.

Lemma pos_int_iff v : (is_int v && (0 <? int_of v)) = true <-> pos_int v.
Proof. unfold pos_int. rewrite andb_true_iff, Z.ltb_lt. tauto. Qed.

Lemma pos_num_iff v : (is_num v && Qpos (num_of v)) = true <-> pos_num v.
Proof. unfold pos_num. rewrite andb_true_iff, Qpos_iff. tauto. Qed.

(** C18 (1): the validator accepts exactly the configurations that satisfy the documented constraints *)
Theorem accepts_iff_documented c : accepts c = true <-> documented_ok c.
Proof.
  unfold accepts, documented_ok. rewrite !andb_true_iff.
  assert (E1 : chk_n_dim c = true <-> pos_int (c_n_dim c)) by apply pos_int_iff.
  assert (E3 : chk_ess_ratio c = true <-> pos_num (c_ess_ratio c)) by apply pos_num_iff.
  assert (E2 : pos_int (c_n_dim c) -> (chk_n_particles c = true <-> (c_n_particles c = PNone \/ pos_int (c_n_particles c)))).
  { intros [Hi Hp]. unfold chk_n_particles. destruct (c_n_particles c) eqn:E; rewrite pos_int_iff; unfold pos_int; cbn [is_int int_of];
      try (split; [intro H; right; exact H|intros [C|H]; [discriminate|exact H]]).
    split; [now left|]. intros _. split; [reflexivity|lia]. }
  assert (E4 : chk_volume c = true <-> (c_volume_variation c = PNone \/ pos_num (c_volume_variation c))).
  { unfold chk_volume. destruct (c_volume_variation c) eqn:E; rewrite ?pos_num_iff;
      try (split; [intro H; right; exact H|intros [C|H]; [discriminate|exact H]]).
    split; [now left|reflexivity]. }
  assert (E5 : chk_sample c = true <-> (c_sample c = "tpcn"%string \/ c_sample c = "rwm"%string)).
  { unfold chk_sample. now rewrite orb_true_iff, !String.eqb_eq. }
  assert (E6 : chk_resample c = true <-> (c_resample c = "mult"%string \/ c_resample c = "syst"%string)).
  { unfold chk_resample. now rewrite orb_true_iff, !String.eqb_eq. }
  assert (E7 : chk_vec_blobs c = true <-> ~ (c_vectorize c = true /\ c_blobs c = true)).
  { unfold chk_vec_blobs. destruct (c_vectorize c), (c_blobs c); cbn; split; try reflexivity; try (intros _ [A B]; discriminate).
    - discriminate.
    - intro H. exfalso. apply H. split; reflexivity. }
  assert (E8 : chk_overlap c = true <-> (forall p r, c_periodic c = Some p -> c_reflective c = Some r -> overlap p r = false)).
  { unfold chk_overlap. destruct (c_periodic c) as [p|], (c_reflective c) as [r|]; try (split; [intros _ p0 r0 A B; discriminate|reflexivity]).
    rewrite negb_true_iff. split; [intros H p0 r0 A B; inversion A; inversion B; subst; exact H|intro H; now apply H]. }
  assert (E9 : chk_periodic c = true <-> (forall p, c_periodic c = Some p -> forall v, In v p -> idx_ok (int_of (c_n_dim c)) v = true)).
  { unfold chk_periodic. destruct (c_periodic c) as [p|]; [|split; [intros _ p0 A; discriminate|reflexivity]].
    rewrite forallb_forall. split; [intros H p0 A; inversion A; subst; exact H|intro H; now apply H]. }
  assert (E10 : chk_reflective c = true <-> (forall r, c_reflective c = Some r -> forall v, In v r -> idx_ok (int_of (c_n_dim c)) v = true)).
  { unfold chk_reflective. destruct (c_reflective c) as [r|]; [|split; [intros _ r0 A; discriminate|reflexivity]].
    rewrite forallb_forall. split; [intros H r0 A; inversion A; subst; exact H|intro H; now apply H]. }
  rewrite E1, E3, E4, E5, E6, E7, E8, E9, E10. split.
  - intros (((((((((H1 & H2) & H3) & H4) & H5) & H6) & H7) & H8) & H9) & H10). apply (E2 H1) in H2. tauto.
  - intros (H1 & H2 & H3 & H4 & H5 & H6 & H7 & H8 & H9 & H10). apply (E2 H1) in H2. tauto.
Qed.
