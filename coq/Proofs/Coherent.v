From Coq Require Import List Bool Arith Lia.
From Tempest Require Import Model.Coherent.
Import ListNotations.

Section P.
Context {U X LL BB : Type} (T : U -> X) (L : X -> LL * BB) (in_cube : U -> bool).
Notation rows_ok := (rows_ok T L in_cube).
Notation coherent := (coherent T L in_cube).
Notation row_ok := (row_ok T L in_cube).

Lemma rows_ok_lengths us xs ls bs : rows_ok us xs ls bs ->
  length xs = length us /\ length ls = length us /\ length bs = length us.
Proof. induction 1; cbn; [auto|]. destruct IHrows_ok as (A & B & C). repeat split; congruence. Qed.

Lemma rows_ok_nth us xs ls bs du dx dl db i : rows_ok us xs ls bs -> i < length us ->
  row_ok (nth i us du) (nth i xs dx) (nth i ls dl) (nth i bs db).
Proof.
  intro H. revert i. induction H as [|u x l b us xs ls bs Hr Hrest IH]; intros i Hi; cbn in Hi; [lia|].
  destruct i as [|i]; cbn; [exact Hr|]. apply IH. lia.
Qed.

(** (1) resampling / posterior selection: one index list for all four fields keeps whole records *)
Theorem gather_coherent du dx dl db idx p : coherent p -> (forall i, In i idx -> i < length (b_u p)) ->
  coherent (gather4 du dx dl db idx idx idx idx p).
Proof.
  intros Hc Hr. unfold coherent, gather4, sel in *. cbn.
  induction idx as [|i idx IH]; cbn; [constructor|].
  constructor; [apply rows_ok_nth; [exact Hc|apply Hr; now left]|apply IH; intros j Hj; apply Hr; now right].
Qed.

(** (2) acceptance: one mask for all four fields *)
Theorem accept_coherent m prop cur : coherent prop -> coherent cur ->
  coherent (accept4 m m m m prop cur).
Proof.
  intros Hp Hc. unfold coherent, accept4 in *. cbn.
  destruct prop as [pu px pl pb], cur as [cu cx cl cb]. cbn in *.
  revert m pu px pl pb Hp. induction Hc as [|u x l b us xs ls bs Hr Hrest IH]; intros m pu px pl pb Hp.
  - destruct m; cbn; [constructor|]. inversion Hp; subst; cbn; constructor.
  - destruct m as [|bm m]; [cbn; now constructor|].
    inversion Hp as [|u' x' l' b' us' xs' ls' bs' Hr' Hrest']; subst; cbn [mask_upd].
    + now constructor.
    + constructor; [destruct bm; assumption|]. now apply IH.
Qed.

(** (3) a freshly evaluated batch is coherent when its points lie in the cube *)
Theorem fresh_coherent us : (forall u, In u us -> in_cube u = true) -> coherent (fresh T L us).
Proof.
  intro H. unfold coherent, fresh. cbn. induction us as [|u us IH]; cbn; [constructor|].
  constructor; [|apply IH; intros v Hv; apply H; now right].
  unfold Coherent.row_ok. split; [reflexivity|]. split; [now destruct (L (T u))|apply H; now left].
Qed.

Lemma put_rows us xs ls bs i u x l b : rows_ok us xs ls bs -> row_ok u x l b ->
  rows_ok (put us i u) (put xs i x) (put ls i l) (put bs i b).
Proof.
  intro H. revert i. induction H as [|u0 x0 l0 b0 us xs ls bs Hr Hrest IH]; intros i Hn; cbn; [constructor|].
  destruct i as [|i]; constructor; try assumption. now apply IH.
Qed.

(** (3') replacing the -inf rows by copies of finite rows: same destination and source lists for all fields *)
Theorem replace_coherent du dx dl db dst src p : coherent p -> (forall i, In i src -> i < length (b_u p)) ->
  coherent (replace4 du dx dl db dst src src src src p).
Proof.
  intros Hc Hr. unfold coherent, replace4, assign, sel in *. cbn.
  destruct p as [us xs ls bs]. cbn in *.
  assert (G : forall dst src0 us' xs' ls' bs', rows_ok us' xs' ls' bs' ->
              (forall i, In i src0 -> i < length us) ->
              rows_ok (fold_left (fun acc p => put acc (fst p) (snd p)) (combine dst (map (fun i => nth i us du) src0)) us')
                      (fold_left (fun acc p => put acc (fst p) (snd p)) (combine dst (map (fun i => nth i xs dx) src0)) xs')
                      (fold_left (fun acc p => put acc (fst p) (snd p)) (combine dst (map (fun i => nth i ls dl) src0)) ls')
                      (fold_left (fun acc p => put acc (fst p) (snd p)) (combine dst (map (fun i => nth i bs db) src0)) bs')).
  { clear dst src Hr. induction dst as [|d dst IH]; intros src0 us' xs' ls' bs' H' Hs; cbn; [exact H'|].
    destruct src0 as [|s src0]; cbn; [exact H'|].
    apply IH; [|intros i Hi; apply Hs; now right].
    apply put_rows; [exact H'|]. apply rows_ok_nth; [exact Hc|apply Hs; now left]. }
  now apply G.
Qed.

(** (4)/(5) every stored batch stays coherent along any sequence of plumbing steps *)
Inductive pstep (du : U) (dx : X) (dl : LL) (db : BB) : batch -> batch -> Prop :=
| s_gather idx pool cur : coherent pool -> (forall i, In i idx -> i < length (b_u pool)) ->
    pstep du dx dl db cur (gather4 du dx dl db idx idx idx idx pool)
| s_accept m prop cur : coherent prop -> pstep du dx dl db cur (accept4 m m m m prop cur)
| s_fresh us cur : (forall u, In u us -> in_cube u = true) -> pstep du dx dl db cur (fresh T L us)
| s_replace dst src cur : (forall i, In i src -> i < length (b_u cur)) ->
    pstep du dx dl db cur (replace4 du dx dl db dst src src src src cur).

Theorem pstep_preserves du dx dl db cur cur' : coherent cur -> pstep du dx dl db cur cur' -> coherent cur'.
Proof.
  intros Hc S. destruct S.
  - now apply gather_coherent.
  - now apply accept_coherent.
  - now apply fresh_coherent.
  - now apply replace_coherent.
Qed.
End P.
