From Coq Require Import List Bool Arith ZArith QArith Lqa Lia.
From Tempest Require Import Base.Ops Model.Weights.
Import ListNotations.
Local Open Scope Q_scope.

Definition nonnegl (l : list Q) : Prop := forall x, In x l -> 0 <= x.
Definition lenQ (l : list Q) : Q := inject_Z (Z.of_nat (length l)).

Lemma nonnegl_cons x l : nonnegl (x :: l) -> 0 <= x /\ nonnegl l.
Proof. intro H. split; [apply H; now left|intros y Hy; apply H; now right]. Qed.

Lemma sumQ_cons x l : sumQ (x :: l) = x + sumQ l. Proof. reflexivity. Qed.
Lemma sumsq_cons x l : sumsq (x :: l) = x * x + sumsq l. Proof. reflexivity. Qed.

Lemma sumQ_nonneg l : nonnegl l -> 0 <= sumQ l.
Proof.
  induction l as [|x l IH]; intro H; [cbn; lra|]. rewrite sumQ_cons. apply nonnegl_cons in H. destruct H as [Hx Hl].
  specialize (IH Hl). lra.
Qed.
Lemma sumsq_nonneg l : 0 <= sumsq l.
Proof.
  induction l as [|x l IH]; [cbn; lra|]. rewrite sumsq_cons.
  assert (0 <= x * x). { destruct (Qlt_le_dec x 0) as [H|H].
    - setoid_replace (x*x) with ((-x)*(-x)) by ring. apply Qmult_le_0_compat; lra.
    - apply Qmult_le_0_compat; lra. }
  lra.
Qed.

(** sum of squares <= square of the sum (non-negative entries) *)
Lemma sumsq_le_sq l : nonnegl l -> sumsq l <= sumQ l * sumQ l.
Proof.
  induction l as [|x l IH]; intro H; [cbn; lra|]. rewrite sumsq_cons, sumQ_cons.
  apply nonnegl_cons in H. destruct H as [Hx Hl].
  specialize (IH Hl). pose proof (sumQ_nonneg l Hl). nra.
Qed.

Lemma lenQ_cons x l : lenQ (x :: l) == lenQ l + 1.
Proof. unfold lenQ. cbn [length]. rewrite Nat2Z.inj_succ. unfold Z.succ. rewrite inject_Z_plus. reflexivity. Qed.
Lemma lenQ_nonneg l : 0 <= lenQ l.
Proof. unfold lenQ. change 0 with (inject_Z 0). rewrite <- Zle_Qle. lia. Qed.

Lemma Qsq_nonneg a : 0 <= a * a.
Proof. destruct (Qlt_le_dec a 0) as [H|H].
  - setoid_replace (a*a) with ((-a)*(-a)) by ring. apply Qmult_le_0_compat; lra.
  - apply Qmult_le_0_compat; lra. Qed.

Lemma cs_step S x Q2 n : 0 <= n -> 0 <= Q2 -> S*S <= n*Q2 -> (x + S)*(x+S) <= (n+1)*(x*x+Q2).
Proof.
  intros Hn Hq IH.
  assert (Hkey : 2 * S * x <= Q2 + n * (x * x)).
  { destruct (Qlt_le_dec 0 n) as [Hpos|Hz].
    - pose proof (Qsq_nonneg (S - n * x)) as Hsq.
      assert (E: (S - n * x) * (S - n * x) == S*S - n*(2*S*x) + n*(n*(x*x))) by ring.
      rewrite E in Hsq.
      assert (H0: n * (2 * S * x) <= n * (Q2 + n * (x * x))).
      { setoid_replace (n * (Q2 + n * (x * x))) with (n*Q2 + n*(n*(x*x))) by ring. lra. }
      apply (Qmult_le_l _ _ n Hpos). exact H0.
    - assert (Hn0: n == 0) by lra. rewrite Hn0 in IH. pose proof (Qsq_nonneg S).
      assert (HS: S*S == 0) by lra.
      assert (S == 0). { destruct (Qmult_integral _ _ HS); assumption. }
      rewrite H0, Hn0. lra. }
  setoid_replace ((x + S) * (x + S)) with (x*x + 2*S*x + S*S) by ring.
  setoid_replace ((n + 1) * (x * x + Q2)) with (n*(x*x) + n*Q2 + x*x + Q2) by ring.
  lra.
Qed.

(** Cauchy-Schwarz against the all-ones vector: (sum)^2 <= n * sum of squares *)
Lemma sq_le_len_sumsq l : sumQ l * sumQ l <= lenQ l * sumsq l.
Proof.
  induction l as [|x l IH]; [cbn; unfold lenQ; cbn; lra|].
  rewrite lenQ_cons, sumQ_cons, sumsq_cons.
  apply cs_step; [apply lenQ_nonneg|apply sumsq_nonneg|exact IH].
Qed.

Lemma sumQ_scale c l : sumQ (map (Qmult c) l) == c * sumQ l.
Proof. induction l as [|x l IH]; [cbn; ring|]. cbn [map]. rewrite !sumQ_cons, IH. ring. Qed.
Lemma sumsq_scale c l : sumsq (map (Qmult c) l) == c * c * sumsq l.
Proof. induction l as [|x l IH]; [cbn; ring|]. cbn [map]. rewrite !sumsq_cons, IH. ring. Qed.
Lemma sumsq_div s l : ~ s == 0 -> sumsq (map (fun x => x / s) l) == sumsq l / (s * s).
Proof. intro H. induction l as [|x l IH]; [cbn; field; exact H|]. cbn [map]. rewrite !sumsq_cons, IH. field. exact H. Qed.

Lemma sumsq_div_red s l : ~ s == 0 -> sumsq (map (fun x => Qred (x / s)) l) == sumsq l / (s * s).
Proof.
  intro H. induction l as [|x l IH]; [cbn; field; exact H|].
  cbn [map]. rewrite !sumsq_cons, IH, Qred_correct. field. exact H.
Qed.
Lemma sumsq_norm l : ~ sumQ l == 0 -> sumsq (normalise l) == sumsq l / (sumQ l * sumQ l).
Proof.
  intro H. unfold normalise. set (s := Qred (sumQ l)).
  assert (Es : s == sumQ l) by apply Qred_correct.
  rewrite sumsq_div_red by (rewrite Es; exact H). rewrite Es. reflexivity.
Qed.
Lemma sumQ_div_red s l : ~ s == 0 -> sumQ (map (fun x => Qred (x / s)) l) == sumQ l / s.
Proof.
  intro H. induction l as [|x l IH]; [cbn; field; exact H|].
  cbn [map]. rewrite !sumQ_cons, IH, Qred_correct. field. exact H.
Qed.
Lemma sumQ_norm l : ~ sumQ l == 0 -> sumQ (normalise l) == 1.
Proof.
  intro H. unfold normalise. set (s := Qred (sumQ l)).
  assert (Es : s == sumQ l) by apply Qred_correct.
  rewrite sumQ_div_red by (rewrite Es; exact H). rewrite Es. field. exact H.
Qed.

(** the code's value is S^2 / sum of squares *)
Lemma ess_closed l : 0 < sumQ l -> 0 < sumsq l -> ess l == sumQ l * sumQ l / sumsq l.
Proof.
  intros Hs Hq. unfold ess. rewrite sumsq_norm by lra. field. split; lra.
Qed.

Lemma sumsq_pos l : nonnegl l -> 0 < sumQ l -> 0 < sumsq l.
Proof.
  intros Hn Hs. pose proof (sq_le_len_sumsq l). pose proof (sumsq_nonneg l).
  destruct (Qlt_le_dec 0 (sumsq l)) as [|Hz]; [assumption|].
  assert (sumsq l == 0) by lra. rewrite H1 in H. nra.
Qed.

Theorem ess_bounds l : nonnegl l -> 0 < sumQ l -> 1 <= ess l /\ ess l <= lenQ l.
Proof.
  intros Hn Hs. pose proof (sumsq_pos l Hn Hs) as Hq. rewrite ess_closed by assumption.
  split.
  - apply Qle_shift_div_l; [exact Hq|]. pose proof (sumsq_le_sq l Hn). lra.
  - apply Qle_shift_div_r; [exact Hq|]. apply sq_le_len_sumsq.
Qed.

Theorem ess_scale c l : 0 < c -> nonnegl l -> 0 < sumQ l -> ess (map (Qmult c) l) == ess l.
Proof.
  intros Hc Hn Hs. pose proof (sumsq_pos l Hn Hs) as Hq.
  assert (Hn' : nonnegl (map (Qmult c) l)).
  { intros y Hy. apply in_map_iff in Hy. destruct Hy as (x & <- & Hx). specialize (Hn x Hx). nra. }
  assert (Hs' : 0 < sumQ (map (Qmult c) l)) by (rewrite sumQ_scale; nra).
  rewrite !ess_closed; try assumption; [|apply sumsq_pos; assumption].
  rewrite sumQ_scale, sumsq_scale. field. split; lra.
Qed.

Lemma sumQ_repeat c n : sumQ (repeat c n) == inject_Z (Z.of_nat n) * c.
Proof.
  induction n as [|n IH]; [cbn; ring|]. cbn [repeat]. rewrite sumQ_cons.
  rewrite IH, Nat2Z.inj_succ. unfold Z.succ. rewrite inject_Z_plus. ring.
Qed.
Lemma sumsq_repeat c n : sumsq (repeat c n) == inject_Z (Z.of_nat n) * (c * c).
Proof.
  induction n as [|n IH]; [cbn; ring|]. cbn [repeat]. rewrite sumsq_cons.
  rewrite IH, Nat2Z.inj_succ. unfold Z.succ. rewrite inject_Z_plus. ring.
Qed.

Theorem ess_uniform c n : 0 < c -> (0 < n)%nat -> ess (repeat c n) == inject_Z (Z.of_nat n).
Proof.
  intros Hc Hn.
  assert (Hq : 0 < inject_Z (Z.of_nat n)). { change 0 with (inject_Z 0). rewrite <- Zlt_Qlt. lia. }
  set (N := inject_Z (Z.of_nat n)) in *.
  assert (Hs : 0 < sumQ (repeat c n)).
  { rewrite sumQ_repeat. fold N. apply Qmult_lt_0_compat; assumption. }
  assert (Hcc : 0 < c * c) by (apply Qmult_lt_0_compat; assumption).
  assert (Hss : 0 < sumsq (repeat c n)).
  { rewrite sumsq_repeat. fold N. apply Qmult_lt_0_compat; assumption. }
  rewrite ess_closed by assumption. rewrite sumQ_repeat, sumsq_repeat. fold N.
  field. split; lra.
Qed.

(** ---------- trimming ---------- *)
Lemma sumQ_div s l : ~ s == 0 -> sumQ (map (fun x => x / s) l) == sumQ l / s.
Proof. intro H. induction l as [|x l IH]; [cbn; field; exact H|]. cbn [map]. rewrite !sumQ_cons, IH. field. exact H. Qed.

Lemma normalise_sum l : ~ sumQ l == 0 -> sumQ (normalise l) == 1.
Proof. apply sumQ_norm. Qed.

Lemma select_all {A} (m : list bool) (l : list A) :
  length m = length l -> (forall b, In b m -> b = true) -> select m l = l.
Proof.
  revert l; induction m as [|b m IH]; intros [|x l] Hl Hb; cbn in *; try reflexivity; try discriminate.
  rewrite (Hb b (or_introl eq_refl)). f_equal. apply IH; [lia|]. intros b' Hb'. apply Hb. now right.
Qed.

Lemma select_length_le {A} (m : list bool) (l : list A) : (length (select m l) <= length l)%nat.
Proof. revert l; induction m as [|b m IH]; intros [|x l]; cbn; try lia. destruct b; cbn; specialize (IH l); lia. Qed.

(** the selected samples and the selected weights are the same rows *)
Lemma select_nil_r {A} (m : list bool) : select m (@nil A) = [].
Proof. destruct m; reflexivity. Qed.
Lemma combine_nil_r {A B} (l : list A) : combine l (@nil B) = [].
Proof. destruct l; reflexivity. Qed.
Lemma select_combine {A B} (m : list bool) (l : list A) (l' : list B) :
  select m (combine l l') = combine (select m l) (select m l').
Proof.
  revert l l'; induction m as [|b m IH]; intros [|x l] [|y l']; cbn [select combine]; try reflexivity.
  all: try (destruct b; rewrite ?select_nil_r, ?combine_nil_r; reflexivity).
  destruct b; [cbn [combine]; f_equal|]; apply IH.
Qed.

Lemma select_in_iff (w : list Q) (t : Q) x :
  In x (select (mask_at w t) w) -> t <= x /\ In x w.
Proof.
  unfold mask_at. induction w as [|y w IH]; cbn; [tauto|].
  destruct (Qle_bool t y) eqn:E.
  - intros [<-|H]; [split; [now apply Qle_bool_iff|now left]|]. destruct (IH H). split; [assumption|now right].
  - intro H. destruct (IH H). split; [assumption|now right].
Qed.

(** the loop returns the LARGEST grid index (searching from the top) whose trimmed ESS ratio meets the request *)
Theorem trim_index_spec w thr frac : forall i k,
  trim_index w thr frac i = Some k ->
  (k <= i)%nat /\ ratio_ok w (thr k) frac = true
  /\ forall j, (k < j <= i)%nat -> ratio_ok w (thr j) frac = false.
Proof.
  induction i as [|i IH]; intros k; cbn [trim_index].
  - destruct (ratio_ok w (thr 0%nat) frac) eqn:E; [|discriminate].
    intro H; inversion H; subst. repeat split; [lia|exact E|intros; lia].
  - destruct (ratio_ok w (thr (S i)) frac) eqn:E.
    + intro H; inversion H; subst. repeat split; [lia|exact E|intros; lia].
    + intro H. destruct (IH k H) as (H1 & H2 & H3). repeat split; [lia|exact H2|].
      intros j Hj. destruct (Nat.eq_dec j (S i)) as [->|]; [exact E|apply H3; lia].
Qed.

(** termination: if the lowest grid threshold is at or below every weight (percentile 0 = min)
    and the requested fraction is at most 1, the search stops at some index >= 0 *)
Theorem trim_index_terminates w thr frac i :
  nonnegl w -> sumQ w == 1 -> frac <= 1 -> (forall x, In x w -> thr 0%nat <= x) ->
  exists k, trim_index w thr frac i = Some k.
Proof.
  intros Hn Hs Hf Hmin.
  assert (H0 : ratio_ok w (thr 0%nat) frac = true).
  { unfold ratio_ok, trimmed_at. rewrite select_all.
    - apply Qle_bool_iff.
      assert (Hq : 0 < sumsq w) by (apply sumsq_pos; [exact Hn|lra]).
      rewrite sumsq_norm by lra.
      assert (E : 1 / (sumsq w / (sumQ w * sumQ w)) / (1 / sumsq w) == 1).
      { rewrite Hs. field. lra. }
      rewrite E. exact Hf.
    - unfold mask_at. now rewrite map_length.
    - intros b Hb. unfold mask_at in Hb. apply in_map_iff in Hb. destruct Hb as (x & <- & Hx).
      apply Qle_bool_iff. now apply Hmin. }
  induction i as [|i IH]; cbn [trim_index].
  - rewrite H0. now exists 0%nat.
  - destruct (ratio_ok w (thr (S i)) frac); [now exists (S i)|exact IH].
Qed.

(** contract of the whole routine: whenever some grid index meets the request (always, under the hypotheses of
    trim_index_terminates), the result is the upper set at the largest such index *)
Theorem trim_weights_contract {A} (samples : list A) weights thr frac bins s wt k :
  trim_index (normalise weights) thr frac (bins - 1) <> None ->
  trim_weights samples weights thr frac bins = Some (s, wt, k) ->
  let w := normalise weights in
  (k <= bins - 1)%nat
  /\ s = select (mask_at w (thr k)) samples
  /\ wt = normalise (select (mask_at w (thr k)) w)
  /\ (forall x, In x (select (mask_at w (thr k)) w) -> thr k <= x)
  /\ frac <= (1 / sumsq wt) / (1 / sumsq w)
  /\ (forall j, (k < j <= bins - 1)%nat -> ratio_ok w (thr j) frac = false)
  /\ (~ sumQ (select (mask_at w (thr k)) w) == 0 -> sumQ wt == 1).
Proof.
  unfold trim_weights, trim_core, trim_stop. intros Hsome H. cbv zeta in *. set (w := normalise weights) in *.
  destruct (trim_index w thr frac (bins - 1)) as [i|] eqn:E; [|congruence].
  inversion H; subst s wt k. destruct (trim_index_spec _ _ _ _ _ E) as (H1 & H2 & H3).
  split; [exact H1|]. split; [reflexivity|]. split; [reflexivity|].
  split; [intros x Hx; now apply select_in_iff in Hx|].
  split; [unfold ratio_ok in H2; now apply Qle_bool_iff in H2|].
  split; [exact H3|].
  intro Hne. unfold trimmed_at. apply normalise_sum. exact Hne.
Qed.

(** the routine returns for EVERY threshold oracle, fraction and grid; when no grid index meets the request it stops at index 0, with
    the samples at or above the lowest threshold, samples and weights still selected by one mask *)
Theorem trim_weights_total {A} (samples : list A) weights thr frac bins :
  exists s wt k, trim_weights samples weights thr frac bins = Some (s, wt, k)
    /\ (k <= bins - 1)%nat
    /\ s = select (mask_at (normalise weights) (thr k)) samples
    /\ wt = normalise (select (mask_at (normalise weights) (thr k)) (normalise weights))
    /\ (trim_index (normalise weights) thr frac (bins - 1) = None -> k = 0%nat).
Proof.
  unfold trim_weights, trim_core, trim_stop. cbv zeta. set (w := normalise weights).
  destruct (trim_index w thr frac (bins - 1)) as [i|] eqn:E.
  - do 3 eexists. split; [reflexivity|]. destruct (trim_index_spec _ _ _ _ _ E) as (H1 & _).
    repeat split; try reflexivity; [exact H1|discriminate].
  - do 3 eexists. split; [reflexivity|]. repeat split; try reflexivity. lia.
Qed.
