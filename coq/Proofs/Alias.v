From Coq Require Import List Bool Arith ZArith Lia.
From Tempest Require Import Model.Alias.
Import ListNotations.

Definition cache_locs (s : sm) : list loc := match cache s with Some c => c | None => [] end.
Definition internal (s : sm) : list loc := somes (cur s) ++ concat (hist s) ++ cache_locs s.

Definition below (n : nat) (ls : list loc) : Prop := forall l, In l ls -> l < n.
Definition Inv (sc : sm * caller) : Prop :=
  let (s, c) := sc in
  below (length (hp s)) (internal s) /\ below (length (hp s)) (held c)
  /\ (forall l, In l (internal s) -> ~ In l (held c))
  /\ (forall cs hs, In (cs, hs) (dicts c) -> forall l, In l (somes cs ++ concat hs) -> In l (held c)).

(** ---- heap facts ---- *)
Lemma deref_app_old h x l : l < length h -> deref (h ++ x) l = deref h l.
Proof. intro H. unfold deref. now rewrite app_nth1. Qed.

Lemma set_nth_length {A} (l : list A) i x : length (set_nth l i x) = length l.
Proof. revert i; induction l as [|y l IH]; intros [|i]; cbn; auto. Qed.

Lemma set_nth_other {A} (l : list A) i j x d : i <> j -> nth j (set_nth l i x) d = nth j l d.
Proof.
  revert i j; induction l as [|y l IH]; intros [|i] [|j] H; cbn; try reflexivity; try congruence.
  apply IH. congruence.
Qed.

(** fresh copies: new locations are exactly the freshly allocated range *)
Definition grows (h h' : heap) : Prop :=
  length h <= length h' /\ forall l, l < length h -> deref h' l = deref h l.

Lemma grows_refl h : grows h h. Proof. split; auto. Qed.
Lemma grows_trans a b c : grows a b -> grows b c -> grows a c.
Proof. intros [A1 A2] [B1 B2]. split; [lia|]. intros l Hl. rewrite B2 by lia. now apply A2. Qed.
Lemma grows_alloc h ct : grows h (fst (alloc h ct)).
Proof. unfold alloc; cbn. split; [rewrite app_length; lia|]. intros. now apply deref_app_old. Qed.

Lemma copy_loc_fresh h l h' l' : copy_loc true h l = (h', l') ->
  grows h h' /\ length h <= l' < length h' /\ deref h' l' = deref h l.
Proof.
  unfold copy_loc, alloc. intro H; inversion H; subst. split; [apply (grows_alloc h (deref h l))|].
  rewrite app_length; cbn. split; [lia|]. unfold deref at 1. rewrite app_nth2 by lia. now rewrite Nat.sub_diag.
Qed.

Lemma copy_opt_fresh h o h' o' : copy_opt true h o = (h', o') ->
  grows h h' /\ (forall l, In l (somes [o']) -> length h <= l < length h')
  /\ option_map (deref h') o' = option_map (deref h) o.
Proof.
  destruct o as [l|]; cbn [copy_opt].
  - destruct (copy_loc true h l) as [h1 l1] eqn:E. intro H; inversion H; subst.
    destruct (copy_loc_fresh _ _ _ _ E) as (G & B & D). split; [exact G|]. split.
    + cbn. intros l0 [<-|[]]. exact B.
    + cbn. now rewrite D.
  - intro H; inversion H; subst. split; [apply grows_refl|]. split; [intros l []|reflexivity].
Qed.

Lemma copy_opts_fresh os : forall h h' os', copy_opts true h os = (h', os') ->
  grows h h' /\ (forall l, In l (somes os') -> length h <= l < length h')
  /\ (below (length h) (somes os) -> map (option_map (deref h')) os' = map (option_map (deref h)) os)
  /\ length os' = length os
  /\ (forall k, nth k os' None = None <-> nth k os None = None).
Proof.
  induction os as [|o os IH]; intros h h' os'; cbn [copy_opts].
  - intro H; inversion H; subst. split; [apply grows_refl|]. split; [intros l []|]. split; [reflexivity|]. split; [reflexivity|].
    intro k; destruct k; tauto.
  - destruct (copy_opt true h o) as [h1 o1] eqn:E1. destruct (copy_opts true h1 os) as [h2 os2] eqn:E2.
    intro H; inversion H; subst.
    destruct (copy_opt_fresh _ _ _ _ E1) as (G1 & B1 & D1). destruct (IH _ _ _ E2) as (G2 & B2 & D2 & L2 & N2).
    split; [eapply grows_trans; eauto|]. split; [|split; [|split]].
    + intros l Hl. destruct G1 as [G1a _]. destruct G2 as [G2a _]. cbn in Hl. apply in_app_or in Hl. destruct Hl as [Hl|Hl].
      * assert (In l (somes [o1])) by (cbn; now rewrite app_nil_r). apply B1 in H0. lia.
      * apply B2 in Hl. lia.
    + intro Hb. cbn [map]. f_equal.
      * destruct o1 as [l1|]; destruct o as [l0|]; cbn in D1 |- *; try congruence.
        inversion D1. f_equal. destruct G2 as [_ G2b].
        assert (l1 < length h1). { assert (In l1 (somes [Some l1])) by (cbn; auto). apply B1 in H0. lia. }
        now rewrite G2b.
      * rewrite D2.
        -- apply map_ext_in. intros [l0|] Hin; cbn; [|reflexivity]. f_equal. destruct G1 as [_ G1b]. apply G1b.
           apply Hb. cbn. apply in_or_app. right. unfold somes. apply in_flat_map. exists (Some l0). split; [exact Hin|now left].
        -- intros l0 Hl0. destruct G1 as [G1a _]. assert (l0 < length h). { apply Hb. cbn. apply in_or_app. now right. } lia.
    + cbn. now rewrite L2.
    + intro k. destruct k as [|k]; cbn.
      * destruct o1, o; cbn in D1; try tauto; try discriminate; split; congruence.
      * apply N2.
Qed.

Lemma copy_list_fresh ls : forall h h' ls', copy_list true h ls = (h', ls') ->
  grows h h' /\ (forall l, In l ls' -> length h <= l < length h')
  /\ (below (length h) ls -> map (deref h') ls' = map (deref h) ls) /\ length ls' = length ls.
Proof.
  induction ls as [|l ls IH]; intros h h' ls'; cbn [copy_list].
  - intro H; inversion H; subst. split; [apply grows_refl|]. split; [intros l []|]. split; reflexivity.
  - destruct (copy_loc true h l) as [h1 l1] eqn:E1. destruct (copy_list true h1 ls) as [h2 ls2] eqn:E2.
    intro H; inversion H; subst.
    destruct (copy_loc_fresh _ _ _ _ E1) as (G1 & B1 & D1). destruct (IH _ _ _ E2) as (G2 & B2 & D2 & L2).
    split; [eapply grows_trans; eauto|]. split; [|split].
    + intros l0 [<-|Hl]; [destruct G2; lia|]. apply B2 in Hl. destruct G1. lia.
    + intro Hb. cbn [map]. f_equal.
      * destruct G2 as [_ G2b]. rewrite G2b by lia. exact D1.
      * rewrite D2.
        -- apply map_ext_in. intros l0 Hin. destruct G1 as [_ G1b]. apply G1b. apply Hb. now right.
        -- intros l0 Hl0. destruct G1. assert (l0 < length h) by (apply Hb; now right). lia.
    + cbn. now rewrite L2.
Qed.

Lemma copy_lists_fresh lss : forall h h' lss', copy_lists true h lss = (h', lss') ->
  grows h h' /\ (forall l, In l (concat lss') -> length h <= l < length h')
  /\ (below (length h) (concat lss) -> map (map (deref h')) lss' = map (map (deref h)) lss)
  /\ length lss' = length lss.
Proof.
  induction lss as [|ls lss IH]; intros h h' lss'; cbn [copy_lists].
  - intro H; inversion H; subst. split; [apply grows_refl|]. split; [intros l []|]. split; reflexivity.
  - destruct (copy_list true h ls) as [h1 ls1] eqn:E1. destruct (copy_lists true h1 lss) as [h2 lss2] eqn:E2.
    intro H; inversion H; subst.
    destruct (copy_list_fresh _ _ _ _ E1) as (G1 & B1 & D1 & L1). destruct (IH _ _ _ E2) as (G2 & B2 & D2 & L2).
    split; [eapply grows_trans; eauto|]. split; [|split].
    + intros l0 Hl. cbn in Hl. apply in_app_or in Hl. destruct Hl as [Hl|Hl].
      * apply B1 in Hl. destruct G2. lia.
      * apply B2 in Hl. destruct G1. lia.
    + intro Hb. cbn [map]. f_equal.
      * rewrite <- D1 by (intros l0 Hl0; apply Hb; cbn; apply in_or_app; now left).
        apply map_ext_in. intros l0 Hin. destruct G2 as [_ G2b]. apply G2b. apply B1 in Hin. lia.
      * rewrite D2.
        -- apply map_ext_in. intros ls0 Hin. apply map_ext_in. intros l0 Hl0. destruct G1 as [_ G1b]. apply G1b.
           apply Hb. cbn. apply in_or_app. right. apply in_concat. eauto.
        -- intros l0 Hl0. destruct G1. assert (l0 < length h) by (apply Hb; cbn; apply in_or_app; now right). lia.
    + cbn. now rewrite L2.
Qed.

(** ---- a caller overwriting an array it holds never changes what the state manager means ---- *)
Theorem scribble_harmless pol s c i ct :
  Inv (s, c) ->
  let s' := fst (step pol (s, c) (Scribble i ct)) in
  cur s' = cur s /\ hist s' = hist s /\ cache s' = cache s
  /\ (forall l, In l (internal s) -> deref (hp s') l = deref (hp s) l)
  /\ view s' = view s.
Proof.
  intros (Hb & Hh & Hd & _). cbn [step].
  destruct (nth_error (held c) i) as [l|] eqn:E; cbn [fst].
  - assert (Hl : In l (held c)) by (eapply nth_error_In; eauto).
    assert (Hderef : forall l0, In l0 (internal s) -> deref (set_nth (hp s) l ct) l0 = deref (hp s) l0).
    { intros l0 Hin. unfold deref. apply set_nth_other. intro C; subst. exact (Hd _ Hin Hl). }
    repeat split; try reflexivity; [exact Hderef|].
    unfold view. cbn [cur hist hp]. f_equal.
    + apply map_ext_in. intros [l0|] Hin; cbn; [|reflexivity]. f_equal. apply Hderef.
      unfold internal. apply in_or_app. left. unfold somes. apply in_flat_map. exists (Some l0). split; [exact Hin|now left].
    + apply map_ext_in. intros ls Hin. apply map_ext_in. intros l0 Hl0. apply Hderef.
      unfold internal. apply in_or_app. right. apply in_or_app. left. apply in_concat. eauto.
  - repeat split; reflexivity.
Qed.

(** ---- the invariant is preserved by every operation when every accessor copies ---- *)
Lemma somes_set_nth os k v x : In x (somes (set_nth os k (Some v))) -> x = v \/ In x (somes os).
Proof.
  revert k; induction os as [|o os IH]; intros [|k]; cbn; try tauto.
  - intros [<-|H]; [now left|]. right. apply in_or_app. now right.
  - intro H. apply in_app_or in H. destruct H as [H|H].
    + right. apply in_or_app. now left.
    + destruct (IH _ H) as [->|H']; [now left|]. right. apply in_or_app. now right.
Qed.

Lemma somes_in os l : In l (somes os) <-> In (Some l) os.
Proof.
  unfold somes. rewrite in_flat_map. split.
  - intros ([l0|] & Hin & Hl); cbn in Hl; [destruct Hl as [<-|[]]; exact Hin|destruct Hl].
  - intro H. exists (Some l). split; [exact H|now left].
Qed.

Lemma commit_hist_locs (hs : list (list loc)) (os : list (option loc)) x :
  In x (concat (map (fun p => match snd p with Some l => fst p ++ [l] | None => fst p end) (combine hs os))) ->
  In x (concat hs) \/ In x (somes os).
Proof.
  revert os; induction hs as [|h hs IH]; intros [|o os]; cbn; try tauto.
  intro H. apply in_app_or in H. destruct H as [H|H].
  - destruct o as [l|]; cbn in H.
    + apply in_app_or in H. destruct H as [H|[<-|[]]]; [left; apply in_or_app; now left|right; now left].
    + left. apply in_or_app. now left.
  - destruct (IH _ H) as [H'|H']; [left; apply in_or_app; now right|right]. destruct o; cbn; [now right|exact H'].
Qed.

Lemma results_alloc_spec (h0 : heap) (hs : list (list loc)) : forall h out,
  fold_right (fun ls acc => let '(h, out) := acc in let (h', l) := alloc h (flat_map (deref h0) ls) in (h', l :: out))
             (h0, []) hs = (h, out) ->
  grows h0 h /\ forall l, In l out -> length h0 <= l < length h.
Proof.
  induction hs as [|ls hs IH]; intros h out; cbn [fold_right].
  - intro H; inversion H; subst. split; [apply grows_refl|intros l []].
  - destruct (fold_right _ (h0, []) hs) as [h1 out1] eqn:E. specialize (IH _ _ eq_refl). destruct IH as [G B].
    unfold alloc. intro H; inversion H; subst. split.
    + eapply grows_trans; [exact G|]. apply (grows_alloc h1).
    + intros l [<-|Hl]; rewrite app_length; cbn; destruct G as [G1 _]; [lia|]. apply B in Hl. lia.
Qed.

Ltac fin := cbn [cur hist cache hp held dicts] in *; rewrite ?app_length in *; cbn [length] in *; lia.
Theorem step_preserves_inv pol sc o : all_fresh pol = true -> Inv sc -> Inv (step pol sc o).
Proof.
  intros Hpol. unfold all_fresh in Hpol. repeat rewrite andb_true_iff in Hpol.
  destruct Hpol as (((((((P1 & P2) & P3) & P4) & P5) & P6) & P7) & P8).
  destruct sc as [s c]. intros (Hb & Hh & Hd & Hdict).
  assert (Hcur : below (length (hp s)) (somes (cur s))) by (intros l Hl; apply Hb; unfold internal; apply in_or_app; now left).
  assert (Hhist : below (length (hp s)) (concat (hist s))).
  { intros l Hl; apply Hb; unfold internal; apply in_or_app; right; apply in_or_app; now left. }
  destruct o; cbn [step].
  - (* SetCurrent *)
    rewrite P1. unfold copy_loc, alloc. cbn. unfold Inv, internal, cache_locs. cbn [cur hist cache hp held dicts].
    rewrite !app_length. cbn [length]. rewrite app_nil_r.
    split; [|split; [|split]].
    + intros l Hl. apply in_app_or in Hl. destruct Hl as [Hl|Hl].
      * apply somes_set_nth in Hl. destruct Hl as [->|Hl]; [fin|]. apply Hcur in Hl. fin.
      * apply Hhist in Hl. fin.
    + intros l [<-|Hl]; [fin|]. apply Hh in Hl. fin.
    + intros l Hl [<-|Hc].
      * apply in_app_or in Hl. destruct Hl as [Hl|Hl].
        -- apply somes_set_nth in Hl. destruct Hl as [E|Hl]; [fin|]. apply Hcur in Hl. fin.
        -- apply Hhist in Hl. fin.
      * apply in_app_or in Hl. destruct Hl as [Hl|Hl].
        -- apply somes_set_nth in Hl. destruct Hl as [->|Hl]; [apply Hh in Hc; fin|].
           apply (Hd l); [unfold internal; apply in_or_app; now left|exact Hc].
        -- apply (Hd l); [unfold internal; apply in_or_app; right; apply in_or_app; now left|exact Hc].
    + intros cs hs Hin l Hl. right. eapply Hdict; eauto.
  - (* GetCurrent *)
    destruct (nth k (cur s) None) as [l|] eqn:E; [|repeat split; assumption].
    rewrite P2. destruct (copy_loc true (hp s) l) as [h1 l1] eqn:Ec.
    destruct (copy_loc_fresh _ _ _ _ Ec) as ((G1 & G2) & B & _).
    unfold Inv, internal, cache_locs in *. cbn [cur hist cache hp held dicts].
    split; [|split; [|split]].
    + intros l0 Hl. apply Hb in Hl. fin.
    + intros l0 [<-|Hl]; [fin|]. apply Hh in Hl. fin.
    + intros l0 Hl [<-|Hc]; [apply Hb in Hl; fin|]. exact (Hd _ Hl Hc).
    + intros cs hs Hin l0 Hl. right. eapply Hdict; eauto.
  - (* GetCurrentAll *)
    rewrite P2. destruct (copy_opts true (hp s) (cur s)) as [h1 os] eqn:Ec.
    destruct (copy_opts_fresh _ _ _ _ Ec) as ((G1 & G2) & B & _).
    unfold Inv, internal, cache_locs in *. cbn [cur hist cache hp held dicts].
    split; [|split; [|split]].
    + intros l0 Hl. apply Hb in Hl. fin.
    + intros l0 Hl. apply in_app_or in Hl. destruct Hl as [Hl|Hl]; [apply B in Hl; fin|]. apply Hh in Hl. fin.
    + intros l0 Hl Hc. apply in_app_or in Hc. destruct Hc as [Hc|Hc]; [apply B in Hc; apply Hb in Hl; fin|]. exact (Hd _ Hl Hc).
    + intros cs hs Hin l0 Hl. apply in_or_app. right. eapply Hdict; eauto.
  - (* GetHistory *)
    destruct (nth_error (nth k (hist s) []) i) as [l|] eqn:E; [|repeat split; assumption].
    rewrite P3. destruct (copy_loc true (hp s) l) as [h1 l1] eqn:Ec.
    destruct (copy_loc_fresh _ _ _ _ Ec) as ((G1 & G2) & B & _).
    unfold Inv, internal, cache_locs in *. cbn [cur hist cache hp held dicts].
    split; [|split; [|split]].
    + intros l0 Hl. apply Hb in Hl. fin.
    + intros l0 [<-|Hl]; [fin|]. apply Hh in Hl. fin.
    + intros l0 Hl [<-|Hc]; [apply Hb in Hl; fin|]. exact (Hd _ Hl Hc).
    + intros cs hs Hin l0 Hl. right. eapply Hdict; eauto.
  - (* GetHistoryAll *)
    rewrite P4. unfold alloc. unfold Inv, internal, cache_locs in *. cbn [cur hist cache hp held dicts].
    assert (EL : length (hp s ++ [flat_map (deref (hp s)) (nth k (hist s) [])]) = S (length (hp s))) by (rewrite app_length; cbn; fin).
    split; [|split; [|split]]; cbn [cur hist cache hp held dicts]; rewrite ?EL.
    + intros l0 Hl. apply Hb in Hl. fin.
    + intros l0 [<-|Hl]; [fin|]. apply Hh in Hl. fin.
    + intros l0 Hl [<-|Hc]; [apply Hb in Hl; fin|]. exact (Hd _ Hl Hc).
    + intros cs hs Hin l0 Hl. right. eapply Hdict; eauto.
  - (* Commit *)
    rewrite P5. destruct (copy_opts true (hp s) (cur s)) as [h1 os] eqn:Ec.
    destruct (copy_opts_fresh _ _ _ _ Ec) as ((G1 & G2) & B & _).
    unfold Inv, internal, cache_locs in *. cbn [cur hist cache hp held dicts]. rewrite ?app_nil_r.
    assert (Hnew : forall l, In l (somes (cur s) ++ concat (map (fun p => match snd p with Some l0 => fst p ++ [l0] | None => fst p end) (combine (hist s) os))) ->
                   (l < length (hp s) /\ In l (internal s)) \/ (length (hp s) <= l < length h1)).
    { intros l Hl. apply in_app_or in Hl. destruct Hl as [Hl|Hl].
      - left. split; [now apply Hcur|unfold internal; apply in_or_app; now left].
      - apply commit_hist_locs in Hl. destruct Hl as [Hl|Hl].
        + left. split; [now apply Hhist|unfold internal; apply in_or_app; right; apply in_or_app; now left].
        + right. now apply B. }
    split; [|split; [|split]].
    + intros l Hl. destruct (Hnew _ Hl) as [[A _]|A]; fin.
    + intros l Hl. apply Hh in Hl. fin.
    + intros l Hl Hc. destruct (Hnew _ Hl) as [[_ A]|A]; [exact (Hd _ A Hc)|apply Hh in Hc; fin].
    + exact Hdict.
  - (* ToDict *)
    rewrite P6. destruct (copy_opts true (hp s) (cur s)) as [h1 cs] eqn:Ec.
    destruct (copy_lists true h1 (hist s)) as [h2 hs] eqn:Eh.
    destruct (copy_opts_fresh _ _ _ _ Ec) as ((G1 & G2) & B1 & _).
    destruct (copy_lists_fresh _ _ _ _ Eh) as ((G3 & G4) & B2 & _).
    unfold Inv, internal, cache_locs in *. cbn [cur hist cache hp held dicts].
    split; [|split; [|split]].
    + intros l Hl. apply Hb in Hl. fin.
    + intros l Hl. apply in_app_or in Hl. destruct Hl as [Hl|Hl]; [apply B1 in Hl; fin|].
      apply in_app_or in Hl. destruct Hl as [Hl|Hl]; [apply B2 in Hl; fin|]. apply Hh in Hl. fin.
    + intros l Hl Hc. apply in_app_or in Hc. destruct Hc as [Hc|Hc]; [apply B1 in Hc; apply Hb in Hl; fin|].
      apply in_app_or in Hc. destruct Hc as [Hc|Hc]; [apply B2 in Hc; apply Hb in Hl; fin|]. exact (Hd _ Hl Hc).
    + intros cs0 hs0 [E|Hin] l Hl.
      * inversion E; subst. apply in_app_or in Hl. destruct Hl as [Hl|Hl]; apply in_or_app; [now left|right; apply in_or_app; now left].
      * apply in_or_app. right. apply in_or_app. right. eapply Hdict; eauto.
  - (* Import *)
    destruct (nth_error (dicts c) d) as [[cs hs]|] eqn:E; [|repeat split; assumption].
    rewrite P7. destruct (copy_opts true (hp s) cs) as [h1 cs'] eqn:Ec.
    destruct (copy_lists true h1 hs) as [h2 hs'] eqn:Eh.
    destruct (copy_opts_fresh _ _ _ _ Ec) as ((G1 & G2) & B1 & _).
    destruct (copy_lists_fresh _ _ _ _ Eh) as ((G3 & G4) & B2 & _).
    unfold Inv, internal, cache_locs. cbn [cur hist cache hp held dicts]. rewrite app_nil_r.
    split; [|split; [|split]].
    + intros l Hl. apply in_app_or in Hl. destruct Hl as [Hl|Hl]; [apply B1 in Hl; fin|apply B2 in Hl; fin].
    + intros l Hl. apply Hh in Hl. fin.
    + intros l Hl Hc. apply Hh in Hc. apply in_app_or in Hl. destruct Hl as [Hl|Hl]; [apply B1 in Hl; fin|apply B2 in Hl; fin].
    + exact Hdict.
  - (* Results *)
    rewrite P8.
    destruct (cache s) as [cch|] eqn:Ecache.
    + destruct (copy_list true (hp s) cch) as [h2 out] eqn:Ec.
      destruct (copy_list_fresh _ _ _ _ Ec) as ((G1 & G2) & B & _).
      unfold Inv, internal, cache_locs in *. rewrite Ecache in *. cbn [cur hist cache hp held dicts].
      split; [|split; [|split]].
      * intros l Hl. apply Hb in Hl. fin.
      * intros l Hl. apply in_app_or in Hl. destruct Hl as [Hl|Hl]; [apply B in Hl; fin|]. apply Hh in Hl. fin.
      * intros l Hl Hc. apply in_app_or in Hc. destruct Hc as [Hc|Hc]; [apply B in Hc; apply Hb in Hl; fin|]. exact (Hd _ Hl Hc).
      * intros cs hs Hin l Hl. apply in_or_app. right. eapply Hdict; eauto.
    + destruct (fold_right _ (hp s, []) (hist s)) as [h1 cch] eqn:Ef.
      destruct (results_alloc_spec _ _ _ _ Ef) as ((G1 & G2) & Bc).
      destruct (copy_list true h1 cch) as [h2 out] eqn:Ec.
      destruct (copy_list_fresh _ _ _ _ Ec) as ((G3 & G4) & B & _).
      unfold Inv, internal, cache_locs in *. rewrite Ecache in *. cbn [cur hist cache hp held dicts]. rewrite app_nil_r in *.
      split; [|split; [|split]].
      * intros l Hl. rewrite app_assoc in Hl. apply in_app_or in Hl. destruct Hl as [Hl|Hl]; [apply Hb in Hl; fin|apply Bc in Hl; fin].
      * intros l Hl. apply in_app_or in Hl. destruct Hl as [Hl|Hl]; [apply B in Hl; fin|]. apply Hh in Hl. fin.
      * intros l Hl Hc. rewrite app_assoc in Hl. apply in_app_or in Hl. apply in_app_or in Hc.
        destruct Hl as [Hl|Hl], Hc as [Hc|Hc].
        -- apply B in Hc. apply Hb in Hl. fin.
        -- exact (Hd _ Hl Hc).
        -- apply B in Hc. apply Bc in Hl. fin.
        -- apply Hh in Hc. apply Bc in Hl. fin.
      * intros cs hs Hin l Hl. apply in_or_app. right. eapply Hdict; eauto.
  - (* Scribble *)
    destruct (nth_error (held c) i) as [l|] eqn:E; [|repeat split; assumption].
    unfold Inv, internal, cache_locs in *. cbn [cur hist cache hp held dicts]. rewrite set_nth_length.
    repeat split; assumption.
Qed.

Lemma init_inv K : Inv (init K).
Proof.
  assert (E1 : somes (repeat None K) = []) by (induction K; cbn; auto).
  assert (E2 : concat (repeat (@nil loc) K) = []) by (induction K; cbn; auto).
  unfold init, Inv, internal, cache_locs. cbn [cur hist cache hp held dicts].
  rewrite E1, E2. cbn. repeat split; try (intros l []); intros; try contradiction.
Qed.

(** every reachable state: internal arrays and caller-held arrays are disjoint *)
Theorem reachable_inv pol K ops : all_fresh pol = true -> Inv (run pol ops (init K)).
Proof.
  intro Hp. unfold run. generalize (init_inv K). generalize (init K).
  induction ops as [|o ops IH]; intros sc Hi; cbn [fold_left]; [exact Hi|].
  apply IH. now apply step_preserves_inv.
Qed.

(** ---- committed history is append-only ---- *)
Lemma step_heap_grows pol s c o : all_fresh pol = true -> is_scribble o = false ->
  grows (hp s) (hp (fst (step pol (s, c) o))).
Proof.
  intros Hpol Hns. unfold all_fresh in Hpol. repeat rewrite andb_true_iff in Hpol.
  destruct Hpol as (((((((P1 & P2) & P3) & P4) & P5) & P6) & P7) & P8).
  destruct o; cbn [step is_scribble] in *; try discriminate.
  - rewrite P1. unfold copy_loc, alloc. cbn [fst hp].
    eapply grows_trans; [apply (grows_alloc (hp s) c0)|apply (grows_alloc (hp s ++ [c0]))].
  - destruct (nth k (cur s) None); [|apply grows_refl]. rewrite P2.
    destruct (copy_loc true (hp s) l) as [h1 l1] eqn:E. cbn. now destruct (copy_loc_fresh _ _ _ _ E).
  - rewrite P2. destruct (copy_opts true (hp s) (cur s)) as [h1 os] eqn:E. cbn. now destruct (copy_opts_fresh _ _ _ _ E).
  - destruct (nth_error _ i); [|apply grows_refl]. rewrite P3.
    destruct (copy_loc true (hp s) l) as [h1 l1] eqn:E. cbn. now destruct (copy_loc_fresh _ _ _ _ E).
  - rewrite P4. cbn. apply (grows_alloc (hp s)).
  - rewrite P5. destruct (copy_opts true (hp s) (cur s)) as [h1 os] eqn:E. cbn. now destruct (copy_opts_fresh _ _ _ _ E).
  - rewrite P6. destruct (copy_opts true (hp s) (cur s)) as [h1 cs] eqn:E1.
    destruct (copy_lists true h1 (hist s)) as [h2 hs] eqn:E2. cbn.
    destruct (copy_opts_fresh _ _ _ _ E1) as (G1 & _). destruct (copy_lists_fresh _ _ _ _ E2) as (G2 & _).
    eapply grows_trans; eauto.
  - destruct (nth_error (dicts c) d) as [[cs hs]|]; [|apply grows_refl]. rewrite P7.
    destruct (copy_opts true (hp s) cs) as [h1 cs'] eqn:E1. destruct (copy_lists true h1 hs) as [h2 hs'] eqn:E2. cbn.
    destruct (copy_opts_fresh _ _ _ _ E1) as (G1 & _). destruct (copy_lists_fresh _ _ _ _ E2) as (G2 & _).
    eapply grows_trans; eauto.
  - rewrite P8. destruct (cache s) as [cch|].
    + destruct (copy_list true (hp s) cch) as [h2 out] eqn:E. cbn. now destruct (copy_list_fresh _ _ _ _ E).
    + destruct (fold_right _ (hp s, []) (hist s)) as [h1 cch] eqn:Ef.
      destruct (copy_list true h1 cch) as [h2 out] eqn:E. cbn.
      destruct (results_alloc_spec _ _ _ _ Ef) as (G1 & _). destruct (copy_list_fresh _ _ _ _ E) as (G2 & _).
      eapply grows_trans; eauto.
Qed.

(** no operation whatsoever changes the contents of an array the state manager already owns *)
Theorem owned_contents_stable pol s c o : all_fresh pol = true -> Inv (s, c) ->
  forall l, In l (internal s) -> deref (hp (fst (step pol (s, c) o))) l = deref (hp s) l.
Proof.
  intros Hpol Hi l Hl. destruct (is_scribble o) eqn:Es.
  - destruct o; try discriminate. now apply (scribble_harmless pol s c i c0 Hi).
  - destruct (step_heap_grows pol s c o Hpol Es) as [_ G]. apply G. destruct Hi as (Hb & _). now apply Hb.
Qed.

(** only Commit and Import ever change the history structure; Commit appends exactly one batch per
    key that currently holds a value and keeps every earlier batch *)
Theorem history_structure pol s c o :
  match o with
  | Commit | Import _ => True
  | _ => hist (fst (step pol (s, c) o)) = hist s
  end.
Proof.
  destruct o; cbn [step]; try exact I.
  - destruct (alloc (hp s) c0) as [h1 l]. destruct (copy_loc _ h1 l). reflexivity.
  - destruct (nth k (cur s) None); [destruct (copy_loc _ _ _)|]; reflexivity.
  - destruct (copy_opts _ _ _). reflexivity.
  - destruct (nth_error _ i); [destruct (copy_loc _ _ _)|]; reflexivity.
  - destruct (fresh_get_history_all pol); reflexivity.
  - destruct (copy_opts _ _ _). destruct (copy_lists _ _ _). reflexivity.
  - destruct (cache s); [destruct (copy_list _ _ _); reflexivity|].
    destruct (fold_right _ _ _) as [h1 cch]. destruct (copy_list _ _ _). reflexivity.
  - destruct (nth_error (held c) i); reflexivity.
Qed.

Lemma commit_append (hs : list (list loc)) (os : list (option loc)) k :
  length hs = length os -> k < length hs ->
  nth k (map (fun p => match snd p with Some l => fst p ++ [l] | None => fst p end) (combine hs os)) []
  = nth k hs [] ++ match nth k os None with Some l => [l] | None => [] end.
Proof.
  revert os k; induction hs as [|h hs IH]; intros [|o os] k Hl Hk; cbn in *; try lia.
  destruct k as [|k]; [destruct o; cbn; now rewrite ?app_nil_r|]. apply IH; lia.
Qed.

Theorem commit_appends_one pol s c k : fresh_commit pol = true ->
  length (cur s) = length (hist s) -> k < length (hist s) ->
  exists ext, nth k (hist (fst (step pol (s, c) Commit))) [] = nth k (hist s) [] ++ ext
  /\ length ext = (if nth k (cur s) None then 1 else 0).
Proof.
  intros Hp Hl Hk. cbn [step]. rewrite Hp.
  destruct (copy_opts true (hp s) (cur s)) as [h1 os] eqn:E. cbn [fst hist].
  destruct (copy_opts_fresh _ _ _ _ E) as (_ & _ & _ & Lo & No).
  rewrite commit_append by lia.
  eexists. split; [reflexivity|].
  destruct (nth k os None) eqn:E1; destruct (nth k (cur s) None) eqn:E2; cbn; try reflexivity.
  - apply No in E2. congruence.
  - apply No in E1. congruence.
Qed.

(** ---- C08 (1): export followed by import restores exactly the same state ---- *)
Lemma map_deref_grows_opts h h' os : grows h h' -> below (length h) (somes os) ->
  map (option_map (deref h')) os = map (option_map (deref h)) os.
Proof.
  intros [_ G] Hb. apply map_ext_in. intros [l|] Hin; cbn; [|reflexivity]. f_equal. apply G. apply Hb. now apply somes_in.
Qed.
Lemma map_deref_grows_lists h h' lss : grows h h' -> below (length h) (concat lss) ->
  map (map (deref h')) lss = map (map (deref h)) lss.
Proof.
  intros [_ G] Hb. apply map_ext_in. intros ls Hin. apply map_ext_in. intros l Hl. apply G. apply Hb. apply in_concat. eauto.
Qed.

Theorem export_import_roundtrip pol s c :
  fresh_to_dict pol = true -> fresh_import pol = true -> Inv (s, c) ->
  let sc1 := step pol (s, c) ToDict in
  let sc2 := step pol sc1 (Import 0) in
  view (fst sc2) = view s.
Proof.
  intros P6 P7 (Hb & _). cbn [step]. rewrite P6.
  assert (Hcur : below (length (hp s)) (somes (cur s))) by (intros l Hl; apply Hb; unfold internal; apply in_or_app; now left).
  assert (Hhist : below (length (hp s)) (concat (hist s))).
  { intros l Hl; apply Hb; unfold internal; apply in_or_app; right; apply in_or_app; now left. }
  destruct (copy_opts true (hp s) (cur s)) as [h1 cs] eqn:E1.
  destruct (copy_lists true h1 (hist s)) as [h2 hs] eqn:E2.
  destruct (copy_opts_fresh _ _ _ _ E1) as (G1 & B1 & D1 & _).
  destruct (copy_lists_fresh _ _ _ _ E2) as (G2 & B2 & D2 & _).
  cbn [step dicts nth_error]. rewrite P7. cbn [hp].
  destruct (copy_opts true h2 cs) as [h3 cs'] eqn:E3.
  destruct (copy_lists true h3 hs) as [h4 hs'] eqn:E4.
  destruct (copy_opts_fresh _ _ _ _ E3) as (G3 & B3 & D3 & _).
  destruct (copy_lists_fresh _ _ _ _ E4) as (G4 & B4 & D4 & _).
  cbn [fst]. unfold view. cbn [cur hist hp].
  assert (Bcs2 : below (length h2) (somes cs)). { intros l Hl. apply B1 in Hl. destruct G2. lia. }
  assert (Bhs3 : below (length h3) (concat hs)). { intros l Hl. apply B2 in Hl. destruct G3. lia. }
  assert (Bcs'4 : below (length h3) (somes cs')). { intros l Hl. apply B3 in Hl. lia. }
  f_equal.
  - rewrite (map_deref_grows_opts h3 h4 cs' G4 Bcs'4). rewrite (D3 Bcs2).
    assert (Bcs1 : below (length h1) (somes cs)) by (intros l Hl; apply B1 in Hl; lia).
    rewrite (map_deref_grows_opts h1 h2 cs G2 Bcs1). apply D1. exact Hcur.
  - rewrite (D4 Bhs3).
    assert (Bhs2 : below (length h2) (concat hs)) by (intros l Hl; apply B2 in Hl; lia).
    rewrite (map_deref_grows_lists h2 h3 hs G3 Bhs2). rewrite D2.
    + apply map_deref_grows_lists; [exact G1|exact Hhist].
    + intros l Hl. apply Hhist in Hl. destruct G1. lia.
Qed.
