(** C20 (volume metric) and the Mahalanobis/affine-transport lemmas shared with C19:
    MathComp matrices over an arbitrary (ordered) field. *)
From mathcomp Require Import all_ssreflect all_algebra.
Set Implicit Arguments. Unset Strict Implicit. Unset Printing Implicit Defensive.
Import GRing.Theory Num.Theory.
Local Open Scope ring_scope.

Section Mahal.
Variable (F : fieldType) (d : nat).

Lemma invmx_mul (A B : 'M[F]_d) :
  A \in unitmx -> B \in unitmx -> invmx (A *m B) = invmx B *m invmx A.
Proof.
  move=> uA uB. have uAB : A *m B \in unitmx by rewrite unitmx_mul uA uB.
  have inj : injective (mulmx (A *m B) : 'M[F]_d -> 'M[F]_d).
    by move=> X Y /(congr1 (mulmx (invmx (A *m B)))); rewrite !mulKmx.
  apply: inj. by rewrite mulmxV // -mulmxA (mulmxA B) mulmxV // mul1mx mulmxV.
Qed.

(** (v A) (A^T S A)^-1 (v A)^T = v S^-1 v^T for invertible A, S *)
Lemma mahal_transport (A S : 'M[F]_d) (v : 'rV[F]_d) :
  A \in unitmx -> S \in unitmx ->
  (v *m A) *m invmx (A^T *m S *m A) *m (v *m A)^T = v *m invmx S *m v^T.
Proof.
  move=> uA uS.
  have uAT : A^T \in unitmx by rewrite unitmx_tr.
  have uATS : A^T *m S \in unitmx by rewrite unitmx_mul uAT uS.
  rewrite invmx_mul // invmx_mul // trmx_mul.
  by rewrite !mulmxA (mulmxK uA) (mulmxKV uAT).
Qed.
End Mahal.

Section Volume.
Variable (F : realFieldType) (n d : nat).
Implicit Types (x : 'I_n -> 'rV[F]_d) (w : 'I_n -> F).

Definition wsum w := \sum_i w i.
Definition wnorm w i := w i / wsum w.
Definition wmean x w := \sum_i wnorm w i *: x i.
Definition xc x w i := x i - wmean x w.
Definition wcov x w := \sum_i wnorm w i *: ((xc x w i)^T *m xc x w i).
Definition mahal x w i := (xc x w i *m invmx (wcov x w) *m (xc x w i)^T) 0 0.
(** 4 * (volume_variation)^2 on the full-rank, unclipped branch *)
Definition vv2 x w := \sum_i (wnorm w i) ^+ 2 * (mahal x w i - d%:R) ^+ 2.

Lemma wnorm_sum w : wsum w != 0 -> \sum_i wnorm w i = 1.
Proof. by move=> h; rewrite /wnorm -mulr_suml divff. Qed.

Lemma wnorm_scale c w i : c != 0 -> wnorm (fun j => c * w j) i = wnorm w i.
Proof.
  move=> c0; rewrite /wnorm /wsum -mulr_sumr.
  case: (altP (\sum_j w j =P 0)) => [->|s0]; first by rewrite mulr0 !invr0 !mulr0.
  by rewrite invfM mulrACA divff // mul1r.
Qed.

Theorem vv2_ge0 x w : 0 <= vv2 x w.
Proof. by apply: sumr_ge0 => i _; apply: mulr_ge0; rewrite sqr_ge0. Qed.

Theorem vv2_weight_scale c x w : c != 0 -> vv2 x (fun j => c * w j) = vv2 x w.
Proof.
  move=> c0.
  have E : wnorm (fun j => c * w j) =1 wnorm w by move=> i; apply: wnorm_scale.
  have Em : wmean x (fun j => c * w j) = wmean x w by apply: eq_bigr => i _; rewrite E.
  have Exc : xc x (fun j => c * w j) =1 xc x w by move=> i; rewrite /xc Em.
  have Ec : wcov x (fun j => c * w j) = wcov x w by apply: eq_bigr => i _; rewrite E Exc.
  by apply: eq_bigr => i _; rewrite E /mahal Exc Ec.
Qed.

(** ---- every branch of the routine at once: K = what is done to the covariance before it multiplies the centred rows (inverse of the
    matrix itself, or of the matrix regularised by 1e-6 trace when the rank test fires), g = what is done to the deviation
    (np.clip to +-1e6). Non-negativity and invariance under rescaling the weights hold for EVERY K and g; affine invariance for the
    plain inverse and every g (so the clip does not matter, the regularisation does). ---- *)
Definition vvgen (K : 'M[F]_d -> 'M[F]_d) (g : F -> F) x w :=
  \sum_i (wnorm w i) ^+ 2 * (g ((xc x w i *m K (wcov x w) *m (xc x w i)^T) 0 0 - d%:R)) ^+ 2.

Lemma vvgen_plain x w : vvgen invmx id x w = vv2 x w.
Proof. by []. Qed.

Theorem vvgen_ge0 K g x w : 0 <= vvgen K g x w.
Proof. by apply: sumr_ge0 => i _; apply: mulr_ge0; rewrite sqr_ge0. Qed.

Theorem vvgen_weight_scale K g c x w : c != 0 -> vvgen K g x (fun j => c * w j) = vvgen K g x w.
Proof.
  move=> c0.
  have E : wnorm (fun j => c * w j) =1 wnorm w by move=> i; apply: wnorm_scale.
  have Em : wmean x (fun j => c * w j) = wmean x w by apply: eq_bigr => i _; rewrite E.
  have Exc : xc x (fun j => c * w j) =1 xc x w by move=> i; rewrite /xc Em.
  have Ec : wcov x (fun j => c * w j) = wcov x w by apply: eq_bigr => i _; rewrite E Exc.
  by apply: eq_bigr => i _; rewrite E Exc Ec.
Qed.

Variable (A : 'M[F]_d) (b : 'rV[F]_d).
Definition aff x : 'I_n -> 'rV[F]_d := fun i => x i *m A + b.

Lemma wmean_aff x w : wsum w != 0 -> wmean (aff x) w = wmean x w *m A + b.
Proof.
  move=> h. rewrite /wmean /aff.
  rewrite (eq_bigr (fun i => (wnorm w i *: x i) *m A + wnorm w i *: b)); last first.
    by move=> i _; rewrite scalerDr scalemxAl.
  by rewrite big_split /= -mulmx_suml -scaler_suml wnorm_sum // scale1r.
Qed.

Lemma xc_aff x w i : wsum w != 0 -> xc (aff x) w i = xc x w i *m A.
Proof. by move=> h; rewrite /xc wmean_aff // /aff mulmxBl opprD addrACA subrr addr0. Qed.

Lemma wcov_aff x w : wsum w != 0 -> wcov (aff x) w = A^T *m wcov x w *m A.
Proof.
  move=> h. rewrite /wcov mulmx_sumr mulmx_suml. apply: eq_bigr => i _.
  by rewrite xc_aff // trmx_mul -scalemxAr -scalemxAl !mulmxA.
Qed.

(** affine invariance on the full-rank branch *)
Theorem vv2_affine x w :
  wsum w != 0 -> A \in unitmx -> wcov x w \in unitmx -> vv2 (aff x) w = vv2 x w.
Proof.
  move=> h uA uC. apply: eq_bigr => i _. congr (_ * (_ - _) ^+ 2).
  by rewrite /mahal xc_aff // wcov_aff // mahal_transport.
Qed.
(** the clipped metric is affine invariant too (whatever is done to the deviation afterwards) *)
Theorem vvgen_affine g x w :
  wsum w != 0 -> A \in unitmx -> wcov x w \in unitmx -> vvgen invmx g (aff x) w = vvgen invmx g x w.
Proof.
  move=> h uA uC. apply: eq_bigr => i _. congr (_ * (g (_ - _)) ^+ 2).
  by rewrite xc_aff // wcov_aff // mahal_transport.
Qed.
End Volume.
