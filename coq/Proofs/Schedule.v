From Coq Require Import List Bool Arith ZArith QArith Lqa Lia.
From Tempest Require Import Base.Ops Model.Schedule.
Import ListNotations.
Local Open Scope Q_scope.

Section Sched.
Variable finite : Q -> bool.
Variables E V : Q -> Q.                 (* ARBITRARY oracles: no monotonicity assumed *)
Variables beta_tol ess_tol big : Q.

Notation upper_loop := (upper_loop QOps E beta_tol).
Notation find_upper := (find_beta_upper_limit QOps E beta_tol).
Notation bisect := (bisection QOps finite beta_tol ess_tol big).
Notation step_ess := (step_ess QOps finite E beta_tol ess_tol big).
Notation step_vol := (step_vol QOps finite E V beta_tol ess_tol big).

Lemma midpoint_between lo hi : lo <= hi -> lo <= midpoint QOps lo hi /\ midpoint QOps lo hi <= hi.
Proof. intro H. unfold midpoint. cbn [o_mul o_add o_half QOps]. split; lra. Qed.

Lemma geb_true a b : o_geb QOps a b = true -> b <= a.
Proof. unfold o_geb. cbn [o_leb QOps]. apply Qle_bool_iff. Qed.
Lemma geb_false a b : o_geb QOps a b = false -> a < b.
Proof.
  unfold o_geb. cbn [o_leb QOps]. intro H. apply Qnot_le_lt. intro C. apply Qle_bool_iff in C. congruence.
Qed.
Lemma ltb_true a b : o_ltb QOps a b = true -> a < b.
Proof. cbn [o_ltb QOps]. apply Qltb_lt. Qed.
Lemma ltb_false a b : o_ltb QOps a b = false -> b <= a.
Proof. cbn [o_ltb QOps]. apply Qltb_ge. Qed.
Lemma leb_true a b : o_leb QOps a b = true -> a <= b.
Proof. cbn [o_leb QOps]. apply Qle_bool_iff. Qed.
Lemma leb_false a b : o_leb QOps a b = false -> b < a.
Proof. cbn [o_leb QOps]. intro H. apply Qnot_le_lt. intro C. apply Qle_bool_iff in C. congruence. Qed.

(** loop invariant of the upper-limit bisection: E lo >= target and lo <= hi *)
Lemma upper_loop_inv fuel : forall target lo hi b,
  lo <= hi -> target <= E lo -> upper_loop fuel target lo hi = Some b ->
  lo <= b /\ b <= hi /\ target <= E b.
Proof.
  induction fuel as [|f IH]; intros target lo hi b Hle HE; cbn [Schedule.upper_loop].
  - destruct (o_gtb QOps (o_sub QOps hi lo) beta_tol); [discriminate|].
    intro H; inversion H; subst. repeat split; [lra|exact Hle|exact HE].
  - destruct (o_gtb QOps (o_sub QOps hi lo) beta_tol).
    + destruct (midpoint_between lo hi Hle) as [M1 M2].
      destruct (o_geb QOps (E (midpoint QOps lo hi)) target) eqn:G.
      * intro H. apply IH in H; [|exact M2|now apply geb_true]. destruct H as (A & B & C). repeat split; [lra|exact B|exact C].
      * intro H. apply IH in H; [|exact M1|exact HE]. destruct H as (A & B & C). repeat split; [exact A|lra|exact C].
    + intro H; inversion H; subst. repeat split; [lra|exact Hle|exact HE].
Qed.

(** C05 (1): the upper limit lies in [beta0, 1]; it is beta0 when ESS is already below target there,
    and otherwise a temperature at which ESS >= target *)
Theorem upper_limit_spec fuel b0 target b : b0 <= 1 ->
  find_upper fuel b0 target = Some b ->
  b0 <= b /\ b <= 1 /\ (E b0 < target -> b = b0) /\ (target <= E b0 -> target <= E b).
Proof.
  intros H1. unfold find_beta_upper_limit.
  destruct (o_ltb QOps (E b0) target) eqn:L.
  - intro H; inversion H; subst. apply ltb_true in L.
    split; [lra|]. split; [exact H1|]. split; [reflexivity|intro; lra].
  - apply ltb_false in L. destruct (o_geb QOps (E (o_one QOps)) target) eqn:G.
    + intro H; inversion H; subst. apply geb_true in G. cbn [o_one QOps] in *.
      split; [exact H1|]. split; [lra|]. split; [intro; lra|intro; exact G].
    + intro H. apply upper_loop_inv in H; [|exact H1|exact L]. cbn [o_one QOps] in H.
      destruct H as (A & B & C). split; [exact A|]. split; [exact B|]. split; [intro; lra|intro; exact C].
Qed.

(** C05 (2): fuel bound — the bracket halves *)
Fixpoint pow2 (n : nat) : Q := match n with O => 1 | S k => 2 * pow2 k end.
Lemma pow2_pos n : 0 < pow2 n. Proof. induction n; cbn; lra. Qed.

Lemma upper_loop_terminates fuel : forall target lo hi, 0 < beta_tol ->
  hi - lo <= beta_tol * pow2 fuel -> exists b, upper_loop fuel target lo hi = Some b.
Proof.
  induction fuel as [|f IH]; intros target lo hi Ht Hw; cbn [Schedule.upper_loop].
  - cbn [pow2] in Hw. assert (G : o_gtb QOps (o_sub QOps hi lo) beta_tol = false).
    { unfold o_gtb. cbn [o_ltb o_sub QOps]. apply Qltb_ge. lra. }
    rewrite G. eauto.
  - destruct (o_gtb QOps (o_sub QOps hi lo) beta_tol); [|eauto].
    cbn [pow2] in Hw.
    destruct (o_geb QOps (E (midpoint QOps lo hi)) target); apply IH; try exact Ht;
      unfold midpoint; cbn [o_mul o_add o_half QOps]; lra.
Qed.

Theorem upper_limit_terminates fuel b0 target : 0 < beta_tol -> 1 - b0 <= beta_tol * pow2 fuel ->
  exists b, find_upper fuel b0 target = Some b.
Proof.
  intros Ht Hw. unfold find_beta_upper_limit.
  destruct (o_ltb QOps (E b0) target); [eauto|].
  destruct (o_geb QOps (E (o_one QOps)) target); [eauto|].
  apply upper_loop_terminates; assumption.
Qed.

(** the generic bisection always answers inside its bracket *)
Lemma bisect_range fuel : forall mode metric target bmin bmax b, bmin <= bmax ->
  bisect fuel mode metric target bmin bmax = Some b -> bmin <= b /\ b <= bmax.
Proof.
  induction fuel as [|f IH]; intros mode metric target bmin bmax b Hle; cbn [bisection]; [discriminate|].
  destruct (midpoint_between bmin bmax Hle) as [M1 M2].
  set (beta := midpoint QOps bmin bmax) in *.
  set (m := if finite (metric beta) then metric beta else big).
  destruct (_ || _ || _).
  - intro H; inversion H; subst. split; assumption.
  - destruct mode; destruct (o_ltb QOps m target); intro H; apply IH in H; try assumption; lra.
Qed.

Lemma bisect_terminates fuel : forall mode metric target bmin bmax, 0 < beta_tol ->
  bmax - bmin < beta_tol * pow2 fuel -> exists b, bisect (S fuel) mode metric target bmin bmax = Some b.
Proof.
  induction fuel as [|f IH]; intros mode metric target bmin bmax Ht Hw.
  - cbn [bisection]. cbn [pow2] in Hw.
    assert (C : o_ltb QOps (o_sub QOps bmax bmin) beta_tol = true).
    { cbn [o_ltb o_sub QOps]. apply Qltb_lt. lra. }
    rewrite C. rewrite orb_true_r. cbn [orb]. eauto.
  - remember (S f) as f'. cbn [bisection]. subst f'.
    destruct (_ || _ || _); [eauto|]. cbn [pow2] in Hw.
    destruct mode; destruct (o_ltb QOps _ target); apply IH; try exact Ht;
      unfold midpoint; cbn [o_mul o_add o_half QOps]; lra.
Qed.

(** C05 (3): one ESS-mode step. The temperature never decreases, never exceeds 1; once it
    advances, ESS at the new temperature is at least the target; the bisection branch is dead;
    weights, ESS and evidence are all taken at the recorded temperature. *)
Theorem step_ess_spec fuel bp target out : bp <= 1 ->
  step_ess fuel bp target = Some out ->
  bp <= new_beta out /\ new_beta out <= 1
  /\ (~ new_beta out == bp -> target <= E (new_beta out))
  /\ branch out <> 3%nat
  /\ weights_at out = new_beta out /\ ess_at out = new_beta out /\ logz_at out = new_beta out.
Proof.
  intros H1. unfold Schedule.step_ess.
  destruct (find_upper fuel bp target) as [bu|] eqn:U; [|discriminate].
  destruct (upper_limit_spec _ _ _ _ H1 U) as (A & B & C & D).
  destruct (o_leb QOps (E bp) target) eqn:L1.
  - intro H; inversion H; subst; cbn.
    split; [lra|]. split; [exact H1|]. split; [intro N; exfalso; apply N; reflexivity|].
    split; [discriminate|]. repeat split.
  - apply leb_false in L1.
    assert (G : o_geb QOps (E bu) target = true).
    { unfold o_geb. cbn [o_leb QOps]. apply Qle_bool_iff. apply D. lra. }
    rewrite G. intro H; inversion H; subst; cbn.
    split; [exact A|]. split; [exact B|]. split; [intros _; apply D; lra|].
    split; [discriminate|]. repeat split.
Qed.

(** C05 (4): one dynamic-mode step stays between the previous temperature and the ESS-limited one *)
Theorem step_vol_spec fuel bp target vt out : bp <= 1 ->
  step_vol fuel bp target vt = Some out ->
  exists bu, find_upper fuel bp target = Some bu
  /\ bp <= new_beta out /\ new_beta out <= bu /\ bu <= 1
  /\ (target <= E bp -> target <= E bu)
  /\ weights_at out = new_beta out /\ ess_at out = new_beta out /\ logz_at out = new_beta out.
Proof.
  intros H1. unfold Schedule.step_vol.
  destruct (find_upper fuel bp target) as [bu|] eqn:U; [|discriminate].
  destruct (upper_limit_spec _ _ _ _ H1 U) as (A & B & C & D).
  intro H. exists bu. split; [reflexivity|].
  destruct (o_eqb QOps bu bp); [inversion H; subst; cbn; repeat split; try lra; try assumption; reflexivity|].
  destruct (o_geb QOps vt (V bu)); [inversion H; subst; cbn; repeat split; try lra; try assumption; reflexivity|].
  destruct (o_leb QOps vt (V bp)); [inversion H; subst; cbn; repeat split; try lra; try assumption; reflexivity|].
  destruct (bisect fuel false V vt bp bu) as [b|] eqn:Bi; [|discriminate].
  apply bisect_range in Bi; [|exact A]. inversion H; subst; cbn. repeat split; try lra; try assumption; reflexivity.
Qed.
End Sched.

(** C05 (6): whole runs. Every iteration may see a different pool, hence different (arbitrary) oracles. *)
Record iter_oracle := mkOr { orE : Q -> Q; orV : Q -> Q }.

Section Run.
Variable finite : Q -> bool.
Variables beta_tol ess_tol big target : Q.
Variable vmode : option Q.
Variable fuel : nat.

Definition one_step (orc : iter_oracle) (bp : Q) : option Q :=
  match vmode with
  | None => option_map (@new_beta Q) (step_ess QOps finite (orE orc) beta_tol ess_tol big fuel bp target)
  | Some vt => option_map (@new_beta Q) (step_vol QOps finite (orE orc) (orV orc) beta_tol ess_tol big fuel bp target vt)
  end.

(** betas recorded by the successive iterations after the first (which records 0) *)
Fixpoint schedule (orcs : list iter_oracle) (bp : Q) : option (list Q) :=
  match orcs with
  | [] => Some []
  | orc :: rest =>
    match one_step orc bp with
    | None => None
    | Some b => option_map (cons b) (schedule rest b)
    end
  end.

Lemma one_step_spec orc bp b : bp <= 1 -> one_step orc bp = Some b -> bp <= b /\ b <= 1.
Proof.
  intros H1. unfold one_step. destruct vmode as [vt|].
  - destruct (step_vol _ _ _ _ _ _ _ _ _ _ _) as [out|] eqn:S; [|discriminate]. cbn. intro H; inversion H; subst.
    destruct (step_vol_spec _ _ _ _ _ _ _ _ _ _ _ H1 S) as (bu & _ & A & B & C & _). lra.
  - destruct (step_ess _ _ _ _ _ _ _ _ _) as [out|] eqn:S; [|discriminate]. cbn. intro H; inversion H; subst.
    destruct (step_ess_spec _ _ _ _ _ _ _ _ _ H1 S) as (A & B & _). lra.
Qed.

Fixpoint chain_ok (prev : Q) (l : list Q) : Prop :=
  match l with [] => True | b :: l' => prev <= b /\ b <= 1 /\ chain_ok b l' end.

(** the recorded sequence 0 :: betas is non-decreasing and stays in [0,1], for every run *)
Theorem schedule_monotone orcs : forall bp betas, bp <= 1 ->
  schedule orcs bp = Some betas -> chain_ok bp betas.
Proof.
  induction orcs as [|orc rest IH]; intros bp betas H1; cbn [schedule].
  - intro H; inversion H; subst. exact I.
  - destruct (one_step orc bp) as [b|] eqn:S; [|discriminate].
    destruct (schedule rest b) as [bs|] eqn:R; [|discriminate]. cbn. intro H; inversion H; subst.
    destruct (one_step_spec _ _ _ H1 S) as [A B]. cbn. repeat split; try assumption. apply IH; assumption.
Qed.
End Run.
