(** C19: the starting point of fit_mvstud (coordinate medians, biased covariance + diag(variances)/n) -- which is also what
    the routine returns whenever the root bracket for nu has no sign change: well-posed and equivariant under
    per-coordinate positive scalings, translations and permutations of the coordinates. Any real field (MathComp). *)
From mathcomp Require Import all_ssreflect all_fingroup all_algebra.
From mathcomp Require Import ring.
Set Implicit Arguments. Unset Strict Implicit. Unset Printing Implicit Defensive.
Import Order.TTheory GRing.Theory Num.Theory.
Local Open Scope ring_scope.

Section Median.
Variable F : realFieldType.
Implicit Types (s : seq F).

Definition med s : F :=
  let t := sort <=%R s in
  if odd (size s) then nth 0 t (size s)./2
  else (nth 0 t (size s)./2.-1 + nth 0 t (size s)./2) / 2%:R.

Lemma sort_affine a b s : 0 < a ->
  sort <=%R [seq a * x + b | x <- s] = [seq a * x + b | x <- sort <=%R s].
Proof.
  move=> apos.
  apply: (@sorted_eq _ <=%R); [exact: le_trans | exact: le_anti | exact: sort_le_sorted | |].
  - rewrite sorted_map. apply: (@sub_sorted _ <=%R); last exact: sort_le_sorted.
    by move=> x y /= xy; rewrite ler_add2r ler_pmul2l.
  - rewrite perm_sort. apply: perm_map. by rewrite perm_sym perm_sort.
Qed.

Lemma med_affine a b s : 0 < a -> s != [::] -> med [seq a * x + b | x <- s] = a * med s + b.
Proof.
  move=> apos snil. rewrite /med size_map sort_affine //.
  have sz : (0 < size s)%N by case: (s) snil.
  have h2 : ((size s)./2 < size (sort <=%R s))%N.
    by rewrite size_sort -divn2; apply: ltn_Pdiv.
  have h1 : ((size s)./2.-1 < size (sort <=%R s))%N by apply: leq_ltn_trans h2; apply: leq_pred.
  case: ifP => _.
  - by rewrite (nth_map 0).
  - rewrite !(nth_map 0) //. 
    rewrite addrACA -mulrDr mulrDl -mulrA. congr (_ + _).
    by rewrite -mulr2n -[b *+ 2]mulr_natr mulfK // pnatr_eq0.
Qed.

(** the median lies in any interval that contains the data *)
Lemma med_in_range lo hi s : s != [::] -> all (fun x => lo <= x <= hi) s -> lo <= med s <= hi.
Proof.
  move=> snil inr.
  have sz : (0 < size s)%N by case: (s) snil.
  have h2 : ((size s)./2 < size (sort <=%R s))%N.
    by rewrite size_sort -divn2; apply: ltn_Pdiv.
  have h1 : ((size s)./2.-1 < size (sort <=%R s))%N by apply: leq_ltn_trans h2; apply: leq_pred.
  have inr' : all (fun x => lo <= x <= hi) (sort <=%R s) by rewrite all_sort.
  have P k : (k < size (sort <=%R s))%N -> lo <= nth 0 (sort <=%R s) k <= hi.
    by move=> hk; move/all_nthP: inr'; apply.
  rewrite /med. case: ifP => _; first exact: P.
  case/andP: (P _ h1) => l1 u1. case/andP: (P _ h2) => l2 u2.
  rewrite ler_pdivl_mulr ?ltr0n // ler_pdivr_mulr ?ltr0n //.
  by rewrite !mulr_natr !mulr2n ler_add // ler_add.
Qed.
End Median.

Section Init.
Variable (F : realFieldType) (n d : nat).
Implicit Types (x : 'I_n -> 'rV[F]_d).

(** what fit_mvstud starts from (and, when the root bracket for nu has no sign change, returns):
    coordinate-wise medians, biased covariance + diag(biased variances)/n *)
Definition col x (j : 'I_d) : seq F := [seq x i 0 j | i <- enum 'I_n].
Definition mu0 x : 'rV[F]_d := \row_j med (col x j).
Definition mean x (j : 'I_d) : F := n%:R^-1 * \sum_i x i 0 j.
Definition cen x (i : 'I_n) (j : 'I_d) : F := x i 0 j - mean x j.
Definition cov0 x (j k : 'I_d) : F := n%:R^-1 * \sum_i cen x i j * cen x i k.
Definition Sigma0 x : 'M[F]_d := \matrix_(j, k) (cov0 x j k + n%:R^-1 * (cov0 x j k *+ (j == k))).

Lemma col_nil x j : (0 < n)%N -> col x j != [::].
Proof. by move=> npos; rewrite /col -size_eq0 size_map size_enum_ord -lt0n. Qed.

(** new coordinate j = a_j * (old coordinate s j) + b_j : per-coordinate positive scaling, translation and
    permutation of the coordinates in one map *)
Variables (a b : 'rV[F]_d) (s : 'S_d).
Definition tr x : 'I_n -> 'rV[F]_d := fun i => \row_j (a 0 j * x i 0 (s j) + b 0 j).

Lemma col_tr x j : col (tr x) j = [seq a 0 j * y + b 0 j | y <- col x (s j)].
Proof. rewrite /col. elim: (enum 'I_n) => //= i l ->. by rewrite mxE. Qed.

Lemma mean_tr x j : (0 < n)%N -> mean (tr x) j = a 0 j * mean x (s j) + b 0 j.
Proof.
  move=> npos. rewrite /mean.
  rewrite (eq_bigr (fun i => a 0 j * x i 0 (s j) + b 0 j)); last by move=> i _; rewrite mxE.
  rewrite big_split /= -mulr_sumr sumr_const card_ord mulrDr.
  have nz : n%:R != 0 :> F by rewrite pnatr_eq0 -lt0n.
  rewrite -[b 0 j *+ n]mulr_natl. congr (_ + _); first by rewrite mulrCA.
  by rewrite mulrA mulVf // mul1r.
Qed.

Lemma cen_tr x i j : (0 < n)%N -> cen (tr x) i j = a 0 j * cen x i (s j).
Proof. move=> npos. rewrite /cen mean_tr // mxE. ring. Qed.

Lemma cov_tr x j k : (0 < n)%N -> cov0 (tr x) j k = a 0 j * a 0 k * cov0 x (s j) (s k).
Proof.
  move=> npos. rewrite /cov0 mulrCA. congr (_ * _). rewrite mulr_sumr. apply: eq_bigr => i _.
  rewrite !cen_tr //. ring.
Qed.

Theorem init_equivariant x : (0 < n)%N -> (forall j, 0 < a 0 j) ->
  (forall j, mu0 (tr x) 0 j = a 0 j * mu0 x 0 (s j) + b 0 j)
  /\ (forall j k, Sigma0 (tr x) j k = a 0 j * a 0 k * Sigma0 x (s j) (s k)).
Proof.
  move=> npos apos. split.
  - move=> j. rewrite !mxE col_tr med_affine //. exact: col_nil.
  - move=> j k. rewrite !mxE !cov_tr // (inj_eq perm_inj).
    case: (j == k); rewrite ?mulr0n ?mulr1n; ring.
Qed.

(** well-posedness of the starting point *)
Theorem init_location_in_box x (j : 'I_d) lo hi : (0 < n)%N ->
  (forall i, lo <= x i 0 j <= hi) -> lo <= mu0 x 0 j <= hi.
Proof.
  move=> npos box. rewrite mxE. apply: med_in_range; first exact: col_nil.
  by apply/allP => y /mapP [i _ ->].
Qed.

Theorem init_scale_symmetric x j k : Sigma0 x j k = Sigma0 x k j.
Proof.
  rewrite !mxE eq_sym.
  have -> : cov0 x j k = cov0 x k j by rewrite /cov0; congr (_ * _); apply: eq_bigr => i _; rewrite mulrC.
  by [].
Qed.

Lemma quad_cov x (v : 'rV[F]_d) :
  \sum_j \sum_k v 0 j * cov0 x j k * v 0 k = n%:R^-1 * \sum_i (\sum_j v 0 j * cen x i j) ^+ 2.
Proof.
  rewrite mulr_sumr.
  transitivity (\sum_j \sum_k \sum_i n%:R^-1 * ((v 0 j * cen x i j) * (v 0 k * cen x i k))).
  - apply: eq_bigr => j _. apply: eq_bigr => k _.
    rewrite /cov0 !mulr_sumr mulr_suml. apply: eq_bigr => i _. ring.
  - rewrite exchange_big /=.
    rewrite (eq_bigr (fun k => \sum_i \sum_j n%:R^-1 * (v 0 j * cen x i j * (v 0 k * cen x i k)))); last first.
      by move=> k _; rewrite exchange_big.
    rewrite exchange_big /=. apply: eq_bigr => i _.
    rewrite expr2 big_distrlr /= mulr_sumr exchange_big /=. apply: eq_bigr => j _.
    by rewrite mulr_sumr.
Qed.

Lemma quad_form x (v : 'rV[F]_d) :
  \sum_j \sum_k v 0 j * Sigma0 x j k * v 0 k =
  n%:R^-1 * (\sum_i (\sum_j v 0 j * cen x i j) ^+ 2) + n%:R^-1 * (\sum_j (v 0 j) ^+ 2 * cov0 x j j).
Proof.
  rewrite -(quad_cov x v) mulr_sumr -big_split /=. apply: eq_bigr => j _.
  rewrite (eq_bigr (fun k => v 0 j * cov0 x j k * v 0 k
                             + (if k == j then n%:R^-1 * ((v 0 j) ^+ 2 * cov0 x j j) else 0))); last first.
    move=> k _. rewrite mxE eq_sym. case: eqP => [->|_]; rewrite ?mulr1n ?mulr0n; ring.
  by rewrite big_split /= -big_mkcond /= big_pred1_eq.
Qed.

(** positive definite as soon as every coordinate has positive variance (non-degenerate data) *)
Theorem init_scale_posdef x (v : 'rV[F]_d) : (0 < n)%N ->
  (forall j, 0 < cov0 x j j) -> v != 0 -> 0 < \sum_j \sum_k v 0 j * Sigma0 x j k * v 0 k.
Proof.
  move=> npos vpos vnz. rewrite quad_form.
  have ninv : 0 < n%:R^-1 :> F by rewrite invr_gt0 ltr0n.
  have [j0 vj0] : exists j, v 0 j != 0.
    apply/existsP. rewrite -negb_forall. apply: contra vnz => /forallP h.
    by apply/eqP/rowP => j; rewrite mxE; apply/eqP.
  apply: ltr_paddl.
  - apply: mulr_ge0; first exact: ltW. by apply: sumr_ge0 => i _; apply: sqr_ge0.
  - apply: mulr_gt0 => //. rewrite (bigD1 j0) //=. apply: ltr_paddr.
    + apply: sumr_ge0 => j _. apply: mulr_ge0; [exact: sqr_ge0 | exact: ltW].
    + apply: mulr_gt0 => //. by rewrite exprn_even_gt0.
Qed.

(** non-vacuity of the premise: the biased variance of a coordinate that is not constant is positive *)
Lemma var_pos x j (i1 i2 : 'I_n) : (0 < n)%N -> x i1 0 j != x i2 0 j -> 0 < cov0 x j j.
Proof.
  move=> npos ne. rewrite /cov0. apply: mulr_gt0; first by rewrite invr_gt0 ltr0n.
  have nn i : 0 <= cen x i j * cen x i j by rewrite -expr2 sqr_ge0.
  have [i0 ci0] : exists i, cen x i j != 0.
    case: (altP (cen x i1 j =P 0)) => [e1|]; last by exists i1.
    exists i2. apply: contra ne => /eqP e2. move: e1 e2; rewrite /cen => /eqP; rewrite subr_eq0 => /eqP -> /eqP.
    by rewrite subr_eq0 eq_sym.
  rewrite (bigD1 i0) //=. apply: ltr_paddr; first by apply: sumr_ge0 => i _.
  by rewrite -expr2 exprn_even_gt0.
Qed.
End Init.
