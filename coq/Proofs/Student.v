(** C19: one ECME step of tempest.student.fit_mvstud over an arbitrary real field (MathComp). *)
From mathcomp Require Import all_ssreflect all_algebra.
From Tempest Require Import Proofs.Volume.
Set Implicit Arguments. Unset Strict Implicit. Unset Printing Implicit Defensive.
Import Order.TTheory GRing.Theory Num.Theory.
Local Open Scope ring_scope.

Section ECME.
Variable (F : realFieldType) (n d : nat).
(** the degrees-of-freedom update is an oracle of the Mahalanobis distances only (and d, n) *)
Variable optnu : {ffun 'I_n -> F} -> F.
Implicit Types (x : 'I_n -> 'rV[F]_d) (mu : 'rV[F]_d) (S : 'M[F]_d).

Definition delta x mu S : {ffun 'I_n -> F} := [ffun i => ((x i - mu) *m invmx S *m (x i - mu)^T) 0 0].
Definition wgt (nu : F) (de : {ffun 'I_n -> F}) i : F := (nu + d%:R) / (nu + de i).
Definition new_nu x mu S : F := optnu (delta x mu S).
Definition new_w x mu S i : F := wgt (new_nu x mu S) (delta x mu S) i.
Definition new_Sigma x mu S : 'M[F]_d := n%:R^-1 *: \sum_i new_w x mu S i *: ((x i - mu)^T *m (x i - mu)).
Definition new_mu x mu S : 'rV[F]_d := (\sum_i new_w x mu S i)^-1 *: \sum_i new_w x mu S i *: x i.

Variable (A : 'M[F]_d) (b : 'rV[F]_d).
Definition affx x : 'I_n -> 'rV[F]_d := fun i => x i *m A + b.

Lemma delta_affine x mu S : A \in unitmx -> S \in unitmx ->
  delta (affx x) (mu *m A + b) (A^T *m S *m A) = delta x mu S.
Proof.
  move=> uA uS. apply/ffunP => i. rewrite !ffunE /affx.
  have -> : x i *m A + b - (mu *m A + b) = (x i - mu) *m A.
    by rewrite mulmxBl opprD addrACA subrr addr0.
  by rewrite mahal_transport.
Qed.

(** equivariance of one step under x |-> x A + b, for EVERY invertible A (so in particular per-coordinate
    scalings and coordinate permutations) and every translation b *)
Theorem step_equivariant x mu S : A \in unitmx -> S \in unitmx -> \sum_i new_w x mu S i != 0 ->
  [/\ new_nu (affx x) (mu *m A + b) (A^T *m S *m A) = new_nu x mu S,
      new_Sigma (affx x) (mu *m A + b) (A^T *m S *m A) = A^T *m new_Sigma x mu S *m A
    & new_mu (affx x) (mu *m A + b) (A^T *m S *m A) = new_mu x mu S *m A + b].
Proof.
  move=> uA uS sw.
  have Ed := delta_affine x mu uA uS.
  have En : new_nu (affx x) (mu *m A + b) (A^T *m S *m A) = new_nu x mu S by rewrite /new_nu Ed.
  have Ew i : new_w (affx x) (mu *m A + b) (A^T *m S *m A) i = new_w x mu S i by rewrite /new_w En Ed.
  split=> //.
  - rewrite /new_Sigma -scalemxAr -scalemxAl; congr (_ *: _).
    rewrite mulmx_sumr mulmx_suml. apply: eq_bigr => i _. rewrite Ew /affx.
    have -> : x i *m A + b - (mu *m A + b) = (x i - mu) *m A.
      by rewrite mulmxBl opprD addrACA subrr addr0.
    by rewrite trmx_mul -scalemxAr -scalemxAl !mulmxA.
  - rewrite /new_mu. rewrite (eq_bigr (fun i => new_w x mu S i)); last by move=> i _; rewrite Ew.
    rewrite (eq_bigr (fun i => (new_w x mu S i *: x i) *m A + new_w x mu S i *: b)); last first.
      by move=> i _; rewrite Ew /affx scalerDr scalemxAl.
    rewrite big_split /= -mulmx_suml -scaler_suml scalerDr -scalemxAl scalerA mulVf // scale1r.
    by [].
Qed.

(** the new location is a convex combination of the data: every coordinate stays within the data's range *)
Theorem location_in_box x mu S (j : 'I_d) (lo hi : F) :
  (forall i, 0 < new_w x mu S i) -> (0 < n)%N ->
  (forall i, lo <= x i 0 j <= hi) -> lo <= new_mu x mu S 0 j <= hi.
Proof.
  move=> wpos npos box. set w := new_w x mu S. set W := \sum_i w i.
  have Wpos : 0 < W.
    have [i0 _] : exists i0 : 'I_n, true by case: (n) npos => // m _; exists ord0.
    rewrite /W (bigD1 i0) //=. apply: ltr_paddr; last exact: wpos.
    by apply: sumr_ge0 => i _; apply: ltW.
  have E : new_mu x mu S 0 j = W^-1 * \sum_i w i * x i 0 j.
    rewrite /new_mu mxE. congr (_ * _). rewrite summxE. by apply: eq_bigr => i _; rewrite mxE.
  rewrite E.
  have lo_le : lo * W <= \sum_i w i * x i 0 j.
    rewrite /W mulr_sumr. apply: ler_sum => i _. rewrite mulrC. apply: ler_wpmul2l; first exact: ltW.
    by case/andP: (box i).
  have hi_ge : \sum_i w i * x i 0 j <= hi * W.
    rewrite /W mulr_sumr. apply: ler_sum => i _. rewrite [hi * _]mulrC. apply: ler_wpmul2l; first exact: ltW.
    by case/andP: (box i).
  by rewrite ler_pdivl_mull // ler_pdivr_mull // [W * lo]mulrC [W * hi]mulrC lo_le hi_ge.
Qed.

(** the new scale matrix is symmetric and positive semi-definite (positive definite when the centred
    rows span the space: then some term of the sum is positive) *)
Theorem scale_symmetric x mu S : (new_Sigma x mu S)^T = new_Sigma x mu S.
Proof.
  rewrite /new_Sigma linearZ /=. congr (_ *: _). rewrite linear_sum /=. apply: eq_bigr => i _.
  by rewrite linearZ /= trmx_mul trmxK.
Qed.

Theorem scale_psd x mu S (v : 'rV[F]_d) :
  (forall i, 0 <= new_w x mu S i) -> 0 <= (v *m new_Sigma x mu S *m v^T) 0 0.
Proof.
  move=> wge. rewrite /new_Sigma -scalemxAr -scalemxAl mxE. apply: mulr_ge0; first by rewrite invr_ge0 ler0n.
  rewrite mulmx_sumr mulmx_suml summxE. apply: sumr_ge0 => i _.
  rewrite -scalemxAr -scalemxAl mxE. apply: mulr_ge0; first exact: wge.
  set r := x i - mu.
  have -> : v *m (r^T *m r) *m v^T = (v *m r^T) *m (v *m r^T)^T by rewrite trmx_mul trmxK !mulmxA.
  rewrite mxE big_ord1 !mxE. by rewrite -expr2 sqr_ge0.
Qed.
End ECME.

Section Weights.
Variable (F : realFieldType) (n d : nat).
Lemma wgt_pos (nu : F) (de : {ffun 'I_n -> F}) i : 0 < nu -> 0 <= de i -> 0 < wgt d nu de i.
Proof.
  move=> nupos dege. rewrite /wgt. apply: divr_gt0.
  - by apply: ltr_paddr => //; rewrite ler0n.
  - by apply: ltr_paddr.
Qed.
End Weights.
