From Coq Require Import List Bool Arith ZArith QArith Lqa Lia.
From Tempest Require Import Model.Warmup.
Import ListNotations.
Local Open Scope Q_scope.

Lemma nQ_pos n : (0 < n)%nat -> 0 < nQ n.
Proof. intro H. unfold nQ. change 0 with (inject_Z 0). rewrite <- Zlt_Qlt. lia. Qed.
Lemma nQ_le m n : (m <= n)%nat -> nQ m <= nQ n.
Proof. intro H. unfold nQ. rewrite <- Zle_Qle. lia. Qed.

Definition in_range (a b : Q) (hist : list (nat * Q)) : Prop :=
  forall p, In p hist -> (0 < fst p)%nat /\ a <= snd p /\ snd p <= b.

Definition Nsum (hist : list (nat * Q)) : Q := fold_right (fun p acc => nQ (fst p) + acc) 0 hist.
Definition Hsum (N : Q) (hist : list (nat * Q)) : Q := fold_right (fun p acc => nQ (fst p) / N / snd p + acc) 0 hist.

Lemma Nsum_nonneg hist : 0 <= Nsum hist.
Proof.
  induction hist as [|p h IH]; [cbn; lra|]. change (Nsum (p :: h)) with (nQ (fst p) + Nsum h).
  assert (0 <= nQ (fst p)). { unfold nQ. change 0 with (inject_Z 0). rewrite <- Zle_Qle. lia. } lra.
Qed.

Lemma div_antitone w x y : 0 < w -> 0 < x -> x <= y -> w / y <= w / x.
Proof.
  intros Hw Hx Hxy. apply Qle_shift_div_l; [exact Hx|].
  setoid_replace (w / y * x) with (w * (x / y)) by (field; lra).
  assert (x / y <= 1) by (apply Qle_shift_div_r; lra).
  assert (0 <= x / y) by (apply Qle_shift_div_l; lra). nra.
Qed.

(** sum_t (n_t/N)/Z_t lies between (sum n_t/N)/b and (sum n_t/N)/a *)
Lemma Hsum_bounds a b N hist : 0 < a -> a <= b -> 0 < N -> in_range a b hist ->
  Nsum hist / N / b <= Hsum N hist /\ Hsum N hist <= Nsum hist / N / a.
Proof.
  intros Ha Hab HN. induction hist as [|p h IH]; intro Hr.
  - cbn. split; unfold Qdiv; rewrite !Qmult_0_l; lra.
  - change (Nsum (p :: h)) with (nQ (fst p) + Nsum h).
    change (Hsum N (p :: h)) with (nQ (fst p) / N / snd p + Hsum N h).
    destruct (Hr p (or_introl eq_refl)) as (Hn & Hlo & Hhi).
    destruct (IH (fun q Hq => Hr q (or_intror Hq))) as [I1 I2].
    pose proof (nQ_pos _ Hn) as Hp.
    assert (Hz : 0 < snd p) by lra.
    assert (Hw : 0 < nQ (fst p) / N) by (apply Qlt_shift_div_l; lra).
    set (w := nQ (fst p) / N) in *.
    assert (E1 : (nQ (fst p) + Nsum h) / N / b == w / b + Nsum h / N / b) by (subst w; field; lra).
    assert (E2 : (nQ (fst p) + Nsum h) / N / a == w / a + Nsum h / N / a) by (subst w; field; lra).
    rewrite E1, E2.
    assert (B1 : w / b <= w / snd p) by (apply div_antitone; lra).
    assert (B2 : w / snd p <= w / a) by (apply div_antitone; lra).
    split; lra.
Qed.

(** the weighted harmonic mean of values in [a,b] lies in [a,b] *)
Lemma harmonic_in_range a b hist : 0 < a -> a <= b -> hist <> [] -> in_range a b hist ->
  a <= harmonic hist /\ harmonic hist <= b.
Proof.
  intros Ha Hab Hne Hr. unfold harmonic. fold (Nsum hist). fold (Hsum (Nsum hist) hist).
  assert (HN : 0 < Nsum hist).
  { destruct hist as [|p h]; [congruence|]. change (Nsum (p :: h)) with (nQ (fst p) + Nsum h).
    destruct (Hr p (or_introl eq_refl)) as (Hn & _). pose proof (nQ_pos _ Hn). pose proof (Nsum_nonneg h). lra. }
  destruct (Hsum_bounds a b (Nsum hist) hist Ha Hab HN Hr) as [B1 B2].
  assert (E : Nsum hist / Nsum hist == 1) by (field; lra). rewrite E in B1, B2.
  assert (Hb : 0 < b) by lra.
  assert (L1 : 0 < 1 / b) by (apply Qlt_shift_div_l; lra).
  assert (HS : 0 < Hsum (Nsum hist) hist) by lra.
  split.
  - apply Qle_shift_div_l; [exact HS|]. 
    assert (a * (1 / a) == 1) by (field; lra). nra.
  - apply Qle_shift_div_r; [exact HS|].
    assert (b * (1 / b) == 1) by (field; lra). nra.
Qed.

(** every batch fraction m/n with 1 <= m <= n *)
Definition fractions_in (a b : Q) (batches : list (nat * nat)) : Prop :=
  forall n m, In (n, m) batches -> (0 < m <= n)%nat /\ a <= nQ m / nQ n /\ nQ m / nQ n <= b.

(** C11 (2): with the repaired rule every recorded warm-up evidence lies between the smallest and the
    largest single-batch fraction (1 included when a batch saw no -inf draw): it is never a product of
    fractions, however many prior-sampling iterations occur *)
Theorem counted_once a b : 0 < a -> a <= 1 -> 1 <= b ->
  forall batches hist, in_range a b hist -> fractions_in a b batches ->
  in_range a b (warm_run false hist batches).
Proof.
  intros Ha Ha1 Hb1. induction batches as [|[n m] r IH]; intros hist Hr Hf; cbn [warm_run]; [exact Hr|].
  apply IH; [|intros n' m' Hin; apply Hf; now right].
  destruct (Hf n m (or_introl eq_refl)) as ((Hm0 & Hmn) & Hlo & Hhi).
  unfold warm_step. intros p Hin. apply in_app_or in Hin. destruct Hin as [Hin|[<-|[]]]; [now apply Hr|].
  cbn [fst snd]. split; [lia|]. unfold mutator_Z.
  destruct (Nat.ltb m n); [split; assumption|].
  destruct hist as [|p0 h]; [split; lra|].
  apply harmonic_in_range; try assumption; [lra|discriminate].
Qed.

(** ... and it IS the batch's own fraction whenever the batch saw a -inf draw *)
Theorem records_own_fraction hist n m : (m < n)%nat ->
  snd (last (warm_step false hist n m) (0%nat, 0)) = nQ m / nQ n.
Proof.
  intro H. unfold warm_step. rewrite last_last. cbn [snd]. unfold mutator_Z.
  assert (E : Nat.ltb m n = true) by now apply Nat.ltb_lt. now rewrite E.
Qed.
