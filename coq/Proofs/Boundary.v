From Coq Require Import List Bool Arith ZArith QArith Qround Lqa Lia.
From Tempest Require Import Base.Ops Base.QFloor Model.Boundary.
Import ListNotations.
Local Open Scope Q_scope.

(** ---------- wrap ---------- *)
Lemma wrapQ_compat x y : x == y -> wrapQ x == wrapQ y.
Proof. intro H. unfold wrapQ, wrap1, Qmod_one. rewrite (Qfloor_comp _ _ H). lra. Qed.

Lemma wrapQ_range x : 0 <= wrapQ x /\ wrapQ x < 1.
Proof. unfold wrapQ, wrap1, Qmod_one. destruct (Qfloor_range x). split; lra. Qed.

Lemma wrapQ_period x : wrapQ (x + 1) == wrapQ x.
Proof.
  unfold wrapQ, wrap1, Qmod_one. change 1 with (inject_Z 1) at 1 2. rewrite Qfloor_plus_Z.
  rewrite inject_Z_plus. ring.
Qed.

Lemma wrapQ_shift_Z x z : wrapQ (x + inject_Z z) == wrapQ x.
Proof. unfold wrapQ, wrap1, Qmod_one. rewrite Qfloor_plus_Z, inject_Z_plus. ring. Qed.

Lemma wrapQ_id x : 0 <= x -> x < 1 -> wrapQ x == x.
Proof.
  intros H0 H1. unfold wrapQ, wrap1, Qmod_one.
  rewrite (Qfloor_unique x 0%Z); change (inject_Z 0) with 0; lra.
Qed.

Lemma wrapQ_idem x : wrapQ (wrapQ x) == wrapQ x.
Proof. destruct (wrapQ_range x). apply wrapQ_id; assumption. Qed.

(** a displacement z that takes x to y = wrap(x+z) is undone by -z *)
Lemma wrapQ_symmetric x z : 0 <= x -> x < 1 -> wrapQ (wrapQ (x + z) - z) == x.
Proof.
  intros H0 H1. unfold wrapQ at 2. unfold wrap1, Qmod_one.
  assert (E : x + z - inject_Z (Qfloor (x + z)) - z == x + inject_Z (- Qfloor (x + z))).
  { rewrite inject_Z_opp. ring. }
  rewrite (wrapQ_compat _ _ E), wrapQ_shift_Z. apply wrapQ_id; assumption.
Qed.

(** ---------- fold ---------- *)
Lemma foldQ_unfold x :
  foldQ x = if Z.even (Qfloor x) then x - inject_Z (Qfloor x) else 1 - (x - inject_Z (Qfloor x)).
Proof. unfold foldQ, fold1, Qeven_q, Qfloor_q. rewrite Qfloor_Z. reflexivity. Qed.

Lemma foldQ_range x : 0 <= foldQ x /\ foldQ x <= 1.
Proof. rewrite foldQ_unfold. destruct (Qfloor_range x). destruct (Z.even (Qfloor x)); split; lra. Qed.

Lemma foldQ_id x : 0 <= x -> x <= 1 -> foldQ x == x.
Proof.
  intros H0 H1. rewrite foldQ_unfold.
  destruct (Qlt_le_dec x 1) as [Hlt|Hge].
  - rewrite (Qfloor_unique x 0%Z); change (inject_Z 0) with 0; try lra. cbn. ring.
  - assert (Hx : x == 1) by lra.
    rewrite (Qfloor_unique x 1%Z); change (inject_Z 1) with 1; try lra. cbn. lra.
Qed.

Lemma foldQ_compat x y : x == y -> foldQ x == foldQ y.
Proof. intro H. rewrite !foldQ_unfold. rewrite (Qfloor_comp _ _ H). destruct (Z.even (Qfloor y)); lra. Qed.

Lemma foldQ_period2 x : foldQ (x + 2) == foldQ x.
Proof.
  rewrite !foldQ_unfold. change 2 with (inject_Z 2). rewrite Qfloor_plus_Z.
  rewrite Z.even_add. change (Z.even 2) with true.
  destruct (Z.even (Qfloor x)); cbn [Bool.eqb]; rewrite inject_Z_plus; ring.
Qed.

Lemma foldQ_shift_even x z : Z.even z = true -> foldQ (x + inject_Z z) == foldQ x.
Proof.
  intro Hz. rewrite !foldQ_unfold. rewrite Qfloor_plus_Z, Z.even_add, Hz.
  destruct (Z.even (Qfloor x)); cbn [Bool.eqb]; rewrite inject_Z_plus; ring.
Qed.

Lemma Qfloor_neg_int x : x == inject_Z (Qfloor x) -> Qfloor (- x) = (- Qfloor x)%Z.
Proof.
  intro H. apply Qfloor_unique; rewrite inject_Z_opp; lra.
Qed.
Lemma Qfloor_neg_nonint x : ~ x == inject_Z (Qfloor x) -> Qfloor (- x) = (- Qfloor x - 1)%Z.
Proof.
  intro H. destruct (Qfloor_range x) as [H1 H2].
  apply Qfloor_unique; unfold Z.sub; rewrite inject_Z_plus, !inject_Z_opp; change (inject_Z 1) with 1.
  - lra.
  - assert (inject_Z (Qfloor x) < x).
    { apply Qnot_le_lt. intro C. apply H. lra. }
    lra.
Qed.

Lemma foldQ_even_fn x : foldQ (- x) == foldQ x.
Proof.
  rewrite !foldQ_unfold.
  destruct (Qeq_dec x (inject_Z (Qfloor x))) as [E|NE].
  - rewrite (Qfloor_neg_int x E). rewrite Z.even_opp. rewrite inject_Z_opp.
    destruct (Z.even (Qfloor x)); lra.
  - rewrite (Qfloor_neg_nonint x NE).
    replace (- Qfloor x - 1)%Z with (- (Qfloor x + 1))%Z by lia.
    rewrite Z.even_opp, Z.even_add. change (Z.even 1) with false.
    rewrite inject_Z_opp, inject_Z_plus. change (inject_Z 1) with 1.
    destruct (Z.even (Qfloor x)); cbn [Bool.eqb]; ring.
Qed.

Lemma foldQ_idem x : foldQ (foldQ x) == foldQ x.
Proof. destruct (foldQ_range x). apply foldQ_id; assumption. Qed.

(** a displacement z that takes x to y = fold(x+z) is undone by a displacement of the same size *)
Lemma foldQ_symmetric x z : 0 <= x -> x <= 1 ->
  let z' := if Z.even (Qfloor (x + z)) then - z else z in
  foldQ (foldQ (x + z) + z') == x.
Proof.
  intros H0 H1 z'. subst z'. rewrite (foldQ_unfold (x + z)).
  destruct (Z.even (Qfloor (x + z))) eqn:E.
  - assert (Ez : x + z - inject_Z (Qfloor (x + z)) + - z == x + inject_Z (- Qfloor (x + z))).
    { rewrite inject_Z_opp. ring. }
    rewrite (foldQ_compat _ _ Ez). rewrite foldQ_shift_even by (rewrite Z.even_opp; exact E).
    apply foldQ_id; assumption.
  - assert (Ez : 1 - (x + z - inject_Z (Qfloor (x + z))) + z == - x + inject_Z (Qfloor (x + z) + 1)).
    { rewrite inject_Z_plus. change (inject_Z 1) with 1. ring. }
    rewrite (foldQ_compat _ _ Ez). rewrite foldQ_shift_even.
    + rewrite foldQ_even_fn. apply foldQ_id; assumption.
    + rewrite Z.even_add, E. reflexivity.
Qed.

(** ---------- vectors ---------- *)
Section Vec.
Context {T : Type} (o : Ops T) (floorT : T -> T) (is_even : T -> bool) (mod_one : T -> T).

Lemma update_length (u : list T) i f : length (update u i f) = length u.
Proof. revert i; induction u as [|x u IH]; intros [|i]; cbn; auto. Qed.

Lemma update_nth (u : list T) i f j d :
  nth j (update u i f) d = if Nat.eqb j i then (if Nat.ltb j (length u) then f (nth j u d) else d) else nth j u d.
Proof.
  revert i j; induction u as [|x u IH]; intros i j.
  - destruct i, j; cbn; try reflexivity. all: destruct (Nat.eqb j i); reflexivity.
  - destruct i as [|i], j as [|j]; cbn [update nth Nat.eqb length]; try reflexivity.
    rewrite IH. destruct (Nat.eqb j i); [|reflexivity].
    change (Nat.ltb (S j) (S (length u))) with (Nat.ltb j (length u)). reflexivity.
Qed.

Lemma fold_update_untouched (idxs : list nat) f : forall (u : list T) j d,
  ~ In j idxs -> nth j (fold_left (fun acc i => update acc i f) idxs u) d = nth j u d.
Proof.
  induction idxs as [|i idxs IH]; intros u j d Hj; cbn [fold_left]; [reflexivity|].
  rewrite IH by (intro C; apply Hj; now right).
  rewrite update_nth. destruct (Nat.eqb j i) eqn:E; [|reflexivity].
  apply Nat.eqb_eq in E. exfalso. apply Hj. left. congruence.
Qed.

Lemma fold_update_length (idxs : list nat) f : forall (u : list T),
  length (fold_left (fun acc i => update acc i f) idxs u) = length u.
Proof. induction idxs as [|i idxs IH]; intro u; cbn [fold_left]; [reflexivity|]. rewrite IH. apply update_length. Qed.

(** non-designated coordinates are returned unchanged, the length is preserved *)
Theorem apply_bc_untouched periodic reflective (u : list T) j d :
  ~ In j periodic -> ~ In j reflective ->
  nth j (apply_bc o floorT is_even mod_one periodic reflective u) d = nth j u d.
Proof. intros Hp Hr. unfold apply_bc. rewrite fold_update_untouched by exact Hr. now apply fold_update_untouched. Qed.

Theorem apply_bc_length periodic reflective (u : list T) :
  length (apply_bc o floorT is_even mod_one periodic reflective u) = length u.
Proof. unfold apply_bc. now rewrite !fold_update_length. Qed.

(** a coordinate designated once (NoDup lists, disjoint) receives exactly its map *)
Lemma fold_update_once (idxs : list nat) f : forall (u : list T) j d,
  NoDup idxs -> In j idxs -> (j < length u)%nat ->
  nth j (fold_left (fun acc i => update acc i f) idxs u) d = f (nth j u d).
Proof.
  induction idxs as [|i idxs IH]; intros u j d Hnd Hin Hj; [destruct Hin|].
  inversion Hnd as [|? ? Hni Hnd']; subst. cbn [fold_left].
  destruct (Nat.eq_dec j i) as [->|Hne].
  - rewrite fold_update_untouched by exact Hni. rewrite update_nth, Nat.eqb_refl.
    assert (E : Nat.ltb i (length u) = true) by (apply Nat.ltb_lt; exact Hj). now rewrite E.
  - destruct Hin as [C|Hin]; [congruence|].
    rewrite IH; try assumption; [|now rewrite update_length].
    rewrite update_nth. assert (E : Nat.eqb j i = false) by (apply Nat.eqb_neq; exact Hne). now rewrite E.
Qed.

Theorem apply_bc_periodic periodic reflective (u : list T) j d :
  NoDup periodic -> In j periodic -> ~ In j reflective -> (j < length u)%nat ->
  nth j (apply_bc o floorT is_even mod_one periodic reflective u) d = wrap1 mod_one (nth j u d).
Proof.
  intros Hnd Hin Hr Hj. unfold apply_bc. rewrite fold_update_untouched by exact Hr.
  now apply fold_update_once.
Qed.

Theorem apply_bc_reflective periodic reflective (u : list T) j d :
  NoDup reflective -> In j reflective -> ~ In j periodic -> (j < length u)%nat ->
  nth j (apply_bc o floorT is_even mod_one periodic reflective u) d = fold1 o floorT is_even (nth j u d).
Proof.
  intros Hnd Hin Hp Hj. unfold apply_bc.
  rewrite fold_update_once; try assumption; [|now rewrite fold_update_length].
  now rewrite fold_update_untouched by exact Hp.
Qed.

(** the bounds check accepts exactly when every non-designated coordinate is in [0,1] *)
Theorem check_bounds_spec periodic reflective (u : list T) d :
  check_bounds o periodic reflective u = true <->
  forall j, (j < length u)%nat -> ~ In j periodic -> ~ In j reflective -> in_unit o (nth j u d) = true.
Proof.
  unfold check_bounds. rewrite forallb_forall. split.
  - intros H j Hj Hp Hr.
    specialize (H (j, nth j u d)).
    assert (Hin : In (j, nth j u d) (combine (seq 0 (length u)) u)).
    { replace (j, nth j u d) with (nth j (combine (seq 0 (length u)) u) (0%nat, d)).
      - apply nth_In. rewrite combine_length, seq_length. lia.
      - rewrite combine_nth by now rewrite seq_length. rewrite seq_nth by exact Hj. reflexivity. }
    specialize (H Hin). cbn [fst snd] in H. apply orb_true_iff in H. destruct H as [H|H]; [|exact H].
    exfalso. unfold special in H. apply orb_true_iff in H.
    destruct H as [H|H]; apply existsb_exists in H; destruct H as (i & Hi & E); apply Nat.eqb_eq in E; subst; tauto.
  - intros H [j v] Hin. cbn [fst snd].
    destruct (In_nth _ _ (0%nat, d) Hin) as (k & Hk & Ek).
    rewrite combine_length, seq_length, Nat.min_id in Hk.
    rewrite combine_nth in Ek by now rewrite seq_length. rewrite seq_nth in Ek by exact Hk.
    cbn [Nat.add] in Ek. injection Ek as <- <-.
    destruct (special periodic reflective k) eqn:S; [reflexivity|]. cbn [orb].
    unfold special in S. apply orb_false_iff in S. destruct S as [S1 S2].
    apply H; [exact Hk| |]; intro C.
    + assert (existsb (Nat.eqb k) periodic = true) by (apply existsb_exists; exists k; split; [exact C|apply Nat.eqb_refl]). congruence.
    + assert (existsb (Nat.eqb k) reflective = true) by (apply existsb_exists; exists k; split; [exact C|apply Nat.eqb_refl]). congruence.
Qed.
End Vec.
