(** C06 over exact rationals for the routine as repaired: teeth clipped below the next cell boundary (the identity over
    Q for offsets in [0,1]), loop bounded at the last non-zero weight (= the comb run on the weights up to it).
    The floor/ceil law for EVERY index of the full weight vector, hence: a zero-weight index is never selected. *)
From Coq Require Import List Bool Arith Lia ZArith QArith Qround Lqa.
From Tempest Require Import Base.Ops Base.QFloor Model.Resample Proofs.Resample Proofs.ResampleQ.
Import ListNotations.
Local Open Scope Q_scope.

(** over Q the clip does nothing: tooth i is at most (i+1)/n whenever u0 <= 1 *)
Lemma cposition_Q u0 n i : (0 < n)%nat -> u0 <= 1 -> cposition QOps u0 n i = position QOps u0 n i.
Proof.
  intros Hn Hu. unfold cposition, o_minT, cell_end, position.
  cbn [o_leb o_prev o_div o_add o_ofnat o_one QOps]. fold (iQ i). fold (iQ n).
  pose proof (iQ_pos n Hn) as Hp.
  assert (E : Qle_bool ((u0 + iQ i) / iQ n) ((iQ i + 1) / iQ n) = true).
  { apply Qle_bool_iff. apply Qle_shift_div_l; [exact Hp|].
    assert (Hm : (u0 + iQ i) / iQ n * iQ n == u0 + iQ i) by (field; lra). rewrite Hm. lra. }
  now rewrite E.
Qed.

Lemma cpositions_Q u0 n : (0 < n)%nat -> u0 <= 1 -> cpositions QOps u0 n = positions QOps u0 n.
Proof. intros Hn Hu. unfold cpositions, positions. apply map_ext. intro i. now apply cposition_Q. Qed.

(** ---- the weights up to the last non-zero one ---- *)
Definition zeroQ (x : Q) : Prop := x == 0.

Lemma is_zero_Q x : is_zero QOps x = true <-> x == 0.
Proof. unfold is_zero. cbn [o_eqb o_zero QOps]. apply Qeq_bool_iff. Qed.

Lemma drop_zeros_split l : exists z, l = z ++ drop_zeros QOps l /\ Forall zeroQ z.
Proof.
  induction l as [|x r IH]; cbn [drop_zeros]; [exists []; split; [reflexivity|constructor]|].
  destruct (is_zero QOps x) eqn:E.
  - destruct IH as (z & Hz & Fz). exists (x :: z). split; [cbn; now f_equal|].
    constructor; [now apply is_zero_Q|exact Fz].
  - exists []. split; [reflexivity|constructor].
Qed.

(** w = (weights up to the last non-zero) ++ (zeros) *)
Lemma upto_split w : exists z, w = upto_last_nonzero QOps w ++ z /\ Forall zeroQ z.
Proof.
  unfold upto_last_nonzero. destruct (drop_zeros_split (rev w)) as (z & Hz & Fz).
  destruct (drop_zeros QOps (rev w)) as [|y r] eqn:E.
  - exists []. split; [now rewrite app_nil_r|constructor].
  - exists (rev z). split.
    + rewrite <- rev_app_distr. rewrite <- Hz. now rewrite rev_involutive.
    + apply Forall_rev. exact Fz.
Qed.

Lemma fold_zeros z : Forall zeroQ z -> forall a, fold_left Qplus z a == a.
Proof.
  induction 1 as [|x z Hx _ IH]; intro a; cbn [fold_left]; [reflexivity|].
  rewrite IH. unfold zeroQ in Hx. rewrite Hx. ring.
Qed.

Lemma nth_zeros z k : Forall zeroQ z -> nth k z 0 == 0.
Proof.
  intro F. revert k. induction F as [|x z Hx _ IH]; intro k; destruct k; cbn; try reflexivity; [exact Hx|apply IH].
Qed.

Lemma nonneg_app_l (a b : list Q) : nonneg (a ++ b) -> nonneg a.
Proof. intros H y Hy. apply H. apply in_or_app. now left. Qed.

(** ---- the floor/ceil law for the repaired routine, for every index of the full vector ---- *)
Theorem sysres2_floor_ceil n w sqrteps u0 :
  (0 < n)%nat -> nonneg w -> 0 <= sqrteps -> 0 <= u0 -> u0 < 1 -> sum_list QOps w == 1 ->
  exists idx, sysres2 QOps true n w sqrteps u0 = Some idx /\
    forall k, (k < length w)%nat ->
      (Qfloor (iQ n * nth k w 0)%Q <= Z.of_nat (copies idx k) <= Qceiling (iQ n * nth k w 0)%Q)%Z.
Proof.
  intros Hn Hw He Hu0 Hu1 Hs.
  destruct (upto_split w) as (z & Hsplit & Fz).
  set (w' := upto_last_nonzero QOps w) in *.
  assert (Hw' : nonneg w') by (apply (nonneg_app_l w' z); rewrite <- Hsplit; exact Hw).
  (* the sum of the kept weights is the sum of all of them *)
  assert (Hs' : sum_list QOps w' == 1).
  { pose proof Hs as Hs2. unfold sum_list in Hs2 |- *. cbn [o_add o_zero QOps] in Hs2 |- *.
    rewrite Hsplit in Hs2. rewrite fold_left_app in Hs2. rewrite fold_zeros in Hs2 by exact Fz. exact Hs2. }
  destruct w' as [|x r] eqn:Ew'.
  { unfold sum_list in Hs'. cbn in Hs'. discriminate. }
  assert (Hx : 0 <= x) by (apply Hw'; now left).
  assert (Hr : nonneg r) by (intros y Hy; apply Hw'; now right).
  destruct (sysres_floor_ceil n x r sqrteps u0 Hn Hx Hr He Hu0 Hu1 Hs') as (idx & Eidx & Hfc).
  exists idx. split.
  - unfold sysres2, sysres2_with_sum. unfold sysres, sysres_with_sum in Eidx.
    assert (E : renorm_needed QOps (fold_left (o_add QOps) w (o_zero QOps)) sqrteps = false).
    { unfold renorm_needed, o_gtb. cbn [o_ltb o_abs o_sub o_one QOps]. apply Qltb_ge.
      unfold sum_list in Hs. rewrite Hs. assert (Z0 : 1 - 1 == 0) by ring. rewrite Z0. cbn. exact He. }
    rewrite E. fold w'. rewrite Ew'. rewrite cpositions_Q by (try assumption; lra).
    assert (E' : renorm_needed QOps (sum_list QOps (x :: r)) sqrteps = false).
    { unfold renorm_needed, o_gtb. cbn [o_ltb o_abs o_sub o_one QOps]. apply Qltb_ge.
      rewrite Hs'. assert (Z0 : 1 - 1 == 0) by ring. rewrite Z0. cbn. exact He. }
    rewrite E' in Eidx. exact Eidx.
  - intros k Hk.
    destruct (Nat.lt_ge_cases k (length (x :: r))) as [Hin|Hout].
    + (* an index up to the last non-zero weight: same weight, same count *)
      assert (En : nth k w 0 = nth k (x :: r) 0) by (rewrite Hsplit; now rewrite app_nth1).
      rewrite En. apply Hfc. cbn in Hin. lia.
    + (* beyond it: weight zero, and never selected *)
      assert (En : nth k w 0 == 0).
      { rewrite Hsplit. rewrite app_nth2 by exact Hout. now apply nth_zeros. }
      assert (Ec : copies idx k = 0%nat).
      { unfold copies. apply count_occ_not_In. intro Hi.
        assert (Hb : forall y, In y idx -> (y <= length r)%nat).
        { unfold sysres, sysres_with_sum in Eidx.
          destruct (renorm_needed QOps (sum_list QOps (x :: r)) sqrteps) eqn:Er.
          - exfalso. unfold renorm_needed, o_gtb in Er. cbn [o_ltb o_abs o_sub o_one QOps] in Er.
            apply Qltb_lt in Er. rewrite Hs' in Er. assert (Z0 : 1 - 1 == 0) by ring. rewrite Z0 in Er. cbn in Er. lra.
          - apply (comb_some_inv QOps) in Eidx. destruct Eidx as (_ & Hrange & _).
            intros y Hy. apply Hrange in Hy. lia. }
        apply Hb in Hi. cbn in Hout. lia. }
      rewrite Ec. assert (Ez : iQ n * nth k w 0 == 0) by (rewrite En; ring).
      rewrite Ez. cbn. lia.
Qed.

(** corollary: an index of weight zero is never selected, whatever the offset *)
Corollary sysres2_skips_zero_weights n w sqrteps u0 k :
  (0 < n)%nat -> nonneg w -> 0 <= sqrteps -> 0 <= u0 -> u0 < 1 -> sum_list QOps w == 1 ->
  (k < length w)%nat -> nth k w 0 == 0 ->
  exists idx, sysres2 QOps true n w sqrteps u0 = Some idx /\ copies idx k = 0%nat.
Proof.
  intros Hn Hw He Hu0 Hu1 Hs Hk Hz.
  destruct (sysres2_floor_ceil n w sqrteps u0 Hn Hw He Hu0 Hu1 Hs) as (idx & E & Hfc).
  exists idx. split; [exact E|]. specialize (Hfc k Hk).
  assert (Ez : iQ n * nth k w 0 == 0) by (rewrite Hz; ring). rewrite Ez in Hfc. cbn in Hfc. lia.
Qed.

(** non-vacuity, and the two corner cases that motivated the repair, in exact arithmetic *)
Example sysres2_example :
  sysres2 QOps true 4 [0; 1#2; 0; 1#2; 0] (1#100000000) (1#3) = Some [1; 1; 3; 3]%nat.
Proof. vm_compute. reflexivity. Qed.
