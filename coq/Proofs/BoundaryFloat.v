(** Float layer of C16: with every operation rounded to nearest-even binary64
    (Flocq's real-valued model of IEEE-754 double: FLT format, emin = -1074, 53 bits),
    the computed periodic and reflective maps stay inside [0,1]. *)
From Coq Require Import Reals ZArith Lra Lia.
From Flocq Require Import Core.
Local Open Scope R_scope.

Definition b64_exp := FLT_exp (-1074) 53.
Definition RN (x : R) : R := round radix2 b64_exp ZnearestE x.

Lemma RN_le x y : x <= y -> RN x <= RN y.
Proof. intro H. apply round_le; [apply FLT_exp_valid; reflexivity|apply valid_rnd_N|exact H]. Qed.

Lemma RN_0 : RN 0 = 0.
Proof. apply round_0. apply valid_rnd_N. Qed.

Lemma RN_1 : RN 1 = 1.
Proof.
  apply round_generic; [apply valid_rnd_N|].
  change 1 with (bpow radix2 0). apply generic_format_bpow.
  unfold b64_exp, FLT_exp. cbn. lia.
Qed.

Lemma RN_unit x : 0 <= x <= 1 -> 0 <= RN x <= 1.
Proof. intros [H0 H1]. split; [rewrite <- RN_0|rewrite <- RN_1]; now apply RN_le. Qed.

(** reflective map as computed (repaired code): n = floor x (exact), r = RN (x - n),
    result r for even n, RN (1 - r) for odd n *)
Definition fold_fl (x : R) : R :=
  let n := Zfloor x in
  let r := RN (x - IZR n) in
  if Z.even n then r else RN (1 - r).

Theorem fold_fl_range x : 0 <= fold_fl x <= 1.
Proof.
  unfold fold_fl.
  assert (Hr : 0 <= RN (x - IZR (Zfloor x)) <= 1).
  { apply RN_unit. pose proof (Zfloor_lb x). pose proof (Zfloor_ub x). lra. }
  destruct (Z.even (Zfloor x)); [exact Hr|]. apply RN_unit. lra.
Qed.

(** periodic map as computed by numpy's remainder(x, 1.0): m = fmod(x,1) (exact, sign of x);
    result m for m >= 0 and RN (m + 1) for m < 0 *)
Definition wrap_fl (x : R) : R :=
  let m := x - IZR (Ztrunc x) in
  if Rlt_dec m 0 then RN (m + 1) else m.

Theorem wrap_fl_range x : 0 <= wrap_fl x <= 1.
Proof.
  unfold wrap_fl. set (m := x - IZR (Ztrunc x)).
  assert (Hm : -1 < m < 1).
  { subst m. unfold Ztrunc. destruct (Rlt_bool_spec x 0) as [Hx|Hx].
    - pose proof (Zceil_ub x). pose proof (Zceil_lb x). lra.
    - pose proof (Zfloor_lb x). pose proof (Zfloor_ub x). lra. }
  destruct (Rlt_dec m 0) as [Hneg|Hpos].
  - apply RN_unit. lra.
  - lra.
Qed.

(** the computed fold differs from the exact triangle wave by at most one rounding, and is
    exact wherever x - floor x is representable (Sterbenz region) — stated as: the only
    inexact step is the final [1 - r] *)
Theorem fold_fl_even_exact x :
  generic_format radix2 b64_exp (x - IZR (Zfloor x)) -> Z.even (Zfloor x) = true ->
  fold_fl x = x - IZR (Zfloor x).
Proof.
  intros Hf He. unfold fold_fl. rewrite He. apply round_generic; [apply valid_rnd_N|exact Hf].
Qed.
