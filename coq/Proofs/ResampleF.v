(** C06 on binary64: the two laws of ResampleNZ hold for IEEE doubles, so the zero-weight theorem applies to the binary64
    twin itself (the instance that is executed bit for bit against the implementation). Uses Flocq's correspondence between
    Coq's primitive floats and its IEEE-754 formalisation (and, through it, the standard library's float axioms). *)
From Coq Require Import List Bool ZArith.
From Coq Require Import Floats.PrimFloat.
From Flocq Require Import IEEE754.BinarySingleNaN.
From Flocq Require IEEE754.PrimFloat.
Import Flocq.IEEE754.PrimFloat.
From Tempest Require Import Base.Ops Model.Resample Proofs.Resample Proofs.ResampleNZ.
Import ListNotations.

From Coq Require Import Floats.FloatOps.
Local Notation B := (binary_float FloatOps.prec FloatOps.emax).

Lemma Prim2B_zero : Prim2B 0%float = B754_zero false.
Proof. reflexivity. Qed.

(** the values that compare equal to 0 are the two zeros *)
Lemma eqb_zero_is_zero (z : PrimFloat.float) : PrimFloat.eqb z 0%float = true -> exists s, Prim2B z = B754_zero s.
Proof.
  rewrite eqb_equiv, Prim2B_zero. destruct (Prim2B z) as [s|s| |s m e H]; cbn; try discriminate.
  - intros _. now exists s.
  - destruct s; discriminate.
  - destruct s; discriminate.
Qed.

(** comparing a zero with anything does not depend on the sign of the zero *)
Lemma Bleb_zero_sign s s' (P : B) : Bleb (B754_zero s) P = Bleb (B754_zero s') P /\ Bleb P (B754_zero s) = Bleb P (B754_zero s').
Proof. destruct P as [sp|sp| |sp mp ep Hp]; split; reflexivity. Qed.

(** law (A): adding a zero weight never changes the outcome of the loop test *)
Lemma add_zero_law_F p c z : is_zero FOps z = true -> o_geb FOps p (o_add FOps c z) = o_geb FOps p c.
Proof.
  unfold is_zero, o_geb. cbn [o_eqb o_zero o_leb o_add FOps]. intro Z.
  destruct (eqb_zero_is_zero z Z) as (s & Hz).
  rewrite !leb_equiv, add_equiv, Hz.
  destruct (Prim2B c) as [sc|sc| |sc mc ec Hc]; cbn [Bplus]; try reflexivity.
  destruct (Bool.eqb sc s); [reflexivity|]. apply Bleb_zero_sign.
Qed.

(** law (B) from a checkable premise: a tooth that compares >= +0 compares >= every zero *)
Lemma tooth_ge_zero_F p z : PrimFloat.leb 0%float p = true -> is_zero FOps z = true -> o_geb FOps p z = true.
Proof.
  unfold is_zero, o_geb. cbn [o_eqb o_zero o_leb FOps]. intros Hp Z.
  destruct (eqb_zero_is_zero z Z) as (s & Hz).
  rewrite leb_equiv, Hz. rewrite leb_equiv, Prim2B_zero in Hp.
  destruct (Bleb_zero_sign s false (Prim2B p)) as [E _]. now rewrite E.
Qed.

(** the binary64 routine never returns an index whose (renormalised) weight compares equal to zero, provided some weight is
    non-zero and every tooth compares >= +0 (teeth are quotients of non-negative doubles; checked on every executed case) *)
Theorem sysres2_binary64_selects_nonzero size w s sqrteps u0 idx :
  let w' := if renorm_needed FOps s sqrteps then renorm FOps w s else w in
  drop_zeros FOps (rev w') <> [] ->
  (forall p, In p (cpositions FOps u0 size) -> PrimFloat.leb 0%float p = true) ->
  sysres2_with_sum FOps true size w s sqrteps u0 = Some idx ->
  forall i, In i idx -> exists wi, nth_error w' i = Some wi /\ PrimFloat.eqb wi 0%float = false.
Proof.
  intros w' Hnz Hteeth Hrun i Hi.
  exact (sysres2_selects_nonzero FOps add_zero_law_F size w s sqrteps u0 idx Hnz
           (fun p Hp z Z => tooth_ge_zero_F p z (Hteeth p Hp) Z) Hrun i Hi).
Qed.
