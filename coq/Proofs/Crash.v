From Coq Require Import List Bool Arith Lia.
From Tempest Require Import Model.Crash.
Import ListNotations.

Lemma upd_same f n v : upd f n v n = v.
Proof. unfold upd. now rewrite Nat.eqb_refl. Qed.
Lemma upd_other f n v m : m <> n -> upd f n v m = f m.
Proof. intro H. unfold upd. apply Nat.eqb_neq in H. now rewrite H. Qed.

Lemma exec1_untouched f o n : touches n o = false -> exec1 f o n = f n.
Proof.
  destruct o; cbn; intro H; try reflexivity.
  - apply Nat.eqb_neq in H. apply upd_other. congruence.
  - destruct (f n0) as [[d p]|]; [|reflexivity]. apply Nat.eqb_neq in H. apply upd_other. congruence.
  - destruct (f n0) as [[d p]|]; [|reflexivity]. apply Nat.eqb_neq in H. apply upd_other. congruence.
  - apply orb_false_iff in H. destruct H as [Ha Hb]. apply Nat.eqb_neq in Ha, Hb.
    destruct (f a) as [x|]; [|reflexivity]. rewrite upd_other by congruence. apply upd_other. congruence.
Qed.

(** invariant carried along an op list of atomic shape *)
Definition tmp_ok (f : fs) (tmp : name) (opened synced : bool) : Prop :=
  (opened = true -> exists d p, f tmp = Some (d, p)) /\ (synced = true -> exists d, f tmp = Some (d, [])).

Lemma atomic_shape_safe tmp final : tmp <> final -> forall ops opened synced f,
  is_atomic_shape tmp final ops opened synced = true -> tmp_ok f tmp opened synced ->
  forall p q, ops = p ++ q ->
  exec p f final = f final \/ (q = [] /\ exists d, exec p f final = Some (d, [])).
Proof.
  intros Hne. induction ops as [|o r IH]; intros opened synced f Hs Hok p q Hpq.
  - destruct p; [now left|discriminate].
  - destruct p as [|o' p']; [now left|]. cbn [app] in Hpq. inversion Hpq; subst o' r. clear Hpq.
    cbn [exec fold_left]. fold (exec p' (exec1 f o)).
    (* last-operation case: a single rename *)
    destruct (p' ++ q) as [|o2 r2] eqn:Er.
    + apply app_eq_nil in Er. destruct Er as [-> ->]. cbn [exec fold_left].
      destruct o; cbn [is_atomic_shape] in Hs; try discriminate;
        try (rewrite ?andb_false_r in Hs; discriminate).
      * (* Rename a b *)
        repeat (apply andb_true_iff in Hs; destruct Hs as [Hs ?]).
        apply Nat.eqb_eq in Hs. apply Nat.eqb_eq in H1. subst a b. subst.
        destruct Hok as [_ Hsy]. destruct (Hsy eq_refl) as (d & Hd). right. split; [reflexivity|]. exists d.
        cbn [exec1]. rewrite Hd. rewrite upd_other by congruence. now rewrite upd_same.
    + (* a later operation exists: o does not touch final *)
      assert (Hs' : negb (touches final o) = true /\
                    match o with
                    | Open_trunc m => Nat.eqb m tmp && is_atomic_shape tmp final (o2 :: r2) true false
                    | Write m _ => Nat.eqb m tmp && opened && is_atomic_shape tmp final (o2 :: r2) opened false
                    | Fsync m => Nat.eqb m tmp && is_atomic_shape tmp final (o2 :: r2) opened opened
                    | Rename _ _ => false
                    | _ => is_atomic_shape tmp final (o2 :: r2) opened synced
                    end = true).
      { cbn [is_atomic_shape] in Hs. destruct o; apply andb_true_iff in Hs; exact Hs. }
      destruct Hs' as [Hnt Hrest]. apply negb_true_iff in Hnt.
      assert (Hf : exec1 f o final = f final) by now apply exec1_untouched.
      destruct Hok as [Hop Hsy].
      assert (Hstep : exists opened' synced', is_atomic_shape tmp final (o2 :: r2) opened' synced' = true
                                              /\ tmp_ok (exec1 f o) tmp opened' synced').
      { destruct o; try discriminate.
        - exists opened, synced. split; [exact Hrest|]. split; cbn [exec1]; assumption.
        - apply andb_true_iff in Hrest. destruct Hrest as [Hm Hr]. apply Nat.eqb_eq in Hm. subst n.
          exists true, false. split; [exact Hr|]. split; [|discriminate]. intros _. cbn [exec1]. rewrite upd_same. eauto.
        - apply andb_true_iff in Hrest. destruct Hrest as [Hm Hr]. apply andb_true_iff in Hm. destruct Hm as [Hm Ho].
          apply Nat.eqb_eq in Hm. subst n. exists opened, false. split; [exact Hr|]. split; [|discriminate].
          intros _. destruct (Hop Ho) as (d & p0 & E). cbn [exec1]. rewrite E, upd_same. eauto.
        - exists opened, synced. split; [exact Hrest|]. split; cbn [exec1]; assumption.
        - apply andb_true_iff in Hrest. destruct Hrest as [Hm Hr]. apply Nat.eqb_eq in Hm. subst n.
          exists opened, opened. split; [exact Hr|]. split; intro Ho; destruct (Hop Ho) as (d & p0 & E);
            cbn [exec1]; rewrite E, upd_same; eauto.
        - exists opened, synced. split; [exact Hrest|]. split; cbn [exec1]; assumption. }
      destruct Hstep as (op' & sy' & Hshape & Hok').
      destruct (IH op' sy' (exec1 f o) Hshape Hok' p' q (eq_sym Er)) as [E|[Eq (d & Ed)]].
      * left. now rewrite E.
      * right. split; [exact Eq|]. now exists d.
Qed.

(** C08 (3): crash at ANY point of a save of atomic shape: the final name is absent, holds the old
    complete content, or holds a complete (fully durable) new content — never a truncated file *)
Theorem atomic_save_crash_safe tmp final ops f0 old :
  tmp <> final -> is_atomic_shape tmp final ops false false = true ->
  f0 final = old -> (match old with Some (_, p) => p = [] | None => True end) ->
  forall p q c, ops = p ++ q -> after_crash (exec p f0) final c ->
  (c = option_map fst old) \/ (q = [] /\ exists d, exec p f0 final = Some (d, []) /\ c = Some d).
Proof.
  intros Hne Hs Hold Hclean p q c Hpq Hc.
  assert (Hok : tmp_ok f0 tmp false false) by (split; discriminate).
  destruct (atomic_shape_safe tmp final Hne ops false false f0 Hs Hok p q Hpq) as [E|[Eq (d & Ed)]].
  - left. unfold after_crash in Hc. rewrite E, Hold in Hc. destruct old as [[d0 p0]|]; destruct c as [bs|]; try contradiction.
    + subst p0. destruct Hc as (k & Hk & ->). cbn in Hk. assert (k = 0) by lia. subst. cbn. now rewrite app_nil_r.
    + reflexivity.
  - right. split; [exact Eq|]. exists d. split; [exact Ed|]. unfold after_crash in Hc. rewrite Ed in Hc.
    destruct c as [bs|]; [|contradiction]. destruct Hc as (k & Hk & ->). cbn in Hk. assert (k = 0) by lia. subst. cbn. now rewrite app_nil_r.
Qed.

Lemma atomic_save_has_shape tmp final chunks : tmp <> final ->
  is_atomic_shape tmp final (atomic_save tmp final chunks) false false = true.
Proof.
  intro Hne. assert (Hf : Nat.eqb tmp final = false) by now apply Nat.eqb_neq.
  unfold atomic_save. cbn [app is_atomic_shape touches negb andb]. rewrite Hf, Nat.eqb_refl. cbn [negb andb].
  destruct chunks as [|c cs].
  - cbn. rewrite ?Hf, ?Nat.eqb_refl. cbn. rewrite ?Hf, ?Nat.eqb_refl. reflexivity.
  - cbn [map app].
    assert (G : forall cs sy, is_atomic_shape tmp final (map (Write tmp) cs ++ [Flush tmp; Fsync tmp; Close tmp; Rename tmp final]) true sy = true).
    { clear c cs. induction cs as [|c cs IH]; intro sy.
      - cbn. rewrite ?Hf, ?Nat.eqb_refl. cbn. rewrite ?Hf, ?Nat.eqb_refl. reflexivity.
      - cbn [map app is_atomic_shape touches]. rewrite Hf, Nat.eqb_refl. cbn [negb andb].
        destruct (map (Write tmp) cs ++ _) eqn:E; [destruct cs; discriminate|]. apply IH. }
    cbn [is_atomic_shape touches]. rewrite Hf, Nat.eqb_refl. cbn [negb andb].
    destruct (map (Write tmp) cs ++ _) eqn:E; [destruct cs; discriminate|]. rewrite <- E. apply G.
Qed.

(** the direct protocol of the pinned tree IS unsafe: a crash right after open leaves an empty file *)
Lemma direct_save_refuted :
  exists p q c, direct_save 0 [[1;2;3]] = p ++ q /\
    after_crash (exec p (fun n => if Nat.eqb n 0 then Some ([7;7], []) else None)) 0 c /\ c = Some [].
Proof.
  exists [Mkdir; Open_trunc 0], [Write 0 [1;2;3]; Close 0], (Some []). split; [reflexivity|]. split; [|reflexivity].
  cbn. exists 0. split; [lia|reflexivity].
Qed.
