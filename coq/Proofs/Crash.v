From Coq Require Import List Bool Arith Lia.
From Tempest Require Import Model.Crash.
Import ListNotations.

Lemma upd_same f n v : upd f n v n = v.
Proof. unfold upd. now rewrite Nat.eqb_refl. Qed.
Lemma upd_other f n v m : m <> n -> upd f n v m = f m.
Proof. intro H. unfold upd. apply Nat.eqb_neq in H. now rewrite H. Qed.

Lemma exec1_untouched f o n : touches n o = false -> exec1 f o n = f n.
Proof.
  destruct o; cbn; intro H; try reflexivity;
    try (destruct (f n0) as [[[d p] u]|]; [|reflexivity]; apply Nat.eqb_neq in H; apply upd_other; congruence).
  - apply Nat.eqb_neq in H. apply upd_other. congruence.
  - apply orb_false_iff in H. destruct H as [Ha Hb]. apply Nat.eqb_neq in Ha, Hb.
    destruct (f a) as [x|]; [|reflexivity]. rewrite upd_other by congruence. apply upd_other. congruence.
Qed.

(** invariant carried along an op list of atomic shape *)
Definition tmp_ok (f : fs) (tmp : name) (opened flushed synced : bool) : Prop :=
  (opened = true -> exists d p u, f tmp = Some (d, p, u))
  /\ (opened = true -> flushed = true -> exists d p, f tmp = Some (d, p, []))
  /\ (synced = true -> exists d, f tmp = Some (d, [], [])).

Lemma atomic_shape_safe tmp final : tmp <> final -> forall ops opened flushed synced f,
  is_atomic_shape tmp final ops opened flushed synced = true -> tmp_ok f tmp opened flushed synced ->
  forall p q, ops = p ++ q ->
  exec p f final = f final \/ (q = [] /\ exists d, exec p f final = Some (d, [], [])).
Proof.
  intros Hne. induction ops as [|o r IH]; intros opened flushed synced f Hs Hok p q Hpq.
  - destruct p; [now left|discriminate].
  - destruct p as [|o' p']; [now left|]. cbn [app] in Hpq. inversion Hpq; subst o' r. clear Hpq.
    cbn [exec fold_left]. fold (exec p' (exec1 f o)).
    destruct (p' ++ q) as [|o2 r2] eqn:Er.
    + apply app_eq_nil in Er. destruct Er as [-> ->]. cbn [exec fold_left].
      destruct o; cbn [is_atomic_shape] in Hs; try discriminate;
        try (rewrite ?andb_false_r in Hs; discriminate).
      repeat (apply andb_true_iff in Hs; destruct Hs as [Hs ?]).
      apply Nat.eqb_eq in Hs. apply Nat.eqb_eq in H2. subst a b. subst.
      destruct Hok as (_ & _ & Hsy). destruct (Hsy eq_refl) as (d & Hd). right. split; [reflexivity|]. exists d.
      cbn [exec1]. rewrite Hd. rewrite upd_other by congruence. now rewrite upd_same.
    + assert (Hs' : negb (touches final o) = true /\
                    match o with
                    | Open_trunc m => Nat.eqb m tmp && is_atomic_shape tmp final (o2 :: r2) true true true
                    | Write m _ => Nat.eqb m tmp && opened && is_atomic_shape tmp final (o2 :: r2) opened false false
                    | Flush m | Close m => Nat.eqb m tmp && is_atomic_shape tmp final (o2 :: r2) opened opened (flushed && synced)
                    | Fsync m => Nat.eqb m tmp && is_atomic_shape tmp final (o2 :: r2) opened flushed (opened && flushed)
                    | Rename _ _ => false
                    | Mkdir => is_atomic_shape tmp final (o2 :: r2) opened flushed synced
                    end = true).
      { cbn [is_atomic_shape] in Hs. destruct o; apply andb_true_iff in Hs; exact Hs. }
      destruct Hs' as [Hnt Hrest]. apply negb_true_iff in Hnt.
      assert (Hf : exec1 f o final = f final) by now apply exec1_untouched.
      destruct Hok as (Hop & Hfl & Hsy).
      assert (Hstep : exists op' fl' sy', is_atomic_shape tmp final (o2 :: r2) op' fl' sy' = true
                                          /\ tmp_ok (exec1 f o) tmp op' fl' sy').
      { destruct o; try discriminate.
        - (* Mkdir *) exists opened, flushed, synced. split; [exact Hrest|]. repeat split; cbn [exec1]; assumption.
        - (* Open_trunc *) apply andb_true_iff in Hrest. destruct Hrest as [Hm Hr]. apply Nat.eqb_eq in Hm. subst n.
          exists true, true, true. split; [exact Hr|]. cbn [exec1]. repeat split; intros; rewrite upd_same; eauto.
        - (* Write *) apply andb_true_iff in Hrest. destruct Hrest as [Hm Hr]. apply andb_true_iff in Hm. destruct Hm as [Hm Ho].
          apply Nat.eqb_eq in Hm. subst n. exists opened, false, false. split; [exact Hr|].
          destruct (Hop Ho) as (d & p0 & u0 & E). cbn [exec1]. rewrite E.
          repeat split; intros; try discriminate. rewrite upd_same. eauto.
        - (* Flush *) apply andb_true_iff in Hrest. destruct Hrest as [Hm Hr]. apply Nat.eqb_eq in Hm. subst n.
          exists opened, opened, (flushed && synced). split; [exact Hr|]. cbn [exec1]. repeat split.
          + intro Ho. destruct (Hop Ho) as (d & p0 & u0 & E). rewrite E, upd_same. eauto.
          + intros Ho _. destruct (Hop Ho) as (d & p0 & u0 & E). rewrite E, upd_same. eauto.
          + intro Hb. apply andb_true_iff in Hb. destruct Hb as [_ Hsy']. destruct (Hsy Hsy') as (d & E).
            rewrite E, upd_same. cbn. eauto.
        - (* Fsync *) apply andb_true_iff in Hrest. destruct Hrest as [Hm Hr]. apply Nat.eqb_eq in Hm. subst n.
          exists opened, flushed, (opened && flushed). split; [exact Hr|]. cbn [exec1]. repeat split.
          + intro Ho. destruct (Hop Ho) as (d & p0 & u0 & E). rewrite E, upd_same. eauto.
          + intros Ho Hf'. destruct (Hfl Ho Hf') as (d & p0 & E). rewrite E, upd_same. eauto.
          + intro Hb. apply andb_true_iff in Hb. destruct Hb as [Ho Hf']. destruct (Hfl Ho Hf') as (d & p0 & E).
            rewrite E, upd_same. eauto.
        - (* Close *) apply andb_true_iff in Hrest. destruct Hrest as [Hm Hr]. apply Nat.eqb_eq in Hm. subst n.
          exists opened, opened, (flushed && synced). split; [exact Hr|]. cbn [exec1]. repeat split.
          + intro Ho. destruct (Hop Ho) as (d & p0 & u0 & E). rewrite E, upd_same. eauto.
          + intros Ho _. destruct (Hop Ho) as (d & p0 & u0 & E). rewrite E, upd_same. eauto.
          + intro Hb. apply andb_true_iff in Hb. destruct Hb as [_ Hsy']. destruct (Hsy Hsy') as (d & E).
            rewrite E, upd_same. cbn. eauto. }
      destruct Hstep as (op' & fl' & sy' & Hshape & Hok').
      destruct (IH op' fl' sy' (exec1 f o) Hshape Hok' p' q (eq_sym Er)) as [E|[Eq (d & Ed)]].
      * left. now rewrite E.
      * right. split; [exact Eq|]. now exists d.
Qed.

(** C08 (3): crash (process death or power loss) at ANY point of a save of atomic shape: the final name
    is absent, holds the old complete content, or holds a complete, fully durable new content *)
Theorem atomic_save_crash_safe tmp final ops f0 old :
  tmp <> final -> is_atomic_shape tmp final ops false false false = true ->
  f0 final = old -> (match old with Some (_, p, _) => p = [] | None => True end) ->
  forall p q c, ops = p ++ q -> after_crash (exec p f0) final c ->
  (c = option_map (fun x => fst (fst x)) old) \/ (q = [] /\ exists d, exec p f0 final = Some (d, [], []) /\ c = Some d).
Proof.
  intros Hne Hs Hold Hclean p q c Hpq Hc.
  assert (Hok : tmp_ok f0 tmp false false false) by (repeat split; discriminate).
  destruct (atomic_shape_safe tmp final Hne ops false false false f0 Hs Hok p q Hpq) as [E|[Eq (d & Ed)]].
  - left. unfold after_crash in Hc. rewrite E, Hold in Hc. destruct old as [[[d0 p0] u0]|]; destruct c as [bs|]; try contradiction.
    + subst p0. destruct Hc as (k & Hk & ->). cbn in Hk. assert (k = 0) by lia. subst. cbn. now rewrite app_nil_r.
    + reflexivity.
  - right. split; [exact Eq|]. exists d. split; [exact Ed|]. unfold after_crash in Hc. rewrite Ed in Hc.
    destruct c as [bs|]; [|contradiction]. destruct Hc as (k & Hk & ->). cbn in Hk. assert (k = 0) by lia. subst. cbn. now rewrite app_nil_r.
Qed.

Lemma atomic_save_has_shape tmp final chunks : tmp <> final ->
  is_atomic_shape tmp final (atomic_save tmp final chunks) false false false = true.
Proof.
  intro Hne. assert (Hf : Nat.eqb tmp final = false) by now apply Nat.eqb_neq.
  unfold atomic_save. cbn [app is_atomic_shape touches negb andb]. rewrite Hf, Nat.eqb_refl. cbn [negb andb].
  assert (G : forall cs fl sy, is_atomic_shape tmp final (map (Write tmp) cs ++ [Flush tmp; Fsync tmp; Close tmp; Rename tmp final]) true fl sy = true).
  { induction cs as [|c cs IH]; intros fl sy.
    - cbn. rewrite ?Hf, ?Nat.eqb_refl. cbn. rewrite ?Hf, ?Nat.eqb_refl. reflexivity.
    - cbn [map app is_atomic_shape touches]. rewrite Hf, Nat.eqb_refl. cbn [negb andb].
      destruct (map (Write tmp) cs ++ _) eqn:E; [destruct cs; discriminate|]. apply IH. }
  destruct (map (Write tmp) chunks ++ _) eqn:E; [destruct chunks; discriminate|]. rewrite <- E. apply G.
Qed.

(** the direct protocol of the pinned tree IS unsafe: a crash right after open leaves an empty file *)
Lemma direct_save_refuted :
  exists p q c, direct_save 0 [[1;2;3]] = p ++ q /\
    after_crash (exec p (fun n => if Nat.eqb n 0 then Some ([7;7], [], []) else None)) 0 c /\ c = Some [].
Proof.
  exists [Mkdir; Open_trunc 0], [Write 0 [1;2;3]; Close 0], (Some []). split; [reflexivity|]. split; [|reflexivity].
  cbn. exists 0. split; [lia|reflexivity].
Qed.

(** fsync BEFORE flush is unsafe too: the rename publishes a file whose tail is not durable *)
Lemma fsync_before_flush_refuted :
  let ops := [Open_trunc 1; Write 1 [1;2;3]; Fsync 1; Flush 1; Close 1; Rename 1 0] in
  is_atomic_shape 1 0 ops false false false = false
  /\ after_crash (exec ops (fun _ => None)) 0 (Some []).
Proof. split; [reflexivity|]. cbn. exists 0. split; [lia|reflexivity]. Qed.
