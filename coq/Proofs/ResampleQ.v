(** C06 over exact rationals: characterisation of the comb, floor/ceil copy counts. *)
From Coq Require Import List Bool Arith Lia ZArith QArith Qround Lqa.
From Tempest Require Import Base.Ops Base.QFloor Model.Resample Proofs.Resample.
Import ListNotations.
Local Open Scope Q_scope.

(** number of steps the inner loop takes from state (cum, rest) for position p *)
Fixpoint reach (cum : Q) (rest : list Q) (p : Q) : nat :=
  if Qle_bool cum p then match rest with [] => O | x :: r => S (reach (cum + x) r p) end else O.

Fixpoint drop_state (k : nat) (cum : Q) (rest : list Q) : Q * list Q :=
  match k, rest with
  | S k', x :: r => drop_state k' (cum + x) r
  | _, _ => (cum, rest)
  end.

Lemma advance_reach rest : forall p j cum,
  advance QOps true rest p j cum =
  Some ((j + reach cum rest p)%nat, fst (drop_state (reach cum rest p) cum rest),
        snd (drop_state (reach cum rest p) cum rest)).
Proof.
  induction rest as [|x r IH]; intros p j cum; cbn [advance reach]; unfold o_geb; cbn [o_leb QOps].
  - destruct (Qle_bool cum p); cbn; now rewrite Nat.add_0_r.
  - destruct (Qle_bool cum p); cbn [drop_state fst snd].
    + rewrite IH. now rewrite Nat.add_succ_r.
    + now rewrite Nat.add_0_r.
Qed.

(** continuing from where an earlier (smaller) position stopped = restarting from the beginning *)
Lemma reach_continue rest : forall cum p p', p <= p' ->
  reach cum rest p' =
  (reach cum rest p + reach (fst (drop_state (reach cum rest p) cum rest))
                            (snd (drop_state (reach cum rest p) cum rest)) p')%nat.
Proof.
  induction rest as [|x r IH]; intros cum p p' Hp; cbn [reach].
  - destruct (Qle_bool cum p) eqn:E; cbn; reflexivity.
  - destruct (Qle_bool cum p) eqn:E.
    + assert (E' : Qle_bool cum p' = true).
      { apply Qle_bool_iff. apply Qle_bool_iff in E. lra. }
      rewrite E'. cbn [drop_state]. rewrite (IH (cum + x) p p' Hp). reflexivity.
    + cbn. reflexivity.
Qed.

Definition sorted_Q (ps : list Q) : Prop :=
  forall i k, (i <= k)%nat -> (k < length ps)%nat -> nth i ps 0 <= nth k ps 0.

Lemma sorted_Q_tail p ps : sorted_Q (p :: ps) -> sorted_Q ps /\ (forall q, In q ps -> p <= q).
Proof.
  intros H. split.
  - intros i k Hik Hk. apply (H (S i) (S k)); cbn; lia.
  - intros q Hq. destruct (In_nth _ _ 0 Hq) as (k & Hk & <-). apply (H O (S k)); cbn; lia.
Qed.

(** the comb visits, for each position, the index reached from the start *)
Lemma comb_is_reach ps : forall x r j cum p0,
  sorted_Q ps -> (forall q, In q ps -> p0 <= q) ->
  j = reach x r p0 ->
  cum = fst (drop_state j x r) ->
  comb QOps true ps (snd (drop_state j x r)) j cum = Some (map (reach x r) ps).
Proof.
  induction ps as [|p ps IH]; intros x r j cum p0 Hs Hge Hj Hc; cbn [comb map].
  - reflexivity.
  - rewrite advance_reach. subst cum.
    assert (Hp : p0 <= p) by (apply Hge; now left).
    pose proof (reach_continue r x p0 p Hp) as Hcont. rewrite <- Hj in Hcont.
    rewrite <- Hcont.
    destruct (sorted_Q_tail _ _ Hs) as (Hs' & Hge').
    (* state after p *)
    assert (Hstate : forall k1 k2 c l, drop_state k2 (fst (drop_state k1 c l)) (snd (drop_state k1 c l))
                                       = drop_state (k1 + k2) c l).
    { induction k1 as [|k1 IHk]; intros k2 c l; cbn [drop_state Nat.add fst snd]; [reflexivity|].
      destruct l as [|y l]; cbn [fst snd].
      - destruct k2; reflexivity.
      - apply IHk. }
    rewrite !Hstate. rewrite <- Hcont.
    rewrite (IH x r (reach x r p) (fst (drop_state (reach x r p) x r)) p Hs' Hge' eq_refl eq_refl).
    reflexivity.
Qed.

Lemma reach_bound rest : forall cum p, (reach cum rest p <= length rest)%nat.
Proof. induction rest as [|x r IH]; intros; cbn; destruct (Qle_bool cum p); cbn; try lia. specialize (IH (cum+x) p). lia. Qed.

(** cumulative sums: W x r k = x + r_0 + ... + r_{k-1} *)
Fixpoint W (x : Q) (r : list Q) (k : nat) : Q :=
  match k, r with S k', y :: r' => W (x + y) r' k' | _, _ => x end.

Definition nonneg (l : list Q) : Prop := forall y, In y l -> 0 <= y.

Lemma W_mono r : forall x k, nonneg r -> x <= W x r k.
Proof.
  induction r as [|y r IH]; intros x k Hn; destruct k; cbn; try lra.
  assert (0 <= y) by (apply Hn; now left).
  assert (nonneg r) by (intros z Hz; apply Hn; now right).
  specialize (IH (x + y) k H0). lra.
Qed.

(** reach <= k  <->  p < W_k   (for k below the last index; w >= 0) *)
Lemma reach_le_iff r : forall x p k, nonneg r -> (k < length r)%nat ->
  ((reach x r p <= k)%nat <-> p < W x r k).
Proof.
  induction r as [|y r IH]; intros x p k Hn Hk; [cbn in Hk; lia|].
  assert (Hy : 0 <= y) by (apply Hn; now left).
  assert (Hn' : nonneg r) by (intros z Hz; apply Hn; now right).
  cbn [reach]. destruct (Qle_bool x p) eqn:E.
  - apply Qle_bool_iff in E. destruct k as [|k]; cbn [W].
    + split; [lia|]. intro. lra.
    + destruct r as [|y' r'] eqn:Er.
      * cbn in Hk. lia.
      * rewrite <- Er in *. cbn [length] in Hk. assert (Hk' : (k < length r)%nat) by lia.
        specialize (IH (x + y) p k Hn' Hk'). split; intro H.
        -- apply IH. lia.
        -- apply IH in H. lia.
  - assert (p < x). { apply Qnot_le_lt. intro H. apply Qle_bool_iff in H. congruence. }
    split; [|lia]. intros _. pose proof (W_mono (y :: r) x k Hn). lra.
Qed.

(** ---- counting ---- *)
Definition iQ (i : nat) : Q := inject_Z (Z.of_nat i).
Definition count_lt (n : nat) (s : Q) : nat := length (filter (fun i => Qltb (iQ i) s) (seq 0 n)).

Lemma iQ_S i : iQ (S i) == iQ i + 1.
Proof. unfold iQ. rewrite Nat2Z.inj_succ. unfold Z.succ. rewrite inject_Z_plus. reflexivity. Qed.

Lemma count_lt_S n s : count_lt (S n) s = (count_lt n s + (if Qltb (iQ n) s then 1 else 0))%nat.
Proof.
  unfold count_lt. rewrite seq_S, filter_app, app_length. cbn [filter Nat.add].
  destruct (Qltb (iQ n) s); reflexivity.
Qed.

Lemma count_lt_all n : forall s, iQ n <= s -> count_lt n s = n.
Proof.
  induction n as [|n IH]; intros s H; [reflexivity|].
  rewrite count_lt_S. rewrite iQ_S in H. rewrite IH by lra.
  assert (E : Qltb (iQ n) s = true) by (apply Qltb_lt; lra). rewrite E. lia.
Qed.

Lemma count_lt_ceiling n : forall s, s <= iQ n -> count_lt n s = Z.to_nat (Qceiling s).
Proof.
  induction n as [|n IH]; intros s H.
  - assert (Hs : s <= 0) by exact H. cbn.
    assert (Qceiling s <= 0)%Z.
    { apply Zle_from_Qlt. pose proof (Qceiling_lt s) as H4.
      unfold Zminus in H4. rewrite inject_Z_plus, inject_Z_opp in H4. change (inject_Z 1) with 1 in H4.
      change (inject_Z 0) with 0. lra. }
    lia.
  - rewrite count_lt_S. destruct (Qltb (iQ n) s) eqn:E.
    + apply Qltb_lt in E. rewrite count_lt_all by lra.
      rewrite (Qceiling_unique s (Z.of_nat (S n))).
      * lia.
      * fold (iQ (S n)). rewrite iQ_S. lra.
      * exact H.
    + apply Qltb_ge in E. rewrite IH by exact E. lia.
Qed.

Definition below (ps : list Q) (t : Q) : nat := length (filter (fun p => Qltb p t) ps).
Definition cnt_le (idx : list nat) (k : nat) : nat := length (filter (fun v => Nat.leb v k) idx).

Lemma filter_map_length {A B} (f : B -> bool) (g : A -> B) l :
  length (filter f (map g l)) = length (filter (fun a => f (g a)) l).
Proof. induction l as [|a l IH]; cbn; [reflexivity|]. destruct (f (g a)); cbn; now rewrite IH. Qed.

Lemma iQ_pos n : (0 < n)%nat -> 0 < iQ n.
Proof. intro H. unfold iQ. change 0 with (inject_Z 0). rewrite <- Zlt_Qlt. lia. Qed.

Lemma below_positions u0 n t : (0 < n)%nat ->
  below (positions QOps u0 n) t = count_lt n (t * iQ n - u0).
Proof.
  intro Hn. unfold below, positions, count_lt. rewrite filter_map_length.
  f_equal. apply filter_ext. intro i.
  unfold position. cbn [o_div o_add o_ofnat QOps]. fold (iQ i). fold (iQ n).
  pose proof (iQ_pos n Hn) as Hp.
  assert (Hmul : (u0 + iQ i) / iQ n * iQ n == u0 + iQ i) by (field; lra).
  destruct (Qltb (iQ i) (t * iQ n - u0)) eqn:E.
  - apply Qltb_lt in E. apply Qltb_lt.
    apply (Qmult_lt_r _ _ (iQ n) Hp). rewrite Hmul. lra.
  - apply Qltb_ge in E. apply Qltb_ge.
    apply (Qmult_le_r _ _ (iQ n) Hp). rewrite Hmul. lra.
Qed.

Lemma cnt_le_reach x r ps k : nonneg r -> (k < length r)%nat ->
  cnt_le (map (reach x r) ps) k = below ps (W x r k).
Proof.
  intros Hn Hk. unfold cnt_le, below. rewrite filter_map_length. f_equal. apply filter_ext. intro p.
  destruct (Qltb p (W x r k)) eqn:E.
  - apply Qltb_lt in E. apply Nat.leb_le. now apply reach_le_iff.
  - apply Qltb_ge in E. apply Nat.leb_gt.
    destruct (Nat.le_gt_cases (reach x r p) k) as [H|H]; [|exact H].
    apply reach_le_iff in H; try assumption. lra.
Qed.

Lemma cnt_le_all x r ps k : (length r <= k)%nat -> cnt_le (map (reach x r) ps) k = length ps.
Proof.
  intro Hk. unfold cnt_le. rewrite filter_map_length.
  induction ps as [|p ps IH]; cbn; [reflexivity|].
  pose proof (reach_bound r x p). assert (E : Nat.leb (reach x r p) k = true) by (apply Nat.leb_le; lia).
  rewrite E. cbn. now rewrite IH.
Qed.

Lemma count_occ_cnt_le idx k :
  count_occ Nat.eq_dec idx (S k) = (cnt_le idx (S k) - cnt_le idx k)%nat
  /\ (cnt_le idx k <= cnt_le idx (S k))%nat.
Proof.
  unfold cnt_le. induction idx as [|v idx [IH1 IH2]]; cbn [count_occ filter length]; [split; reflexivity|].
  destruct (Nat.eq_dec v (S k)) as [->|Hne].
  - rewrite Nat.leb_refl. assert (E : Nat.leb (S k) k = false) by (apply Nat.leb_gt; lia). rewrite E.
    cbn [length]. lia.
  - destruct (Nat.leb v (S k)) eqn:E1; destruct (Nat.leb v k) eqn:E2; cbn [length];
      try apply Nat.leb_le in E1; try apply Nat.leb_le in E2;
      try apply Nat.leb_gt in E1; try apply Nat.leb_gt in E2; lia.
Qed.

Lemma count_occ_cnt_le_0 idx : count_occ Nat.eq_dec idx 0%nat = cnt_le idx 0%nat.
Proof.
  unfold cnt_le. induction idx as [|v idx IH]; cbn [count_occ filter length]; [reflexivity|].
  destruct (Nat.eq_dec v 0%nat) as [->|Hne]; cbn; [now rewrite IH|].
  destruct v; [congruence|]. cbn. exact IH.
Qed.

Lemma W_S r : forall x k, (k < length r)%nat -> W x r (S k) == W x r k + nth k r 0.
Proof.
  induction r as [|y r IH]; intros x k Hk; [cbn in Hk; lia|].
  destruct k as [|k]; cbn [W nth].
  - destruct r; cbn; lra.
  - cbn in Hk. apply IH. lia.
Qed.

Lemma W_nonneg_mono r x k : nonneg r -> W x r k <= W x r (S k).
Proof.
  intro Hn. destruct (Nat.lt_ge_cases k (length r)) as [H|H].
  - rewrite W_S by exact H. assert (0 <= nth k r 0) by (apply Hn; apply nth_In; exact H). lra.
  - assert (E : forall r x k, (length r <= k)%nat -> W x r k = W x r (length r)).
    { clear. induction r as [|y r IH]; intros x k Hk; destruct k; cbn in *; try reflexivity; try lia.
      apply IH. lia. }
    rewrite (E r x k H), (E r x (S k)) by lia. lra.
Qed.

Lemma sum_is_W r : forall a, fold_left Qplus r a = W a r (length r).
Proof. induction r as [|y r IH]; intro a; cbn; [reflexivity|apply IH]. Qed.

Lemma W_compat r : forall a b k, a == b -> W a r k == W b r k.
Proof.
  induction r as [|y r IH]; intros a b k H; destruct k; cbn; try exact H.
  apply IH. rewrite H. reflexivity.
Qed.

(** integer bracket: ceil b - ceil a lies between floor (b-a) and ceil (b-a) *)
Lemma ceil_diff_bracket a b d : b - a == d ->
  (Qfloor d <= Qceiling b - Qceiling a <= Qceiling d)%Z.
Proof.
  intro Hd.
  pose proof (Qle_ceiling a) as A1. pose proof (Qceiling_lt a) as A2.
  pose proof (Qle_ceiling b) as B1. pose proof (Qceiling_lt b) as B2.
  pose proof (Qfloor_le d) as D1. pose proof (Qle_ceiling d) as D2.
  unfold Zminus in A2, B2. rewrite inject_Z_plus, inject_Z_opp in A2, B2.
  change (inject_Z 1) with 1 in A2, B2.
  split; apply Zle_from_Qlt; unfold Zminus; rewrite inject_Z_plus, inject_Z_opp; lra.
Qed.

Lemma Qceiling_mono a b : a <= b -> (Qceiling a <= Qceiling b)%Z.
Proof.
  intro H. pose proof (Qle_ceiling b) as B1. pose proof (Qceiling_lt a) as A2.
  unfold Zminus in A2. rewrite inject_Z_plus, inject_Z_opp in A2. change (inject_Z 1) with 1 in A2.
  apply Zle_from_Qlt. lra.
Qed.

Lemma Qceiling_nonneg a : -1 < a -> (0 <= Qceiling a)%Z.
Proof.
  intro H. pose proof (Qle_ceiling a) as A1. apply Zle_from_Qlt. change (inject_Z 0) with 0. lra.
Qed.

Lemma iQ_le i k : (i <= k)%nat -> iQ i <= iQ k.
Proof. intro H. unfold iQ. rewrite <- Zle_Qle. lia. Qed.

Lemma positions_nth u0 n i : (i < n)%nat -> nth i (positions QOps u0 n) 0 = position QOps u0 n i.
Proof.
  intro H. unfold positions.
  rewrite (nth_indep _ 0 (position QOps u0 n 0)) by (rewrite map_length, seq_length; exact H).
  rewrite map_nth. rewrite seq_nth by exact H. reflexivity.
Qed.

Lemma positions_sorted u0 n : sorted_Q (positions QOps u0 n).
Proof.
  intros i k Hik Hk. rewrite positions_length in Hk.
  rewrite !positions_nth by lia. unfold position. cbn [o_div o_add o_ofnat QOps]. fold (iQ i) (iQ k) (iQ n).
  unfold Qdiv. apply Qmult_le_compat_r.
  - pose proof (iQ_le i k Hik). lra.
  - apply Qinv_le_0_compat. apply Qlt_le_weak. apply iQ_pos. lia.
Qed.

Lemma positions_nonneg u0 n q : 0 <= u0 -> In q (positions QOps u0 n) -> 0 <= q.
Proof.
  intros Hu Hq. unfold positions in Hq. apply in_map_iff in Hq. destruct Hq as (i & <- & Hi).
  apply in_seq in Hi. unfold position. cbn [o_div o_add o_ofnat QOps]. fold (iQ i) (iQ n).
  assert (0 < n)%nat by lia.
  pose proof (iQ_pos n H). pose proof (iQ_le 0 i ltac:(lia)). change (iQ 0) with 0 in H1.
  apply Qle_shift_div_l; [exact H0|]. lra.
Qed.

(** the comb output, in closed form *)
Theorem comb_closed_form x r u0 n :
  0 <= x -> 0 <= u0 ->
  comb QOps true (positions QOps u0 n) r 0 x = Some (map (reach x r) (positions QOps u0 n)).
Proof.
  intros Hx Hu.
  assert (E0 : reach x r (-1) = 0%nat).
  { destruct r; cbn; destruct (Qle_bool x (-1)) eqn:E; try reflexivity;
      apply Qle_bool_iff in E; lra. }
  apply (comb_is_reach (positions QOps u0 n) x r 0%nat x (-1)).
  - apply positions_sorted.
  - intros q Hq. pose proof (positions_nonneg u0 n q Hu Hq). lra.
  - symmetry. exact E0.
  - reflexivity.
Qed.

Definition copies (idx : list nat) (k : nat) : nat := count_occ Nat.eq_dec idx k.

(** #{i : idx_i <= k} = ceil (n W_k - u0), for every k up to the last index, when W_last = 1 *)
Lemma cnt_le_closed x r u0 n k :
  (0 < n)%nat -> 0 <= x -> nonneg r -> 0 <= u0 -> u0 < 1 -> W x r (length r) == 1 ->
  (k <= length r)%nat ->
  cnt_le (map (reach x r) (positions QOps u0 n)) k = Z.to_nat (Qceiling (W x r k * iQ n - u0)).
Proof.
  intros Hn Hx Hr Hu0 Hu1 Hone Hk.
  pose proof (iQ_pos n Hn) as Hp.
  destruct (Nat.eq_dec k (length r)) as [->|Hne].
  - rewrite cnt_le_all by lia. rewrite positions_length.
    rewrite (Qceiling_unique _ (Z.of_nat n)); [lia| |]; fold (iQ n); rewrite Hone; lra.
  - rewrite cnt_le_reach by (try assumption; lia).
    rewrite below_positions by exact Hn.
    apply count_lt_ceiling.
    assert (W x r k <= 1).
    { rewrite <- Hone. clear - Hr Hk. 
      assert (G : forall m, (k <= m)%nat -> W x r k <= W x r m).
      { induction m as [|m IH]; intro H.
        - assert (k = 0)%nat by lia. subst. lra.
        - destruct (Nat.eq_dec k (S m)) as [->|]; [lra|].
          specialize (IH ltac:(lia)). pose proof (W_nonneg_mono r x m Hr). lra. }
      apply G. exact Hk. }
    nra.
Qed.

Lemma W_ge_x r x k : nonneg r -> x <= W x r k.
Proof. intro H. apply W_mono. exact H. Qed.

Theorem comb_floor_ceil x r u0 n k :
  (0 < n)%nat -> 0 <= x -> nonneg r -> 0 <= u0 -> u0 < 1 -> W x r (length r) == 1 ->
  (k <= length r)%nat ->
  let idx := map (reach x r) (positions QOps u0 n) in
  (Qfloor (iQ n * nth k (x :: r) 0)%Q <= Z.of_nat (copies idx k) <= Qceiling (iQ n * nth k (x :: r) 0)%Q)%Z.
Proof.
  intros Hn Hx Hr Hu0 Hu1 Hone Hk idx. unfold copies.
  pose proof (iQ_pos n Hn) as Hp.
  destruct k as [|k].
  - rewrite count_occ_cnt_le_0. subst idx. rewrite cnt_le_closed by (try assumption; lia).
    cbn [W nth]. assert (W x r 0 = x) by (destruct r; reflexivity). rewrite H.
    assert (Hc : (0 <= Qceiling (x * iQ n - u0))%Z) by (apply Qceiling_nonneg; nra).
    rewrite Z2Nat.id by exact Hc.
    pose proof (ceil_diff_bracket (- u0) (x * iQ n - u0) (iQ n * x) ltac:(lra)) as [B1 B2].
    assert (E0 : Qceiling (- u0) = 0%Z) by (apply Qceiling_unique; change (inject_Z 0) with 0; lra).
    rewrite E0 in B1, B2. lia.
  - destruct (count_occ_cnt_le idx k) as [E Hle]. rewrite E. subst idx.
    rewrite !cnt_le_closed in * by (try assumption; lia).
    set (a := W x r k * iQ n - u0) in *. set (b := W x r (S k) * iQ n - u0) in *.
    assert (Ha : -1 < a). { subst a. pose proof (W_ge_x r x k Hr). nra. }
    assert (Hab : a <= b). { subst a b. pose proof (W_nonneg_mono r x k Hr). nra. }
    pose proof (Qceiling_nonneg a Ha) as Ca. pose proof (Qceiling_mono a b Hab) as Cab.
    rewrite Nat2Z.inj_sub by (apply Z2Nat.inj_le; lia).
    rewrite !Z2Nat.id by lia.
    cbn [nth].
    apply ceil_diff_bracket. subst a b. rewrite (W_S r x k) by lia. ring.
Qed.

(** wrapper for the whole routine: sum exactly 1, so no renormalisation *)
Theorem sysres_floor_ceil n x r sqrteps u0 :
  (0 < n)%nat -> 0 <= x -> nonneg r -> 0 <= sqrteps -> 0 <= u0 -> u0 < 1 ->
  sum_list QOps (x :: r) == 1 ->
  exists idx, sysres QOps true n (x :: r) sqrteps u0 = Some idx /\
    forall k, (k <= length r)%nat ->
      (Qfloor (iQ n * nth k (x :: r) 0)%Q <= Z.of_nat (copies idx k)
       <= Qceiling (iQ n * nth k (x :: r) 0)%Q)%Z.
Proof.
  intros Hn Hx Hr He Hu0 Hu1 Hs.
  exists (map (reach x r) (positions QOps u0 n)). split.
  - unfold sysres, sysres_with_sum.
    assert (E : renorm_needed QOps (sum_list QOps (x :: r)) sqrteps = false).
    { unfold renorm_needed, o_gtb. cbn [o_ltb o_abs o_sub o_one QOps]. apply Qltb_ge.
      rewrite Hs. assert (Z0 : 1 - 1 == 0) by ring. rewrite Z0. cbn. exact He. }
    rewrite E. apply comb_closed_form; assumption.
  - intros k Hk. apply comb_floor_ceil; try assumption.
    unfold sum_list in Hs. cbn [fold_left o_add o_zero QOps] in Hs. rewrite sum_is_W in Hs.
    rewrite <- Hs. apply W_compat. ring.
Qed.

(** which index each comb tooth receives: the first k with p < W_k (half-open bins [W_{k-1}, W_k)) *)
Theorem reach_characterisation x r p k : nonneg r -> (k < length r)%nat ->
  (reach x r p = S k <-> W x r k <= p /\ p < W x r (S k) \/ (S k = length r /\ W x r k <= p)).
Proof.
  intros Hr Hk.
  pose proof (reach_le_iff r x p k Hr Hk) as H1.
  pose proof (reach_bound r x p) as Hb.
  destruct (Nat.eq_dec (S k) (length r)) as [El|Nl].
  - split.
    + intro E. right. split; [exact El|]. apply Qnot_lt_le. intro C. apply H1 in C. lia.
    + intros [[Hlo Hhi]|[_ Hlo]].
      * assert (~ (reach x r p <= k)%nat) by (intro C; apply H1 in C; lra). lia.
      * assert (~ (reach x r p <= k)%nat) by (intro C; apply H1 in C; lra). lia.
  - assert (Hk' : (S k < length r)%nat) by lia.
    pose proof (reach_le_iff r x p (S k) Hr Hk') as H2.
    split.
    + intro E. left. split.
      * apply Qnot_lt_le. intro C. apply H1 in C. lia.
      * apply H2. lia.
    + intros [[Hlo Hhi]|[C _]]; [|lia].
      apply H2 in Hhi. assert (~ (reach x r p <= k)%nat) by (intro C; apply H1 in C; lra). lia.
Qed.

(** ---- multinomial: inverse-CDF search lands on a valid index ---- *)
Lemma filter_length_lt_last {A} (f : A -> bool) (l : list A) (d : A) :
  l <> [] -> f (last l d) = false -> (length (filter f l) < length l)%nat.
Proof.
  induction l as [|a l IH]; intros Hne Hl; [congruence|].
  destruct l as [|b l'].
  - cbn in *. rewrite Hl. cbn. lia.
  - assert (Hl' : f (last (b :: l') d) = false) by exact Hl.
    specialize (IH ltac:(discriminate) Hl'). cbn [filter] in *. destruct (f a); cbn [length] in *; lia.
Qed.

Lemma last_map {A B} (g : A -> B) l d : l <> [] -> last (map g l) (g d) = g (last l d).
Proof.
  induction l as [|a l IH]; intro H; [congruence|]. destruct l as [|b l']; [reflexivity|].
  change (last (map g (b :: l')) (g d) = g (last (b :: l') d)). apply IH. discriminate.
Qed.

Lemma cumsum_from_length (w : list Q) : forall a, length (cumsum_from QOps a w) = length w.
Proof. induction w as [|y w IH]; intro a; cbn [cumsum_from length]; [reflexivity|]. f_equal. apply IH. Qed.
Lemma cumsum_length (w : list Q) : length (cumsum QOps w) = length w.
Proof. destruct w; cbn [cumsum length]; [reflexivity|]. f_equal. apply cumsum_from_length. Qed.

Theorem choice_idx_in_range (w : list Q) (r : Q) :
  w <> [] -> 0 < last (cumsum QOps w) 1 -> r < 1 ->
  (choice_idx QOps w r < length w)%nat.
Proof.
  intros Hw Htot Hr. unfold choice_idx, searchsorted_right, cdf.
  set (c := cumsum QOps w) in *. set (tot := last c (o_one QOps)) in *.
  assert (Htot' : 0 < tot) by exact Htot.
  assert (Hlen : length c = length w) by apply cumsum_length.
  assert (Hc : c <> []) by (destruct c; [destruct w; [congruence|discriminate]|discriminate]).
  rewrite <- Hlen, <- (map_length (fun v => o_div QOps v tot) c).
  apply (filter_length_lt_last _ _ (o_div QOps tot tot)).
  - destruct c; [congruence|discriminate].
  - rewrite (last_map (fun v => o_div QOps v tot) c tot Hc).
    cbn [o_leb o_div QOps].
    assert (E : last c tot = tot).
    { subst tot. cbn [o_one QOps]. clear - Hc. induction c as [|a c IH]; [congruence|].
      destruct c as [|b c']; [reflexivity|]. 
      change (last (b :: c') (last (a :: b :: c') 1) = last (b :: c') 1).
      clear. generalize (last (a :: b :: c') 1). generalize b. induction c' as [|e c' IH]; intros; cbn; [reflexivity|apply IH]. }
    rewrite E.
    destruct (Qle_bool (tot / tot) r) eqn:B; [|reflexivity].
    apply Qle_bool_iff in B. assert (tot / tot == 1) by (field; lra). exfalso; lra.
Qed.
