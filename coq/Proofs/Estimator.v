(** C01 / C02: the exact identities behind the consistency of the Persistent Sampling estimators,
    on a finite state space (expectations are finite sums; no measure theory). *)
From Coq Require Import Reals List Lra Lia.
From Tempest Require Import Model.MIS Proofs.MIS.
Import ListNotations.
Local Open Scope R_scope.

Section MISEstimator.
Variable X : Type.
Variable pts : list X.                      (* the state space *)
Variable prior : X -> R.                    (* prior mass *)
Variable Lb : R -> X -> R.                  (* Lb b x = L(x)^b > 0 *)
Hypothesis Lb_pos : forall b x, 0 < Lb b x.
(** iteration t: temperature, normalising constant Z_t = sum_x prior(x) L(x)^{beta_t}, batch size *)
Record comp := mkComp { c_beta : R; c_Z : R; c_n : nat }.
Variable comps : list comp.
Hypothesis comps_ok : forall c, In c comps -> 0 < c_Z c /\ (0 < c_n c)%nat.
Hypothesis comps_ne : comps <> [].

Definition N : R := INR (fold_right (fun c a => (c_n c + a)%nat) 0%nat comps).
(** mixture of the NORMALISED tempered densities, as a factor of the prior: M(x) = sum_t (n_t/N) L^{beta_t}(x)/Z_t *)
Definition M (x : X) : R := sumR (map (fun c => INR (c_n c) / N * (Lb (c_beta c) x / c_Z c)) comps).
(** the balance-heuristic weight at target temperature b *)
Definition w (b : R) (x : X) : R := Lb b x / M x.

Lemma N_pos : 0 < N.
Proof.
  unfold N. apply lt_0_INR. destruct comps as [|c cs]; [congruence|]. cbn.
  destruct (comps_ok c (or_introl eq_refl)) as [_ H]. lia.
Qed.

Lemma M_pos x : 0 < M x.
Proof.
  unfold M. apply sumR_pos; [destruct comps; [congruence|discriminate]|].
  intros y Hy. apply in_map_iff in Hy. destruct Hy as (c & <- & Hc). destruct (comps_ok c Hc) as [HZ Hn].
  apply Rmult_lt_0_compat; [apply Rdiv_lt_0_compat; [now apply lt_0_INR|apply N_pos]|apply Rdiv_lt_0_compat; [apply Lb_pos|exact HZ]].
Qed.

(** expected value of (1/N) sum over all stored samples of w(x_s) f(x_s), when batch t is drawn from
    pi_t(x) = prior(x) L^{beta_t}(x) / Z_t:  sum_x [prior(x) M(x)] w(x) f(x) *)
Definition expected_estimator (b : R) (f : X -> R) : R := sumR (map (fun x => prior x * M x * (w b x * f x)) pts).

(** C01 (1) / C02 (2): the balance-heuristic estimator is unbiased for the unnormalised target integral,
    for every number of iterations, unequal batch sizes, any order of temperatures, any f *)
Theorem mis_unbiased b f : expected_estimator b f = sumR (map (fun x => prior x * Lb b x * f x) pts).
Proof.
  unfold expected_estimator. f_equal. apply map_ext. intro x. unfold w. pose proof (M_pos x). field. lra.
Qed.

(** in particular (f = 1) the mean unnormalised weight is unbiased for the evidence Z_b *)
Corollary evidence_unbiased b : expected_estimator b (fun _ => 1) = sumR (map (fun x => prior x * Lb b x) pts).
Proof. rewrite mis_unbiased. f_equal. apply map_ext. intro; ring. Qed.

(** self-normalised form: the ratio of the two unbiased quantities is the posterior expectation *)
Corollary selfnormalised_target b f : 0 < sumR (map (fun x => prior x * Lb b x) pts) ->
  expected_estimator b f / expected_estimator b (fun _ => 1)
  = sumR (map (fun x => prior x * Lb b x * f x) pts) / sumR (map (fun x => prior x * Lb b x) pts).
Proof. intros _. now rewrite mis_unbiased, evidence_unbiased. Qed.
End MISEstimator.

(** the weight the code computes IS that balance-heuristic weight: exp(logw_un H b (ln L)) = L^b / M *)
Lemma exp_sumR_map {A} (g : A -> R) (l : list A) : sumR (map g l) = sumR (map g l). Proof. reflexivity. Qed.

Theorem code_weight_is_balance_heuristic (H : list iter) (b Lx : R) : 0 < Lx -> H <> [] -> all_pos H ->
  exp (logw_un H b (ln Lx))
  = exp (b * ln Lx) / sumR (map (fun it => INR (n_t it) / INR (Ntot H) * (exp (beta_t it * ln Lx) / exp (z_t it))) H).
Proof.
  intros HL Hne Hp. unfold logw_un, logmix, mix.
  assert (G : forall a S, 0 < S -> exp (a - ln S) = exp a / S).
  { intros a S HS. unfold Rminus, Rdiv. now rewrite exp_plus, exp_Ropp, exp_ln. }
  assert (Hpos : 0 < sumR (mix_terms (INR (Ntot H)) H (ln Lx))).
  { unfold mix_terms. apply sumR_pos; [destruct H; [congruence|discriminate]|].
    intros y Hy. apply in_map_iff in Hy. destruct Hy as (it & <- & Hit).
    apply Rmult_lt_0_compat; [|apply exp_pos]. apply Rdiv_lt_0_compat; [apply lt_0_INR; now apply Hp|].
    apply lt_0_INR. now apply Ntot_pos. }
  rewrite G by exact Hpos. f_equal. unfold mix_terms. f_equal. apply map_ext. intro it. f_equal.
  unfold Rminus, Rdiv. now rewrite exp_plus, exp_Ropp.
Qed.

(** posterior(): exp(logw - max)/sum is the normalised weight exp(logw - logsumexp) for any shift *)
Theorem maxshift_normalisation (xs : list R) (m x : R) : xs <> [] ->
  exp (x - m) / sumR (map (fun y => exp (y - m)) xs) = exp (x - lse xs).
Proof.
  intro Hne. unfold lse. pose proof (sumR_map_exp_pos xs Hne) as Hs.
  assert (E : sumR (map (fun y => exp (y - m)) xs) = exp (- m) * sumR (map exp xs)).
  { rewrite <- sumR_scale, map_map. f_equal. apply map_ext. intro y. unfold Rminus. rewrite exp_plus. ring. }
  rewrite E. unfold Rminus. rewrite !exp_plus, !exp_Ropp. rewrite exp_ln by exact Hs.
  pose proof (exp_pos m). field. split; lra.
Qed.
