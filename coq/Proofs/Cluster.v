From Coq Require Import List Bool Arith Lia.
From Tempest Require Import Model.Cluster.
Import ListNotations.

(** C14 (1): with the "fit when never fitted" rule, no schedule, cadence or starting iteration number
    (resume) ever predicts on an unfitted model *)
Lemma trainer_step_safe every it a fitted : trainer_step true every it a fitted <> PredictOnUnfitted.
Proof.
  unfold trainer_step, refit. destruct a; [|discriminate].
  destruct fitted; cbn [negb andb]; rewrite ?orb_true_r, ?orb_false_r.
  - destruct (_ || _); discriminate.
  - discriminate.
Qed.

Theorem never_unfitted every flags : forall it fitted, trainer_run true every it flags fitted <> PredictOnUnfitted.
Proof.
  induction flags as [|a r IH]; intros it fitted; cbn [trainer_run]; [discriminate|].
  destruct (trainer_step true every (S it) a fitted) eqn:E; [apply IH|].
  exfalso. eapply trainer_step_safe; eauto.
Qed.

(** once an annealing iteration has run, the model is fitted *)
Theorem fitted_after_annealing every it fitted : exists f, trainer_step true every it true fitted = Ok true /\ f = true.
Proof.
  exists true. split; [|reflexivity]. unfold trainer_step, refit.
  destruct fitted; cbn [negb andb]; rewrite ?orb_true_r, ?orb_false_r; [destruct (_ || _); reflexivity|reflexivity].
Qed.

(** C14 (2): when every label below K occurs among the training predictions, mode index = label *)
Lemma occurring_covered K labels : (forall k, k < K -> In k labels) -> occurring K labels = seq 0 K.
Proof.
  intro H. unfold occurring.
  assert (G : forall l, (forall k, In k l -> In k labels) -> filter (fun k => existsb (Nat.eqb k) labels) l = l).
  { induction l as [|x l IH]; intro Hl; cbn; [reflexivity|].
    assert (E : existsb (Nat.eqb x) labels = true).
    { apply existsb_exists. exists x. split; [apply Hl; now left|apply Nat.eqb_refl]. }
    rewrite E. f_equal. apply IH. intros k Hk. apply Hl. now right. }
  apply G. intros k Hk. apply in_seq in Hk. apply H. lia.
Qed.

Theorem label_is_mode K labels a : (forall k, k < K -> In k labels) -> a < K -> kernel_mode K labels a = Some a.
Proof.
  intros Hc Ha. unfold kernel_mode, mode_label. rewrite occurring_covered by exact Hc.
  rewrite nth_error_nth' with (d := 0) by (rewrite seq_length; exact Ha). now rewrite seq_nth.
Qed.

Lemma covers_spec K labels : covers K labels = true <-> (forall k, k < K -> In k labels).
Proof.
  unfold covers. rewrite forallb_forall. split.
  - intros H k Hk. assert (Hin : In k (seq 0 K)) by (apply in_seq; lia).
    apply H in Hin. apply existsb_exists in Hin. destruct Hin as (x & Hx & E). apply Nat.eqb_eq in E. now subst.
  - intros H k Hk. apply in_seq in Hk. apply existsb_exists. exists k. split; [apply H; lia|apply Nat.eqb_refl].
Qed.

(** C14 (2b): on an iteration that reuses the clustering, the installed model and the labels it predicted for the training
    points are covering as soon as a freshly fitted model is (the reused one is tested by the code) *)
Theorem reuse_covers K_old pred_old K_new pred_new :
  covers K_new pred_new = true ->
  covers (fst (reuse_labels true K_old pred_old K_new pred_new)) (snd (reuse_labels true K_old pred_old K_new pred_new)) = true.
Proof.
  intro Hn. unfold reuse_labels. cbn [negb orb]. destruct (covers K_old pred_old) eqn:E; cbn [fst snd]; assumption.
Qed.

Theorem reuse_label_is_mode K_old pred_old K_new pred_new a :
  covers K_new pred_new = true ->
  let r := reuse_labels true K_old pred_old K_new pred_new in
  a < fst r -> kernel_mode (fst r) (snd r) a = Some a.
Proof.
  intros Hn r Ha. apply label_is_mode; [|exact Ha]. apply covers_spec. apply reuse_covers. exact Hn.
Qed.

(** C14 (3): whatever the order of the resampled indices, active particle r carries the cluster of ITS position *)
Theorem assign_pointwise {U} (predict : U -> nat) pool (d : U) idx r :
  r < length idx -> nth r (assign predict pool d idx) 0 = predict (nth r (gather pool d idx) d).
Proof.
  intro H. unfold assign. rewrite (nth_indep _ 0 (predict d)) by (now rewrite map_length; unfold gather; rewrite map_length).
  now rewrite map_nth.
Qed.

(** number of modes never exceeds K and equals K exactly under coverage *)
Theorem modes_count K labels : length (occurring K labels) <= K.
Proof.
  unfold occurring. rewrite <- (seq_length K 0) at 2.
  generalize (seq 0 K). induction l as [|x l IH]; cbn; [lia|]. destruct (existsb _ _); cbn; lia.
Qed.
