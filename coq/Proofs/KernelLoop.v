(** Termination of the kernel's inner loop for EVERY acceptance / step-size history (the adaptive value is an arbitrary
    oracle): it stops at an iteration <= max(1, floor(smax)), and not before min(ceil smin, floor smax)-ish lower bound is
    irrelevant for liveness. *)
From Coq Require Import List Bool ZArith QArith Qround Lia Lqa.
From Tempest Require Import Base.QFloor Model.KernelLoop.
Import ListNotations.
Local Open Scope Q_scope.

Lemma pymin_le_r a b : pymin a b <= b.
Proof. unfold pymin. destruct (Qle_bool a b) eqn:E; [now apply Qle_bool_iff|lra]. Qed.

Lemma pyint_le_floor_bound x b : x <= b -> (pyint x <= Z.max 0 (Qfloor b))%Z.
Proof.
  intro H. unfold pyint. destruct (Qle_bool 0 x) eqn:E.
  - apply Qle_bool_iff in E. pose proof (Qfloor_resp_le _ _ H). lia.
  - assert (Hx : x < 0). { apply Qnot_le_lt. intro C. apply Qle_bool_iff in C. congruence. }
    assert (Qceiling x <= 0)%Z.
    { unfold Qceiling. pose proof (Qfloor_le (- x)). assert (0 <= Qfloor (- x))%Z.
      { change 0%Z with (Qfloor 0). apply Qfloor_resp_le. lra. } lia. }
    lia.
Qed.

Lemma adaptive_steps_bounded smin smax a : (adaptive_steps smin smax a <= Z.max 0 (Qfloor smax))%Z.
Proof. unfold adaptive_steps. apply pyint_le_floor_bound. apply pymin_le_r. Qed.

(** the loop stops, whatever the oracle says, within max(1, floor smax) iterations *)
Theorem kernel_loop_terminates smin smax oracle :
  let bound := Z.max 1 (Qfloor smax) in
  forall fuel, (Z.to_nat bound <= fuel)%nat ->
  exists it, kernel_loop fuel 0 smin smax oracle = Some it /\ (1 <= it <= bound)%Z.
Proof.
  intros bound.
  assert (G : forall fuel it, (0 <= it)%Z -> (Z.to_nat (bound - it) <= fuel)%nat -> (it < bound)%Z ->
              exists r, kernel_loop fuel it smin smax oracle = Some r /\ (it + 1 <= r <= bound)%Z).
  { induction fuel as [|f IH]; intros it H0 Hf Hlt; [lia|].
    cbn [kernel_loop]. destruct (Z.leb (adaptive_steps smin smax (oracle (it + 1)%Z)) (it + 1)) eqn:E.
    - eexists; split; [reflexivity|lia].
    - apply Z.leb_gt in E. pose proof (adaptive_steps_bounded smin smax (oracle (it + 1)%Z)).
      assert (it + 1 < bound)%Z by (unfold bound in *; lia).
      destruct (IH (it + 1)%Z ltac:(lia) ltac:(lia) H1) as (r & Hr & Hb). exists r. split; [exact Hr|lia]. }
  intros fuel Hf. destruct (G fuel 0%Z ltac:(lia) ltac:(rewrite Z.sub_0_r; exact Hf) ltac:(unfold bound; lia)) as (r & Hr & Hb).
  exists r. split; [exact Hr|lia].
Qed.

(** non-vacuity: smin = 2, smax = 10, an oracle that keeps asking for more: stops at iteration 10 *)
Example kernel_loop_example : kernel_loop 20 0 2 10 (fun _ => 1000) = Some 10%Z.
Proof. vm_compute. reflexivity. Qed.
