(** C06: no index of zero weight is ever selected - for EVERY arithmetic instance satisfying two laws:
    (A) adding a zero weight does not change the outcome of the loop test:  p >= cum + z  <->  p >= cum   (z zero)
    (B) every tooth is >= a zero first weight (teeth are non-negative)
    Both are proved for exact rationals below; for binary64 they are the IEEE behaviour of x + 0 and of comparisons with
    +-0 for non-NaN, non-negative teeth - ASSUMED there, not proved (the binary64 twin is checked by execution).
    The argument needs the last weight handed to the comb to be non-zero, which is exactly what the truncation at the
    last non-zero weight (upto_last_nonzero) establishes. *)
From Coq Require Import List Bool Arith Lia QArith Lqa.
From Tempest Require Import Base.Ops Model.Resample Proofs.Resample.
Import ListNotations.
Local Close Scope Q_scope.
Section NonZero.
Context {T : Type} (o : Ops T).
Hypothesis add_zero_law : forall p c z, is_zero o z = true -> o_geb o p (o_add o c z) = o_geb o p c.

Lemma last_indep {A} (l : list A) d d' : l <> [] -> last l d = last l d'.
Proof. induction l as [|a l IH]; intro Hn; [congruence|]. destruct l; [reflexivity|]. cbn [last]. apply IH. discriminate. Qed.

Lemma nth_error_skipn' {A} (l : list A) : forall n m, nth_error (skipn n l) m = nth_error l (n + m).
Proof. induction l as [|a l IH]; intros [|n] m; cbn; try reflexivity; [now destruct m|apply IH]. Qed.

Lemma advance_stops_on_nonzero rest : forall p j cum wj j' cum' rest',
  (is_zero o wj = true -> o_geb o p cum = true) ->
  is_zero o (last (wj :: rest) wj) = false ->
  advance o true rest p j cum = Some (j', cum', rest') ->
  exists wj', nth_error (wj :: rest) (j' - j) = Some wj' /\ is_zero o wj' = false /\ j <= j'
              /\ is_zero o (last (wj' :: rest') wj') = false /\ skipn (j' - j) (wj :: rest) = wj' :: rest'.
Proof.
  induction rest as [|x r IH]; intros p j cum wj j' cum' rest' Hentry Hlast; cbn [advance].
  - assert (Hz : is_zero o wj = false) by exact Hlast.
    destruct (o_geb o p cum) eqn:G; intro E; inversion E; subst; rewrite Nat.sub_diag; exists wj; cbn; repeat split; auto.
  - destruct (o_geb o p cum) eqn:G.
    + intro E.
      assert (Hentry' : is_zero o x = true -> o_geb o p (o_add o cum x) = true).
      { intro Z. rewrite add_zero_law by exact Z. exact G. }
      assert (Hlast' : is_zero o (last (x :: r) x) = false).
      { change (last (wj :: x :: r) wj) with (last (x :: r) wj) in Hlast.
        rewrite (last_indep (x :: r) x wj) by discriminate. exact Hlast. }
      destruct (IH p (S j) (o_add o cum x) x j' cum' rest' Hentry' Hlast' E) as (wj' & Hn & Hz & Hle & Hl & Hs).
      exists wj'. replace (j' - j) with (S (j' - S j)) by lia. cbn [nth_error skipn].
      split; [exact Hn|]. split; [exact Hz|]. split; [lia|]. split; [exact Hl|exact Hs].
    + assert (Hz : is_zero o wj = false).
      { destruct (is_zero o wj) eqn:Z; [|reflexivity]. specialize (Hentry eq_refl). congruence. }
      intro E; inversion E; subst. rewrite Nat.sub_diag. exists wj. cbn [nth_error skipn]. repeat split; auto.
Qed.

Theorem comb_selects_nonzero ps : forall rest j cum wj out,
  (is_zero o wj = true -> forall p, In p ps -> o_geb o p cum = true) ->
  is_zero o (last (wj :: rest) wj) = false ->
  comb o true ps rest j cum = Some out ->
  forall i, In i out -> exists w, nth_error (wj :: rest) (i - j) = Some w /\ is_zero o w = false /\ j <= i.
Proof.
  induction ps as [|p ps IH]; intros rest j cum wj out Hentry Hlast; cbn [comb].
  - intro E; inversion E; subst. intros i [].
  - destruct (advance o true rest p j cum) as [[[j' cum'] rest']|] eqn:Ea; [|discriminate].
    destruct (comb o true ps rest' j' cum') as [out'|] eqn:Ec; [|discriminate].
    cbn. intro E; inversion E; subst.
    destruct (advance_stops_on_nonzero rest p j cum wj j' cum' rest'
                (fun Z => Hentry Z p (or_introl eq_refl)) Hlast Ea) as (wj' & Hn & Hz & Hle & Hl & Hs).
    intros i [<-|Hi].
    + exists wj'. auto.
    + assert (Hentry' : is_zero o wj' = true -> forall q, In q ps -> o_geb o q cum' = true) by (rewrite Hz; discriminate).
      destruct (IH rest' j' cum' wj' out' Hentry' Hl Ec i Hi) as (w & Hw & Hzw & Hji).
      exists w. split; [|split; [exact Hzw|lia]].
      rewrite <- Hs in Hw. rewrite nth_error_skipn' in Hw. replace (j' - j + (i - j')) with (i - j) in Hw by lia. exact Hw.
Qed.

Lemma drop_zeros_head l y r' : drop_zeros o l = y :: r' -> is_zero o y = false.
Proof.
  induction l as [|x l IH]; cbn [drop_zeros]; [discriminate|].
  destruct (is_zero o x) eqn:Z; [exact IH|]. intro E; inversion E; subst. exact Z.
Qed.

Lemma upto_last_is_nonzero w x r : drop_zeros o (rev w) <> [] -> upto_last_nonzero o w = x :: r ->
  is_zero o (last (x :: r) x) = false.
Proof.
  unfold upto_last_nonzero. destruct (drop_zeros o (rev w)) as [|y r'] eqn:E; [congruence|]. intros _ Hu.
  rewrite <- Hu. cbn [rev]. rewrite last_last. now apply drop_zeros_head in E.
Qed.

(** the whole routine: whenever some (renormalised) weight is non-zero, every returned index carries a non-zero weight *)
Theorem sysres2_selects_nonzero size w s sqrteps u0 idx :
  let w' := if renorm_needed o s sqrteps then renorm o w s else w in
  drop_zeros o (rev w') <> [] ->
  (forall p, In p (cpositions o u0 size) -> forall z, is_zero o z = true -> o_geb o p z = true) ->
  sysres2_with_sum o true size w s sqrteps u0 = Some idx ->
  forall i, In i idx -> exists wi, nth_error w' i = Some wi /\ is_zero o wi = false.
Proof.
  intros w' Hnz Hteeth. unfold sysres2_with_sum. fold w'.
  destruct (upto_last_nonzero o w') as [|x r] eqn:Eu; [discriminate|]. intros Ec i Hi.
  assert (Hlast := upto_last_is_nonzero w' x r Hnz Eu).
  destruct (comb_selects_nonzero (cpositions o u0 size) r 0 x x idx
              (fun Z p Hp => Hteeth p Hp x Z) Hlast Ec i Hi) as (wi & Hw & Hz & _).
  rewrite Nat.sub_0_r in Hw. exists wi. split; [|exact Hz].
  (* x :: r is a prefix of w' *)
  unfold upto_last_nonzero in Eu. destruct (drop_zeros o (rev w')) as [|y r'] eqn:E; [congruence|].
  assert (Hpre : exists z, w' = (x :: r) ++ z).
  { clear - E Eu. assert (G : forall l, exists z, l = z ++ drop_zeros o l).
    { induction l as [|a l IH]; cbn [drop_zeros]; [exists []; reflexivity|]. destruct (is_zero o a); [|exists []; reflexivity].
      destruct IH as (z & Hz). exists (a :: z). cbn. now f_equal. }
    destruct (G (rev w')) as (z & Hz). rewrite E in Hz. exists (rev z).
    rewrite <- Eu. rewrite <- rev_app_distr. rewrite <- Hz. now rewrite rev_involutive. }
  destruct Hpre as (z & ->). rewrite nth_error_app1; [exact Hw|]. apply nth_error_Some. congruence.
Qed.
End NonZero.

(** the two laws over exact rationals *)
Lemma add_zero_law_Q p c z : is_zero QOps z = true -> o_geb QOps p (o_add QOps c z) = o_geb QOps p c.
Proof.
  unfold is_zero, o_geb. cbn [o_eqb o_zero o_leb o_add QOps]. intro Z. apply Qeq_bool_iff in Z.
  destruct (Qle_bool c p) eqn:E.
  - apply Qle_bool_iff. apply Qle_bool_iff in E. lra.
  - destruct (Qle_bool (c + z) p) eqn:E'; [|reflexivity]. apply Qle_bool_iff in E'.
    assert (c <= p)%Q by lra. apply Qle_bool_iff in H. congruence.
Qed.
Lemma tooth_ge_zero_Q p z : (0 <= p)%Q -> is_zero QOps z = true -> o_geb QOps p z = true.
Proof.
  unfold is_zero, o_geb. cbn [o_eqb o_zero o_leb QOps]. intros Hp Z. apply Qeq_bool_iff in Z. apply Qle_bool_iff. lra.
Qed.
