(** Arithmetic-operations record: generated/model code is written once against [Ops T]
    and instantiated over exact rationals [Q] (for theorems) and over binary64
    [PrimFloat] (for bit-exact execution against the implementation). *)
From Coq Require Import QArith Qabs Qround ZArith List Bool PrimFloat Uint63.
Import ListNotations.

Record Ops (T : Type) := mkOps {
  o_zero : T; o_one : T;
  o_add : T -> T -> T; o_sub : T -> T -> T; o_mul : T -> T -> T; o_div : T -> T -> T;
  o_ltb : T -> T -> bool; o_leb : T -> T -> bool; o_eqb : T -> T -> bool;
  o_abs : T -> T; o_ofnat : nat -> T; o_half : T;
  o_prev : T -> T   (* the next representable value towards zero, for positive arguments (identity over Q) *)
}.
Arguments o_zero {T}. Arguments o_one {T}. Arguments o_add {T}. Arguments o_sub {T}.
Arguments o_mul {T}. Arguments o_div {T}. Arguments o_ltb {T}. Arguments o_leb {T}.
Arguments o_eqb {T}. Arguments o_abs {T}. Arguments o_ofnat {T}. Arguments o_half {T}. Arguments o_prev {T}.

Definition o_gtb {T} (o : Ops T) (a b : T) : bool := o_ltb o b a.
Definition o_geb {T} (o : Ops T) (a b : T) : bool := o_leb o b a.

(** Exact rationals. *)
Definition Qltb (a b : Q) : bool := negb (Qle_bool b a).
Definition QOps : Ops Q := {|
  o_zero := 0%Q; o_one := 1%Q;
  o_add := Qplus; o_sub := Qminus; o_mul := Qmult; o_div := Qdiv;
  o_ltb := Qltb; o_leb := Qle_bool; o_eqb := Qeq_bool;
  o_abs := Qabs; o_ofnat := fun n => inject_Z (Z.of_nat n); o_half := (1#2)%Q; o_prev := fun x => x |}.

Lemma Qltb_lt a b : Qltb a b = true <-> (a < b)%Q.
Proof.
  unfold Qltb. rewrite negb_true_iff. split; intro H.
  - apply Qnot_le_lt. intro Hle. apply Qle_bool_iff in Hle. congruence.
  - destruct (Qle_bool b a) eqn:E; [|reflexivity].
    apply Qle_bool_iff in E. exfalso. apply (Qlt_not_le _ _ H E).
Qed.
Lemma Qltb_ge a b : Qltb a b = false <-> (b <= a)%Q.
Proof.
  unfold Qltb. rewrite negb_false_iff. apply Qle_bool_iff.
Qed.

(** binary64. *)
Definition FOps : Ops float := {|
  o_zero := 0%float; o_one := 1%float;
  o_add := PrimFloat.add; o_sub := PrimFloat.sub; o_mul := PrimFloat.mul; o_div := PrimFloat.div;
  o_ltb := PrimFloat.ltb; o_leb := PrimFloat.leb; o_eqb := PrimFloat.eqb;
  o_abs := PrimFloat.abs;
  o_ofnat := fun n => PrimFloat.of_uint63 (Uint63.of_Z (Z.of_nat n));
  o_half := 0.5%float; o_prev := PrimFloat.next_down |}.

(** Bitwise sameness of two doubles (distinguishes +0/-0, identifies all NaNs). *)
Definition fsame (a b : float) : bool :=
  (PrimFloat.is_nan a && PrimFloat.is_nan b)
  || (PrimFloat.eqb a b && Bool.eqb (PrimFloat.get_sign a) (PrimFloat.get_sign b)).
Fixpoint fsame_list (a b : list float) : bool :=
  match a, b with
  | [], [] => true
  | x :: a', y :: b' => fsame x y && fsame_list a' b'
  | _, _ => false
  end.
