(** Floor / ceiling facts over Q used by several models. *)
From Coq Require Import ZArith QArith Qround Lqa Lia.
Local Open Scope Q_scope.

Lemma Zle_from_Qlt a b : inject_Z a < inject_Z b + 1 -> (a <= b)%Z.
Proof.
  intro H. assert (H' : inject_Z a < inject_Z (b + 1)) by (rewrite inject_Z_plus; exact H).
  rewrite <- Zlt_Qlt in H'. lia.
Qed.

Lemma Qceiling_unique s z : inject_Z z - 1 < s -> s <= inject_Z z -> Qceiling s = z.
Proof.
  intros H1 H2. pose proof (Qle_ceiling s) as H3. pose proof (Qceiling_lt s) as H4.
  unfold Zminus in H4. rewrite inject_Z_plus, inject_Z_opp in H4. change (inject_Z 1) with 1 in H4.
  apply Z.le_antisymm; apply Zle_from_Qlt; lra.
Qed.

Lemma Qfloor_unique s z : inject_Z z <= s -> s < inject_Z z + 1 -> Qfloor s = z.
Proof.
  intros H1 H2. pose proof (Qfloor_le s) as H3. pose proof (Qlt_floor s) as H4.
  rewrite inject_Z_plus in H4. change (inject_Z 1) with 1 in H4.
  apply Z.le_antisymm; apply Zle_from_Qlt; lra.
Qed.


Lemma Qfloor_plus_Z s z : Qfloor (s + inject_Z z) = (Qfloor s + z)%Z.
Proof.
  apply Qfloor_unique.
  - rewrite inject_Z_plus. pose proof (Qfloor_le s). lra.
  - rewrite inject_Z_plus. pose proof (Qlt_floor s) as H. rewrite inject_Z_plus in H.
    change (inject_Z 1) with 1 in H. lra.
Qed.

Lemma Qfloor_range s : inject_Z (Qfloor s) <= s /\ s < inject_Z (Qfloor s) + 1.
Proof.
  split; [apply Qfloor_le|]. pose proof (Qlt_floor s) as H. rewrite inject_Z_plus in H.
  change (inject_Z 1) with 1 in H. exact H.
Qed.
