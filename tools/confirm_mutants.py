"""Confirm sub-agent mutants in a scratch worktree and file them under /verif/seeded/.
usage: confirm_mutants.py [--round2] <PID> [<PID> ...]
   (reads /tmp/mut/out_<PID>/mutant{k}.diff, demo{k}.py, meta{k}.json; with --round2 (/tmp/mut2, _m3/_m4) or --round3 (/tmp/mut3, _m5/_m6))"""
import json
import os
import shutil
import subprocess
import sys
from pathlib import Path

OK_FAIL = {"test_sample_with_save_every", "test_custom_output_dir", "test_resume"}


def sh(cmd, cwd=None, timeout=1800):
    p = subprocess.run(cmd, shell=True, cwd=cwd, stdout=subprocess.PIPE, stderr=subprocess.STDOUT, text=True, timeout=timeout)
    return p.returncode, p.stdout


def main():
    args = sys.argv[1:]
    round2 = "--round2" in args
    round3 = "--round3" in args
    round4 = "--round4" in args
    round5 = "--round5" in args     # properties that had no round 4: /tmp/mut5, filed as _m7/_m8 as well
    round6 = "--round6" in args     # /tmp/mut6; filed under the next free numbers, only when confirmed
    args = [a for a in args if a not in ("--round2", "--round3", "--round4", "--round5", "--round6")]
    for pid in args:
        base6 = max([int(d.name.split("_m")[1]) for d in Path("/verif/seeded").glob(f"{pid}_m*")] + [0])
        out = Path(f"{os.environ.get('MUT_ROUND_DIR', '/tmp/mut6')}/out_{pid}") if round6 else Path(f"/tmp/mut5/out_{pid}" if round5 else f"/tmp/mut4/out_{pid}" if round4 else f"/tmp/mut3/out_{pid}" if round3 else (f"/tmp/mut2/out_{pid}" if round2 else f"/tmp/mut/out_{pid}"))
        for k in (1, 2, 3):
            diff = out / f"mutant{k}.diff"
            if not diff.exists():
                continue
            wt = Path(f"/tmp/confirm_{pid}_{k}")
            sh(f"git -C /repo worktree remove --force {wt}")
            rc, o = sh(f"git -C /repo worktree add -q {wt} HEAD")
            try:
                rc_clean, _ = sh(f"/venv/bin/python {out}/demo{k}.py {wt}", cwd="/tmp")
                rc_apply, o = sh(f"git apply {diff}", cwd=wt)
                rc_mut, demo_out = sh(f"/venv/bin/python {out}/demo{k}.py {wt}", cwd="/tmp")
                rc_t, t_out = sh("/venv/bin/python -m pytest -q -p no:cacheprovider --timeout=900 -x --deselect tests/test_sample_method.py::SampleMethodTestCase::test_sample_with_save_every --deselect tests/test_sampler_features.py::SamplerFeaturesTestCase::test_custom_output_dir --deselect tests/test_state.py::SamplerStateTestCase::test_resume 2>&1 | tail -3", cwd=wt)
                confirmed = rc_clean == 0 and rc_apply == 0 and rc_mut == 1 and "failed" not in t_out and "error" not in t_out.lower()
                meta = json.loads((out / f"meta{k}.json").read_text()) if (out / f"meta{k}.json").exists() else {}
                meta.update(dict(property=pid, confirmed_by_main_session=confirmed, demo_clean_exit_confirmed=rc_clean,
                                 demo_mutant_exit_confirmed=rc_mut, suite_tail_with_mutant=t_out.strip().splitlines()[-2:],
                                 what_i_ran=[f"git worktree add {wt} HEAD", f"demo on clean -> {rc_clean}", "git apply patch.diff",
                                             f"demo on mutant -> {rc_mut}", "pytest full suite (3 baseline-failing tests deselected)"]))
                dst = Path(f"/verif/seeded/{pid}_m{k + 6 if (round4 or round5) else k + 4 if round3 else (k + 2 if round2 else k)}")
                if round6:
                    if not confirmed:
                        print(pid, k, "NOT CONFIRMED (not filed)", rc_clean, rc_apply, rc_mut, t_out.strip().splitlines()[-1:])
                        continue
                    base6 += 1
                    dst = Path(f"/verif/seeded/{pid}_m{base6}")
                dst.mkdir(parents=True, exist_ok=True)
                shutil.copy(diff, dst / "patch.diff")
                shutil.copy(out / f"demo{k}.py", dst / "demo.py")
                (dst / "meta.json").write_text(json.dumps(meta, indent=1))
                print(pid, k, "confirmed" if confirmed else "NOT CONFIRMED", rc_clean, rc_mut, t_out.strip().splitlines()[-1:])
            finally:
                sh(f"git -C /repo worktree remove --force {wt}")


main()
