#!/bin/bash
# usage: try_mutant.sh <property id> <patch file> [tier]   -- applies the patch to /repo, runs the check, restores /repo
set -u
pid=$1; patch=$2; tier=${3:-quick}
cd /repo || exit 2
if ! git diff --quiet; then echo "/repo is dirty"; exit 2; fi
git apply "$patch" || { echo "patch does not apply"; exit 2; }
cp /verif/evidence/$pid.json /tmp/evidence_backup_$pid.json 2>/dev/null
cd /verif && timeout 1200 ./check "$pid" --tier "$tier" > /tmp/try_mutant_$pid.log 2>&1; rc=$?
git -C /repo checkout -- .
cp /tmp/evidence_backup_$pid.json /verif/evidence/$pid.json 2>/dev/null
grep -E "^VIOLATION|^KNOWN|tier=" /tmp/try_mutant_$pid.log | cut -c1-300
grep -E "failing input|disagreement|broken:" /tmp/try_mutant_$pid.log | cut -c1-260 | head -4
echo "exit=$rc"
