"""Subprocess used by C08's crash injection: performs one checkpoint save and dies (os._exit, no
buffer flushing, no cleanup) at the chosen IO event.  argv: workdir crash_event partial_fraction mode
mode = 'count' (just run and print the number of IO events), 'crash' (the process dies at the event), 'powerloss', or
'ioerror' (the event raises OSError(ENOSPC) - after a prefix of the chunk for a write - and the process lives on: the save
must fail without touching the previous checkpoint)."""
import builtins
import io
import os
import sys

workdir, crash_at, frac, mode = sys.argv[1], int(sys.argv[2]), float(sys.argv[3]), sys.argv[4]
repo = os.environ.get("TEMPEST_REPO_OVERRIDE", "/repo")
sys.path.insert(0, repo)
os.chdir(workdir)
import numpy as np  # noqa: E402
from tempest import Sampler  # noqa: E402

events = []


def hit(kind):
    events.append(kind)
    if mode in ("crash", "ioerror") and len(events) - 1 == crash_at:
        return True
    return False


def die_or_raise():
    if mode == "ioerror":
        import errno
        raise OSError(errno.ENOSPC, "No space left on device (injected)")
    os._exit(17)


class PW:
    """power-loss emulation: an explicit user-space buffer (like io.BufferedWriter) over an unbuffered raw file;
    only bytes handed to the OS before the last fsync are durable"""
    BUF = 8192
    by_fd = {}

    def __init__(self, raw, name):
        self.raw, self.name, self.buf, self.os_len, self.durable = raw, name, b"", 0, 0
        PW.by_fd[raw.fileno()] = self

    def _push(self, data):
        self.raw.write(data)
        self.os_len += len(data)

    def write(self, b):
        b = bytes(b)
        if len(self.buf) + len(b) > self.BUF:
            self._push(self.buf)
            self.buf = b""
            if len(b) > self.BUF:
                self._push(b)
                return len(b)
        self.buf += b
        return len(b)

    def flush(self):
        self._push(self.buf)
        self.buf = b""

    def fileno(self):
        return self.raw.fileno()

    def close(self):
        self.flush()
        self.raw.close()

    def __enter__(self):
        return self

    def __exit__(self, *a):
        self.close()
        return False


class W:
    """file proxy: every write is an IO event; a crash inside a write leaves a prefix of the chunk"""

    def __init__(self, f):
        self._f = f

    def write(self, b):
        if hit("write"):
            k = int(len(b) * frac)
            self._f.write(b[:k])
            # a dying process loses whatever is still buffered in user space: emulate the worst case
            # by flushing only the part already handed to the OS
            self._f.flush()
            die_or_raise()
        return self._f.write(b)

    def flush(self):
        if hit("flush"):
            die_or_raise()
        return self._f.flush()

    def fileno(self):
        return self._f.fileno()

    def close(self):
        if hit("close"):
            os._exit(17)
        return self._f.close()

    def __enter__(self):
        return self

    def __exit__(self, *a):
        self.close()
        return False

    def __getattr__(self, n):
        return getattr(self._f, n)


_open = builtins.open
_replace, _rename, _fsync = os.replace, os.rename, os.fsync
armed = [False]


durable_of = {}


def my_open(file, mode_="r", *a, **k):
    if armed[0] and mode == "powerloss" and any(c in mode_ for c in "wax+"):
        pw = PW(_open(file, mode_, buffering=0), os.path.basename(str(file)))
        durable_of[os.path.abspath(str(file))] = pw
        return pw
    if armed[0] and any(c in mode_ for c in "wax+"):
        if hit(f"open:{os.path.basename(str(file))}:{mode_}"):
            os._exit(17)
        return W(_open(file, mode_, *a, **k))
    return _open(file, mode_, *a, **k)


XDEV = os.environ.get("C08_XDEV") == "1"   # emulate: every directory is its own filesystem (a rename across directories fails with EXDEV)


def _xdev(a, b):
    if XDEV and armed[0] and os.path.dirname(os.path.abspath(str(a))) != os.path.dirname(os.path.abspath(str(b))):
        import errno
        raise OSError(errno.EXDEV, "Invalid cross-device link (emulated)", str(a))


def my_replace(a, b, *x, **k):
    _xdev(a, b)
    if armed[0] and mode == "powerloss":
        pw = durable_of.get(os.path.abspath(str(a)))
        r = _replace(a, b, *x, **k)
        if pw is not None:
            # power fails right after the rename: un-synced bytes of the renamed file are lost
            with _open(b, "r+b") as fh:
                fh.truncate(pw.durable)
        print("POWERLOSS durable=%d total=%d" % (pw.durable if pw else -1, pw.os_len + len(pw.buf) if pw else -1))
        sys.stdout.flush()
        os._exit(17)
    if armed[0] and hit(f"replace:{os.path.basename(str(a))}->{os.path.basename(str(b))}"):
        os._exit(17)
    return _replace(a, b, *x, **k)


def my_rename(a, b, *x, **k):
    _xdev(a, b)
    if armed[0] and hit(f"rename:{os.path.basename(str(a))}->{os.path.basename(str(b))}"):
        os._exit(17)
    return _rename(a, b, *x, **k)


def my_fsync(fd):
    if armed[0] and mode == "powerloss":
        pw = PW.by_fd.get(fd)
        if pw is not None:
            pw.durable = pw.os_len
        return _fsync(fd)
    if armed[0] and hit("fsync"):
        die_or_raise()
    return _fsync(fd)


builtins.open = my_open
io.open = my_open
os.replace, os.rename, os.fsync = my_replace, my_rename, my_fsync


def pt(u):
    return 6 * u - 3


def ll(x):
    return -0.5 * float(np.sum(x ** 2))


np.random.seed(5)
big = mode == "powerloss"
s = Sampler(pt, ll, n_dim=4 if big else 2, n_particles=300 if big else 8, clustering=False)
s._core._initialize_fresh()
s.sample()
s.save_state("ckpt.state")          # the OLD complete checkpoint (not instrumented)
s.sample()
s.sample()
armed[0] = True
try:
    s.save_state("ckpt.state")          # the save that may die / fail
except OSError as e:
    if mode != "ioerror":
        raise
    armed[0] = False
    print("IOERROR propagated: %s" % e)
    sys.stdout.flush()
    os._exit(18)
armed[0] = False
print("EVENTS " + "|".join(events))
