import argparse
import importlib
import json
import os
import sys
import time

sys.path.insert(0, "/verif/tools")
sys.path.insert(0, "/verif/tools/props")
import warnings
warnings.simplefilter('ignore')
import numpy as _np
_np.seterr(all='ignore')
import common  # noqa

ALL = [f"C{i:02d}" for i in range(1, 21)]


def setup():
    """Regenerate every Gen file from /repo and build the whole development (full .vo build)."""
    t0 = time.time()
    for pid in ALL:
        try:
            mod = importlib.import_module(pid.lower())
        except ModuleNotFoundError:
            continue
        if hasattr(mod, "translate"):
            try:
                mod.translate()
            except Exception as e:  # reported again, fail-closed, by the check itself
                print(f"[setup] {pid}: translation refused: {e}")
    ok, log = common.coq_make(["all"], timeout=3000, jobs=16)
    print(log[-3000:])
    bad = common.scan_forbidden()
    if bad:
        print("[setup] forbidden constructs:", bad)
    print(f"[setup] ok={ok} wall={time.time() - t0:.1f}s")
    sys.exit(0 if ok else 2)


def main():
    ap = argparse.ArgumentParser()
    ap.add_argument("pid", nargs="?")
    ap.add_argument("--setup", action="store_true")
    ap.add_argument("--tier", default=os.environ.get("VERIF_TIER", "quick"))
    ap.add_argument("--replay")
    a = ap.parse_args()
    if a.setup:
        setup()
    seed = int(os.environ.get("VERIF_SEED", "0"))
    mod = importlib.import_module(a.pid.lower())
    if a.replay:
        mod.replay(a.replay)
        return
    try:
        mod.main(a.tier, seed)
    except SystemExit:
        raise
    except BaseException as e:  # the harness itself failed: the property is not shown to hold on this tree
        import json
        import traceback
        from common import VERIF
        (VERIF / "replays").mkdir(exist_ok=True)
        rp = VERIF / "replays" / f"{a.pid}_{a.tier}_{seed}.json"
        rp.write_text(json.dumps(dict(property=a.pid, kind="harness-crash", error=f"{type(e).__name__}: {e}",
                                      traceback=traceback.format_exc()[-3000:],
                                      note="the check could not be completed on this tree; no theorem/correspondence was established"), indent=1))
        print(f"[{a.pid}] harness crashed: {type(e).__name__}: {e}")
        print(f"VIOLATION property={a.pid} replay={rp} no-failing-input-found")
        sys.exit(1)


if __name__ == "__main__":
    main()
