#!/bin/bash
# run every thorough check in sequence, logging verdict lines and exit codes (not a registered command)
cd /verif
out=${1:-/tmp/thorough_all.log}
: > "$out"
for i in $(seq -w 1 20); do
  id=C$i
  s=$(date +%s)
  ./check $id --tier thorough > /tmp/thorough_$id.log 2>&1
  rc=$?
  e=$(( $(date +%s) - s ))
  echo "$id rc=$rc ${e}s $(grep -c '^KNOWN-FINDING' /tmp/thorough_$id.log) known; $(grep '^VIOLATION' /tmp/thorough_$id.log | head -3)" >> "$out"
done
echo done >> "$out"
