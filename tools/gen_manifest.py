"""Writes /verif/MANIFEST.json from the table below (kept in one place so it stays valid)."""
import json
CHECKS = {}
NA = {}

def chk(pid, text, note, technique, design_ref):
    CHECKS[pid] = dict(
        property_id=pid,
        quick_cmd=f"./check {pid} --tier quick",
        thorough_cmd=f"./check {pid} --tier thorough",
        evidence_file=f"/verif/evidence/{pid}.json",
        replay_cmd_template=f"./check {pid} --replay {{path}}",
        engine="coq-proof+correspondence",
        level_claimed=dict(category="proof", text=text, design_ref=design_ref),
        level_note=note,
        technique=technique,
    )

chk("C06",
    "Coq theorems over the executable model of systematic_resample (teeth clipped to their cell, loop bounded at the last "
    "non-zero weight): exactly n valid non-decreasing indices for every arithmetic instance (Q and binary64) and every "
    "input; closed form of the comb, bin characterisation and floor/ceil copy counts over Q for every n, every "
    "non-negative weight vector of sum 1 (zero weights anywhere) and every offset in [0,1); unbiasedness (the offsets for "
    "which tooth i selects index k form an interval, the n interval lengths add up to n*w_k); no zero-weight index is "
    "ever selected - over Q, for every arithmetic satisfying two laws, and for binary64 itself with the laws proved through "
    "Flocq; inverse-CDF range theorem for the multinomial scheme. Tie: regenerated Gen.Resample + Link lemmas, and a "
    "bit-exact binary64 replay of the model against the implementation on a breakpoint sweep of u0 (incl. offsets within "
    "rounding distance of 1).",
    "Trusted: Coq kernel/vm_compute; Reals axioms and the standard library's float specification axioms (FloatAxioms.*, "
    "through Flocq) for the binary64 theorem; python translator and harness; numpy.sum passed as oracle value; "
    "numpy.random.choice modelled as inverse-CDF search (validated under replayed seeds); Q theorems idealise rounding.",
    "machine-checked proof in Coq (induction over the comb; Q arithmetic) + translator/bit-exact correspondence",
    "DESIGN.md section 6, C06")

chk("C16",
    "Coq theorems over the executable model of apply_boundary_conditions/check_bounds: wrap and fold range, "
    "periodicity, evenness, idempotence, identity on the unit interval, symmetric-displacement lemma (Q, all inputs); "
    "untouched/designated coordinates and the bounds-check equivalence for every arithmetic instance and every index "
    "set; Flocq theorem that the rounded maps stay in [0,1] for every real input. Tie: regenerated Gen.Boundary + Link, "
    "bit-exact binary64 twin replayed against the implementation on an edge-value sweep, exact-rational oracle.",
    "Trusted: Coq kernel/vm_compute; Reals axioms + classic + funext for the Flocq layer (named in evidence); python "
    "translator/harness; binary64 twin models numpy floor/remainder (validated bit-for-bit).",
    "machine-checked proof in Coq (Q arithmetic, Flocq rounding monotonicity) + translator/bit-exact correspondence",
    "DESIGN.md section 6, C16")
chk("C20",
    "Coq theorems: 1 <= ESS <= N, scale invariance, uniform case (Cauchy-Schwarz by induction over Q); trimming "
    "contract for every threshold oracle (largest admissible grid index, upper set, one mask for samples and weights, "
    "renormalised, ESS ratio met) whenever some grid index meets the request - always, when thr(0) <= min and the fraction is <= 1; the "
    "routine returns for every oracle, fraction and grid (it stops at grid index 0 whatever the test says there); volume metric: non-negative "
    "and weight-scale invariant on every branch (vvgen K g: any treatment K of the covariance, any post-processing g of the deviation), "
    "affine invariant on the full-rank branch with or without the clip (MathComp matrices over any real field). Tie: regenerated Gen.Weights "
    "(incl. the statement-by-statement shape of volume_variation) + "
    "Link, Coq model replayed against trim_weights with the recorded percentile oracle, exact-rational references.",
    "Trusted: Coq kernel/vm_compute; python translator/harness; numpy.percentile as oracle; numpy.linalg.inv as exact "
    "inverse; float rounding idealised (decisions within 1e-9 of a threshold are not compared).",
    "machine-checked proof in Coq (Q arithmetic; MathComp matrix algebra) + translator/exact-rational correspondence",
    "DESIGN.md section 6, C20")

chk("C04",
    "Coq theorems over the reals: the code's log-sum-exp with log(n_t)-log(N) offsets equals beta*l - ln sum_t (n_t/N) "
    "exp(beta_t l - z_t); evidence = ln of the mean unnormalised weight; normalised weights sum to 1; invariance under "
    "permutation of iterations and of samples; the likelihood-shift law; max <= lse <= max + ln T. For every T, batch "
    "sizes, temperatures, evidences, log-likelihoods. Tie: regenerated Gen.MIS expression pieces + Link; verified "
    "interval enclosures (Coq Interval, 100 bits) of the specification against the implementation's doubles.",
    "Trusted: Coq kernel; Reals axioms, classic, funext (named in evidence); python translator/harness; logaddexp.reduce "
    "modelled as ln-sum-exp; float rounding idealised (enclosure widened by 1e-11*scale).",
    "machine-checked proof in Coq (real analysis: exp/ln identities, permutation sums) + translator/verified-enclosure correspondence",
    "DESIGN.md section 6, C04")

chk("C05",
    "Coq theorems over Q for ARBITRARY oracles ESS(beta), V(beta) (no monotonicity assumed): upper-limit search "
    "returns b in [beta0,1] with ESS(b) >= target unless it stays; 14 halvings suffice (fuel); ESS-mode step is "
    "monotone, bounded by 1, advances only to a temperature meeting the ESS target, never enters the bisection branch, "
    "and records beta/weights/ESS/evidence at one temperature; dynamic-mode step stays within [beta_prev, ESS-limited "
    "beta]; whole runs (any number of iterations, per-iteration oracles) are non-decreasing in [0,1]. Tie: regenerated "
    "Gen.Schedule tests/expressions + Link; bit-exact binary64 replay of Reweighter.run with the recorded oracle table "
    "on real pools and on arbitrary synthetic oracles.",
    "Trusted: Coq kernel/vm_compute; python translator/harness; _compute_metric_and_weights treated as a deterministic "
    "oracle (its body: C04, C20); Q theorems idealise rounding of the midpoint (monitored by the bit-exact replay).",
    "machine-checked proof in Coq (loop invariants by induction on fuel, arbitrary oracles) + translator/bit-exact correspondence",
    "DESIGN.md section 6, C05")

chk("C12",
    "Coq theorems: whenever the run loop returns (any step function, any number of iterations) the exit test is "
    "false on the returned state, i.e. 1-beta < tol and ESS >= n_total; loop invariants are preserved; for all 16 "
    "posterior() option combinations and every trim/resample outcome the returned samples, log-likelihoods, blobs and "
    "log-weights are one and the same selection of pool rows (equal lengths), weights are the trimmed/uniform vector "
    "and uniform weights sum to 1. Tie: regenerated Gen.Posterior (termination expression, per-stage indexed fields, "
    "run tail write set) + Link; real runs over the option lattice with exit/evidence recomputed from history and all "
    "16 combinations checked row by row and against the model's selection.",
    "Trusted: Coq kernel/vm_compute; python translator/harness; trim_weights and systematic_resample as oracles "
    "(C20, C06); liveness of run() not claimed.",
    "machine-checked proof in Coq (loop exit/invariant by induction on fuel; list-indexing algebra) + translator/row-identity correspondence",
    "DESIGN.md section 6, C12")

chk("C17",
    "Coq theorems over a heap model (arrays = locations, caller may overwrite anything it holds): for every "
    "interleaving of set/get/commit/export/import/results operations, under the copy/share policy extracted from "
    "the source, owned and caller-held arrays are disjoint (invariant by induction over the op list); a caller "
    "overwrite changes no current value, no committed batch and no cached result; no operation alters the contents "
    "of an owned array; only commit/import change the history structure and commit appends exactly one batch per set "
    "key. Pinned-tree policy refuted by vm_compute witnesses. Tie: Gen.Alias policy + Link; the heap model is run "
    "against a real StateManager on random op sequences comparing the real alias graph (np.shares_memory) and "
    "contents after every op; Sampler.sample/results/posterior overwrite tests.",
    "Trusted: Coq kernel/vm_compute; python translator/harness; numpy copy/concatenate/fancy-indexing allocate fresh "
    "buffers; set_current(copy=False) excluded (documented ownership transfer).",
    "machine-checked proof in Coq (heap invariant by induction over operation sequences) + translator/alias-graph correspondence",
    "DESIGN.md section 6, C17")

chk("C08",
    "Coq theorems: export followed by import restores exactly the same current values and full history for every "
    "reachable state (heap model of C17); for every op list of atomic shape, every crash point and every surviving "
    "prefix of un-synced bytes the final name is absent/old-complete or new-complete, and the op list extracted from "
    "save_sampler_state has that shape for arbitrary write chunks; a complete save leaves exactly the written bytes "
    "durable; checkpoints are written exactly at t0 + k*save_every; the run-level bookkeeping machine (iteration counter, call counter, one "
    "history record per iteration, numbered checkpoints; arbitrary decisions of schedule / kernel / caller): run, checkpoint, load into a fresh "
    "sampler, run on with any cadence and batch size = the uninterrupted run in numbers, calls and history; prefix kept, numbering gap-free, "
    "counter = running total of likelihood rows. Pinned direct write refuted. Tie: Gen.Checkpoint "
    "(IO op list, load plumbing, pool detach, cadence) + Link; every checkpoint of real runs reloaded and compared bit "
    "for bit; resume from checkpoints (numbering, identical prefix, postconditions), from every checkpoint for a reused clustering; fresh "
    "and resumed runs against the bookkeeping machine evaluated in Coq on the run's own decisions; the real IO trace; subprocess "
    "crash injection (os._exit) before every IO event and inside writes, injected I/O errors, power-loss emulation, a temporary directory on "
    "another filesystem (emulated EXDEV).",
    "Trusted: Coq kernel; python translator/harness; crash model (un-fsynced bytes survive in any prefix, rename "
    "atomic); dill.load rejects truncated dumps; the pickled sampler blob inside the checkpoint is not compared.",
    "machine-checked proof in Coq (crash-prefix induction over IO lists; heap-model round-trip) + translator/fault-injection correspondence",
    "DESIGN.md section 6, C08")

chk("C11",
    "Coq theorems (exact rationals, linear domain): the evidence the reweighter records at a beta=0 iteration is the "
    "weighted harmonic mean of the earlier batches' values and stays between their extremes; with the repaired rule "
    "every recorded warm-up evidence, for every number of prior-sampling iterations, batch sizes and finite counts "
    "1<=m_k<=n_k, lies between the smallest and largest single-batch fraction and equals the batch's own fraction "
    "whenever the batch saw a -inf draw; the accumulating rule of the pinned tree and the all--inf batch are refuted "
    "by computed witnesses. Tie: Gen.Warmup (update expression, guards, replaced fields) + Link; the real sampler "
    "driven through K warm-up iterations with a likelihood finite on exactly m_k of n draws, recorded logz compared "
    "with ln of the model's rational values.",
    "Trusted: Coq kernel/vm_compute; python translator/harness; convergence of the final evidence not carried; the "
    "zero-finite-draw batch is a listed known finding.",
    "machine-checked proof in Coq (harmonic-mean bounds by induction over the history) + translator/exact-rational correspondence",
    "DESIGN.md section 6, C11")

chk("C09",
    "Coq theorems over an abstract generator and seeding traces: a run that first seeds with the user's value is "
    "independent of the earlier global state (equal random_state => equal stream); any reseed makes everything after "
    "it independent of the seed in force before (the formal content of 'replays the same innovations'); without "
    "seeding calls the stream position is the earlier state advanced by the draw count and distinct seeds stay "
    "distinct; the seeding call sites extracted from the whole package contain no constant reseed on a run/fit path, "
    "all are None-guarded, and fresh initialisation seeds with the configuration's random_state; a resumed run that restores the recorded "
    "generator state is where the uninterrupted run is (the code records and restores it: extracted), whereas seeding again on load replays "
    "the first iterations. Tie: Gen.Seeding "
    "(static extraction over tempest/*.py) + Link; np.random.seed wrapped during real runs/fits and the recorded trace "
    "compared with the predicted one; behavioural replays (same seed twice and three times with a reused clustering, seed+1, ends of the seed "
    "range, seed-dependence after fit/run, lifecycle: construction, other activity, load of unseeded checkpoints, resume of seeded runs).",
    "Trusted: Coq kernel; python extractor/harness; generator abstracted (additive, injective advance); statistical "
    "independence carried only as absence of shared innovations; checkpoints without a recorded generator state (older versions) are "
    "still loaded by seeding with the stored user value.",
    "machine-checked proof in Coq (trace semantics over an abstract generator) + static call-site extraction/trace correspondence",
    "DESIGN.md section 6, C09")

chk("C13",
    "Coq theorems: for every permutation of the indexed task list (any completion order of a worker pool), "
    "index-ordered assembly equals map f xs; all three evaluation strategies return the same values given a pointwise "
    "identical vectorised likelihood; for every sequence of warm-up and MCMC iterations with any step counts the call "
    "counter equals its initial value plus the number of rows passed to the likelihood. Tie: Gen.Dispatch (branch "
    "structure of _log_like, one likelihood call per batch, increments) + Link; the same seeded run under scalar / "
    "vectorised / in-order / reversed / shuffled pool-like evaluation compared bit for bit, an instrumented "
    "likelihood compared with the reported calls (also after every iteration of a manual loop).",
    "Trusted: Coq kernel/vm_compute; python extractor/harness; real process pools covered only as 'any completion "
    "order with index-ordered assembly'.",
    "machine-checked proof in Coq (permutation invariance of slot assembly; counter induction) + structure extraction/bit-exact run comparison",
    "DESIGN.md section 6, C13")

chk("C07",
    "Coq theorems over struct-of-arrays batches where every plumbing operation takes one selector per field: "
    "gathering with one index vector, Metropolis acceptance with one mask, a freshly evaluated batch, and replacement "
    "of rows by copies of other rows (same destination/source lists for all fields) each preserve 'x = T u, (logL, blob) "
    "= L x, u in the cube' for every row; hence the current batch stays coherent along any sequence of such steps; a "
    "partial mask is refuted by a computed witness. Tie: Gen.Coherent (the selector applied to each field in "
    "Resampler.run, the accept block, the warm-up replacement; provenance of proposals) + Link; real runs over a "
    "pairwise covering array with the current batch re-derived from u after every step, every committed batch and "
    "every posterior output checked exactly.",
    "Trusted: Coq kernel; python extractor/harness; prior transform and likelihood deterministic; boundary maps keep "
    "designated coordinates in [0,1] (C16); proposals leave _propose only after check_bounds.",
    "machine-checked proof in Coq (row-wise invariants of list plumbing) + selector extraction/exact re-derivation on real runs",
    "DESIGN.md section 6, C07")

chk("C14",
    "Coq theorems: for every clustering cadence, every sequence of warm-up/annealing iterations and every starting "
    "iteration number (fresh or resumed with an unfitted model) prediction never meets an unfitted model; under "
    "coverage (every label below K predicted for some training point) the kernel's mode for assignment a is the mode "
    "fitted from the points labelled a; on iterations that reuse the clustering the code tests coverage and refits, so "
    "labels index their own modes whenever a fresh fit covers its training set; the number of modes never exceeds K; "
    "the pinned cadence, unchecked reuse and the rank/label mismatch without coverage are refuted by computed "
    "witnesses. Tie: Gen.Cluster (refit test, coverage test of the predict-only branch, per-unique-label mode "
    "construction, assignment source, kernel indexing, dof fallback) and the shared warm-up fact of Gen.Schedule + Links; "
    "hooks at the kernel entry of real runs over cluster_every x caps x normalize x kernels (and after resume) checking "
    "assignments < K, label = cluster of the particle, finite means, symmetric positive-definite scales, positive finite "
    "dof and coverage; Trainer/Resampler on starved pools, on reused clusterings with a cluster keeping 0..3 particles, "
    "and at the smallest positive temperatures.",
    "Trusted: Coq kernel; python extractor/harness; coverage is a monitored hypothesis (a violating pool is reported "
    "with the pool as replay); cholesky success witnesses positive-definiteness.",
    "machine-checked proof in Coq (schedule induction; list filtering) + cadence extraction/kernel-entry hooks",
    "DESIGN.md section 6, C14")

chk("C18",
    "Coq theorems: the validator model accepts a configuration iff it satisfies the documented constraints (neither "
    "weaker nor stricter), for every value of every field incl. wrong types, booleans, None; validation sits in the "
    "configuration object built before the core/steps and no callback is invoked on the construction path; the "
    "cadence hazard is excluded for every cluster_every >= 1 (from C14). Tie: Gen.Config (presence of each check in "
    "config.py, construction order, callback calls on the construction path) + Link; one-factor-at-a-time invalid "
    "values against the real constructor and the Coq validator; a pairwise/3-wise covering array over 14 options run "
    "to completion and checked against the run postconditions.",
    "Trusted: Coq kernel/vm_compute; python extractor/harness; cluster_every=0, NaN ratios and bool-as-int are outside "
    "the documented constraints; liveness only through the covering-array runs.",
    "machine-checked proof in Coq (boolean validator = documented predicate) + check extraction/constructor correspondence + covering-array runs",
    "DESIGN.md section 6, C18")

chk("C15",
    "Coq theorems over exact rationals: component weights form a simplex; every covariance is symmetric with a "
    "non-negative quadratic form in every direction; each mean coordinate lies in the data range scaled by "
    "c=S/(S+1e-10) (the unscaled box is refuted by a computed witness = the known finding); weighted sums with integer "
    "weights equal sums over the replicated data; for every split oracle whose proposals partition their parent the "
    "split loop keeps a partition of the training points, adds at most one cluster per round (K <= cap with the core's "
    "cap-1 iterations), never accepts a child below min_points; argmax over K columns is < K. Tie: Gen.Mixture (M-step "
    "formulas, split-loop structure, cap wiring, predict) + Link; GaussianMixture/HierarchicalGaussianMixture on "
    "generated weighted data (invariants, 3-step EM replication test, one M-step replayed through the Coq model).",
    "Trusted: Coq kernel/vm_compute; python extractor/harness; responsibilities and BIC decisions are oracles; float "
    "rounding idealised; 'tied'/'spherical' excluded by the statement.",
    "machine-checked proof in Coq (Q arithmetic; permutation invariants of the split loop) + formula/structure extraction/exact-rational M-step correspondence",
    "DESIGN.md section 6, C15")

chk("C19",
    "Coq/MathComp theorems over any real field, for every degrees-of-freedom oracle that reads the Mahalanobis "
    "distances only: one ECME step commutes with x -> xA+b for every invertible A and every b (nu unchanged, scale -> "
    "A^T Sigma A, location -> mu A + b); the new location is a convex combination of the rows (inside the bounding box "
    "coordinate-wise); the new scale is symmetric with non-negative quadratic form; the weights are positive; the starting point "
    "(coordinate medians, biased covariance + diag(variances)/n) - which is what the routine returns whenever nu comes out infinite - "
    "is equivariant under x_j -> a_j x_s(j) + b_j (a_j > 0, s a permutation), lies in the bounding box and is symmetric positive definite as "
    "soon as no coordinate is constant. Tie: "
    "Gen.Student (loop-body formulas, what the nu update and the stopping test read, initial values, dof fallback in "
    "both ModeStatistics constructors, the root bracket) + Link; an executable exact-rational twin of the step "
    "replayed against fit_mvstud(max_iter=1), and of the starting point against fit_mvstud(max_iter=0) and every fit returned with nu = inf; "
    "metamorphic fit(g(X)) = g(fit(X)) over scalings 1e-6..1e6, translations, "
    "permutations; well-posedness on Gaussian/t/skewed/contaminated data; recovery on large t samples; fallback with a stubbed fit.",
    "Trusted: Coq kernel/vm_compute; python extractor/harness; the digamma root (bisect) is an oracle; parameter recovery is "
    "checked numerically only (and fails on the pinned routine: known finding); float rounding idealised.",
    "machine-checked proof in Coq/MathComp (matrix algebra over real fields) + structure extraction/exact-rational step correspondence + metamorphic tests",
    "DESIGN.md section 6, C19")

chk("C10",
    "Coq theorems over R: under logL -> logL + c (and logZ_t -> logZ_t + beta_t c) normalised weights and ESS coincide "
    "at every beta and the evidence estimate shifts by beta c; the reweighting routines give equal decisions for "
    "pointwise equal oracles (no extensionality axiom, any arithmetic instance); the Metropolis exponent extracted "
    "from the source reads logL only through l' - l; simulation theorem: for every schedule rule reading normalised "
    "weights only and every shift-equivariant mutation, the shifted run is the shift of the run for any number of "
    "iterations (same temperatures, recorded evidences + beta_t c, final evidence + c). Tie: Gen.MIS, Gen.Schedule, "
    "Gen.Shift + Links; paired real runs under one seed with shifts up to +-1e3 over kernel x resampler x clustering x "
    "metric mode (some with a zero-likelihood region).",
    "Trusted: Coq kernel; Reals axioms/classic/funext (named in evidence); python extractor/harness; rounding idealised "
    "(paired-run tolerance 1e-9; near-threshold schedule flips are not compared).",
    "machine-checked proof in Coq (simulation relation by induction over iterations; real analysis) + expression extraction/paired-run correspondence",
    "DESIGN.md section 6, C10")

chk("C03",
    "Coq theorems: Metropolis-Hastings detailed balance for every pair of states on any state space (proposal "
    "reversible w.r.t. a positive reference m, acceptance min(1, pi(y)m(x)/(pi(x)m(y)))) and invariance on finite "
    "spaces; the exponent extracted from the code is the log of that ratio with pi = L^beta and m = t_nu (tpCN) / "
    "Lebesgue (RWM); the extracted gamma shape/scale make the drawn scale the inverse-gamma conditional of the t scale "
    "mixture; the Crank-Nicolson energy Qf(x)+Qf(y-ax)/sigma^2 is symmetric for every symmetric bilinear form when "
    "a^2+sigma^2=1 (MathComp), hence the joint density of (x,s,y) is symmetric; the extracted coefficients satisfy "
    "a^2+sigma^2=1. Boundaries: out-of-cube proposals are rejected (extracted), and for every reference-reversible "
    "proposal on the whole space that chain is in detailed balance with the target extended by zero, for every pair of "
    "points, and never leaves the cube; a one-coordinate symmetric step stays symmetric under wrapping and folding (sum over "
    "pre-images, every symmetric truncation); with several coordinates and a step law even only under the joint sign change (correlated "
    "Gaussian) wrapping stays symmetric and folding is refuted, so RWM wraps periodic coordinates and rejects at reflective walls "
    "(extracted); tpCN rejects on every coordinate (extracted) because wrapping a proposal "
    "reversible w.r.t. a non-periodic reference is refuted; the pinned tree's redraw-until-inside rule balances pi*P_in "
    "(refuted). Tie: Gen.Kernel/Gen.Shift + Links; injected-randomness proposals, gamma parameters and correction factors "
    "(incl. nu < 2, and on the state reached after real iterations) against verified enclosures of the generated "
    "definitions; the Metropolis test with injected uniforms; fixed-seed ensemble stationarity for both kernels on "
    "interior, periodic, reflective and hard-boundary targets and on two-coordinate targets with a correlated scale matrix; NaN ratios rejected.",
    "Trusted: Coq kernel; Reals axioms/classic/funext (named in evidence); python extractor/harness; the lift from "
    "pointwise density identities to measures and the two classical integral facts are not formalised; step-size "
    "adaptation is not covered (each step's kernel at fixed sigma is what is proved).",
    "machine-checked proof in Coq (real analysis; MathComp bilinear algebra) + formula extraction/verified-enclosure correspondence + ensemble replays",
    "DESIGN.md section 6, C03")

chk("C01",
    "PARTIAL proof. Coq theorems: balance-heuristic mixture importance sampling is unbiased for sum_x prior L^beta f on "
    "any finite state space (every number of iterations, unequal batches, any temperature order, any f); the "
    "self-normalised estimator is the ratio of two quantities with the right expectations; the weight the code "
    "computes (generated pieces) is that balance-heuristic weight and posterior()'s exp(logw-max)/sum is its "
    "normalisation; imported ingredients: temperature coherence (C05), kernel invariance with its guards (C03), "
    "resampling (C06). NOT carried: the finite-particle bias bound, the effect of adaptive step sizes and plug-in "
    "logZ_t, i.e. the ensemble statement itself - validated on seeded ensembles of real runs (interior, correlated, "
    "periodic incl. circular moments, boundary-abutting, reflective, two-mode with mode masses) against known values "
    "within 6 standard errors plus an allowance, plus deterministic probes (exact-draw history with unequal batches; "
    "stored (beta_t, logZ_t) pairs recomputed from the history prefix).",
    "Trusted: Coq kernel; Reals axioms/classic/funext (named); python translators/harness; the ensemble claim is "
    "validated, not proved; runs aborted by the listed C14/C18 finding are left out and counted.",
    "machine-checked proof in Coq of the estimator identities (partial) + translator ties + seeded-ensemble validation",
    "DESIGN.md section 6, C01")
chk("C02",
    "PARTIAL proof. Coq theorems: the evidence estimate is ln of the mean unnormalised MIS weight (generated "
    "pieces), recomputed at beta=1 after the loop and returned by evidence(); that mean weight is unbiased for Z_beta "
    "when batches are drawn from their tempered laws; independence in trace form: no seeding call on a run path "
    "resets the stream to a constant and no seed is forwarded, so a run consumes its own seed's stream. NOT carried: "
    "the 1/sqrt(R) rate and the O(1/N) plug-in bias - validated on seeded ensembles against analytically known "
    "evidences (interior Gaussian for both kernels with 192 runs at N=128: 4 standard errors + 0.03; dynamic mode with a "
    "tight target; half-supported and two-mode targets), the warm-up correction counted once (C11's theorem), the global "
    "stream state after training steps differing between seeds and no bit-identical particles across seeds.",
    "Trusted: Coq kernel; Reals axioms/classic/funext (named); python translators/harness; the ensemble claim is "
    "validated, not proved.",
    "machine-checked proof in Coq of the evidence identities and seeding-trace facts (partial) + translator ties + seeded-ensemble validation",
    "DESIGN.md section 6, C02")

for pid in [f"C{i:02d}" for i in range(1, 21)]:
    if pid not in CHECKS:
        NA[pid] = "check not built yet in this session (planned in DESIGN.md section 6); not claimed"

manifest = dict(
    version=1,
    setup_cmd="cd /verif && ./check --setup",
    hooks=dict(
        guard="TEMPEST_VERIF",
        enable="no source hooks: the harness wraps numpy.random.*, step objects and builtins from outside; "
               "TEMPEST_VERIF=1 is exported by ./check and read by nothing in /repo",
        baseline_off_cmd="cd /repo && /venv/bin/python -m pytest -ra -q -p no:cacheprovider --timeout=900 --continue-on-collection-errors",
        source_commits=[],
        add_only=True,
    ),
    engines=[dict(name="coq-proof+correspondence", path="/verif/check",
                  serves_properties=sorted(CHECKS),
                  kind_free_text="Coq 8.16.1 development under /verif/coq (Model/Proofs/Props/Link, Gen regenerated "
                                 "from /repo by python-ast translators) + differential correspondence harness under /verif/tools")],
    checks=[CHECKS[k] for k in sorted(CHECKS)],
    not_applicable=[dict(property_id=k, reason=v) for k, v in sorted(NA.items())],
    notes="Known findings and fixed defects: /verif/known_findings.json. Design: /verif/DESIGN.md.",
)
json.dump(manifest, open("/verif/MANIFEST.json", "w"), indent=1)
print("checks:", sorted(CHECKS), "not_applicable:", len(NA))
