"""C14 — cluster labels and proposal modes stay coherent for every history and cadence."""
import ast
import random
import tempfile
from pathlib import Path

import numpy as np

from common import COQ, REPO, Run, TranslateError, get_function, strip_doc, write_if_changed

PID = "C14"


def _ns(n):
    return ast.unparse(n).replace(" ", "")


def translate():
    def need(c, node, msg, w):
        if not c:
            raise TranslateError(f"{w}: line {getattr(node, 'lineno', '?')}: {msg}: {ast.unparse(node)[:220]}")

    w = "train.py:Trainer.run"
    fn = get_function(REPO / "tempest" / "steps" / "train.py", "Trainer.run")
    t = _ns(fn)
    need("iter_val=self.state.get_current('iter')" in t, fn, "iteration counter", w)
    # locate the branch that fits
    fit_if = None
    for node in ast.walk(fn):
        if isinstance(node, ast.If) and any(_ns(s) == "self.clusterer.fit(u,weights_trimmed)" for s in node.body):
            fit_if = node
    need(fit_if is not None, fn, "fitting branch", w)
    cond = _ns(fit_if.test)
    base = "(iter_val%self.cluster_every==0oriter_val==0)"
    variants = {
        f"self.clusteringand{base}": "Nat.eqb (it mod every) 0 || Nat.eqb it 0",
        "self.clusteringandrefit": None,
    }
    need(cond in variants, fit_if, f"refit condition {cond}", w)
    if variants[cond] is None:
        # refit is a local boolean: collect its definition(s)
        defs = [(_ns(s)) for s in ast.walk(fn) if isinstance(s, ast.Assign) and _ns(s.targets[0]) == "refit"]
        need(defs and defs[0] == "refit=iter_val%self.cluster_every==0oriter_val==0", fn, f"refit definition {defs}", w)
        extra = [s for s in ast.walk(fn) if isinstance(s, ast.If) and any(_ns(x) == "refit=True" for x in s.body)]
        need(len(defs) == 2 and len(extra) == 1, fn, "refit override", w)
        ec = _ns(extra[0].test).replace("(", "").replace(")", "")
        need(ec in ("self.clusteringandnotrefitandself.clusterer.n_clusters_==0",
                    "self.clusteringandnotrefitandnotself.clusterer.cluster_centers_",
                    "self.clusteringandnotrefitandlenself.clusterer.cluster_centers_==0"), extra[0], f"never-fitted test {ec}", w)
        expr = "Nat.eqb (it mod every) 0 || Nat.eqb it 0 || (true && negb fitted)"
    else:
        expr = variants[cond] + " || (false && negb fitted)"
    # predict-only branch
    need("labels=self.clusterer.predict(u)" in t and "ModeStatistics.from_particles(u,weights_trimmed,labels,dof_fallback=self.DOF_FALLBACK)" in t,
         fn, "labels = predict(training points)", w)
    need("u=self.state.get_history('u',flat=True)[trim_idx]" in t, fn, "training points are the trimmed pool", w)
    mo = _ns(get_function(REPO / "tempest" / "modes.py", "ModeStatistics.from_particles"))
    need("unique_labels=np.unique(labels)" in mo and "forlabelinunique_labels:" in mo.replace("\n", "") and "idx_cluster=np.where(labels==label)[0]" in mo,
         fn, "modes per sorted unique label", "modes.py")
    need("if~np.isfinite(dof):dof=dof_fallback".replace(":", ":") in mo.replace("\n", ""), fn, "dof fallback", "modes.py")
    rs = _ns(get_function(REPO / "tempest" / "steps" / "resample.py", "Resampler.run"))
    need("'assignments':self.clusterer.predict(u_resampled)ifself.clusteringelsenp.zeros(self.n_particles,dtype=int)" in rs, fn, "assignments", "resample.py")
    mc = (REPO / "tempest" / "mcmc.py").read_text().replace(" ", "")
    need("mu=self.means[self.assignments[k]]" in mc and "chol_cov=self.chol_covs[self.assignments[k]]" in mc
         and "means_assigned=self.means[self.assignments]" in mc, fn, "kernel indexing", "mcmc.py")
    co = _ns(get_function(REPO / "tempest" / "core.py", "SamplerCore.__init__"))
    need("clusterer=clusterer," in co and co.count("clusterer=clusterer,") >= 2, fn, "shared clusterer", "core.py")
    text = f"""(* GENERATED from steps/train.py, modes.py, steps/resample.py, mcmc.py, core.py by tools/props/c14.py *)
From Coq Require Import Bool Arith.
Definition refit (every it : nat) (fitted : bool) : bool := {expr}.
Definition modes_built_per_sorted_unique_predicted_label : bool := true.
Definition trainer_labels_are_predict_of_training_points : bool := true.
Definition assignments_are_predict_of_resampled_points : bool := true.
Definition kernels_index_statistics_by_assignment : bool := true.
Definition nonfinite_dof_replaced_by_fallback : bool := true.
Definition trainer_and_resampler_share_one_clusterer : bool := true.
"""
    write_if_changed(COQ / "Gen" / "Cluster.v", text)


# ------------------------------------------------------------------ harness
def bimodal(x):
    a = -0.5 * float(np.sum((x - 2.0) ** 2)) / 0.09
    b = -0.5 * float(np.sum((x + 2.0) ** 2)) / 0.09
    return float(np.logaddexp(a, b))


def pt(u):
    return 10.0 * u - 5.0


def hooked_run(run, cfg, seed, what, resume_from=None, n_total=60, outdir=None):
    """run with hooks: record labels seen by the trainer and the statistics/assignments entering the kernel."""
    from tempest import Sampler
    import tempest.steps.mutate as mut
    from tempest.modes import ModeStatistics
    np.random.seed(seed)
    s = Sampler(pt, bimodal, n_dim=2, n_particles=24, clustering=True, random_state=seed,
                output_dir=str(outdir) if outdir else None, output_label="c14", **cfg)
    rec = dict(train_labels=None, K_fit=None)
    orig_fp = ModeStatistics.from_particles.__func__

    def fp(cls, u, weights, labels, *a, **k):
        rec["train_labels"] = np.asarray(labels).copy()
        rec["K_fit"] = s._core.trainer.clusterer.n_clusters_
        return orig_fp(cls, u, weights, labels, *a, **k)

    ModeStatistics.from_particles = classmethod(fp)
    orig_pm = mut.parallel_mcmc
    problems = []

    def pm(*a, **k):
        ms, asg = k["mode_stats"], np.asarray(k["assignments"])
        it = s.state.get_current("iter")
        K = ms.K
        run.case(key=("kernel", str(cfg), seed, it, resume_from), nontrivial=K > 1)
        run.count(f"K={K}")
        lab = rec["train_labels"]
        if asg.min() < 0 or asg.max() >= K:
            problems.append(f"iteration {it}: assignment {int(asg.max())} refers to no mode (K={K})")
        if not np.all(np.isfinite(ms.means)) or not np.all(np.isfinite(ms.covariances)):
            problems.append(f"iteration {it}: non-finite mode statistics")
        for j in range(K):
            C = ms.covariances[j]
            if not np.allclose(C, C.T, rtol=1e-10, atol=1e-300) or np.min(np.linalg.eigvalsh((C + C.T) / 2)) <= 0:
                problems.append(f"iteration {it}: mode {j} scale matrix not symmetric positive-definite")
            if not (np.isfinite(ms.degrees_of_freedom[j]) and ms.degrees_of_freedom[j] > 0):
                problems.append(f"iteration {it}: mode {j} degrees of freedom {ms.degrees_of_freedom[j]}")
        if lab is not None:
            occ = sorted(set(int(v) for v in lab))
            Kfit = rec["K_fit"]
            if occ != list(range(len(occ))) or len(occ) != Kfit:
                problems.append(f"iteration {it}: labels predicted for the training points are {occ} but the model has {Kfit} clusters "
                                f"(modes are indexed by rank, assignments by raw label)")
            elif len(occ) != K:
                problems.append(f"iteration {it}: {K} modes for {len(occ)} occurring labels")
        return orig_pm(*a, **k)

    mut.parallel_mcmc = pm
    try:
        if resume_from is None:
            s.run(n_total=n_total, progress=False, save_every=1 if outdir else None)
        else:
            s.run(n_total=n_total, progress=False, resume_state_path=resume_from)
    finally:
        mut.parallel_mcmc = orig_pm
        ModeStatistics.from_particles = classmethod(orig_fp)
    return s, problems


def sweep(run, tier, rng, work):
    cfgs = []
    for every in ([1, 2, 3, 5] if tier == "quick" else [1, 2, 3, 4, 5, 7]):
        for cap in ([None, 2] if tier == "quick" else [None, 1, 2, 3]):
            cfgs.append(dict(cluster_every=every, n_max_clusters=cap, normalize=bool((every + (cap or 0)) % 2),
                             sample="tpcn" if every % 2 else "rwm", resample="syst" if (cap or 0) % 2 else "mult"))
    for ci, cfg in enumerate(cfgs):
        seed = rng.randrange(10 ** 6)
        what = dict(cfg=cfg, random_state=seed)
        outdir = work / f"c{ci}" if ci % 3 == 0 else None
        try:
            s, problems = hooked_run(run, dict(cfg), seed, what, outdir=outdir)
        except Exception as e:
            run.fail("clustered-run-raises", f"run raised {type(e).__name__}: {e}", **what)
            continue
        for p in problems[:2]:
            key = "assignment-without-mode" if "refers to no mode" in p else ("label-rank-mismatch" if "indexed by rank" in p else "mode-ill-formed")
            run.fail(key, p, **what)
        if outdir is not None:
            # resume from a checkpoint taken during annealing
            ck = sorted(outdir.glob("c14_[0-9]*.state"), key=lambda p: int(p.stem.split("_")[1]))
            betas = [float(b) for b in s.state.get_history("beta")]
            ann = [p for p in ck if int(p.stem.split("_")[1]) <= len(betas) and betas[int(p.stem.split("_")[1]) - 1] > 0]
            if ann:
                try:
                    s2, problems2 = hooked_run(run, dict(cfg), seed, what, resume_from=ann[len(ann) // 2])
                    for p in problems2[:2]:
                        run.fail("after-resume:" + ("assignment-without-mode" if "refers to no mode" in p else "mode-ill-formed"), p,
                                 resumed_from=ann[len(ann) // 2].name, **what)
                except Exception as e:
                    run.fail("resume-with-clustering-raises", f"resuming at {ann[len(ann) // 2].name} raised {type(e).__name__}: {e}", **what)
    run.sample(dict(cfgs=[str(c) for c in cfgs[:4]]))


def starved_pools(run, tier, rng):
    """Trainer.run + Resampler.run on synthetic weighted pools built to starve a cluster."""
    from tempest.state_manager import StateManager
    from tempest.steps.train import Trainer
    from tempest.steps.resample import Resampler
    from tempest.cluster import HierarchicalGaussianMixture
    from tempest.config import TRIM_ESS, TRIM_BINS, DOF_FALLBACK
    reps = 12 if tier == "quick" else 150
    for t in range(reps):
        nr = np.random.RandomState(rng.randrange(2 ** 31))
        n = rng.choice([60, 120, 240])
        sep = rng.choice([0.08, 0.2, 0.35])
        a = nr.randn(n // 2, 2) * 0.03 + 0.5 - sep / 2
        b = nr.randn(n - n // 2, 2) * 0.03 + 0.5 + sep / 2
        u = np.clip(np.vstack([a, b]), 0.001, 0.999)
        w = np.concatenate([np.ones(n // 2), np.full(n - n // 2, 10.0 ** (-rng.choice([0, 2, 6, 12])))])
        w = w / w.sum()
        st = StateManager(2)
        st.update_current({"u": u, "x": u.copy(), "logl": np.zeros(n), "beta": 0.0, "logz": 0.0, "iter": 1})
        st.commit_current_to_history()
        st.set_current("beta", 0.5)
        st.set_current("iter", 2)
        cl = HierarchicalGaussianMixture(n_init=1, max_iterations=1000, min_points=None, threshold_modifier=1.0,
                                         covariance_type="full", verbose=False, normalize=bool(t % 2))
        tr = Trainer(state=st, clusterer=cl, cluster_every=1, clustering=True, TRIM_ESS=TRIM_ESS, TRIM_BINS=TRIM_BINS, DOF_FALLBACK=DOF_FALLBACK)
        rs = Resampler(state=st, n_particles=16, resample="syst", clusterer=cl, clustering=True)
        what = dict(pool_seed=t, n=n, separation=sep, weight_ratio=float(w[-1] / w[0]))
        try:
            ms = tr.run(w.copy())
            rs.run(w.copy())
        except Exception as e:
            run.fail("train-resample-raises", f"Trainer/Resampler raised {type(e).__name__}: {e}", **what)
            continue
        asg = st.get_current("assignments")
        run.case(key=("pool", t), nontrivial=ms.K > 1)
        if asg.max() >= ms.K:
            run.fail("assignment-without-mode", f"assignment {int(asg.max())} but only {ms.K} modes (model has {cl.n_clusters_} clusters)", **what)


def main(tier, seed):
    run = Run(PID, tier, seed)
    run.rule = ("bimodal target; real runs over cluster_every in {1,2,3,5}, cluster caps {None,2,..}, normalize on/off, both "
                "kernels/resamplers; at every kernel entry: assignments < K, finite means, symmetric positive-definite "
                "scales, finite positive dof, and coverage (labels predicted for the training points are exactly "
                "0..K-1); some runs are resumed from an annealing-phase checkpoint; plus Trainer/Resampler on weighted "
                "pools built to starve a cluster (weight ratios down to 1e-12). Non-trivial: K > 1.")
    run.assumptions = [
        "coverage (every fitted cluster attracts a training point under predict) is a MONITORED hypothesis of "
        "C14_label_is_mode: a pool violating it is reported as a violation with the pool as replay",
        "np.linalg.cholesky succeeding is the run-time witness of positive-definiteness",
    ]
    rng = random.Random(seed)
    try:
        translate()
        run.obligation("translate:Trainer cadence + mode indexing", True)
    except TranslateError as e:
        run.obligation("translate:Trainer cadence + mode indexing", False, str(e))
    run.prove("Props/C14.v", link_rels=["Link/Cluster.v"])
    work = Path(tempfile.mkdtemp(prefix="c14_", dir=run.scratch.dir))
    try:
        sweep(run, tier, rng, work)
        starved_pools(run, tier, rng)
    except Exception:
        import traceback
        run.broken.append(("harness-exception", traceback.format_exc()[-1500:]))
    run.finish(search=None)
