"""C14 — cluster labels and proposal modes stay coherent for every history and cadence."""
import ast
import random
import tempfile
from pathlib import Path

import numpy as np

from common import COQ, REPO, Run, TranslateError, get_function, strip_doc, write_if_changed

PID = "C14"


def _ns(n):
    return ast.unparse(n).replace(" ", "")


def translate():
    def need(c, node, msg, w):
        if not c:
            raise TranslateError(f"{w}: line {getattr(node, 'lineno', '?')}: {msg}: {ast.unparse(node)[:220]}")

    w = "train.py:Trainer.run"
    fn = get_function(REPO / "tempest" / "steps" / "train.py", "Trainer.run")
    t = _ns(fn)
    need("iter_val=self.state.get_current('iter')" in t, fn, "iteration counter", w)
    # locate the branch that fits
    fit_if = None
    for node in ast.walk(fn):
        if isinstance(node, ast.If) and any(_ns(s) == "self.clusterer.fit(u,weights_trimmed)" for s in node.body) \
                and any(_ns(s).startswith("mode_stats=") for s in node.body):
            fit_if = node
    need(fit_if is not None, fn, "fitting branch", w)
    cond = _ns(fit_if.test)
    base = "(iter_val%self.cluster_every==0oriter_val==0)"
    variants = {
        f"self.clusteringand{base}": "Nat.eqb (it mod every) 0 || Nat.eqb it 0",
        "self.clusteringandrefit": None,
    }
    need(cond in variants, fit_if, f"refit condition {cond}", w)
    if variants[cond] is None:
        # refit is a local boolean: collect its definition(s)
        defs = [(_ns(s)) for s in ast.walk(fn) if isinstance(s, ast.Assign) and _ns(s.targets[0]) == "refit"]
        need(defs and defs[0] == "refit=iter_val%self.cluster_every==0oriter_val==0", fn, f"refit definition {defs}", w)
        extra = [s for s in ast.walk(fn) if isinstance(s, ast.If) and any(_ns(x) == "refit=True" for x in s.body)]
        need(len(defs) == 2 and len(extra) == 1, fn, "refit override", w)
        ec = _ns(extra[0].test).replace("(", "").replace(")", "")
        need(ec in ("self.clusteringandnotrefitandself.clusterer.n_clusters_==0",
                    "self.clusteringandnotrefitandnotself.clusterer.cluster_centers_",
                    "self.clusteringandnotrefitandlenself.clusterer.cluster_centers_==0"), extra[0], f"never-fitted test {ec}", w)
        expr = "Nat.eqb (it mod every) 0 || Nat.eqb it 0 || (true && negb fitted)"
    else:
        expr = variants[cond] + " || (false && negb fitted)"
    # predict-only branch
    need("labels=self.clusterer.predict(u)" in t and "ModeStatistics.from_particles(u,weights_trimmed,labels,dof_fallback=self.DOF_FALLBACK)" in t,
         fn, "labels = predict(training points)", w)
    # every assignment to the training labels is the clusterer's prediction for the training points (the same rule the
    # Resampler applies to the active particles), never the partition remembered by fit()
    lab_asg = [_ns(n.value) for n in ast.walk(fn) if isinstance(n, ast.Assign) and _ns(n.targets[0]) == "labels"]
    need(lab_asg and all(v == "self.clusterer.predict(u)" for v in lab_asg), fn, f"training labels assigned from {sorted(set(lab_asg))}", w)
    need("u=self.state.get_history('u',flat=True)[trim_idx]" in t, fn, "training points are the trimmed pool", w)
    # the predict-only branch: reuse the clustering only while it covers the trimmed pool, otherwise refit
    reuse = [n for n in ast.walk(fn) if isinstance(n, ast.If) and not any(_ns(s) == "self.clusterer.fit(u,weights_trimmed)" for s in n.body)
             and any(_ns(s) == "labels=self.clusterer.predict(u)" for s in n.body) and any(_ns(s).startswith("mode_stats=") for s in n.body)]
    need(len(reuse) == 1, fn, "predict-only branch", w)
    rb = [_ns(s) for s in reuse[0].body]
    cover_if = [s for s in reuse[0].body if isinstance(s, ast.If)]
    reuse_checked = (len(cover_if) == 1 and not cover_if[0].orelse
                     and _ns(cover_if[0].test) in ("len(np.unique(labels))!=self.clusterer.n_clusters_",
                                                   "len(np.unique(labels))<self.clusterer.n_clusters_")
                     and [_ns(s) for s in cover_if[0].body] == ["self.clusterer.fit(u,weights_trimmed)", "labels=self.clusterer.predict(u)"]
                     and rb.index("labels=self.clusterer.predict(u)") < reuse[0].body.index(cover_if[0])
                     and rb[-1].startswith("mode_stats=ModeStatistics.from_particles(u,weights_trimmed,labels,"))
    need(len(cover_if) <= 1, reuse[0], "unexpected control flow in the predict-only branch", w)
    mo = _ns(get_function(REPO / "tempest" / "modes.py", "ModeStatistics.from_particles"))
    need("unique_labels=np.unique(labels)" in mo and "forlabelinunique_labels:" in mo.replace("\n", "") and "idx_cluster=np.where(labels==label)[0]" in mo,
         fn, "modes per sorted unique label", "modes.py")
    need("if~np.isfinite(dof):dof=dof_fallback".replace(":", ":") in mo.replace("\n", ""), fn, "dof fallback", "modes.py")
    rs = _ns(get_function(REPO / "tempest" / "steps" / "resample.py", "Resampler.run"))
    need("'assignments':self.clusterer.predict(u_resampled)ifself.clusteringelsenp.zeros(self.n_particles,dtype=int)" in rs, fn, "assignments", "resample.py")
    mc = (REPO / "tempest" / "mcmc.py").read_text().replace(" ", "")
    need("mu=self.means[self.assignments[k]]" in mc and "chol_cov=self.chol_covs[self.assignments[k]]" in mc
         and "means_assigned=self.means[self.assignments]" in mc, fn, "kernel indexing", "mcmc.py")
    co = _ns(get_function(REPO / "tempest" / "core.py", "SamplerCore.__init__"))
    need("clusterer=clusterer," in co and co.count("clusterer=clusterer,") >= 2, fn, "shared clusterer", "core.py")
    text = f"""(* GENERATED from steps/train.py, modes.py, steps/resample.py, mcmc.py, core.py by tools/props/c14.py *)
From Coq Require Import Bool Arith.
Definition refit (every it : nat) (fitted : bool) : bool := {expr}.
Definition modes_built_per_sorted_unique_predicted_label : bool := true.
Definition trainer_labels_are_predict_of_training_points : bool := true.
Definition assignments_are_predict_of_resampled_points : bool := true.
Definition kernels_index_statistics_by_assignment : bool := true.
Definition nonfinite_dof_replaced_by_fallback : bool := true.
Definition trainer_and_resampler_share_one_clusterer : bool := true.
Definition reuse_tests_coverage_and_refits : bool := {str(bool(reuse_checked)).lower()}.
"""
    write_if_changed(COQ / "Gen" / "Cluster.v", text)


# ------------------------------------------------------------------ harness
def bimodal(x):
    a = -0.5 * float(np.sum((x - 2.0) ** 2)) / 0.09
    b = -0.5 * float(np.sum((x + 2.0) ** 2)) / 0.09
    return float(np.logaddexp(a, b))


def pt(u):
    return 10.0 * u - 5.0


def hooked_run(run, cfg, seed, what, resume_from=None, n_total=60, outdir=None, like=None, n_particles=24, rollback=False):
    """run with hooks: record labels seen by the trainer and the statistics/assignments entering the kernel."""
    from tempest import Sampler
    import tempest.steps.mutate as mut
    from tempest.modes import ModeStatistics
    np.random.seed(seed)
    s = Sampler(pt, like or bimodal, n_dim=2, n_particles=n_particles, clustering=True, random_state=seed,
                output_dir=str(outdir) if outdir else None, output_label="c14", **cfg)
    rec = dict(train_labels=None, K_fit=None)
    orig_fp = ModeStatistics.from_particles.__func__

    def fp(cls, u, weights, labels, *a, **k):
        rec["train_labels"] = np.asarray(labels).copy()
        rec["K_fit"] = s._core.trainer.clusterer.n_clusters_
        pred = np.asarray(s._core.trainer.clusterer.predict(np.asarray(u)))
        if pred.shape == np.asarray(labels).shape and np.any(pred != np.asarray(labels)):
            problems.append(f"iteration {s.state.get_current('iter')}: {int(np.sum(pred != np.asarray(labels)))} training points were used to fit the mode "
                            f"of a label that is not the cluster the clusterer assigns them to (modes and particle labels follow different rules)")
        return orig_fp(cls, u, weights, labels, *a, **k)

    problems = []
    ModeStatistics.from_particles = classmethod(fp)
    orig_pm = mut.parallel_mcmc

    def pm(*a, **k):
        ms, asg = k["mode_stats"], np.asarray(k["assignments"])
        it = s.state.get_current("iter")
        K = ms.K
        run.case(key=("kernel", str(cfg), seed, it, resume_from), nontrivial=K > 1)
        run.count(f"K={K}")
        lab = rec["train_labels"]
        if asg.min() < 0 or asg.max() >= K:
            problems.append(f"iteration {it}: assignment {int(asg.max())} refers to no mode (K={K})")
        if not np.all(np.isfinite(ms.means)) or not np.all(np.isfinite(ms.covariances)):
            problems.append(f"iteration {it}: non-finite mode statistics")
        for j in range(K):
            C = ms.covariances[j]
            if not np.allclose(C, C.T, rtol=1e-10, atol=1e-300) or np.min(np.linalg.eigvalsh((C + C.T) / 2)) <= 0:
                problems.append(f"iteration {it}: mode {j} scale matrix not symmetric positive-definite")
            if not (np.isfinite(ms.degrees_of_freedom[j]) and ms.degrees_of_freedom[j] > 0):
                problems.append(f"iteration {it}: mode {j} degrees of freedom {ms.degrees_of_freedom[j]}")
        if K > 1:
            # the label of an active particle is the cluster of that particle (prediction on its unit-cube coordinates)
            own = np.asarray(s._core.trainer.clusterer.predict(np.asarray(k["u"])))
            if own.shape == asg.shape and np.any(own != asg):
                problems.append(f"iteration {it}: {int(np.sum(own != asg))} of {len(asg)} active particles carry a label that is not "
                                f"the cluster their unit-cube position belongs to (mode not fitted from the particle's cluster)")
        if lab is not None:
            occ = sorted(set(int(v) for v in lab))
            Kfit = rec["K_fit"]
            if occ != list(range(len(occ))) or len(occ) != Kfit:
                problems.append(f"iteration {it}: labels predicted for the training points are {occ} but the model has {Kfit} clusters "
                                f"(modes are indexed by rank, assignments by raw label)")
            elif len(occ) != K:
                problems.append(f"iteration {it}: {K} modes for {len(occ)} occurring labels")
        return orig_pm(*a, **k)

    mut.parallel_mcmc = pm
    try:
        if resume_from is None:
            s.run(n_total=n_total, progress=False, save_every=1 if outdir else None)
            if rollback and outdir:
                # the SAME sampler object goes back to one of its own checkpoints taken during annealing and continues from there: its
                # pool shrinks and grows again under a clustering model that is still the one fitted before
                ck = sorted(Path(outdir).glob("c14_[0-9]*.state"), key=lambda p_: int(p_.stem.split("_")[1]))
                bts = [float(b) for b in s.state.get_history("beta")]
                ann = [p_ for p_ in ck if int(p_.stem.split("_")[1]) <= len(bts) and bts[int(p_.stem.split("_")[1]) - 1] > 0]
                for p_ in ann[:3]:
                    s.run(n_total=2 * n_total, progress=False, resume_state_path=p_)
        else:
            s.run(n_total=n_total, progress=False, resume_state_path=resume_from)
    finally:
        mut.parallel_mcmc = orig_pm
        ModeStatistics.from_particles = classmethod(orig_fp)
    return s, problems


def sharp_bimodal(x):
    # two very narrow modes: the first positive temperature of the schedule is its search resolution 2^-14 (< 1e-4), at which the
    # tempered target already has two visible modes
    a = -0.5 * float(np.sum((x - 2.0) ** 2)) / 0.005 ** 2
    b = -0.5 * float(np.sum((x + 2.0) ** 2)) / 0.005 ** 2
    return float(np.logaddexp(a, b))


def tiny_beta_steps(run, tier, rng):
    """Trainer.run + Resampler.run at small positive temperatures (2^-14 is the schedule's search resolution): an annealing
    iteration for every step - the labels handed on are the clusters of the resampled particles."""
    from tempest.state_manager import StateManager
    from tempest.steps.train import Trainer
    from tempest.steps.resample import Resampler
    from tempest.cluster import HierarchicalGaussianMixture
    from tempest.config import TRIM_ESS, TRIM_BINS, DOF_FALLBACK
    done = 0
    tries = 0
    while done < (2 if tier == "quick" else 12) and tries < 60:
        tries += 1
        lseed = rng.randrange(2 ** 31)
        nr = np.random.RandomState(lseed)
        centres = nr.rand(2, 2) * 0.7 + 0.15
        u = np.clip(np.vstack([c + 0.025 * nr.randn(60, 2) for c in centres]), 0.001, 0.999)
        n = len(u)
        for beta in (2.0 ** -14, 5e-5, 9.9e-5, 1e-3):
            st = StateManager(2)
            st.update_current({"u": u, "x": u.copy(), "logl": np.zeros(n), "beta": 0.0, "logz": 0.0, "iter": 1})
            st.commit_current_to_history()
            st.set_current("beta", float(beta))
            st.set_current("iter", 2)
            cl = HierarchicalGaussianMixture(n_init=1, max_iterations=1000, min_points=None, threshold_modifier=1.0,
                                             covariance_type="full", verbose=False, normalize=bool(tries % 2))
            tr = Trainer(state=st, clusterer=cl, cluster_every=1, clustering=True, TRIM_ESS=TRIM_ESS, TRIM_BINS=TRIM_BINS, DOF_FALLBACK=DOF_FALLBACK)
            rs = Resampler(state=st, n_particles=32, resample="syst", clusterer=cl, clustering=True)
            np.random.seed(lseed % 1000)
            what = dict(probe="steps at a small positive beta", beta=float(beta), layout_seed=lseed, normalize=bool(tries % 2))
            try:
                ms = tr.run(np.ones(n) / n)
                rs.run(np.ones(n) / n)
            except Exception as e:
                run.fail("train-resample-raises", f"Trainer/Resampler raised {type(e).__name__}: {e}", **what)
                continue
            if ms.K < 2:
                break
            asg = np.asarray(st.get_current("assignments"))
            own = np.asarray(cl.predict(np.asarray(st.get_current("u"))))
            run.case(key=("tiny-beta-steps", lseed, beta), nontrivial=True)
            if asg.shape != own.shape:
                run.fail("label-of-another-cluster", f"beta={beta!r}: {len(asg)} labels for {len(own)} current particles - the pool was not "
                         f"resampled although this is an annealing iteration (labels {sorted(set(asg.tolist()))}, K={ms.K})", **what)
            elif asg.max() >= ms.K or np.any(asg != own):
                run.fail("label-of-another-cluster", f"beta={beta!r}: {int(np.sum(asg != own))} of {len(asg)} active particles carry a label that is not the "
                         f"cluster of their position (labels {sorted(set(asg.tolist()))}, K={ms.K})", **what)
        else:
            done += 1


def overlapping_and_repeated(run, tier, rng):
    """Trainer.run (refit) + Resampler.run('mult') on pools with overlapping, unequally weighted modes on a diffuse background, with
    weights so concentrated that most active particles share a few ancestors: (i) every mode is fitted from exactly the training
    points the clusterer's predict() assigns to its label, (ii) every active particle carries the label predict() gives its position."""
    from tempest.state_manager import StateManager
    from tempest.steps.train import Trainer
    from tempest.steps.resample import Resampler
    from tempest.cluster import HierarchicalGaussianMixture
    from tempest.modes import ModeStatistics
    from tempest.config import TRIM_ESS, TRIM_BINS, DOF_FALLBACK
    done, tries = 0, 0
    while done < (3 if tier == "quick" else 20) and tries < 80:
        tries += 1
        lseed = rng.randrange(2 ** 31)
        nr = np.random.RandomState(lseed)
        d = rng.choice([2, 3])
        centres = nr.rand(3, d) * 0.5 + 0.25
        parts = [c + rng.choice([0.03, 0.06]) * nr.randn(rng.choice([150, 300]), d) for c in centres] + [nr.rand(150, d)]
        u = np.clip(np.vstack(parts), 0.001, 0.999)
        n = len(u)
        w = nr.gamma(rng.choice([0.3, 1.0]), size=n)
        w /= w.sum()
        st = StateManager(d)
        st.update_current({"u": u, "x": u.copy(), "logl": np.zeros(n), "beta": 0.0, "logz": 0.0, "iter": 1})
        st.commit_current_to_history()
        st.set_current("beta", 0.4)
        st.set_current("iter", 2)
        cl = HierarchicalGaussianMixture(n_init=1, max_iterations=1000, min_points=None, threshold_modifier=1.0, covariance_type="full",
                                         verbose=False, normalize=bool(tries % 2))
        tr = Trainer(state=st, clusterer=cl, cluster_every=1, clustering=True, TRIM_ESS=TRIM_ESS, TRIM_BINS=TRIM_BINS, DOF_FALLBACK=DOF_FALLBACK)
        rec = {}
        orig_fp = ModeStatistics.from_particles.__func__

        def fp(cls, uu, ww, ll, *a, **k):
            rec["u"], rec["labels"] = np.asarray(uu).copy(), np.asarray(ll).copy()
            return orig_fp(cls, uu, ww, ll, *a, **k)
        ModeStatistics.from_particles = classmethod(fp)
        what = dict(probe="overlapping weighted modes, repeated ancestors", layout_seed=lseed, d=d, normalize=bool(tries % 2))
        try:
            np.random.seed(lseed % 1000)
            ms = tr.run(w.copy())
        except Exception as e:
            run.fail("train-resample-raises", f"Trainer raised {type(e).__name__}: {e}", **what)
            continue
        finally:
            ModeStatistics.from_particles = classmethod(orig_fp)
        if ms.K < 2:
            continue
        done += 1
        run.case(key=("overlap", lseed), nontrivial=True)
        pred = np.asarray(cl.predict(rec["u"]))
        if np.any(pred != rec["labels"]):
            run.fail("label-of-another-cluster", f"{int(np.sum(pred != rec['labels']))} of {len(pred)} training points were used to fit the mode of a label "
                     f"other than the one predict() gives them: the modes are not fitted from the clusters the particles are labelled with", **what)
            continue
        # concentrated weights: a handful of ancestors, drawn in random order by the multinomial scheme
        w2 = np.full(n, 1e-9)
        heavy = nr.choice(n, size=6, replace=False)
        w2[heavy] = nr.rand(6) + 0.5
        w2 /= w2.sum()
        rs = Resampler(state=st, n_particles=64, resample="mult", clusterer=cl, clustering=True)
        np.random.seed(lseed % 997)
        rs.run(w2.copy())
        asg = np.asarray(st.get_current("assignments"))
        own = np.asarray(cl.predict(np.asarray(st.get_current("u"))))
        if asg.shape != own.shape or np.any(asg != own):
            run.fail("label-of-another-cluster", f"multinomial resampling with {len(set(map(tuple, np.asarray(st.get_current('u')).round(12))))} distinct ancestors "
                     f"among 64 active particles: {int(np.sum(asg != own)) if asg.shape == own.shape else 'all'} carry a label that is not the cluster of their position", **what)


def kernel_label_probe(run, tier, rng):
    """parallel_mcmc with three narrow modes of which only some are occupied by active particles (labels {0,2}, {2}, {1,2}): the
    runner must work with the labels it was given - the first tpCN proposal with zero noise lies on the segment between the
    walker and ITS mode's location, and the runner's own label array equals the one passed in."""
    import tempest.mcmc as mc
    from tempest.modes import ModeStatistics
    means = np.array([[0.2, 0.2], [0.5, 0.8], [0.8, 0.3]])
    covs = np.array([np.eye(2) * 0.01 ** 2] * 3)
    ms = ModeStatistics(means, covs, np.array([5.0, 5.0, 5.0]))
    like = lambda X: (np.array([-0.5 * float(np.sum((v - 0.5) ** 2)) for v in X]), None)
    seen = {}
    orig_run = mc.BaseMCMCRunner.run

    def spy(self):
        seen["assignments"] = np.asarray(self.assignments).copy()
        seen["first"] = np.array([self._propose(k) for k in range(self.n_walkers)]) if isinstance(self, mc.TPCNRunner) else None
        return orig_run(self)
    orig_randn, orig_gamma = np.random.randn, np.random.gamma
    mc.BaseMCMCRunner.run = spy
    try:
        for labels in ([0, 2, 2, 0, 2], [2, 2, 2, 2], [1, 2, 1, 2, 2, 1]):
            asg = np.array(labels)
            u0 = np.clip(means[asg] + 0.02, 0.01, 0.99)
            logl, _ = like(u0)
            for kind in ("tpcn", "rwm"):
                seen.clear()
                np.random.randn = lambda *a: np.zeros(a) if a else 0.0
                np.random.gamma = lambda shape=None, scale=None, *a, **k: 1.0
                try:
                    np.random.seed(1)
                    mc.parallel_mcmc(u=u0.copy(), x=u0.copy(), logl=logl.copy(), blobs=None, assignments=asg.copy(), beta=1.0, mode_stats=ms,
                                     log_likelihood=like, prior_transform=lambda v: v, progress_bar=None, n_steps=1, n_max=1, sample=kind,
                                     periodic=None, reflective=None, verbose=False)
                finally:
                    np.random.randn, np.random.gamma = orig_randn, orig_gamma
                run.case(key=("kernel-labels", kind, tuple(labels)), nontrivial=True)
                what = dict(probe="partially occupied modes", kernel=kind, labels=labels)
                if not np.array_equal(seen.get("assignments"), asg):
                    run.fail("label-of-another-cluster", f"the {kind} runner works with labels {None if seen.get('assignments') is None else seen['assignments'].tolist()} "
                             f"although it was given {labels}: walkers are moved with another mode's statistics", **what)
                    continue
                if kind == "tpcn" and seen.get("first") is not None:
                    # zero noise: proposal - mu = a (u - mu) with 0 <= a <= 1, for the walker's OWN mode
                    for k_ in range(len(asg)):
                        mu = means[asg[k_]]
                        v, d0 = seen["first"][k_] - mu, u0[k_] - mu
                        a_ = float(v @ d0 / (d0 @ d0))
                        if not (np.allclose(v, a_ * d0, atol=1e-12) and -1e-12 <= a_ <= 1 + 1e-12):
                            run.fail("label-of-another-cluster", f"tpCN proposal of walker {k_} (label {asg[k_]}) is not a contraction towards its own mode", **what)
                            break
    finally:
        mc.BaseMCMCRunner.run = orig_run


def tiny_beta_probe(run, tier, rng):
    """kernel-entry checks at the smallest positive temperature: every step must treat it as an annealing iteration"""
    for rep in range(1 if tier == "quick" else 4):
        seed = rng.randrange(10 ** 6)
        cfg = dict(cluster_every=1, normalize=True)
        what = dict(probe="sharp bimodal likelihood (first positive beta = 2^-14)", cfg=cfg, random_state=seed)
        try:
            s, problems = hooked_run(run, dict(cfg), seed, what, like=sharp_bimodal, n_particles=64, n_total=64)
        except Exception as e:
            import traceback
            tb = traceback.format_exc()
            if type(e).__name__ == "LinAlgError" and "fit_mvstud" in tb and "from_particles" in tb:
                run.fail("single-point-cluster-singular-scale", f"a real run aborted in ModeStatistics.from_particles: {type(e).__name__}: {e}", **what)
            else:
                run.fail("clustered-run-raises", f"run raised {type(e).__name__}: {e}", **what)
            continue
        betas = [float(b) for b in s.state.get_history("beta")]
        pos = [b for b in betas if b > 0]
        run.count("tiny-beta probe: first positive beta below 1e-4" if pos and pos[0] < 1e-4 else "tiny-beta probe: first positive beta >= 1e-4")
        for p in problems[:2]:
            key = "assignment-without-mode" if "refers to no mode" in p else ("label-rank-mismatch" if "indexed by rank" in p else
                                                                              ("label-of-another-cluster" if "not the cluster" in p else "mode-ill-formed"))
            run.fail(key, p, **what)


def sweep(run, tier, rng, work):
    cfgs = []
    for every in ([1, 2, 3, 5] if tier == "quick" else [1, 2, 3, 4, 5, 7]):
        for cap in ([None, 2] if tier == "quick" else [None, 1, 2, 3]):
            cfgs.append(dict(cluster_every=every, n_max_clusters=cap, normalize=bool((every + (cap or 0)) % 2),
                             sample="tpcn" if every % 2 else "rwm", resample="syst" if (cap or 0) % 2 else "mult"))
    for ci, cfg in enumerate(cfgs):
        seed = rng.randrange(10 ** 6)
        what = dict(cfg=cfg, random_state=seed)
        outdir = work / f"c{ci}" if ci % 3 == 0 else None
        try:
            s, problems = hooked_run(run, dict(cfg), seed, what, outdir=outdir)
        except Exception as e:
            import traceback
            tb = traceback.format_exc()
            if type(e).__name__ == "LinAlgError" and "fit_mvstud" in tb and "from_particles" in tb:
                run.fail("single-point-cluster-singular-scale", f"a real run aborted in ModeStatistics.from_particles: {type(e).__name__}: {e}", **what)
            else:
                run.fail("clustered-run-raises", f"run raised {type(e).__name__}: {e}", **what)
            continue
        for p in problems[:2]:
            key = "assignment-without-mode" if "refers to no mode" in p else ("label-rank-mismatch" if "indexed by rank" in p else
                                                                              ("label-of-another-cluster" if ("not the cluster" in p or "different rules" in p) else "mode-ill-formed"))
            run.fail(key, p, **what)
        if outdir is not None:
            # resume from a checkpoint taken during annealing
            ck = sorted(outdir.glob("c14_[0-9]*.state"), key=lambda p: int(p.stem.split("_")[1]))
            betas = [float(b) for b in s.state.get_history("beta")]
            ann = [p for p in ck if int(p.stem.split("_")[1]) <= len(betas) and betas[int(p.stem.split("_")[1]) - 1] > 0]
            if ann:
                try:
                    s2, problems2 = hooked_run(run, dict(cfg), seed, what, resume_from=ann[len(ann) // 2])
                    for p in problems2[:2]:
                        run.fail("after-resume:" + ("assignment-without-mode" if "refers to no mode" in p else "mode-ill-formed"), p,
                                 resumed_from=ann[len(ann) // 2].name, **what)
                except Exception as e:
                    run.fail("resume-with-clustering-raises", f"resuming at {ann[len(ann) // 2].name} raised {type(e).__name__}: {e}", **what)
    # one sampler object rolled back to its own checkpoints (load_state / resume on a used object), with a reused clustering
    for every in (2, 3):
        cfg = dict(cluster_every=every, n_max_clusters=None, normalize=True, sample="rwm", resample="mult")
        seed = rng.randrange(10 ** 6)
        what = dict(cfg=cfg, random_state=seed, probe="rollback of a used sampler to its own checkpoints")
        try:
            s, problems = hooked_run(run, dict(cfg), seed, what, outdir=work / f"rb{every}", rollback=True, n_particles=32)
        except Exception as e:
            import traceback
            tb = traceback.format_exc()
            if type(e).__name__ == "LinAlgError" and "fit_mvstud" in tb and "from_particles" in tb:
                run.count("rollback probe aborted by the listed single-point-cluster finding")
            else:
                run.fail("clustered-run-raises", f"run / rollback raised {type(e).__name__}: {e}", **what)
            continue
        for p in problems[:2]:
            key = "assignment-without-mode" if "refers to no mode" in p else ("label-rank-mismatch" if "indexed by rank" in p else
                                                                              ("label-of-another-cluster" if ("not the cluster" in p or "different rules" in p) else "mode-ill-formed"))
            run.fail(key, p, **what)
    run.sample(dict(cfgs=[str(c) for c in cfgs[:4]]))


def starved_pools(run, tier, rng):
    """Trainer.run + Resampler.run on synthetic weighted pools built to starve a cluster."""
    from tempest.state_manager import StateManager
    from tempest.steps.train import Trainer
    from tempest.steps.resample import Resampler
    from tempest.cluster import HierarchicalGaussianMixture
    from tempest.config import TRIM_ESS, TRIM_BINS, DOF_FALLBACK
    reps = 12 if tier == "quick" else 150
    for t in range(reps):
        nr = np.random.RandomState(rng.randrange(2 ** 31))
        n = rng.choice([60, 120, 240])
        sep = rng.choice([0.08, 0.2, 0.35])
        a = nr.randn(n // 2, 2) * 0.03 + 0.5 - sep / 2
        b = nr.randn(n - n // 2, 2) * 0.03 + 0.5 + sep / 2
        u = np.clip(np.vstack([a, b]), 0.001, 0.999)
        w = np.concatenate([np.ones(n // 2), np.full(n - n // 2, 10.0 ** (-rng.choice([0, 2, 6, 12])))])
        w = w / w.sum()
        st = StateManager(2)
        st.update_current({"u": u, "x": u.copy(), "logl": np.zeros(n), "beta": 0.0, "logz": 0.0, "iter": 1})
        st.commit_current_to_history()
        st.set_current("beta", 0.5)
        st.set_current("iter", 2)
        cl = HierarchicalGaussianMixture(n_init=1, max_iterations=1000, min_points=None, threshold_modifier=1.0,
                                         covariance_type="full", verbose=False, normalize=bool(t % 2))
        tr = Trainer(state=st, clusterer=cl, cluster_every=1, clustering=True, TRIM_ESS=TRIM_ESS, TRIM_BINS=TRIM_BINS, DOF_FALLBACK=DOF_FALLBACK)
        rs = Resampler(state=st, n_particles=16, resample="syst", clusterer=cl, clustering=True)
        what = dict(pool_seed=t, n=n, separation=sep, weight_ratio=float(w[-1] / w[0]))
        try:
            ms = tr.run(w.copy())
            rs.run(w.copy())
        except Exception as e:
            run.fail("train-resample-raises", f"Trainer/Resampler raised {type(e).__name__}: {e}", **what)
            continue
        asg = st.get_current("assignments")
        run.case(key=("pool", t), nontrivial=ms.K > 1)
        if asg.max() >= ms.K:
            run.fail("assignment-without-mode", f"assignment {int(asg.max())} but only {ms.K} modes (model has {cl.n_clusters_} clusters)", **what)


def reused_clustering(run, tier, rng):
    """cluster_every = 2: the clustering fitted on a pool with several live modes is reused at the next iteration on a pool
    in which one cluster keeps 0..3 particles of non-negligible weight. Trainer.run + Resampler.run; every active label must
    index a well-formed mode whose location lies in the bounding box of the training points carrying that label."""
    from tempest.state_manager import StateManager
    from tempest.steps.train import Trainer
    from tempest.steps.resample import Resampler
    from tempest.cluster import HierarchicalGaussianMixture
    from tempest.modes import ModeStatistics
    from tempest.config import TRIM_ESS, TRIM_BINS, DOF_FALLBACK
    layouts = 4 if tier == "quick" else 40
    done = 0
    tries = 0
    while done < layouts and tries < 20 * layouts:
        tries += 1
        lseed = rng.randrange(2 ** 31)
        nr = np.random.RandomState(lseed)
        nb = rng.choice([2, 3, 4])
        n_per = rng.choice([40, 60])
        centres = nr.rand(nb, 2) * 0.7 + 0.15
        u = np.clip(np.vstack([c + 0.025 * nr.randn(n_per, 2) for c in centres]), 0.001, 0.999)
        n = len(u)
        norm = bool(tries % 2)
        resample = rng.choice(["syst", "mult"])
        ce = [2, 3, 5][tries % 3]          # refit cadence: the model fitted at iteration ce is reused at ce+1 (and ce+2, ... for ce >= 3)

        def build():
            st = StateManager(2)
            st.update_current({"u": u, "x": u.copy(), "logl": np.zeros(n), "beta": 0.0, "logz": 0.0, "iter": 1})
            st.commit_current_to_history()
            st.set_current("beta", 0.3)
            st.set_current("iter", ce)
            cl = HierarchicalGaussianMixture(n_init=1, max_iterations=1000, min_points=None, threshold_modifier=1.0,
                                             covariance_type="full", verbose=False, normalize=norm)
            tr = Trainer(state=st, clusterer=cl, cluster_every=ce, clustering=True, TRIM_ESS=TRIM_ESS, TRIM_BINS=TRIM_BINS,
                         DOF_FALLBACK=DOF_FALLBACK)
            rs = Resampler(state=st, n_particles=32, resample=resample, clusterer=cl, clustering=True)
            np.random.seed(lseed % 1000)
            tr.run(np.ones(n) / n)
            return st, cl, tr, rs
        try:
            st, cl, tr, rs = build()
        except Exception as e:
            run.fail("train-resample-raises", f"fitting iteration raised {type(e).__name__}: {e}", layout_seed=lseed)
            continue
        K0 = cl.n_clusters_
        if K0 < 2:
            continue
        done += 1
        pool_lab = cl.predict(u)
        for c in range(K0):
            for keep in (0, 1, 2, 3):
                what = dict(probe="reused-clustering", layout_seed=lseed, blobs=nb, n_per_blob=n_per, normalize=norm, resample=resample,
                            clusters_fitted=K0, starved_label=c, particles_kept=keep, cluster_every=ce)
                st, cl, tr, rs = build()
                members = np.where(pool_lab == c)[0]
                w = np.ones(n)
                w[members[keep:]] = 1e-12
                w /= w.sum()
                st.set_current("beta", 0.6)
                st.set_current("iter", ce + 1)
                rec = {}
                orig_fp = ModeStatistics.from_particles.__func__

                def fp(cls, uu, ww, ll, *a, **k):
                    rec["u"], rec["labels"] = np.asarray(uu).copy(), np.asarray(ll).copy()
                    return orig_fp(cls, uu, ww, ll, *a, **k)
                ModeStatistics.from_particles = classmethod(fp)
                try:
                    ms = tr.run(w.copy())
                    rs.run(w.copy())
                except Exception as e:
                    # fewer than d+1 distinct training points (the weighted resampling inside from_particles may even keep one)
                    single = "labels" in rec and any(len(np.unique(rec["u"][rec["labels"] == k], axis=0)) <= rec["u"].shape[1]
                                                     for k in np.unique(rec["labels"]))
                    if single and type(e).__name__ == "LinAlgError":
                        run.fail("single-point-cluster-singular-scale", "a cluster whose trimmed training set has at most d distinct points makes "
                                 f"ModeStatistics.from_particles raise LinAlgError: {e} (fit_mvstud solves with a singular scale matrix)", **what)
                    else:
                        run.fail("train-resample-raises", f"Trainer/Resampler raised {type(e).__name__}: {e}", **what)
                    continue
                finally:
                    ModeStatistics.from_particles = classmethod(orig_fp)
                asg = np.asarray(st.get_current("assignments"))
                run.case(key=("reuse", lseed, c, keep), nontrivial=True)
                run.count(f"reused clustering, starved cluster keeps {keep}")
                if asg.min() < 0 or asg.max() >= ms.K:
                    run.fail("assignment-without-mode", f"active labels {sorted(set(asg.tolist()))} but only {ms.K} modes "
                             f"(model has {cl.n_clusters_} clusters)", **what)
                    continue
                for k in sorted(set(asg.tolist())):
                    C = ms.covariances[k]
                    if not (np.all(np.isfinite(ms.means[k])) and np.all(np.isfinite(C)) and np.allclose(C, C.T, rtol=1e-10, atol=1e-300)
                            and np.min(np.linalg.eigvalsh((C + C.T) / 2)) > 0 and np.isfinite(ms.degrees_of_freedom[k])
                            and ms.degrees_of_freedom[k] > 0):
                        run.fail("mode-ill-formed", f"mode {k}: mean {ms.means[k]}, scale eigenvalues "
                                 f"{np.linalg.eigvalsh((C + C.T) / 2)}, dof {ms.degrees_of_freedom[k]}", **what)
                        break
                    pts = rec["u"][rec["labels"] == k]
                    if len(pts) == 0:
                        run.fail("label-rank-mismatch", f"active label {k} has no training point in the trimmed pool", **what)
                        break
                    lo, hi = pts.min(axis=0) - 1e-9, pts.max(axis=0) + 1e-9
                    if np.any(ms.means[k] < lo) or np.any(ms.means[k] > hi):
                        run.fail("label-rank-mismatch", f"mode {k} has location {ms.means[k]} outside the bounding box [{lo}, {hi}] of "
                                 f"the training points labelled {k}: it was not fitted from that cluster", **what)
                        break
                # the reuse iterations that follow before the next scheduled refit (cadence >= 3): the labels the Resampler hands out and the
                # modes the Trainer returns must still belong to ONE model - mode k lies among the pool particles that model labels k
                for it2 in range(ce + 2, 2 * ce):
                    st.set_current("iter", it2)
                    try:
                        ms2 = tr.run(w.copy())
                        rs.run(w.copy())
                    except Exception as e:
                        if type(e).__name__ != "LinAlgError":
                            run.fail("train-resample-raises", f"reuse iteration {it2} raised {type(e).__name__}: {e}", **what)
                        break
                    asg2 = np.asarray(st.get_current("assignments"))
                    ua2 = np.asarray(st.get_current("u"))
                    run.case(key=("reuse-next", lseed, c, keep, it2), nontrivial=True)
                    if asg2.min() < 0 or asg2.max() >= ms2.K:
                        run.fail("assignment-without-mode", f"iteration {it2}: active labels {sorted(set(asg2.tolist()))} but only {ms2.K} modes", iteration=it2, **what)
                        break
                    live = w > 1e-9
                    plab = cl.predict(u[live])
                    bad2 = None
                    for k in sorted(set(asg2.tolist())):
                        pts = u[live][plab == k]
                        if len(pts) == 0:
                            bad2 = f"active label {k} has no pool particle of non-negligible weight under the current model"
                            break
                        lo, hi = pts.min(axis=0) - 0.05, pts.max(axis=0) + 0.05
                        if np.any(ms2.means[k] < lo) or np.any(ms2.means[k] > hi):
                            bad2 = (f"mode {k} is located at {ms2.means[k]} while the particles labelled {k} by the current model lie in [{lo + 0.05}, {hi - 0.05}]: "
                                    f"labels and modes come from different models")
                            break
                    if bad2:
                        run.fail("label-rank-mismatch", f"reuse iteration {it2} (cadence {ce}, the model was refitted at {ce + 1} because a cluster starved): {bad2}",
                                 iteration=it2, **what)
                        break
    run.count(f"layouts with K>=2: {done} of {tries} tried")


def main(tier, seed):
    run = Run(PID, tier, seed)
    run.rule = ("bimodal target; real runs over cluster_every in {1,2,3,5}, cluster caps {None,2,..}, normalize on/off, both "
                "kernels/resamplers; at every kernel entry: assignments < K, finite means, symmetric positive-definite "
                "scales, finite positive dof, and coverage (labels predicted for the training points are exactly "
                "0..K-1); some runs are resumed from an annealing-phase checkpoint; plus Trainer/Resampler on weighted "
                "pools built to starve a cluster (weight ratios down to 1e-12). Non-trivial: K > 1.")
    run.assumptions = [
        "coverage (every fitted cluster attracts a training point under predict) is a MONITORED hypothesis of "
        "C14_label_is_mode: a pool violating it is reported as a violation with the pool as replay",
        "np.linalg.cholesky succeeding is the run-time witness of positive-definiteness",
    ]
    rng = random.Random(seed)
    try:
        translate()
        import c05
        c05.translate()   # which iterations are warm-up iterations is decided identically in train / resample / mutate
        run.obligation("translate:Trainer cadence + mode indexing", True)
    except Exception as e:  # fail closed: anything the translator cannot digest
        run.obligation("translate:Trainer cadence + mode indexing", False, str(e))
    run.prove("Props/C14.v", link_rels=["Link/Cluster.v", "Link/Schedule.v"])
    work = Path(tempfile.mkdtemp(prefix="c14_", dir=run.scratch.dir))
    try:
        sweep(run, tier, rng, work)
        starved_pools(run, tier, rng)
        reused_clustering(run, tier, rng)
        tiny_beta_probe(run, tier, rng)
        tiny_beta_steps(run, tier, rng)
        overlapping_and_repeated(run, tier, rng)
        kernel_label_probe(run, tier, rng)
    except Exception:
        import traceback
        run.broken.append(("harness-exception", traceback.format_exc()[-1500:]))
    run.finish(search=None)
