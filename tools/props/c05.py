"""C05 — temperature schedule is monotone, bounded and ESS-controlled."""
import ast
import math
import random
import zlib

import numpy as np

from common import (COQ, REPO, ExprTr, Run, TranslateError, coq_eval_many, fhex, get_function, parse_evals,
                    strip_doc, write_if_changed)

PID = "C05"
BETA_TOL = 1e-4
ESS_TOL = 0.01


def _ns(n):
    return ast.unparse(n).replace(" ", "")


def translate():
    path = REPO / "tempest" / "steps" / "reweight.py"

    def need(c, node, msg, w):
        if not c:
            raise TranslateError(f"{w}: line {getattr(node, 'lineno', '?')}: {msg}: {ast.unparse(node)[:200]}")

    # ---------------- _find_beta_upper_limit
    w = "reweight.py:Reweighter._find_beta_upper_limit"
    fn = get_function(path, "Reweighter._find_beta_upper_limit")
    b = strip_doc(fn.body)
    src = [_ns(s) for s in b]
    need(len(b) == 8, fn, f"statement count {len(b)}", w)
    need(src[0] == "beta_low=beta_current" and src[1] == "beta_high=1.0", b[0], "bracket init", w)
    need(src[2] == "_,ess_at_current,_=self._compute_metric_and_weights(beta_current)", b[2], "ESS at current", w)
    need(isinstance(b[3], ast.If) and _ns(b[3].body[0]) == "returnbeta_current" and not b[3].orelse, b[3], "stay", w)
    stay = ExprTr({"ess_at_current": "e", "ess_ratio": "t"}, where=w).boolean(b[3].test)
    need(src[4] == "_,ess_at_one,_=self._compute_metric_and_weights(1.0)", b[4], "ESS at one", w)
    need(isinstance(b[5], ast.If) and _ns(b[5].body[0]) == "return1.0" and not b[5].orelse, b[5], "full", w)
    full = ExprTr({"ess_at_one": "e", "ess_ratio": "t"}, where=w).boolean(b[5].test)
    loop = b[6]
    need(isinstance(loop, ast.While) and len(loop.body) == 3, loop, "loop", w)
    loop_test = ExprTr({"beta_high": "hi", "beta_low": "lo", "self.BETA_TOLERANCE": "beta_tol"}, where=w).boolean(loop.test)
    need(isinstance(loop.body[0], ast.Assign) and _ns(loop.body[0].targets[0]) == "beta_mid", loop.body[0], "mid", w)
    mid = ExprTr({"beta_high": "hi", "beta_low": "lo"}, where=w).num(loop.body[0].value)
    need(_ns(loop.body[1]) == "_,ess_mid,_=self._compute_metric_and_weights(beta_mid)", loop.body[1], "ESS at mid", w)
    br = loop.body[2]
    need(isinstance(br, ast.If) and _ns(br.body[0]) == "beta_low=beta_mid" and _ns(br.orelse[0]) == "beta_high=beta_mid",
         br, "bracket update", w)
    keep = ExprTr({"ess_mid": "e", "ess_ratio": "t"}, where=w).boolean(br.test)
    need(src[7] == "returnbeta_low", b[7], "return", w)

    # ---------------- _find_beta_bisection
    w = "reweight.py:Reweighter._find_beta_bisection"
    fn = get_function(path, "Reweighter._find_beta_bisection")
    b = strip_doc(fn.body)
    need(len(b) == 1 and isinstance(b[0], ast.While) and _ns(b[0].test) == "True", fn, "loop", w)
    s = b[0].body
    need(len(s) == 6, b[0], f"loop statement count {len(s)}", w)
    need(isinstance(s[0], ast.Assign) and _ns(s[0].targets[0]) == "beta", s[0], "midpoint", w)
    bmid = ExprTr({"beta_max": "hi", "beta_min": "lo"}, where=w).num(s[0].value)
    need(_ns(s[1]) == "metric_val,aux_data=metric_fn(beta)", s[1], "metric call", w)
    nf = s[2]
    need(isinstance(nf, ast.If) and _ns(nf.test) == "notnp.isfinite(metric_val)", nf, "non-finite guard", w)
    need(all(_ns(x) == "metric_val=10000000000.0" for x in ast.walk(nf) if isinstance(x, ast.Assign)), nf,
         "non-finite replacement", w)
    need(isinstance(s[3], ast.Assign) and _ns(s[3].targets[0]) == "metric_converged", s[3], "metric_converged", w)
    mconv = ExprTr({"metric_val": "m", "target": "target", "self.ESS_TOLERANCE": "ess_tol"}, where=w).boolean(s[3].value)
    need(isinstance(s[4], ast.Assign) and _ns(s[4].targets[0]) == "beta_converged", s[4], "beta_converged", w)
    bconv = ExprTr({"beta_max": "hi", "beta_min": "lo", "self.BETA_TOLERANCE": "beta_tol"}, where=w).boolean(s[4].value)
    br = s[5]
    need(isinstance(br, ast.If) and _ns(br.test) == "metric_convergedorbeta_convergedorbeta==1.0"
         and _ns(br.body[0]) == "return(beta,aux_data)", br, "stop test", w)
    e1 = br.orelse[0]
    need(isinstance(e1, ast.If) and _ns(e1.test) == "self.volume_variationisNone", e1, "mode split", w)
    ess_br = e1.body[-1]
    need(isinstance(ess_br, ast.If) and _ns(ess_br.body[0]) == "beta_max=beta" and _ns(ess_br.orelse[0]) == "beta_min=beta",
         ess_br, "ESS-mode directions", w)
    ess_dir = ExprTr({"metric_val": "m", "target": "target"}, where=w).boolean(ess_br.test)
    vol_br = e1.orelse[-1]
    need(isinstance(vol_br, ast.If) and _ns(vol_br.body[-1]) == "beta_min=beta" and _ns(vol_br.orelse[-1]) == "beta_max=beta",
         vol_br, "volume-mode directions", w)
    vol_dir = ExprTr({"metric_val": "m", "target": "target"}, where=w).boolean(vol_br.test)

    # ---------------- run
    w = "reweight.py:Reweighter.run"
    fn = get_function(path, "Reweighter.run")
    text = _ns(fn)
    for frag, msg in [
        ("beta_prev=self.state.get_current('beta')", "beta_prev read"),
        ("ess_max=self.ess_ratio*self.n_particles", "ess target"),
        ("beta_upper=self._find_beta_upper_limit(beta_prev,ess_max)", "upper limit call"),
        ("target_ess=self.ess_ratio*self.n_particles", "ESS-mode target"),
        ("_,(weights_prev,ess_prev)=ess_fn(beta_prev)", "ESS at beta_prev"),
        ("_,(weights_upper,ess_upper)=ess_fn(beta_upper)", "ESS at beta_upper"),
        ("beta,(weights,ess_est)=self._find_beta_bisection(beta_prev,beta_upper,target_ess,ess_fn)", "ESS bisection call"),
        ("beta,(weights,ess_est)=self._find_beta_bisection(beta_prev,beta_upper,self.volume_variation,volume_variation_fn)",
         "volume bisection call"),
        ("_,logz=self.state.compute_logw_and_logz(beta)", "evidence at the chosen beta"),
        ("returnself._finalize_iteration(beta,weights,ess_est,logz)", "finalisation"),
        ("ifweightsisNone:weights,ess_est,_=self._compute_metric_and_weights(beta)".replace(":", ":\n"), "recompute"),
    ]:
        need(frag.replace("\n", "") in text.replace("\n", ""), fn, msg, w)
    # every recorded evidence in run() is the one of the chosen beta (one call per metric mode, none at another temperature)
    lz_calls = [_ns(c.args[0]) for c in ast.walk(fn) if isinstance(c, ast.Call) and _ns(c.func) == "self.state.compute_logw_and_logz"]
    need(lz_calls == ["beta", "beta"], fn, f"evidence computed at {lz_calls}, expected the chosen beta in both modes", w)
    ifs = {}
    for node in ast.walk(fn):
        if isinstance(node, ast.If):
            ifs[_ns(node.test)] = node

    def branch(test_src, want_body):
        node = ifs.get(test_src)
        need(node is not None, fn, f"branch {test_src}", w)
        got = [_ns(x) for x in node.body if isinstance(x, ast.Assign)]
        need(got == want_body, node, f"assignments of branch {test_src}: {got}", w)
        return node

    n1 = branch("ess_prev<=target_ess", ["beta=beta_prev", "weights=weights_prev", "ess_est=ess_prev"])
    stay_e = ExprTr({"ess_prev": "e", "target_ess": "t"}, where=w).boolean(n1.test)
    n2 = n1.orelse[0]
    need(isinstance(n2, ast.If) and [_ns(x) for x in n2.body] == ["beta=beta_upper", "weights=weights_upper", "ess_est=ess_upper"],
         n2, "advance branch", w)
    adv_e = ExprTr({"ess_upper": "e", "target_ess": "t"}, where=w).boolean(n2.test)
    n3 = branch("beta_upper==beta_prev", ["beta=beta_prev", "weights,ess_est,_=self._compute_metric_and_weights(beta)"])
    eq_t = ExprTr({"beta_upper": "bu", "beta_prev": "bp"}, where=w).boolean(n3.test)
    n4 = branch("self.volume_variation>=vol_var_upper", ["beta=beta_upper", "weights=None", "ess_est=ess_at_upper"])
    v_hi = ExprTr({"self.volume_variation": "vt", "vol_var_upper": "v"}, where=w).boolean(n4.test)
    n5 = n4.orelse[0]
    need(isinstance(n5, ast.If) and [_ns(x) for x in n5.body if isinstance(x, ast.Assign)] ==
         ["beta=beta_prev", "weights=None", "ess_est=ess_at_prev"], n5, "stay (volume) branch", w)
    v_lo = ExprTr({"self.volume_variation": "vt", "vol_var_prev": "v"}, where=w).boolean(n5.test)
    fin = get_function(path, "Reweighter._finalize_iteration")
    ftxt = _ns(fin)
    need("weights=weights/np.sum(weights)" in ftxt and "{'logz':logz,'beta':beta,'ess':ess_est}" in ftxt, fin,
         "finalize writes", "reweight.py:_finalize_iteration")
    # first iteration
    need("ifself.state.get_history_length()==0:" in text and "{'beta':0.0,'logz':0.0,'ess':self.ess_ratio*self.n_particles}" in text
         and "returnnp.ones(self.n_particles)/self.n_particles" in text, fn, "first iteration", w)
    # nothing else writes beta
    writers = []
    for rel in ["steps/train.py", "steps/resample.py", "steps/mutate.py", "mcmc.py"]:
        t = (REPO / "tempest" / rel).read_text()
        tree = ast.parse(t)
        for node in ast.walk(tree):
            if isinstance(node, ast.Call) and isinstance(node.func, ast.Attribute) and node.func.attr in ("set_current", "update_current"):
                a0 = node.args[0] if node.args else None
                keys = []
                if isinstance(a0, ast.Constant):
                    keys = [a0.value]
                elif isinstance(a0, ast.Dict):
                    keys = [k.value for k in a0.keys if isinstance(k, ast.Constant)]
                    need(all(isinstance(k, ast.Constant) for k in a0.keys), node, "non-literal state key", rel)
                else:
                    need(False, node, "state write with a non-literal key", rel)
                if "beta" in keys:
                    writers.append(f"{rel}:{node.lineno}")
    # the three downstream steps agree on what a warm-up iteration is: exactly beta == 0 (the temperature of the iteration),
    # read from the current state; a step that treats a small positive beta as warm-up would desynchronise them
    warm = {}
    for rel, qual, var in (("steps/train.py", "Trainer.run", "beta_val"), ("steps/resample.py", "Resampler.run", "beta"),
                           ("steps/mutate.py", "Mutator.run", "beta")):
        f2 = get_function(REPO / "tempest" / rel, qual)
        body2 = strip_doc(f2.body)
        k2 = next((i for i, x in enumerate(body2) if isinstance(x, ast.Assign) and _ns(x.targets[0]) == var
                   and _ns(x.value) == "self.state.get_current('beta')"), None)
        need(k2 is not None and k2 + 1 < len(body2) and isinstance(body2[k2 + 1], ast.If), f2, "warm-up test follows the read of the current beta", rel)
        tst = _ns(body2[k2 + 1].test)
        warm[qual] = tst in (f"{var}==0.0", f"{var}==0")
        need(tst.startswith(var), body2[k2 + 1], f"warm-up test {tst}", rel)
    # the reweighter carries nothing from one call to the next: no attribute is assigned outside __init__
    cls = next(n for n in ast.walk(ast.parse(path.read_text())) if isinstance(n, ast.ClassDef) and n.name == "Reweighter")
    stateful = [f"{m.name}:{_ns(t)}" for m in cls.body if isinstance(m, ast.FunctionDef) and m.name != "__init__"
                for n in ast.walk(m) if isinstance(n, (ast.Assign, ast.AugAssign, ast.AnnAssign))
                for t in (n.targets if isinstance(n, ast.Assign) else [n.target])
                if _ns(t).startswith("self.") and not _ns(t).startswith("self.state.")]
    need(not stateful, cls, f"the reweighter stores state between calls: {stateful}", "reweight.py:Reweighter")
    text_v = f"""(* GENERATED from /repo/tempest/steps/reweight.py by tools/props/c05.py *)
From Coq Require Import List Bool Arith.
From Tempest Require Import Base.Ops.
Definition ul_stay {{T}} (o : Ops T) (e t : T) : bool := {stay}.
Definition ul_full {{T}} (o : Ops T) (e t : T) : bool := {full}.
Definition ul_loop {{T}} (o : Ops T) (hi lo beta_tol : T) : bool := {loop_test}.
Definition ul_mid {{T}} (o : Ops T) (hi lo : T) : T := {mid}.
Definition ul_keep {{T}} (o : Ops T) (e t : T) : bool := {keep}.
Definition bi_mid {{T}} (o : Ops T) (hi lo : T) : T := {bmid}.
Definition bi_metric_converged {{T}} (o : Ops T) (m target ess_tol : T) : bool := {mconv}.
Definition bi_beta_converged {{T}} (o : Ops T) (hi lo beta_tol : T) : bool := {bconv}.
Definition bi_ess_shrink_top {{T}} (o : Ops T) (m target : T) : bool := {ess_dir}.
Definition bi_vol_raise_bottom {{T}} (o : Ops T) (m target : T) : bool := {vol_dir}.
Definition run_stay {{T}} (o : Ops T) (e t : T) : bool := {stay_e}.
Definition run_advance {{T}} (o : Ops T) (e t : T) : bool := {adv_e}.
Definition run_cannot_advance {{T}} (o : Ops T) (bu bp : T) : bool := {eq_t}.
Definition run_vol_take_upper {{T}} (o : Ops T) (vt v : T) : bool := {v_hi}.
Definition run_vol_stay {{T}} (o : Ops T) (vt v : T) : bool := {v_lo}.
Definition branches_assign_matching_beta_weights_ess : bool := true.
Definition logz_computed_at_chosen_beta : bool := true.
Definition finalize_writes_beta_ess_logz : bool := true.
Definition other_steps_writing_beta : nat := {len(writers)}.
Definition reweighter_keeps_no_state_between_calls : bool := true.
Definition warmup_iteration_is_beta_equal_zero_in_train_resample_mutate : bool := {str(all(warm.values())).lower()}.
"""
    write_if_changed(COQ / "Gen" / "Schedule.v", text_v)


# ------------------------------------------------------------------ implementation harness
def build(rng, T, n_particles, d=2, spread=5.0):
    from tempest.state_manager import StateManager
    st = StateManager(d)
    nr = np.random.RandomState(rng.randrange(2 ** 31))
    betas = sorted([0.0] + [rng.random() ** 2 for _ in range(T - 1)])
    for t in range(T):
        n = n_particles
        u = nr.rand(n, d)
        kind = rng.choice(["gauss", "plateau", "spike"])
        if kind == "gauss":
            logl = -0.5 * spread * np.sum((u - 0.5) ** 2, axis=1) * rng.choice([1, 30, 300])
        elif kind == "plateau":
            logl = np.where(u[:, 0] < 0.5, 0.0, -rng.choice([1.0, 50.0, 1e4]))
        else:
            logl = -spread * nr.rand(n)
            logl[nr.randint(n)] = rng.choice([5.0, 50.0, 500.0])
        st.update_current({"u": u, "x": u.copy(), "logl": logl, "beta": betas[t], "logz": rng.uniform(-3, 0),
                           "iter": t + 1, "calls": 0, "ess": 1.0})
        st.commit_current_to_history()
    return st, betas


class SynthOracle:
    """arbitrary (non-monotone) ESS / volume curves, deterministic in beta: the theorems quantify over all oracles"""

    def __init__(self, rng, n_total, kind):
        self.seed = rng.randrange(2 ** 31)
        self.n_total, self.kind = n_total, kind

    def h(self, beta, salt):
        return zlib.crc32(f"{self.seed}:{salt}:{float(beta).hex()}".encode()) / 2 ** 32

    def ess(self, beta):
        k = self.kind
        if k == "noise":
            return 1.0 + (self.n_total - 1) * self.h(beta, "e")
        if k == "decreasing":
            return 1.0 + (self.n_total - 1) * (1 - beta) ** 3
        if k == "bumpy":
            return 1.0 + (self.n_total - 1) * (0.5 + 0.5 * math.cos(37 * beta)) * (1 - 0.5 * beta)
        if k == "cliff":
            return float(self.n_total) if beta < self.h(0.0, "c") else 1.0
        raise ValueError(k)

    def vol(self, beta):
        if self.kind == "noise":
            return 2.0 * self.h(beta, "v")
        return 0.05 + 1.5 * beta + 0.3 * math.sin(23 * beta)


def run_step(st, n_particles, ess_ratio, vv, synth=None):
    """one real Reweighter.run with _compute_metric_and_weights recorded; returns dict."""
    from tempest.steps.reweight import Reweighter
    rw = Reweighter(state=st, pbar=None, n_particles=n_particles, ess_ratio=ess_ratio, volume_variation=vv,
                    ESS_TOLERANCE=ESS_TOL, BETA_TOLERANCE=BETA_TOL)
    table = {}
    order = []
    real = rw._compute_metric_and_weights

    def rec(beta):
        w, e, m = real(beta)
        if synth is not None:
            e = synth.ess(float(beta))
            m = synth.vol(float(beta)) if vv is not None else e
        table[float(beta).hex()] = (float(beta), float(e), float(m))
        order.append(float(beta))
        return w, e, m

    rw._compute_metric_and_weights = rec
    beta_prev = float(st.get_current("beta"))
    weights = rw.run()
    return dict(beta_prev=beta_prev, beta=float(st.get_current("beta")), ess=float(st.get_current("ess")),
                logz=float(st.get_current("logz")), weights=np.array(weights), table=table, order=order, rw=rw, real=real)


def reweighter_reuse_probe(run, tier, rng):
    """One Reweighter object whose state manager is given another history with the same number of generations (what
    load_state / update_from_dict do): its next step must be the step a fresh Reweighter takes on that history."""
    from tempest.steps.reweight import Reweighter
    for t in range(4 if tier == "quick" else 40):
        n_particles, T = rng.choice([8, 16]), rng.choice([2, 3])
        ess_ratio, vv = rng.choice([0.5, 1.0, 1.7]), rng.choice([None, None, 0.5])
        stA, _ = build(rng, T, n_particles, spread=rng.choice([1.0, 5.0]))
        stB, betasB = build(rng, T, n_particles, spread=rng.choice([50.0, 500.0]))
        for stx in (stA, stB):
            stx.set_current("beta", 0.0)
        rw = Reweighter(state=stA, pbar=None, n_particles=n_particles, ess_ratio=ess_ratio, volume_variation=vv,
                        ESS_TOLERANCE=ESS_TOL, BETA_TOLERANCE=BETA_TOL)
        rw.run()
        snapshot = stB.to_dict()
        stA.update_from_dict(snapshot)          # the reused object now holds history B
        w1 = rw.run()
        got = (float(stA.get_current("beta")), float(stA.get_current("ess")), float(stA.get_current("logz")))
        fresh = Reweighter(state=stB, pbar=None, n_particles=n_particles, ess_ratio=ess_ratio, volume_variation=vv,
                           ESS_TOLERANCE=ESS_TOL, BETA_TOLERANCE=BETA_TOL)
        w2 = fresh.run()
        want = (float(stB.get_current("beta")), float(stB.get_current("ess")), float(stB.get_current("logz")))
        run.case(key=("reuse", t), nontrivial=True)
        if got != want or not np.array_equal(np.asarray(w1), np.asarray(w2)):
            run.fail("step-depends-on-earlier-history", f"a Reweighter that had stepped on another history chose (beta, ESS, logZ) = {got}; a fresh one on the "
                     f"same history chooses {want}", n_particles=n_particles, T=T, ess_ratio=ess_ratio, volume_variation=vv)


def check_step(run, st, res, n_particles, ess_ratio, vv, synth, what):
    """the statement's clauses, evaluated on the implementation."""
    bp, b = res["beta_prev"], res["beta"]
    target = ess_ratio * n_particles
    E = (lambda x: synth.ess(x)) if synth is not None else (lambda x: float(res["real"](x)[1]))
    if not (bp <= b <= 1.0):
        run.fail("beta-not-monotone-or-above-one", f"beta went from {bp!r} to {b!r}", **what)
        return
    if vv is None:
        if b != bp and not (E(b) >= target):
            run.fail("advanced-below-ess-target", f"beta advanced {bp!r}->{b!r} but ESS({b!r})={E(b)!r} < target {target!r}", **what)
    else:
        # ESS-limited temperature, recomputed with the implementation's own routine on the same oracle
        rw = res["rw"]
        bu = float(rw._find_beta_upper_limit(bp, target))
        if b > bu:
            run.fail("beyond-ess-limit", f"dynamic mode chose beta={b!r} beyond the ESS-limited temperature {bu!r}", **what)
        if bu != bp and not (E(bu) >= target):
            run.fail("ess-limit-below-target", f"ESS-limited temperature {bu!r} has ESS {E(bu)!r} < target {target!r}", **what)
    # same-beta coherence (against the real pool, independent of the synthetic oracle)
    w_b, e_b, _ = res["real"](b)
    w_b = w_b / np.sum(w_b)
    _, lz_b = st.compute_logw_and_logz(b)
    if len(res["weights"]) != len(w_b) or not np.allclose(res["weights"], w_b, rtol=1e-9, atol=1e-300):
        run.fail("weights-at-other-beta", f"returned weights are not the normalised weights at the recorded beta={b!r}", **what)
    if abs(res["logz"] - lz_b) > 1e-9 * max(1, abs(lz_b)):
        run.fail("logz-at-other-beta", f"recorded logz={res['logz']!r} but logZ(beta={b!r})={lz_b!r}", **what)
    e_rec = E(b) if synth is not None else float(e_b)
    if abs(res["ess"] - e_rec) > 1e-9 * max(1, abs(e_rec)):
        run.fail("ess-at-other-beta", f"recorded ess={res['ess']!r} but ESS(beta={b!r})={e_rec!r}", **what)
    if abs(math.fsum(res["weights"]) - 1) > 1e-9:
        run.fail("weights-not-normalised", "weights handed to training/resampling do not sum to 1", **what)


def coq_case(res, target, vv):
    tbl = "; ".join(f"({fhex(b)}, {fhex(e)}, {fhex(m)})" for (b, e, m) in res["table"].values())
    mode = "None" if vv is None else f"(Some {fhex(vv)})"
    return f"(run_case [{tbl}] {fhex(res['beta_prev'])} {fhex(target)} {mode} {fhex(res['beta'])} {fhex(res['ess'])})"


COQ_HEAD = """From Coq Require Import List Bool PrimFloat.
From Tempest Require Import Base.Ops Model.Schedule.
Import ListNotations.
Open Scope float_scope.
Definition lookup (tbl : list (float * float * float)) (sel : float * float * float -> float) (b : float) : float :=
  match find (fun r => PrimFloat.eqb (fst (fst r)) b) tbl with Some r => sel r | None => nan end.
Definition ffinite (x : float) : bool := negb (is_nan x || is_infinity x).
Definition run_case (tbl : list (float * float * float)) (bp target : float) (vmode : option float)
                    (impl_beta impl_ess : float) : bool :=
  let E := lookup tbl (fun r => snd (fst r)) in
  let V := lookup tbl snd in
  let out := match vmode with
             | None => step_ess FOps ffinite E 0x1.a36e2eb1c432dp-14 0x1.47ae147ae147bp-7 0x1.2a05f2p+33 200 bp target
             | Some vt => step_vol FOps ffinite E V 0x1.a36e2eb1c432dp-14 0x1.47ae147ae147bp-7 0x1.2a05f2p+33 200 bp target vt
             end in
  match out with
  | Some r => fsame (new_beta r) impl_beta && fsame (E (ess_at r)) impl_ess
  | None => false
  end.
Fixpoint bad (l : list bool) (i : nat) : list nat :=
  match l with [] => [] | b :: l' => if b then bad l' (S i) else i :: bad l' (S i) end.
"""


def sweep(run, tier, rng):
    assert (1e-4).hex() == "0x1.a36e2eb1c432dp-14" and (0.01).hex() == "0x1.47ae147ae147bp-7" and (1e10).hex() == "0x1.2a05f20000000p+33"
    reps = 150 if tier == "quick" else 3000
    cases = []
    for t in range(reps + 8):
        # the last eight cases are plateau pools with an exact ESS tie; they draw from their own generator so that the main sequence stays as it is
        rg = rng if t < reps else random.Random(977 + t)
        n_particles = rg.choice([4, 8, 16, 10, 25])
        T = rg.choice([1, 2, 3, 5, 8])
        # the ESS target ess_ratio * n_particles is in general not a whole number (0.37*10 = 3.7; 0.29*25 = 7.25; 1.7*10 = 17)
        ess_ratio = rg.choice([0.5, 1.0, 2.0, 3.0, 0.37, 0.29, 1.7, 2.45])
        vv = rg.choice([None, None, 0.1, 0.5, 1.0])
        synth_kind = rg.choice([None, None, "noise", "decreasing", "bumpy", "cliff"])
        # every 7th pool is extremely peaked (log-likelihood range 1e6): the ESS-limited step is below the search resolution
        st, betas = build(rg, T, n_particles, spread=1e6 if t % 7 == 6 else 5.0)
        bp = rg.choice([betas[-1], 0.0, rg.random(), 1.0, 0.9999, 1 - 5e-5])
        if t % 7 == 6:
            ess_ratio, bp = rg.choice([0.5, 0.37]), rg.choice([0.0, betas[-1]])
        if t >= reps:
            # a plateau: every stored log-likelihood equal (ESS = pool size at every temperature), and an ESS target equal to the pool size: an exact tie
            for k_ in range(len(st._history["logl"])):
                st._history["logl"][k_] = np.full(len(st._history["logl"][k_]), (-1.0, 3.5)[t % 2])
            ess_ratio, vv, synth_kind, bp = float(T), None, None, 0.0
        st.set_current("beta", float(bp))
        st.set_current("iter", T)
        synth = SynthOracle(rg, T * n_particles, synth_kind) if synth_kind else None
        what = dict(n_particles=n_particles, T=T, ess_ratio=ess_ratio, volume_variation=vv, beta_prev=bp,
                    oracle=synth_kind or "real pool", seed_case=t)
        try:
            res = run_step(st, n_particles, ess_ratio, vv, synth)
            if t % 5 == 4 and synth is None:
                # put the ESS target a fraction of a per cent ABOVE the pool's ESS at beta = 1 (and start from a temperature whose ESS is
                # above it): the step must stop short of 1 - "almost reached" is not reached
                e1 = float(res["real"](1.0)[1])
                e0 = float(res["real"](0.0)[1])
                if e1 * 1.01 < e0:
                    ess_ratio = e1 * (1.0 + rg.choice([0.001, 0.004, 0.009])) / n_particles
                    st.set_current("beta", 0.0)
                    st.set_current("iter", T)
                    what = dict(what, ess_ratio=ess_ratio, beta_prev=0.0, target_just_above_ess_at_one=True)
                    res = run_step(st, n_particles, ess_ratio, vv, None)
                    run.count("target within 1% above ESS(1)")
        except Exception as e:
            run.fail("reweight-raises", f"Reweighter.run raised {type(e).__name__}: {e}", **what)
            continue
        run.case(key=("step", t), nontrivial=res["beta"] != res["beta_prev"])
        run.count(f"mode={'vol' if vv is not None else 'ess'}")
        run.count(f"oracle={synth_kind or 'real'}")
        run.count("advanced" if res["beta"] != res["beta_prev"] else "stayed")
        check_step(run, st, res, n_particles, ess_ratio, vv, synth, what)
        cases.append((what, coq_case(res, ess_ratio * n_particles, vv), res))
    if cases:
        w0, _, r0 = cases[0]
        run.sample(dict(case=w0, beta=r0["beta"], ess=r0["ess"], queried=r0["order"][:6]))
    # first iteration (no history): beta 0, uniform weights
    from tempest.state_manager import StateManager
    from tempest.steps.reweight import Reweighter
    st = StateManager(2)
    st.set_current("iter", 0)
    st.set_current("beta", 0.0)
    w = Reweighter(state=st, n_particles=7, ess_ratio=2.0).run()
    if st.get_current("beta") != 0.0 or len(w) != 7 or not np.allclose(w, 1 / 7):
        run.fail("first-iteration", "first iteration must record beta=0 and return uniform weights")
    # bit-exact twin
    shard = 60
    srcs = []
    for s in range(0, len(cases), shard):
        items = ";\n".join(c[1] for c in cases[s:s + shard])
        srcs.append(COQ_HEAD + f"Eval vm_compute in bad [\n{items}\n] 0.\n")
    res = coq_eval_many(run.scratch, srcs)
    nbad = 0
    for k, (ok, out) in enumerate(res):
        if not ok:
            run.broken.append(("correspondence-coqc", out[-1500:]))
            return
        for j in parse_evals(out)[0]:
            what, _, r = cases[k * shard + j]
            nbad += 1
            run.disagree("Reweighter.run vs binary64 model with the recorded oracle table", case=what, impl_beta=r["beta"],
                         impl_ess=r["ess"], queried=[float(x).hex() for x in r["order"]][:40])
    run.extra["bit_exact_steps"] = len(cases)
    run.extra["bit_exact_disagree"] = nbad


def real_runs(run, tier, rng):
    """short real runs in both metric modes: recorded beta sequence starts at 0, never decreases, stays <= 1."""
    from tempest import Sampler
    n = 3 if tier == "quick" else 24
    for t in range(n):
        vv = None if t % 2 == 0 else 0.5
        d = 2
        np.random.seed(rng.randrange(2 ** 31))
        s = Sampler(prior_transform=lambda u: 10 * u - 5, log_likelihood=lambda x: -0.5 * float(np.sum(x ** 2)),
                    n_dim=d, n_particles=16, ess_ratio=2.0, volume_variation=vv, clustering=False,
                    resample=rng.choice(["mult", "syst"]), sample=rng.choice(["tpcn", "rwm"]))
        try:
            s.run(n_total=64, progress=False)
        except Exception as e:
            run.fail("run-raises", f"Sampler.run raised {type(e).__name__}: {e}", volume_variation=vv)
            continue
        betas = [float(b) for b in s.state.get_history("beta")]
        run.case(key=("run", t), nontrivial=True)
        if betas[0] != 0.0 or any(b2 < b1 for b1, b2 in zip(betas, betas[1:])) or max(betas) > 1.0:
            run.fail("run-schedule", f"recorded beta sequence {betas}", volume_variation=vv)
    run.count("real_runs", n)


def second_run_probe(run, tier, rng):
    """every reweighting step of two consecutive run() calls on ONE Sampler (the second run starts with a non-empty pool): the
    weights handed on cover the whole pool, and the recorded beta / logZ / ESS are those of that temperature on that pool"""
    from tempest import Sampler
    from tempest.steps.reweight import Reweighter
    from tempest.tools import effective_sample_size
    problems = []
    orig = Reweighter.run

    def spy(self):
        pool_before = sum(len(b) for b in self.state._history["logl"])
        w = orig(self)
        if pool_before == 0:
            return w
        beta = float(self.state.get_current("beta"))
        logw, lz = self.state.compute_logw_and_logz(beta)
        ww = np.exp(logw - np.max(logw))
        ww /= ww.sum()
        if len(w) != pool_before:
            problems.append(f"iteration {self.state.get_current('iter')}: {len(w)} weights handed on for a pool of {pool_before} stored samples")
        elif not np.allclose(w, ww, rtol=1e-9, atol=1e-15):
            problems.append(f"iteration {self.state.get_current('iter')}: the weights handed on are not the pool's weights at the recorded beta={beta}")
        if abs(float(self.state.get_current("logz")) - float(lz)) > 1e-9 * max(1.0, abs(float(lz))):
            problems.append(f"iteration {self.state.get_current('iter')}: recorded logZ {float(self.state.get_current('logz'))!r} but the pool gives {float(lz)!r} at beta={beta}")
        e = float(effective_sample_size(ww))
        if abs(float(self.state.get_current("ess")) - e) > 1e-6 * max(1.0, e):
            problems.append(f"iteration {self.state.get_current('iter')}: recorded ESS {float(self.state.get_current('ess'))!r} but the pool has {e!r} at beta={beta}")
        return w
    Reweighter.run = spy
    try:
        for vv in (None, 0.5):
            s = Sampler(prior_transform=lambda u: 10 * u - 5, log_likelihood=lambda x: -0.5 * float(np.sum(x ** 2)), n_dim=2, n_particles=16,
                        volume_variation=vv, clustering=False, random_state=8)
            del problems[:]
            s.run(n_total=32, progress=False)
            s.run(n_total=96, progress=False)       # the same object, asking for more
            run.case(key=("second-run", str(vv)), nontrivial=True)
            if problems:
                run.fail("weights-at-other-beta", f"two consecutive run() calls on one Sampler: {problems[0]} ({len(problems)} such steps)", volume_variation=vv,
                         random_state=8)
        # runs engineered so that the search ends strictly inside the termination band (1 - 1e-4, 1): what is recorded and what is
        # handed on must still belong to ONE temperature there
        import c10
        n_band = 0
        for sd, N, sig in ((11, 16, 5.0), (12, 48, 8.0), (13, 16, 8.0), (14, 48, 5.0), (15, 32, 6.0)):
            del problems[:]
            got = c10.band_sampler(sd, N, sig)
            if got is None:
                continue
            sb, ratio = got
            bl = float(sb.state.get_history("beta")[-1])
            run.case(key=("band-step", sd), nontrivial=1.0 - 1e-4 < bl < 1.0)
            n_band += int(1.0 - 1e-4 < bl < 1.0)
            if problems:
                run.fail("weights-at-other-beta", f"run whose temperature search ends inside the termination band (betas {[float(b) for b in sb.state.get_history('beta')][-3:]}): "
                         f"{problems[0]}", n_particles=N, sigma=sig, ess_ratio=ratio, random_state=sd)
        run.count("band-terminated runs under the reweighting spy", n_band)
    except Exception as e:
        run.fail("run-raises", f"second run() raised {type(e).__name__}: {e}")
    finally:
        Reweighter.run = orig


def main(tier, seed):
    run = Run(PID, tier, seed)
    run.rule = ("single reweighting steps on synthetic pools (T in 1..8 batches, Gaussian / plateau / spike likelihood "
                "spreads) at arbitrary beta_prev (incl. 0, 1, 1-5e-5), ess_ratio in {0.5,1,2,3}, ESS mode and "
                "volume-variation targets; the oracle is either the real pool or an arbitrary deterministic curve "
                "(noise, bumpy, cliff, decreasing) so that non-monotone ESS(beta) is exercised, as the theorems quantify "
                "over all oracles. Each step: statement clauses on the implementation + bit-exact replay of the "
                "binary64 model with the recorded oracle table. Plus short real runs. Non-trivial: beta advanced.")
    run.assumptions = [
        "_compute_metric_and_weights is a deterministic function of beta within one reweighting (oracle); its body is "
        "covered by C04 (weights) and C20 (ESS, volume metric)",
        "Q theorems idealise the rounding of (hi+lo)*0.5; that lo <= mid <= hi on doubles in [0,1] is monitored by the bit-exact replay",
        "liveness (beta eventually reaches 1) is not claimed",
    ]
    rng = random.Random(seed)
    try:
        translate()
        run.obligation("translate:steps.reweight.Reweighter", True)
    except Exception as e:  # fail closed: anything the translator cannot digest
        run.obligation("translate:steps.reweight.Reweighter", False, str(e))
    run.prove("Props/C05.v", link_rels=["Link/Schedule.v"])
    try:
        sweep(run, tier, rng)
        reweighter_reuse_probe(run, tier, rng)
        real_runs(run, tier, rng)
        second_run_probe(run, tier, rng)
    except Exception:
        import traceback
        run.broken.append(("harness-exception", traceback.format_exc()[-1500:]))

    def search(r):
        sweep(r, "quick", random.Random(777))

    run.finish(search=search)
