"""C10 — rescaling the likelihood shifts log-evidence only."""
import ast
import random

import numpy as np

from common import COQ, REPO, STDLIB_AXIOMS_REALS, RExprTr, Run, TranslateError, get_function, strip_doc, write_if_changed
import c04
import c05

PID = "C10"


def _ns(n):
    return ast.unparse(n).replace(" ", "")


def translate():
    c04.translate()
    c05.translate()

    def need(c, node, msg, w):
        if not c:
            raise TranslateError(f"{w}: line {getattr(node, 'lineno', '?')}: {msg}: {ast.unparse(node)[:200]}")

    w = "mcmc.py:BaseMCMCRunner.run"
    fn = get_function(REPO / "tempest" / "mcmc.py", "BaseMCMCRunner.run")
    asg = [s for s in ast.walk(fn) if isinstance(s, ast.Assign) and _ns(s.targets[0]) == "alpha"]
    need(len(asg) == 4, fn, f"alpha assignments {len(asg)}", w)
    need(_ns(asg[0].value) == "self._compute_acceptance_factor(u_prime,logl_prime)", asg[0], "factor", w)
    ex = asg[1].value
    need(isinstance(ex, ast.Call) and _ns(ex.func) == "np.exp", ex, "exp", w)
    expo = RExprTr({"self.beta": "beta", "logl_prime": "l'", "self.logl": "l", "alpha": "factor"}, w).num(ex.args[0])
    # the correction factors must not read the log-likelihoods
    for cls in ("TPCNRunner", "RWMRunner"):
        f = get_function(REPO / "tempest" / "mcmc.py", f"{cls}._compute_acceptance_factor")
        names = {n.id for n in ast.walk(f) if isinstance(n, ast.Name)} | {n.attr for n in ast.walk(f) if isinstance(n, ast.Attribute)}
        body_names = {n.id for s in strip_doc(f.body) for n in ast.walk(s) if isinstance(n, ast.Name)}
        need("logl_prime" not in body_names and "logl" not in {n.attr for s in strip_doc(f.body) for n in ast.walk(s) if isinstance(n, ast.Attribute)},
             f, f"{cls}: acceptance factor reads the log-likelihood", "mcmc.py")
    rw = _ns(get_function(REPO / "tempest" / "steps" / "reweight.py", "Reweighter._compute_metric_and_weights"))
    need("logw,_=self.state.compute_logw_and_logz(beta)" in rw and "weights=np.exp(logw-np.max(logw))" in rw
         and "ess_est=effective_sample_size(weights)" in rw, fn, "metric from max-shifted weights", "reweight.py")
    mu = _ns(get_function(REPO / "tempest" / "steps" / "mutate.py", "Mutator.run"))
    need("inf_logl_mask=np.isinf(logl)" in mu, fn, "warm-up test", "mutate.py")
    # the returned evidence is recomputed at beta = 1 after the loop (it shifts by c, not by beta_last*c)
    rs = get_function(REPO / "tempest" / "core.py", "SamplerCore.run_sampling")
    tail = [_ns(x) for x in strip_doc(rs.body)]
    k = next((i for i, x in enumerate(tail) if x.startswith("whileself._not_termination()")), None)
    need(k is not None and tail[k + 1:k + 3] == ["_,logz=self.state.compute_logw_and_logz(1.0)", "self.state.set_current('logz',logz)"],
         rs, "final evidence recomputed at beta=1 after the loop", "core.py:run_sampling")
    text = f"""(* GENERATED from mcmc.py, steps/reweight.py, steps/mutate.py by tools/props/c10.py *)
From Coq Require Import Reals.
Local Open Scope R_scope.
Definition accept_exponent (beta l l' factor : R) : R := {expo}.
Definition metric_weights_are_exp_of_logw_minus_max : bool := true.
Definition metric_logw_from_compute_logw_and_logz : bool := true.
Definition warmup_test_is_isinf_of_logl : bool := true.
Definition acceptance_factor_does_not_read_logl : bool := true.
Definition final_evidence_recomputed_at_beta_one : bool := true.
"""
    write_if_changed(COQ / "Gen" / "Shift.v", text)


def pt(u):
    return 8.0 * u - 4.0


def run_one(cfg, seed, c, hole):
    from tempest import Sampler
    cfg = dict(cfg)
    sharp = cfg.pop("sharp", False)   # a likelihood so peaked that the first positive temperature is the search resolution 2^-14
    plateau = cfg.pop("plateau", None)  # a flat-topped likelihood whose plateau has this height: log-likelihoods exactly 0.0 (or exactly -c) occur
    f32 = cfg.pop("f32", False)       # a prior transform that hands out single-precision parameters (the likelihood still returns doubles)
    ptf = (lambda u: (8.0 * u - 4.0).astype(np.float32)) if f32 else pt

    def like(x):
        if hole and x[0] < -3.0:
            return -np.inf
        if plateau is not None:
            r2 = float(np.sum(x ** 2))
            return (plateau if r2 < 4.0 else plateau - 0.75 * (r2 - 4.0)) + c
        if sharp:
            return -sharp * float(np.sum(x ** 2)) + c
        return -0.5 * float(np.sum(x ** 2)) + 0.2 * float(np.sin(2 * x[0])) + c

    s = Sampler(ptf, like, n_dim=2, n_particles=14, random_state=seed, **cfg)
    s.run(n_total=50, progress=False)
    st = s.state
    x, w, l = s.posterior()
    return dict(beta=[float(b) for b in st.get_history("beta")], logz=[float(z) for z in st.get_history("logz")],
                ess=[float(e) for e in st.get_history("ess")], u=np.concatenate(st._history["u"]),
                logl=np.concatenate(st._history["logl"]), w=w, ev=float(s.evidence()[0]),
                calls=[int(v) for v in st.get_history("calls")])


def band_sampler(seed, N, sig, c=0.0):
    """A seeded run engineered to stop at beta_last = 1 - 2^-14 (inside the termination tolerance, not equal to 1).
    Returns (sampler, ess_ratio) or None when the ESS bracket of the warm-up pool is unusable."""
    from tempest import Sampler

    def go(c_, ratio):
        s = Sampler(pt, lambda x: -0.5 * float(np.sum(x ** 2)) / sig ** 2 + c_, n_dim=2, n_particles=N, ess_ratio=ratio,
                    random_state=seed, clustering=False)
        s.run(n_total=N // 2, progress=False)
        return s
    pilot = go(0.0, 2.0)
    l2 = np.concatenate(pilot.state._history["logl"])[:2 * N]

    def ess_of(b):
        w = np.exp(b * l2 - np.max(b * l2))
        return float(w.sum() ** 2 / np.sum(w ** 2))
    e1, e2 = ess_of(1.0), ess_of(1.0 - 2.0 ** -14)
    if not (N < e1 < e2 <= 2 * N):
        return None
    ratio = 0.5 * (e1 + e2) / N
    return go(c, ratio), ratio


def band_probe(run, tier, rng):
    """Runs engineered to stop at beta_last = 1 - 2^-14 (inside the termination tolerance, not equal to 1): the ESS target is
    put between ESS(1) and ESS(1 - 2^-14) of the warm-up pool, so the upper-limit search ends one halving short of 1.
    There the final evidence must still shift by c, while the last recorded one shifts by beta_last*c."""
    from tempest import Sampler
    for rep in range(2 if tier == "quick" else 8):
        seed = rng.randrange(10 ** 6)
        N = rng.choice([16, 48])
        sig = rng.choice([5.0, 8.0])

        def go(c, ratio):
            s = Sampler(pt, lambda x: -0.5 * float(np.sum(x ** 2)) / sig ** 2 + c, n_dim=2, n_particles=N, ess_ratio=ratio,
                        random_state=seed, clustering=False)
            s.run(n_total=N // 2, progress=False)
            st = s.state
            return dict(beta=[float(b) for b in st.get_history("beta")], logz=[float(z) for z in st.get_history("logz")],
                        logl=np.concatenate(st._history["logl"]), ev=float(s.evidence()[0]))

        def ess_of(l, b):
            w = np.exp(b * l - np.max(b * l))
            return float(w.sum() ** 2 / np.sum(w ** 2))
        try:
            pilot = go(0.0, 2.0)
            l2 = pilot["logl"][:2 * N]
            e1, e2 = ess_of(l2, 1.0), ess_of(l2, 1.0 - 2.0 ** -14)
            if not (N < e1 < e2 <= 2 * N):
                run.count("band probe: bracket unusable")
                continue
            ratio = 0.5 * (e1 + e2) / N
            base = go(0.0, ratio)
            inband = 1.0 - 1e-4 < base["beta"][-1] < 1.0
            run.case(key=("band", rep), nontrivial=inband)
            run.count("band probe: run stopped with beta_last in (1-1e-4, 1)" if inband else "band probe: run ended at beta=1")
            for c in (1e3, -37.5):
                r = go(c, ratio)
                what = dict(probe="termination-band", n_particles=N, sigma=sig, ess_ratio=ratio, random_state=seed, shift=c,
                            betas=base["beta"])
                if r["beta"] != base["beta"]:
                    if max(abs(a - b) for a, b in zip(r["beta"], base["beta"])) > 2e-4 or len(r["beta"]) != len(base["beta"]):
                        run.fail("schedule-changed-by-shift", f"schedule {base['beta']} -> {r['beta']}", **what)
                    continue
                for k2, b in enumerate(base["beta"]):
                    if abs(r["logz"][k2] - base["logz"][k2] - b * c) > 1e-9 + 1e-11 * abs(c):
                        run.fail("evidence-shift-wrong", f"iteration {k2 + 1} (beta={b}): shift {r['logz'][k2] - base['logz'][k2]} "
                                 f"instead of {b * c}", **what)
                        break
                if abs(r["ev"] - base["ev"] - c) > 1e-9 + 1e-11 * abs(c):
                    run.fail("final-evidence-shift-wrong", f"final evidence {base['ev']} -> {r['ev']}: shift "
                             f"{r['ev'] - base['ev']!r} instead of c={c} (beta_last={base['beta'][-1]!r})", **what)
        except Exception as e:
            run.fail("run-raises", f"band probe raised {type(e).__name__}: {e}", random_state=seed)


def sweep(run, tier, rng):
    cfgs = [dict(clustering=False), dict(clustering=True, sample="rwm", resample="syst"), dict(clustering=False, volume_variation=0.5),
            dict(clustering=False, volume_variation=0.05), dict(clustering=False, sharp=1000.0, hole=True), dict(clustering=False, sharp=6000.0, hole=True), dict(clustering=False, sample="rwm", sharp=3000.0, hole=True),
            dict(clustering=False, plateau=0.0, hole=False), dict(clustering=False, sample="rwm", plateau=-37.5, hole=True),
            dict(clustering=False, f32=True, hole=False), dict(clustering=False, sample="rwm", resample="syst", f32=True, hole=True)]
    if tier != "quick":
        cfgs += [dict(clustering=True), dict(clustering=False, sample="rwm"), dict(clustering=True, volume_variation=0.5, resample="syst")]
    shifts = [1e-3, -1.0, 37.5, -1e3] if tier == "quick" else [1e-3, -1e-3, 1.0, -1.0, 37.5, -37.5, 1e3, -1e3]
    for ci, cfg in enumerate(cfgs):
        seed = rng.randrange(10 ** 6)
        hole = bool(cfg.get("hole", ci % 2))
        cfg = {k: v for k, v in cfg.items() if k != "hole"}
        try:
            base = run_one(cfg, seed, 0.0, hole)
        except Exception as e:
            run.fail("run-raises", f"run raised {type(e).__name__}: {e}", cfg=cfg, random_state=seed)
            continue
        for c in shifts:
            what = dict(cfg=cfg, random_state=seed, shift=c, likelihood_hole=hole)
            try:
                r = run_one(cfg, seed, c, hole)
            except Exception as e:
                run.fail("run-raises", f"shifted run raised {type(e).__name__}: {e}", **what)
                continue
            run.case(key=(ci, c), nontrivial=True)
            run.count(f"shift={c:g}")
            if cfg.get("sharp"):
                pos = [b for b in base["beta"] if b > 0]
                run.count("sharp likelihood: first positive beta below 1e-4" if pos and pos[0] < 1e-4 else "sharp likelihood: first positive beta >= 1e-4")
            n = min(len(base["beta"]), len(r["beta"]))
            # first divergence of the schedule (a comparison may flip under rounding when it sits on its threshold)
            div = next((k for k in range(n) if abs(base["beta"][k] - r["beta"][k]) > 1e-9), None)
            if div is None and len(base["beta"]) != len(r["beta"]):
                div = n
            if div is not None:
                # rounding can legitimately flip a decision only in the immediate vicinity of its threshold:
                # betas produced by a flipped bisection comparison differ by at most a few bracket widths
                close = div < n and abs(base["beta"][div] - r["beta"][div]) < 2e-4
                if close:
                    run.count("near-threshold divergence (not compared further)")
                    continue
                run.fail("schedule-changed-by-shift", f"temperature schedule differs from iteration {div + 1}: "
                         f"{base['beta'][max(0, div - 1):div + 2]} vs {r['beta'][max(0, div - 1):div + 2]}", **what)
                continue
            if base["u"].shape != r["u"].shape or not np.allclose(base["u"], r["u"], rtol=0, atol=1e-9):
                run.fail("particles-changed-by-shift", "stored particles differ", **what)
                continue
            fin = np.isfinite(base["logl"])
            if not np.allclose(r["logl"][fin], base["logl"][fin] + c, rtol=0, atol=1e-9 * max(1, abs(c))):
                run.fail("logl-not-shifted", "stored log-likelihoods are not the originals plus c", **what)
            for k in range(n):
                want = base["logz"][k] + base["beta"][k] * c
                if abs(r["logz"][k] - want) > 1e-9 + 1e-11 * abs(c):
                    run.fail("evidence-shift-wrong", f"iteration {k + 1} (beta={base['beta'][k]}): logz {base['logz'][k]} -> {r['logz'][k]}, "
                             f"expected shift beta*c={base['beta'][k] * c}", **what)
                    break
                if abs(r["ess"][k] - base["ess"][k]) > 1e-6 * max(1, base["ess"][k]):
                    run.fail("ess-changed-by-shift", f"iteration {k + 1}: ESS {base['ess'][k]} -> {r['ess'][k]}", **what)
                    break
            if abs(r["ev"] - (base["ev"] + c)) > 1e-9 + 1e-11 * abs(c):
                run.fail("final-evidence-shift-wrong", f"final evidence {base['ev']} -> {r['ev']}, expected +{c}", **what)
            if len(r["w"]) != len(base["w"]) or not np.allclose(r["w"], base["w"], rtol=1e-7, atol=1e-12):
                run.fail("posterior-weights-changed-by-shift", "normalised posterior weights differ", **what)
            if r["calls"] != base["calls"]:
                run.fail("calls-changed-by-shift", "number of likelihood calls differs", **what)
    run.sample(dict(cfg=str(cfgs[0]), betas=base["beta"][:6], evidence=base["ev"]))


def main(tier, seed):
    run = Run(PID, tier, seed)
    run.rule = ("paired real runs under one random_state with the log-likelihood shifted by c in {1e-3, -1, 37.5, -1e3, ...}, "
                "over kernel x resampler x clustering x metric mode, half of them with a zero-likelihood region: identical "
                "temperature schedule, particles, ESS, call counts, normalised posterior weights; every recorded evidence "
                "shifted by beta_t*c and the final one by c. A schedule divergence is not reported when the two "
                "temperatures at the first divergent iteration differ by less than 2e-4 (a comparison sitting on its "
                "threshold may flip under rounding).")
    run.assumptions = [
        "float rounding idealised in the theorems (R); the paired-run tolerances are 1e-9 absolute (+1e-11*|c|)",
        "the mutation step is shift-equivariant because the kernel reads logL only through differences (C10_acceptance_invariant) "
        "and resampling reads normalised weights only (hypothesis of C10_simulation, tied by Gen.Shift)",
    ]
    rng = random.Random(seed)
    try:
        translate()
        run.obligation("translate:acceptance exponent + metric weights + warm-up test", True)
    except Exception as e:  # fail closed: anything the translator cannot digest
        run.obligation("translate:acceptance exponent + metric weights + warm-up test", False, str(e))
    run.prove("Props/C10.v", link_rels=["Link/MIS.v", "Link/Schedule.v", "Link/Shift.v"], allowed_axioms=STDLIB_AXIOMS_REALS)
    try:
        sweep(run, tier, rng)
        band_probe(run, tier, rng)
    except Exception:
        import traceback
        run.broken.append(("harness-exception", traceback.format_exc()[-1500:]))
    run.finish(search=None)
