"""C11 — zero-likelihood prior regions are excluded and counted exactly once."""
import ast
import math
import random
from fractions import Fraction

import numpy as np

from common import (COQ, REPO, RExprTr, Run, TranslateError, coq_eval_many, get_function, parse_evals, strip_doc,
                    write_if_changed)

PID = "C11"


def _ns(n):
    return ast.unparse(n).replace(" ", "")


def translate():
    path = REPO / "tempest" / "steps" / "mutate.py"
    w = "mutate.py:Mutator.run"
    fn = get_function(path, "Mutator.run")

    def need(c, node, msg):
        if not c:
            raise TranslateError(f"{w}: line {getattr(node, 'lineno', '?')}: {msg}: {ast.unparse(node)[:200]}")

    body = strip_doc(fn.body)
    warm = next((s for s in body if isinstance(s, ast.If) and _ns(s.test) == "beta==0.0"), None)
    need(warm is not None and isinstance(warm.body[-1], ast.Return), fn, "beta == 0.0 branch ending in return")
    need("beta=self.state.get_current('beta')" in [_ns(s) for s in body], fn, "beta read from state")
    inf_if = next((s for s in warm.body if isinstance(s, ast.If) and _ns(s.test) == "np.any(inf_logl_mask)"), None)
    need(inf_if is not None, warm, "infinite-likelihood block")
    need("inf_logl_mask=np.isinf(logl)" in [_ns(s) for s in warm.body], warm, "mask")
    # the correction must not appear anywhere else
    logz_writes = [n for n in ast.walk(fn) if isinstance(n, ast.Call) and _ns(n.func) == "self.state.set_current"
                   and n.args and isinstance(n.args[0], ast.Constant) and n.args[0].value == "logz"]
    inside = [n for n in ast.walk(inf_if) if n in logz_writes]
    need(len(logz_writes) == 1 and len(inside) == 1, fn, "exactly one logz write, inside the infinite-likelihood block")
    asg = [s for s in inf_if.body if isinstance(s, ast.Assign) and _ns(s.targets[0]) == "logz"]
    need(len(asg) == 1, inf_if, "logz assignment")
    expr = RExprTr({"self.state.get_current('logz')": "cur", "np.log(n_finite/n_total)": "lf"}, w).num(asg[0].value)
    srcs = [_ns(s) for s in inf_if.body]
    need("n_finite=len(finite_idx)" in srcs and "n_total=len(logl)" in srcs, inf_if, "fraction")
    rep = next((s for s in inf_if.body if isinstance(s, ast.If) and _ns(s.test) == "len(finite_idx)>0"), None)
    need(rep is not None, inf_if, "replacement block")
    rsrc = [_ns(s) for s in rep.body]
    need(rsrc[0] == "idx=np.random.choice(finite_idx,size=len(infinite_idx),replace=True)", rep.body[0], "replacement draw")
    fields = []
    for s in rep.body[1:]:
        t = _ns(s)
        for f in ("x", "u", "logl"):
            if t == f"{f}[infinite_idx]={f}[idx]":
                fields.append(f)
        if isinstance(s, ast.If) and _ns(s.test) == "blobsisnotNone" and [_ns(x) for x in s.body] == ["blobs[infinite_idx]=blobs[idx]"]:
            fields.append("blobs")
    for f in ("x", "u", "logl"):
        need(f"self.state.set_current('{f}',{f})" in rsrc, rep, f"write-back of {f}")
    text = f"""(* GENERATED from /repo/tempest/steps/mutate.py (warm-up block of Mutator.run) by tools/props/c11.py *)
From Coq Require Import Reals List Bool String.
Import ListNotations.
Local Open Scope R_scope.
Definition warmup_logz (cur lf : R) : R := {expr}.
Definition correction_only_inside_beta_zero_branch : bool := true.
Definition correction_only_when_some_draw_is_infinite : bool := true.
Definition log_fraction_is_n_finite_over_n_total : bool := true.
Definition replaced_fields : list string := [{"; ".join('"%s"%%string' % f for f in fields)}].
Definition replacement_index_drawn_from_finite_rows : bool := true.
"""
    write_if_changed(COQ / "Gen" / "Warmup.v", text)


class Schedule:
    """likelihood that is finite exactly on the first m_k evaluations of warm-up batch k"""

    def __init__(self, n, ms, deep=False):
        # deep: some of the FINITE values are far below log(DBL_MIN) (their exp underflows): small likelihood is not zero likelihood
        self.n, self.ms, self.calls, self.deep = n, ms, 0, deep

    def __call__(self, x):
        if np.ndim(x) == 2:  # vectorised evaluation: one value per row, in row order
            return np.array([self(xi) for xi in x])
        k, j = divmod(self.calls, self.n)
        self.calls += 1
        if k < len(self.ms) and j >= self.ms[k]:
            return -np.inf
        if self.deep and j % 3:
            return (-800.0, -1e5)[j % 3 - 1] - 0.5 * float(np.sum(x ** 2))
        return -0.5 * float(np.sum(x ** 2))


def drive(n, ms, seed, extra_iters=2, vectorize=False, deep=False):
    from tempest import Sampler
    np.random.seed(seed)
    like = Schedule(n, ms, deep)
    K = len(ms)
    s = Sampler(lambda u: 4 * u - 2, like, n_dim=2, n_particles=n, ess_ratio=float(K), clustering=False, vectorize=vectorize)
    s._core._initialize_fresh()
    rec = []
    for it in range(K):
        s.sample()
        rec.append((float(s.state.get_current("beta")), float(s.state.get_current("logz"))))
    return s, rec


def sweep(run, tier, rng):
    reps = 30 if tier == "quick" else 400
    cases = []
    for t in range(reps):
        n = rng.choice([4, 6, 8, 16])
        K = rng.randint(1, 8)
        mode = rng.choice(["half", "mixed", "mixed", "full", "rare"])
        if mode == "half":
            ms = [n // 2] * K
        elif mode == "full":
            ms = [n] * K
        elif mode == "rare":
            ms = [rng.choice([1, 1, 2]) for _ in range(K)]
        else:
            ms = [rng.randint(1, n) for _ in range(K)]
        seed = rng.randrange(2 ** 31)
        vec = t % 3 == 2
        deep = t % 4 in (1, 2)
        what = dict(n_particles=n, finite_counts=ms, np_seed=seed, vectorize=vec, finite_values_below_log_dbl_min=deep)
        try:
            s, rec = drive(n, ms, seed, vectorize=vec, deep=deep)
        except Exception as e:
            run.fail("warmup-raises", f"warm-up raised {type(e).__name__}: {e}", **what)
            continue
        run.case(key=("warm", t), nontrivial=any(m < n for m in ms))
        run.count(f"K={K}")
        run.count(f"mode={mode}")
        if any(b != 0.0 for b, _ in rec):
            run.notes.append(f"case {t}: left beta=0 after {[b for b, _ in rec].index(next(b for b, _ in rec if b != 0.0))} iterations")
        logl_hist = s.state.get_history("logl", flat=True)
        if np.any(np.isinf(logl_hist)) or np.any(logl_hist < -1e300):
            run.fail("inf-particle-stored", "a zero-likelihood particle was committed to history", **what)
        # excluded means excluded in every coordinate system: the stored unit-cube position of a replaced draw is the donor's
        u_hist = s.state.get_history("u", flat=True)
        x_hist = s.state.get_history("x", flat=True)
        if u_hist.shape != x_hist.shape or not np.array_equal(4 * u_hist - 2, x_hist):
            badrow = int(np.argmax(np.any(4 * u_hist - 2 != x_hist, axis=1))) if u_hist.shape == x_hist.shape else -1
            run.fail("zero-likelihood-position-stored", f"stored row {badrow}: the unit-cube position does not map to the stored (finite-likelihood) "
                     f"parameters: the position of a zero-likelihood draw was kept", **what)
        fr = [Fraction(m, n) for m in ms]
        lo, hi = math.log(float(min(fr))), 0.0
        for k, (b, lz) in enumerate(rec):
            if b != 0.0:
                break
            if ms[k] < n and abs(lz - math.log(ms[k] / n)) > 1e-12:
                run.fail("warmup-evidence-not-own-fraction",
                         f"warm-up iteration {k + 1}: recorded logz={lz!r}, log(n_finite/n_total)={math.log(ms[k] / n)!r}", **what)
                break
            if not (lo - 1e-12 <= lz <= hi + 1e-12):
                run.fail("warmup-evidence-double-counted",
                         f"warm-up iteration {k + 1}: recorded logz={lz!r} outside [log min f, 0]=[{lo!r}, 0]", **what)
                break
        cases.append((n, ms, rec, what))
    if cases:
        run.sample(dict(n=cases[0][0], finite_counts=cases[0][1], recorded=[(b, z) for b, z in cases[0][2]]))
    items = ";\n".join("(map (fun p => let q := Qred (snd p) in (Qnum q, Zpos (Qden q))) (warm_run false [] ["
                       + "; ".join(f"({n}, {m})" for m in ms) + "]%nat))" for n, ms, _, _ in cases)
    src = f"""From Coq Require Import List QArith.
From Tempest Require Import Model.Warmup.
Import ListNotations.
Eval vm_compute in [
{items}
].
"""
    (ok, out), = coq_eval_many(run.scratch, [src])
    if not ok:
        run.broken.append(("correspondence-coqc", out[-1500:]))
        return
    res = parse_evals(out)[0]
    for (n, ms, rec, what), zs in zip(cases, res):
        for k, ((b, lz), (num, den)) in enumerate(zip(rec, zs)):
            if b != 0.0:
                break
            mz = math.log(num / den) if num > 0 else -math.inf
            if abs(lz - mz) > 1e-12:
                run.disagree("recorded warm-up logz vs Coq model (exact Q)", iteration=k + 1, impl=lz, model=mz, **what)
                # the model IS the statement ("the supported fraction, counted once"): a deviation is a failing input
                run.fail("warmup-evidence-wrong", f"warm-up iteration {k + 1}: recorded logz={lz!r}; the supported-fraction estimate "
                         f"counted once is {mz!r}", **what)
                break
    run.count("model_cases", len(cases))


def all_inf_probe(run):
    """edge of the quantifier: a warm-up batch with zero finite draws (listed finding)."""
    try:
        s, rec = drive(4, [0, 4], 11)
        logl = s.state.get_history("logl", flat=True)
        if np.any(np.isinf(logl)) or any(z == -np.inf for _, z in rec):
            run.fail("warmup-all-inf-batch", "a warm-up batch with zero finite draws stores -inf particles and records logz=-inf",
                     n_particles=4, finite_counts=[0, 4])
    except Exception as e:
        run.fail("warmup-all-inf-batch", f"a warm-up batch with zero finite draws raises {type(e).__name__}", n_particles=4,
                 finite_counts=[0, 4])


def zero_draw_probe(run):
    """Metropolis step with the uniform draws forced to exactly 0.0 (a legal value of np.random.rand): a proposal in the
    zero-likelihood region has acceptance probability 0 and must still be rejected, so no -inf particle is stored."""
    from tempest.mcmc import parallel_mcmc
    from tempest.modes import ModeStatistics
    orig = np.random.rand
    for kernel in ("rwm", "tpcn"):
        nr = np.random.RandomState(4)
        u = np.clip(0.5 + 0.02 * nr.rand(24, 2), 0, 1)
        x = 4 * u - 2
        like = lambda X: (np.array([(-0.5 * float(np.sum(v ** 2)) if v[0] >= 0.0 else -np.inf) for v in X]), None)
        logl, _ = like(x)
        ms = ModeStatistics(np.array([[0.5, 0.5]]), np.array([np.eye(2) * 0.05]), np.array([5.0]))

        def zeros(*shape):
            return np.zeros(shape) if shape else 0.0

        np.random.seed(9)
        np.random.rand = zeros
        try:
            out = parallel_mcmc(u=u, x=x, logl=logl, blobs=None, assignments=np.zeros(24, dtype=int), beta=0.7, mode_stats=ms,
                                log_likelihood=like, prior_transform=lambda v: 4 * v - 2, progress_bar=None, n_steps=1, n_max=2,
                                sample=kernel, verbose=False)
        finally:
            np.random.rand = orig
        run.case(key=("zero-draw", kernel), nontrivial=True)
        if np.any(np.isinf(out[2])):
            run.fail("inf-particle-accepted", f"{kernel}: with the Metropolis uniform equal to 0.0 a proposal of zero likelihood was accepted "
                     f"({int(np.sum(np.isinf(out[2])))} walkers now have logl=-inf)", kernel=kernel)


def beta_positive_probe(run, rng):
    """the correction is not applied once beta > 0"""
    from tempest import Sampler
    np.random.seed(3)
    s = Sampler(lambda u: 4 * u - 2, lambda x: -0.5 * float(np.sum(x ** 2)) if x[0] > -1.9 else -np.inf, n_dim=2,
                n_particles=16, clustering=False)
    s.run(n_total=32, progress=False)
    betas = s.state.get_history("beta")
    logz = s.state.get_history("logz")
    run.case(key="beta>0", nontrivial=True)
    for k in range(1, len(betas)):
        if betas[k] > 0:
            # recorded logz at beta>0 must be the reweighter's MIS value over the earlier batches
            from tempest.state_manager import StateManager
            st = StateManager(2)
            for key in ("u", "x", "logl", "beta", "logz", "iter"):
                st._history[key] = [a for a in s.state._history[key][:k]]
            _, want = st.compute_logw_and_logz(float(betas[k]))
            if abs(want - logz[k]) > 1e-9 * max(1, abs(want)):
                run.fail("correction-at-positive-beta", f"iteration {k + 1} (beta={betas[k]}) recorded logz={logz[k]} but MIS over the earlier batches gives {want}")
            break


def main(tier, seed):
    run = Run(PID, tier, seed)
    run.rule = ("warm-up phases driven on the real sampler with a likelihood finite exactly on the first m_k of n draws of "
                "batch k: K in 1..8 prior-sampling iterations (ess_ratio=K), n in {4,6,8,16}, m_k constant-half / mixed / "
                "rare (1-2 of n) / full; recorded logz history compared with ln of the Coq model's rational Z_k and with "
                "the statement's clauses. Non-trivial: some batch had a -inf draw.")
    run.assumptions = [
        "the final evidence's convergence to the supported integral is an ensemble claim and is not carried",
        "a warm-up batch with zero finite draws is a listed finding (probability (1-f)^n)",
    ]
    rng = random.Random(seed)
    try:
        translate()
        run.obligation("translate:steps.mutate warm-up block", True)
    except Exception as e:  # fail closed: anything the translator cannot digest
        run.obligation("translate:steps.mutate warm-up block", False, str(e))
    run.prove("Props/C11.v", link_rels=["Link/Warmup.v"])
    try:
        sweep(run, tier, rng)
        all_inf_probe(run)
        zero_draw_probe(run)
        beta_positive_probe(run, rng)
    except Exception:
        import traceback
        run.broken.append(("harness-exception", traceback.format_exc()[-1500:]))
    run.finish(search=None)
