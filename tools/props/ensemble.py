"""Seeded ensembles of real runs on targets with known posterior / evidence (validation for C01, C02)."""
import math
import multiprocessing as mp
import os
import warnings

import numpy as np

S = 0.7


def pt(u):
    return 10.0 * u - 5.0


def ll_interior(x):
    return -0.5 * float(np.sum(x ** 2)) / S ** 2


def ll_edge(x):
    return -0.5 * float(np.sum((x - np.array([-5.0, 0.0])) ** 2)) / S ** 2


def ll_periodic(x):
    # periodic in coordinate 0 (x0 in [-5,5) wraps): von-Mises-like; Gaussian in coordinate 1
    return 2.0 * math.cos(2 * math.pi * (x[0] + 5.0) / 10.0) - 0.5 * float(x[1] ** 2) / S ** 2


def ll_half(x):
    # zero likelihood on half of the prior support (not at the cube boundary)
    return -np.inf if x[0] < 0.0 else -0.5 * float(np.sum(x ** 2)) / S ** 2


RHO = 0.9
_PREC = np.linalg.inv(np.array([[1.0, RHO], [RHO, 1.0]]) * S ** 2)


def ll_corr(x):
    # strongly correlated Gaussian: the fitted scale matrices are far from diagonal
    return -0.5 * float(x @ _PREC @ x)


def ll_periodic_shift(x):
    # the same with the mode one tenth of a period away from the seam: a biased kernel shows in E[sin]
    return 2.0 * math.cos(2 * math.pi * (x[0] + 4.0) / 10.0) - 0.5 * float(x[1] ** 2) / S ** 2


def ll_bimodal(x):
    # two well separated modes of unequal mass 0.3 (at x0 = -2) and 0.7 (at x0 = +2), same shape
    a = math.log(0.3) - 0.5 * float((x[0] + 2.0) ** 2 + x[1] ** 2) / 0.4 ** 2
    b = math.log(0.7) - 0.5 * float((x[0] - 2.0) ** 2 + x[1] ** 2) / 0.4 ** 2
    return float(np.logaddexp(a, b))


def ll_corner(x):
    # a Gaussian sitting in the corner (-5, -5) of the prior box: a quarter of its mass is inside
    return -0.5 * float(np.sum((x + 5.0) ** 2)) / S ** 2


TARGETS = {
    "interior4": dict(like=ll_interior, logz=4 * math.log(math.sqrt(2 * math.pi) * S / 10.0), mean1=0.0, var1=S ** 2, kw={}, n_dim=4),
    "corner_periodic": dict(like=ll_corner, logz=math.log(2 * math.pi * S ** 2 / 400.0), mean1=None, var1=None, kw={"periodic": [0, 1]}),
    "corner_reflective": dict(like=ll_corner, logz=math.log(2 * math.pi * S ** 2 / 400.0), mean1=None, var1=None, kw={"reflective": [0, 1]}),
    "bimodal": dict(like=ll_bimodal, logz=math.log(2 * math.pi * 0.4 ** 2 / 100.0), mean1=0.0, var1=0.4 ** 2, kw={}),
    # the edge target with its abutting coordinate declared reflective
    "edge_reflective": dict(like=ll_edge, logz=math.log(2 * math.pi * S ** 2 / 200.0), mean1=0.0, var1=S ** 2, kw={"reflective": [0]}),
    "periodic_shift": dict(like=ll_periodic_shift, logz=None, mean1=0.0, var1=S ** 2, kw={"periodic": [0]}, phase0=4.0),
    "corr": dict(like=ll_corr, logz=math.log(2 * math.pi * S ** 2 * math.sqrt(1 - RHO ** 2) / 100.0), mean1=0.0, var1=S ** 2, kw={}),
    "half": dict(like=ll_half, logz=math.log(0.5 * 2 * math.pi * S ** 2 / 100.0), mean1=0.0, var1=S ** 2, kw={}),
    "interior": dict(like=ll_interior, logz=math.log(2 * math.pi * S ** 2 / 100.0), mean1=0.0, var1=S ** 2, kw={}),
    "edge": dict(like=ll_edge, logz=math.log(2 * math.pi * S ** 2 / 200.0), mean1=0.0, var1=S ** 2, kw={}),
    "periodic": dict(like=ll_periodic, logz=None, mean1=0.0, var1=S ** 2, kw={"periodic": [0]}, phase0=5.0),
}


class ScramblePool:
    """a user pool as multiprocessing offers it: map / imap return results in task order (evaluated in a scrambled order), imap_unordered
    hands them back in completion order - only the ordered variants may be used for pairing values with points"""

    def __init__(self, seed):
        import random as _r
        self.rng = _r.Random(seed)

    def map(self, f, xs):
        xs = list(xs)
        order = list(range(len(xs)))
        self.rng.shuffle(order)
        out = [None] * len(xs)
        for i in order:
            out[i] = f(xs[i])
        return out

    def imap(self, f, xs, chunksize=1):
        return iter(self.map(f, xs))

    def imap_unordered(self, f, xs, chunksize=1):
        out = self.map(f, xs)
        self.rng.shuffle(out)
        return iter(out)


def one(a):
    target, cfg, seed, npart = a
    warnings.simplefilter("ignore")
    from tempest import Sampler
    T = TARGETS[target]
    kw = dict(cfg)
    if kw.pop("pool_kind", None) == "scramble":
        kw["pool"] = ScramblePool(seed)
    kw.update(T["kw"])
    try:
        s = Sampler(pt, T["like"], n_dim=T.get("n_dim", 2), n_particles=npart, random_state=seed, **kw)
        s.run(n_total=4 * npart, progress=False)
        x, w, l = s.posterior(trim_importance_weights=False)
        m = np.sum(w[:, None] * x, axis=0)
        v = np.sum(w[:, None] * (x - m) ** 2, axis=0)
        ph = 2 * math.pi * (x[:, 0] + T.get("phase0", 5.0)) / 10.0
        # the default call (trimmed weights) and equally weighted draws (resample=True on top of the default trimming)
        xt, wt, _ = s.posterior()
        xr, wr, _ = s.posterior(resample=True)
        mt = np.sum(wt[:, None] * xt, axis=0)
        mr = np.sum(wr[:, None] * xr, axis=0)
        # the weights are functions of the stored log-likelihoods: each must be the likelihood of the sample it is stored with
        lmis = int(sum(1 for xi, li in zip(x, l) if np.isfinite(li) and abs(float(T["like"](xi)) - float(li)) > 1e-9 * (1 + abs(float(li)))))
        extra = dict(logl_mismatch=lmis, var_trim=np.sum(wt[:, None] * (xt - mt) ** 2, axis=0).tolist(), var_res=np.sum(wr[:, None] * (xr - mr) ** 2, axis=0).tolist(),
                     mean_res=mr.tolist())
        return dict(ok=True, **extra, logz=float(s.evidence()[0]), mean=m.tolist(), var=v.tolist(),
                    circ=[float(np.sum(w * np.cos(ph))), float(np.sum(w * np.sin(ph)))],
                    mass_left=float(np.sum(w[x[:, 0] < 0.0])), cdf0=float(np.sum(w[x[:, 0] < 2.0])),
                    cov01=float(np.sum(w * (x[:, 0] - m[0]) * (x[:, 1] - m[1]))))
    except Exception as e:
        import traceback
        tb = traceback.format_exc()
        # the listed C14 finding (a cluster with at most d distinct training points) reached by a real run
        known = type(e).__name__ == "LinAlgError" and "fit_mvstud" in tb and "from_particles" in tb
        return dict(ok=False, err=f"{type(e).__name__}: {e}", known_c14=known)


ABORTED_BY_C14 = []   # (target, cfg, seed) of runs aborted by the listed C14 finding; reported in the evidence by the callers


def run_ensemble(target, cfg, R, npart, seed0):
    """R seeded runs. Runs aborted by the listed C14 finding (LinAlgError in ModeStatistics.from_particles) are recorded in
    ABORTED_BY_C14 and left out of the returned list; every other failure stays in it with ok=False."""
    jobs = [(target, cfg, seed0 + i, npart) for i in range(R)]
    with mp.get_context("fork").Pool(min(16, os.cpu_count() or 4)) as p:
        res = p.map(one, jobs)
    for j, r in zip(jobs, res):
        if not r["ok"] and r.get("known_c14"):
            ABORTED_BY_C14.append(dict(target=target, cfg=str(cfg), n_particles=npart, random_state=j[2]))
    return [r for r in res if r["ok"] or not r.get("known_c14")]


def stats(vals, true):
    vals = np.asarray(vals, dtype=float)
    se = float(np.std(vals, ddof=1) / math.sqrt(len(vals)))
    return float(np.mean(vals) - true), se
