"""C01 — weighted posterior samples estimate posterior expectations consistently (partial proof + ensemble validation)."""
import math

import numpy as np
import random

from common import STDLIB_AXIOMS_REALS, Run, TranslateError
import c03
import c04
import c05
import c06
import c12
import ensemble as ens

PID = "C01"


def translate():
    c04.translate(); c05.translate(); c06.translate(); c12.translate(); c03.translate()


def validate(run, tier):
    # the DEFAULT call posterior() trims the weights (ess_trim = 0.99): the samples it returns drop the lowest-weight (tail) particles, which
    # costs a systematic few per cent of the variance that does not shrink with the particle count (listed finding); measured as the paired
    # difference to the untrimmed estimate of the same runs
    res_t = [r for r in ens.run_ensemble("interior", dict(clustering=False), 96, 256, 6100) if r["ok"]]
    if res_t:
        dl = np.array([r["var_trim"][1] - r["var"][1] for r in res_t])
        md, sd = float(np.mean(dl)), float(np.std(dl) / math.sqrt(len(dl)))
        run.case(key=("default-trimming", 256), nontrivial=True)
        run.extra["default_trimming_variance_shift_N256"] = [round(md, 4), round(sd, 4)]
        if abs(md) > 4 * sd and abs(md) > 0.005 * ens.TARGETS["interior"]["var1"]:
            run.fail("default-trimming-truncation-bias", f"posterior() with its default trimming, 256 particles, {len(res_t)} seeds: variance estimate "
                     f"{md:+.4f} (se {sd:.4f}) against the untrimmed estimate of the same runs (truth {ens.TARGETS['interior']['var1']:.2f})",
                     target="interior", n_particles=256, runs=len(res_t), seeds="6100..")
    R = 24 if tier == "quick" else 96
    npart = 64
    cfgs = [dict(clustering=False), dict(clustering=True, sample="rwm", resample="syst")]
    if tier != "quick":
        cfgs += [dict(clustering=True), dict(clustering=False, sample="rwm"), dict(clustering=False, resample="syst", volume_variation=0.5)]
    for target in ("interior", "periodic", "periodic_shift", "edge", "corr", "bimodal", "edge_reflective", "half"):
        few = [dict(clustering=False), dict(clustering=True)][:1 if tier == "quick" else 2]
        if target == "bimodal":
            few = [dict(clustering=True), dict(clustering=False, sample="rwm", resample="syst")][:1 if tier == "quick" else 2]
        if target == "half":
            few = [dict(clustering=False), dict(clustering=False, sample="rwm")][:1 if tier == "quick" else 2]
        for cfg in (cfgs if target not in ("corr", "periodic_shift", "bimodal", "edge_reflective", "half") else few):
            res = ens.run_ensemble(target, cfg, R, npart, 5000)
            bad = [r for r in res if not r["ok"]]
            what = dict(target=target, cfg=cfg, runs=R, n_particles=npart, seeds="5000..")
            if bad:
                run.fail("ensemble-run-raises", f"{len(bad)} of {R} runs raised: {bad[0]['err']}", **what)
                continue
            T = ens.TARGETS[target]
            run.case(key=(target, str(cfg)), nontrivial=True)
            nm = sum(r.get("logl_mismatch", 0) for r in res)
            if nm:
                run.fail("posterior-estimate-biased", f"over {R} seeds: {nm} returned samples carry a log-likelihood that is not the likelihood at the sample "
                         f"(the importance weights are computed from it)", **what)
            e_m, se_m = ens.stats([r["mean"][1] for r in res], T["mean1"])
            e_v, se_v = ens.stats([r["var"][1] for r in res], T["var1"])
            run.extra.setdefault("ensemble", []).append(dict(target=target, cfg=str(cfg), mean_err=round(e_m, 4), mean_se=round(se_m, 4),
                                                             var_err=round(e_v, 4), var_se=round(se_v, 4)))
            # Monte-Carlo error (6 standard errors) plus a finite-particle allowance
            if abs(e_m) > 6 * se_m + 0.03 or abs(e_v) > 6 * se_v + 0.06:
                run.fail("posterior-estimate-biased", f"over {R} seeds: posterior mean error {e_m:+.3f} (se {se_m:.3f}), variance error {e_v:+.3f} (se {se_v:.3f})", **what)
            if target == "interior":
                # the same expectations from the default call (trimmed weights) and from equally weighted draws (resample=True)
                for nm, key in (("posterior() with its default trimming", "var_trim"), ("posterior(resample=True)", "var_res")):
                    e2, se2 = ens.stats([r[key][1] for r in res], T["var1"])
                    run.extra["ensemble"][-1][key + "_err"] = [round(e2, 4), round(se2, 4)]
                    if abs(e2) > 6 * se2 + 0.08:
                        run.fail("posterior-estimate-biased", f"over {R} seeds: variance estimated from {nm}: error {e2:+.3f} (se {se2:.3f})", **what)
            if target.startswith("periodic"):
                # the periodic coordinate itself: circular moments of a von Mises (kappa = 2) posterior, mode at phase 0
                from scipy import special
                m1 = float(special.iv(1, 2.0) / special.iv(0, 2.0))
                e_c, se_c = ens.stats([r["circ"][0] for r in res], m1)
                e_s, se_s = ens.stats([r["circ"][1] for r in res], 0.0)
                run.extra["ensemble"][-1].update(cos_err=round(e_c, 4), cos_se=round(se_c, 4), sin_err=round(e_s, 4), sin_se=round(se_s, 4))
                if abs(e_c) > 6 * se_c + 0.03 or abs(e_s) > 6 * se_s + 0.03:
                    run.fail("periodic-coordinate-biased", f"{target}: circular moments of the periodic coordinate over {R} seeds: E[cos] error "
                             f"{e_c:+.3f} (se {se_c:.3f}), E[sin] error {e_s:+.3f} (se {se_s:.3f})", **what)
            if target == "half":
                # a likelihood that is zero for x0 < 0: no posterior mass there, and coordinate 0 is a half-Gaussian
                m0 = ens.S * math.sqrt(2 / math.pi)
                e_h, se_h = ens.stats([r["mean"][0] for r in res], m0)
                forbidden = max(r["mass_left"] for r in res)
                run.extra["ensemble"][-1].update(half_mean_err=round(e_h, 4), half_mean_se=round(se_h, 4), max_mass_where_L_is_zero=forbidden)
                if forbidden > 0.0:
                    run.fail("posterior-mass-where-likelihood-is-zero", f"half-supported target: a run returns posterior weight {forbidden:.3g} on samples "
                             f"with zero likelihood", **what)
                if abs(e_h) > 6 * se_h + 0.03:
                    run.fail("posterior-estimate-biased", f"half-supported target: mean of the constrained coordinate off by {e_h:+.3f} (se {se_h:.3f}) over {R} seeds", **what)
                continue
            if target == "bimodal":
                # mode masses (0.3 / 0.7) and a marginal CDF value: P(x0 < 2) = 0.3 + 0.7/2
                e_m, se_m = ens.stats([r["mass_left"] for r in res], 0.3)
                e_c, se_c = ens.stats([r["cdf0"] for r in res], 0.65)
                run.extra["ensemble"][-1].update(mass_err=round(e_m, 4), mass_se=round(se_m, 4), cdf_err=round(e_c, 4), cdf_se=round(se_c, 4))
                if abs(e_m) > 6 * se_m + 0.03 or abs(e_c) > 6 * se_c + 0.03:
                    run.fail("mode-mass-biased", f"bimodal target (masses 0.3/0.7): mass of the left mode off by {e_m:+.3f} (se {se_m:.3f}), "
                             f"P(x0<2) off by {e_c:+.3f} (se {se_c:.3f}) over {R} seeds", **what)
                continue
            if target == "corr":
                e_c, se_c = ens.stats([r["cov01"] for r in res], ens.RHO * ens.S ** 2)
                run.extra["ensemble"][-1].update(cov_err=round(e_c, 4), cov_se=round(se_c, 4))
                if abs(e_c) > 6 * se_c + 0.06:
                    run.fail("posterior-estimate-biased", f"correlated target (rho={ens.RHO}): posterior covariance error {e_c:+.3f} (se {se_c:.3f}) over {R} seeds", **what)
            if target in ("edge", "edge_reflective"):
                # coordinate 0 abuts the hard boundary x0 = -5: posterior is a half-Gaussian there
                true0 = -5.0 + ens.S * math.sqrt(2 / math.pi)
                e0, se0 = ens.stats([r["mean"][0] for r in res], true0)
                run.extra["ensemble"][-1].update(edge_mean_err=round(e0, 4), edge_mean_se=round(se0, 4))
                if abs(e0) > 6 * se0 + 0.02:
                    run.fail("hard-boundary-bias-in-posterior", f"posterior abutting a hard prior boundary: mean of the abutting coordinate is off by {e0:+.3f} (se {se0:.3f}) over {R} seeds",
                             **what)
    run.sample(dict(kind="ensemble", first=run.extra["ensemble"][0]))


def exact_history_probe(run, tier):
    """A history of exact draws with UNEQUAL batch sizes (as after resuming with another n_particles): 2000 draws from the
    beta=0.25 tempered target and 40000 from the target itself, each with its exact normaliser. The weighted posterior
    variance and an interval probability must match the truth (deterministic given the fixed generator)."""
    from tempest.state_manager import StateManager
    nr = np.random.RandomState(20240)
    S = ens.S
    st = StateManager(2)
    batches = [(0.25, 2000), (1.0, 40000)] if tier == "quick" else [(0.25, 2000), (0.6, 500), (1.0, 40000)]
    for it, (b, n) in enumerate(batches, 1):
        x = nr.randn(3 * n, 2) * S / math.sqrt(b)
        x = x[np.all(np.abs(x) < 5.0, axis=1)][:n]
        logl = -0.5 * np.sum(x ** 2, axis=1) / S ** 2
        st.update_current({"u": (x + 5.0) / 10.0, "x": x, "logl": logl, "beta": b, "logz": math.log(2 * math.pi * S ** 2 / b / 100.0), "iter": it})
        st.commit_current_to_history()
    logw, _ = st.compute_logw_and_logz(1.0)
    w = np.exp(logw - np.max(logw))
    w /= w.sum()
    xs = st.get_history("x", flat=True)
    m = np.sum(w * xs[:, 1])
    var = float(np.sum(w * (xs[:, 1] - m) ** 2))
    p1 = float(np.sum(w * (np.abs(xs[:, 1]) < S)))
    ess = 1.0 / float(np.sum(w ** 2))
    run.case(key=("exact-history", len(batches)), nontrivial=True)
    run.extra["exact_history"] = dict(batches=batches, var=round(var, 4), true_var=S ** 2, p_within_1sigma=round(p1, 4), ess=round(ess))
    se_v = S ** 2 * math.sqrt(2.0 / ess)
    se_p = math.sqrt(0.6827 * 0.3173 / ess)
    what = dict(probe="exact draws, unequal batch sizes", batches=batches, generator="RandomState(20240)")
    if abs(var - S ** 2) > 6 * se_v or abs(p1 - 0.6827) > 6 * se_p:
        run.fail("posterior-estimate-biased", f"history of exact draws with batch sizes {[n for _, n in batches]}: weighted variance {var:.4f} "
                 f"(truth {S ** 2:.4f}, se {se_v:.4f}), P(|x|<sigma) {p1:.4f} (truth 0.6827, se {se_p:.4f})", **what)


def stored_evidence_probe(run, tier):
    """The mixture weights divide by the evidences stored with the batches: every stored (beta_t, logz_t) pair must be the evidence
    estimate, at beta_t, of the history that existed when the batch was created - in ESS mode and in dynamic mode with a
    binding target (where the chosen temperature is strictly below the ESS limit)."""
    from tempest import Sampler
    from tempest.state_manager import StateManager
    for cfg in (dict(clustering=False), dict(clustering=False, volume_variation=0.03), dict(clustering=True, sample="rwm", volume_variation=0.05)):
        s = Sampler(ens.pt, ens.ll_interior, n_dim=2, n_particles=32, random_state=77, **cfg)
        # n_total well above what one iteration at beta = 1 delivers: several consecutive iterations at the same temperature
        s.run(n_total=200 if "volume_variation" not in cfg else 64, progress=False)
        h = s.state._history
        betas = [float(b) for b in h["beta"]]
        T = len(betas)
        bad = []
        for t in range(1, T):
            if betas[t] == 0.0:
                continue
            st = StateManager(2)
            for k in range(t):
                st.update_current({"u": h["u"][k], "x": h["x"][k], "logl": h["logl"][k], "beta": betas[k], "logz": float(h["logz"][k]), "iter": k})
                st.commit_current_to_history()
            _, lz = st.compute_logw_and_logz(betas[t])
            if abs(float(lz) - float(h["logz"][t])) > 1e-9 * max(1.0, abs(float(lz))):
                bad.append((t + 1, betas[t], float(h["logz"][t]), float(lz)))
        run.case(key=("stored-evidence", str(cfg)), nontrivial=True)
        run.count(f"stored-evidence probe: {sum(1 for a, b in zip(betas, betas[1:]) if a == b and a > 0)} consecutive iterations at one positive temperature")
        if bad:
            t, b, got, want = bad[0]
            run.fail("stored-evidence-incoherent", f"{len(bad)} of {T} batches carry an evidence that is not the estimate at their own temperature; "
                     f"first: iteration {t}, beta={b!r}: stored {got!r}, estimate from the earlier batches {want!r}", cfg=cfg, random_state=77, n_particles=32)


def main(tier, seed):
    run = Run(PID, tier, seed)
    run.rule = ("proof obligations (identities tied to the generated code) + validation: seeded ensembles (24 quick / 96 thorough "
                "runs per cell, n_particles=64, seeds 5000..) on an interior Gaussian, a target periodic in one coordinate and a "
                "Gaussian abutting a hard prior face, for tpCN/mult/no clustering and RWM/syst/clustering (more cells in the "
                "thorough tier); posterior mean and variance of the free coordinate must agree with the truth within 6 "
                "standard errors plus a finite-particle allowance (0.03 / 0.06). The ensemble is a validation; it is not a proof.")
    run.assumptions = [
        "PARTIAL: the size of the finite-particle bias, and that adaptive step sizes and plug-in logZ_t do not bias the limit, are not carried",
        "the statement about the sampling distribution over all seeds is validated on seeded ensembles only",
        "kernel invariance is imported from C03 with its guards; the hard-boundary bias is a known finding inherited from C03",
    ]
    try:
        translate()
        run.obligation("translate:all generated pieces used by C01", True)
    except Exception as e:  # fail closed: anything the translator cannot digest
        run.obligation("translate:all generated pieces used by C01", False, str(e))
    run.prove("Props/C01.v", link_rels=["Link/MIS.v", "Link/Posterior.v", "Link/Schedule.v", "Link/Kernel.v", "Link/Resample.v"],
              allowed_axioms=STDLIB_AXIOMS_REALS)
    try:
        exact_history_probe(run, tier)
        stored_evidence_probe(run, tier)
        validate(run, tier)
    except Exception:
        import traceback
        run.broken.append(("harness-exception", traceback.format_exc()[-1500:]))
    def search(r):
        # something no longer checks: look harder where the estimator is most fragile (hard prior boundary, RWM, more seeds)
        n_before = len(r.failures)      # listed findings may already be among the failures
        R = 192
        cfg = dict(clustering=False, sample="rwm")
        res = ens.run_ensemble("edge", cfg, R, 64, 5600)
        ok = [x for x in res if x["ok"]]
        true0 = -5.0 + ens.S * math.sqrt(2 / math.pi)
        e0, se0 = ens.stats([x["mean"][0] for x in ok], true0)
        r.extra["search_edge"] = dict(runs=len(ok), edge_mean_err=round(e0, 4), se=round(se0, 4))
        if abs(e0) > 4 * se0 + 0.01:
            r.fail("hard-boundary-bias-in-posterior", f"posterior abutting a hard prior boundary: mean of the abutting coordinate is off by {e0:+.3f} "
                   f"(se {se0:.3f}) over {len(ok)} seeds", target="edge", cfg=cfg, runs=R, n_particles=64, seeds="5600..")
        if len(r.failures) > n_before:
            return
        # ... and where the resampling scheme matters most: systematic resampling into a kernel that does not re-equilibrate quickly
        for npart2 in (64, 128):
            cfg2 = dict(clustering=False, sample="rwm", resample="syst")
            res2 = [x for x in ens.run_ensemble("interior", cfg2, 96, npart2, 5900) if x["ok"]]
            e2, se2 = ens.stats([x["var"][1] for x in res2], ens.TARGETS["interior"]["var1"])
            r.extra[f"search_rwm_syst_{npart2}"] = dict(runs=len(res2), var_err=round(e2, 4), se=round(se2, 4))
            if abs(e2) > 4 * se2 + 0.02:      # clean tree: +0.007 +- 0.006 (N=64), -0.000 +- 0.004 (N=128) for a variance of 0.49
                r.fail("posterior-estimate-biased", f"rwm + systematic resampling, {npart2} particles, {len(res2)} seeds: posterior variance error {e2:+.3f} (se {se2:.3f})",
                       target="interior", cfg=cfg2, runs=96, n_particles=npart2, seeds="5900..")
                return
    run.extra["runs_aborted_by_the_listed_C14_finding"] = list(ens.ABORTED_BY_C14)
    if len(ens.ABORTED_BY_C14) > 8:
        run.fail("too-many-aborted-runs", f"{len(ens.ABORTED_BY_C14)} ensemble runs were aborted by LinAlgError in ModeStatistics.from_particles", runs=ens.ABORTED_BY_C14[:10])
    run.finish(search=search)
