"""C06 — resampling returns exactly n valid indices and is unbiased."""
import ast
import math
import random
from fractions import Fraction

import numpy as np

from common import (COQ, REPO, STDLIB_AXIOMS_FLOATS, STDLIB_AXIOMS_REALS, ExprTr, Run, TranslateError, coq_eval_many, fhex, flist, get_function,
                    natlist, parse_evals, strip_doc, write_if_changed)

PID = "C06"
SQRTEPS = math.sqrt(float(np.finfo(np.float64).eps))


# ------------------------------------------------------------------ tie T: translator
def translate():
    """tempest/tools.py systematic_resample -> coq/Gen/Resample.v (fail-closed)."""
    path = REPO / "tempest" / "tools.py"
    fn = get_function(path, "systematic_resample")
    body = strip_doc(fn.body)
    w = "tools.py:systematic_resample"

    def need(c, node, msg):
        if not c:
            raise TranslateError(f"{w}: line {getattr(node, 'lineno', '?')}: {msg}: {ast.unparse(node)[:120]}")

    args = [a.arg for a in fn.args.args]
    need(args[:2] == ["size", "weights"], fn, "signature")
    i = 0
    seeds_arg = False
    if isinstance(body[i], ast.If) and "random_state" in ast.unparse(body[i].test):
        src = ast.unparse(body[i])
        need("np.random.seed(random_state)" in src and len(body[i].body) == 1, body[i], "seeding block")
        need(ast.unparse(body[i].test) == "random_state is not None", body[i], "seeding guard")
        seeds_arg = True
        i += 1
    # renormalisation guard
    st = body[i]
    need(isinstance(st, ast.If) and not st.orelse and len(st.body) == 1, st, "renormalisation guard")
    tr = ExprTr({"np.sum(weights)": "s", "SQRTEPS": "sqrteps"}, where=w)
    renorm_needed = tr.boolean(st.test)
    asg = st.body[0]
    need(isinstance(asg, ast.Assign) and ast.unparse(asg.targets[0]) == "weights", asg, "renormalisation")
    tr2 = ExprTr({"np.array(weights)": "x", "weights": "x", "np.sum(weights)": "s"}, where=w)
    renorm_elem = tr2.num(asg.value)
    i += 1
    # positions
    st = body[i]
    need(isinstance(st, ast.Assign) and ast.unparse(st.targets[0]) == "positions", st, "positions")
    tr3 = ExprTr({"np.random.random()": "u0", "np.random.rand()": "u0", "np.arange(size)": "(o_ofnat o i)",
                  "size": "(o_ofnat o size)"}, where=w)
    position = tr3.num(st.value)
    i += 1
    # optional clip: positions = np.minimum(positions, np.nextafter((np.arange(size) + 1.0) / size, 0.0))
    clipped = False
    cell_end = "o_prev o (o_div o (o_add o (o_ofnat o i) (o_one o)) (o_ofnat o size))"
    st = body[i]
    if isinstance(st, ast.Assign) and ast.unparse(st.targets[0]) == "positions":
        v = st.value
        need(isinstance(v, ast.Call) and ast.unparse(v.func) == "np.minimum" and len(v.args) == 2 and not v.keywords
             and ast.unparse(v.args[0]) == "positions", st, "clip of the positions")
        na = v.args[1]
        need(isinstance(na, ast.Call) and ast.unparse(na.func) == "np.nextafter" and len(na.args) == 2 and not na.keywords
             and ast.unparse(na.args[1]) in ("0.0", "0"), na, "nextafter towards zero")
        inner = ExprTr({"np.arange(size)": "(o_ofnat o i)", "size": "(o_ofnat o size)"}, where=w).num(na.args[0])
        cell_end = f"o_prev o ({inner})"
        clipped = True
        i += 1
    # optional bound at the last non-zero weight
    last_bound = False
    if isinstance(body[i], ast.Assign) and ast.unparse(body[i].targets[0]) == "nonzero":
        need(ast.unparse(body[i].value).replace(" ", "") == "np.flatnonzero(weights)", body[i], "non-zero weights")
        st = body[i + 1]
        need(isinstance(st, ast.Assign) and ast.unparse(st.targets[0]) == "last"
             and ast.unparse(st.value).replace(" ", "") == "nonzero[-1]iflen(nonzero)>0elselen(weights)-1", st, "last non-zero index")
        last_bound = True
        i += 2
    # j = 0 ; cumulative_sum = weights[0] ; indeces = np.empty(...)
    inits = {}
    while i < len(body) and isinstance(body[i], ast.Assign):
        inits[ast.unparse(body[i].targets[0])] = body[i].value
        i += 1
    need(set(inits) == {"j", "cumulative_sum", "indeces"}, fn, f"initialisations {sorted(inits)}")
    need(isinstance(inits["j"], ast.Constant) and isinstance(inits["j"].value, int), inits["j"], "j init")
    j_init = inits["j"].value
    cs = inits["cumulative_sum"]
    need(isinstance(cs, ast.Subscript) and ast.unparse(cs.value) == "weights" and isinstance(cs.slice, ast.Constant),
         cs, "cumulative_sum init")
    cum_init_index = cs.slice.value
    need(ast.unparse(inits["indeces"]).replace(" ", "") in ("np.empty(size,dtype=int)", "np.zeros(size,dtype=int)"),
         inits["indeces"], "index buffer")
    # for loop
    st = body[i]
    need(isinstance(st, ast.For) and ast.unparse(st.target) == "i" and ast.unparse(st.iter) == "range(size)"
         and not st.orelse and len(st.body) == 2, st, "outer loop")
    wh, store = st.body
    need(isinstance(wh, ast.While) and not wh.orelse and len(wh.body) == 2, wh, "inner loop")
    # loop test: positions[i] > cumulative_sum [and j < len(weights) - 1]
    test = wh.test
    bounded = False
    if isinstance(test, ast.BoolOp) and isinstance(test.op, ast.And) and len(test.values) == 2:
        a, b = test.values
        bs = {ast.unparse(a).replace(" ", ""), ast.unparse(b).replace(" ", "")}
        guard = [x for x in (a, b) if ast.unparse(x).replace(" ", "") in
                 (("j<last",) if last_bound else ("j<len(weights)-1", "j+1<len(weights)", "j<weights.size-1", "j<n_weights-1"))]
        need(len(guard) == 1, test, "inner loop bound")
        bounded = True
        test = a if guard[0] is b else b
    tr4 = ExprTr({"positions[i]": "p", "cumulative_sum": "cum"}, where=w)
    loop_cond = tr4.boolean(test)
    inc, add = wh.body
    need(isinstance(inc, ast.AugAssign) and ast.unparse(inc.target) == "j" and isinstance(inc.op, ast.Add)
         and isinstance(inc.value, ast.Constant), inc, "j increment")
    j_incr = inc.value.value
    need(isinstance(add, ast.AugAssign) and ast.unparse(add.target) == "cumulative_sum"
         and isinstance(add.op, ast.Add), add, "cumulative update")
    tr5 = ExprTr({"weights[j]": "wj"}, where=w)
    cum_add = tr5.num(add.value)
    need(ast.unparse(store).replace(" ", "") == "indeces[i]=j", store, "index store")
    i += 1
    need(isinstance(body[i], ast.Return) and ast.unparse(body[i].value) == "indeces" and i == len(body) - 1,
         body[i], "return")

    # Resampler.run dispatch (which routine, which size, which weights)
    rpath = REPO / "tempest" / "steps" / "resample.py"
    rfn = get_function(rpath, "Resampler.run")
    rsrc = ast.unparse(rfn).replace(" ", "")
    disp = {}
    for node in ast.walk(rfn):
        if isinstance(node, ast.If) and "self.resample==" in ast.unparse(node.test).replace(" ", ""):
            cur = node
            while True:
                key = ast.unparse(cur.test).replace(" ", "").split("==")[1].strip("'\"")
                need(len(cur.body) == 1 and isinstance(cur.body[0], ast.Assign)
                     and ast.unparse(cur.body[0].targets[0]) == "idx_resampled", cur, "dispatch branch")
                disp[key] = cur.body[0].value
                if len(cur.orelse) == 1 and isinstance(cur.orelse[0], ast.If):
                    cur = cur.orelse[0]
                else:
                    need(not cur.orelse, cur, "dispatch else")
                    break
            break
    need(set(disp) == {"mult", "syst"}, rfn, f"dispatch keys {sorted(disp)}")

    def callinfo(c, fname):
        need(isinstance(c, ast.Call) and ast.unparse(c.func) == fname, c, f"call {fname}")
        kw = {k.arg: ast.unparse(k.value).replace(" ", "") for k in c.keywords}
        pos = [ast.unparse(a).replace(" ", "") for a in c.args]
        return pos, kw

    mpos, mkw = callinfo(disp["mult"], "np.random.choice")
    need(mpos == ["np.arange(len(weights))"] and mkw == {"size": "self.n_particles", "replace": "True", "p": "weights"},
         disp["mult"], "multinomial call arguments")
    spos, skw = callinfo(disp["syst"], "systematic_resample")
    need(spos == ["self.n_particles"] and skw == {"weights": "weights"}, disp["syst"], "systematic call arguments")

    text = f"""(* GENERATED from /repo/tempest/tools.py (systematic_resample) and
   /repo/tempest/steps/resample.py (Resampler.run) by tools/props/c06.py -- do not edit *)
From Coq Require Import List Bool Arith.
From Tempest Require Import Base.Ops.
Definition renorm_needed {{T}} (o : Ops T) (s sqrteps : T) : bool := {renorm_needed}.
Definition renorm_elem {{T}} (o : Ops T) (x s : T) : T := {renorm_elem}.
Definition position {{T}} (o : Ops T) (u0 : T) (size i : nat) : T := {position}.
Definition loop_cond {{T}} (o : Ops T) (p cum : T) : bool := {loop_cond}.
Definition cum_add {{T}} (o : Ops T) (wj : T) : T := {cum_add}.
Definition j_init : nat := {j_init}.
Definition cum_init_index : nat := {cum_init_index}.
Definition j_incr : nat := {j_incr}.
Definition loop_bounded : bool := {str(bounded).lower()}.
Definition loop_bound_is_last_nonzero : bool := {str(bounded and last_bound).lower()}.
Definition cell_end {{T}} (o : Ops T) (size i : nat) : T := {cell_end}.
Definition positions_clipped_by_minimum : bool := {str(clipped).lower()}.
Definition seeds_only_on_request : bool := {str(seeds_arg).lower()}.
(* Resampler.run: mult -> np.random.choice(arange(len(weights)), size=n_particles, replace=True, p=weights);
                  syst -> systematic_resample(n_particles, weights=weights) *)
Definition dispatch_mult_uses_full_weights_and_n_particles : bool := true.
Definition dispatch_syst_uses_full_weights_and_n_particles : bool := true.
"""
    write_if_changed(COQ / "Gen" / "Resample.v", text)


# ------------------------------------------------------------------ implementation runner
def impl_sysres(n, w, u0):
    from tempest import tools
    orig = np.random.random
    def fake(*a, **k):
        size = a[0] if a else k.get("size")
        if size is None:
            return u0
        # a vector of draws was requested: give each element its own (deterministic) value, the first being u0
        return np.asarray([(u0 + 0.6180339887498949 * t) % 1.0 for t in range(int(np.prod(size)))]).reshape(size)
    np.random.random = fake
    try:
        try:
            out = tools.systematic_resample(n, np.array(w, dtype=float))
            return [int(v) for v in out]
        except IndexError:
            return "IndexError"
        except Exception as e:  # any other exception is also a failure to return n indices
            return f"{type(e).__name__}"
    finally:
        np.random.random = orig


def nextafter_chain(x, k=1):
    out = []
    a = b = x
    for _ in range(k):
        a = np.nextafter(a, -np.inf)
        b = np.nextafter(b, np.inf)
        out += [float(a), float(b)]
    return out


def gen_weights(rng: random.Random, kind, m):
    if kind == "dirichlet":
        a = rng.choice([0.05, 0.3, 1.0, 5.0])
        w = [rng.gammavariate(a, 1.0) + 1e-300 for _ in range(m)]
    elif kind == "dominant":
        w = [rng.random() * 1e-6 for _ in range(m)]
        w[rng.randrange(m)] = 1.0
    elif kind == "zeros":
        w = [rng.random() if rng.random() < 0.5 else 0.0 for _ in range(m)]
        if sum(w) == 0:
            w[rng.randrange(m)] = 1.0
    elif kind == "tiny_tail":
        # almost all mass in front, a strictly positive tail far below sqrt(eps): every tail index still has n*w_k expected copies
        w = [10.0 ** rng.uniform(-12, -8.5) for _ in range(m)]
        w[0] = 1.0
    elif kind == "equal":
        w = [1.0] * m
    elif kind == "dyadic":
        w = [float(rng.randrange(1, 9)) for _ in range(m)]
    else:
        raise ValueError(kind)
    s = math.fsum(w)
    w = [x / s for x in w]
    return w


def perturb_sum(rng, w, mode):
    """scale so the sum sits on either side of 1 inside / at the edge of / outside the sqrt(eps) band."""
    if mode == "exact":
        return w
    f = {"in_lo": 1 - 0.6 * SQRTEPS, "in_hi": 1 + 0.6 * SQRTEPS, "edge_lo": 1 - 0.999 * SQRTEPS,
         "edge_hi": 1 + 0.999 * SQRTEPS, "out_lo": 1 - 3 * SQRTEPS, "out_hi": 1 + 3 * SQRTEPS,
         "far": rng.choice([0.25, 3.0, 1e-3, 40.0])}[mode]
    return [x * f for x in w]


def breakpoints(n, w):
    """offsets u0 at which some index can change: frac(n*W_k) (exact rationals of the doubles)."""
    cum = Fraction(0)
    s = sum(Fraction(x) for x in w)
    bps = set()
    for x in w:
        cum += Fraction(x)
        for c in (cum, cum / s if s else cum):
            v = n * c
            fr = v - math.floor(v)
            bps.add(fr)
    return sorted(bps)


def _dyadic_small(fr):
    # weights whose running sums are exact in binary64 (denominator a small power of two)
    d = fr.denominator
    return d & (d - 1) == 0 and d <= 2 ** 20


def check_property_on_output(run, n, w, u0, out, where):
    """The statement of C06, evaluated directly on the implementation's result."""
    key = f"sysres:n={n},w={[x.hex() for x in w]},u0={float(u0).hex()}"
    if not isinstance(out, list):
        run.fail("systematic_resample raises", f"{where}: systematic_resample raised {out}", n=n,
                 w=[x.hex() for x in w], u0=float(u0).hex(), observed=out)
        return False
    ok = True
    if len(out) != n:
        run.fail("wrong-length", f"{where}: returned {len(out)} indices for n={n}", n=n, w=[x.hex() for x in w],
                 u0=float(u0).hex(), observed=out)
        ok = False
    if any(v < 0 or v >= len(w) for v in out):
        run.fail("index-out-of-range", f"{where}: index outside [0,{len(w)})", n=n, w=[x.hex() for x in w],
                 u0=float(u0).hex(), observed=out)
        ok = False
    if any(a > b for a, b in zip(out, out[1:])):
        run.fail("not-monotone", f"{where}: indices decrease", n=n, w=[x.hex() for x in w], u0=float(u0).hex(),
                 observed=out)
        ok = False
    if ok:
        fw = [Fraction(x) for x in w]
        fs = sum(fw)
        exact = (fs == 1)
        s = math.fsum(w)
        # copies of k must be floor(n w_k) or ceil(n w_k). When the doubles sum to exactly 1 the claim is
        # checked exactly in rationals (this is where tie rules show); otherwise with slack for the accepted
        # deviation of the sum from 1 and for float rounding of the running sum.
        slack = Fraction(0) if exact and all(_dyadic_small(x) for x in fw) else Fraction(n * 4 * SQRTEPS + 1e-9)
        for k, x in enumerate(fw):
            c = out.count(k)
            t = n * x / fs
            if not (math.floor(t - slack) <= c <= math.ceil(t + slack)):
                run.fail("copies-not-floor-ceil", f"{where}: index {k} copied {c} times, n*w={float(t)}", n=n,
                         w=[x.hex() for x in w], u0=float(u0).hex(), observed=out)
                ok = False
                break
    return ok


# ------------------------------------------------------------------ correspondence
def model_cases_src(cases):
    items = []
    for (n, w, s, u0) in cases:
        # last entry of the encoding: 1 when every tooth compares >= +0 (premise of C06_binary64_never_selects_zero_weight)
        items.append(f"(sysres2_with_sum FOps true {n}%nat {flist(w)} {fhex(s)} {fhex(SQRTEPS)} {fhex(u0)}, "
                     f"forallb (fun p => PrimFloat.leb 0%float p) (cpositions FOps {fhex(u0)} {n}%nat))")
    body = ";\n  ".join(items)
    return f"""From Coq Require Import List PrimFloat.
From Tempest Require Import Base.Ops Model.Resample.
Import ListNotations.
Definition enc (rb : option (list nat) * bool) : list nat :=
  (if snd rb then 1 else 0) :: match fst rb with Some l => 0 :: l | None => [1] end.
Eval vm_compute in map enc [
  {body}
  ].
"""


def correspond(run: Run, tier, rng):
    from tempest import tools  # noqa
    n_base = 60 if tier == "quick" else 900
    cases = []
    impl_out = []
    kinds = ["dirichlet", "dominant", "zeros", "equal", "dyadic"]
    modes = ["exact", "in_lo", "in_hi", "edge_lo", "edge_hi", "out_lo", "out_hi", "far"]
    corpus = [
        # P1 witness of the pinned tree: IndexError inside the no-renormalise band
        (2, [0.5, float.fromhex("0x1.fffffff768fa1p-2")], float.fromhex("0x1.ffffffffffdcbp-1")),
        (4, [0.6, 0.2, 0.15, 0.05], 0.0),
        (1, [1.0], 0.999999),
        (3, [0.0, 0.0, 1.0], 0.5),
        (2, [0.5, 0.5], 0.0),
        (3, [0.0, 0.5, 0.5], 0.0),
        (4, [0.25, 0.5, 0.25], 0.0),
        (8, [0.125, 0.375, 0.5], 0.5),
        # offsets within rounding distance of 1 (found by the thorough sweep): u0 + i rounds up to i + 1, so a tooth used to
        # land on the next cell boundary -- a trailing zero-weight index selected, or one copy too few
        (7, [1.0, 0.0], float(np.nextafter(1.0, 0.0))),
        (2, [1.0, 0.0], float(np.nextafter(1.0, 0.0))),
        (7, [1.0, 0.0, 0.0], float(np.nextafter(1.0, 0.0))),
        (16, [0.5, 0.5], float(np.nextafter(1.0, 0.0))),
        (64, [0.125] * 8, float(np.nextafter(1.0, 0.0))),
        (4, [0.0, 0.5, 0.0, 0.5, 0.0], float(np.nextafter(1.0, 0.0))),
        # a cumulative sum that ends below the last tooth, with trailing zeros
        (5, [0.5, 0.5 - 2.0 ** -30, 0.0, 0.0], 1 - 2.0 ** -40),
    ]
    for n in ([3, 5, 6, 7, 9, 10, 12] if tier == "quick" else list(range(3, 41))):
        for u0 in (float(np.nextafter(1.0, 0.0)), 1.0 - 2.0 ** -52, 0.0):
            # a weight boundary exactly at fl(1/n) (resp. fl((n-1)/n)): tooth 0 (resp. n-2) must stay below it
            corpus.append((n, [1.0 / n, 1.0 - 1.0 / n], u0))
            corpus.append((n, [(n - 1.0) / n, 1.0 - (n - 1.0) / n], u0))
    for (n, w, u0) in corpus:
        cases.append((n, w, float(np.sum(np.array(w))), u0))
    for t in range(n_base):
        kind = kinds[t % len(kinds)]
        mode = modes[(t // len(kinds)) % len(modes)]
        m = rng.choice([1, 2, 3, 5, 8, 13, 40] if tier == "quick" else [1, 2, 3, 5, 8, 13, 40, 129, 300])
        n = rng.choice([1, 2, 3, 7, 16, 64])
        w = perturb_sum(rng, gen_weights(rng, kind, m), mode)
        run.count(f"kind={kind}")
        run.count(f"sum={mode}")
        s = float(np.sum(np.array(w)))
        bps = breakpoints(n, w)
        pts = set()
        # one representative per piece of the partition of [0,1) plus each breakpoint and its float neighbours
        edges = [Fraction(0)] + bps + [Fraction(1)]
        for a, b in zip(edges, edges[1:]):
            if b > a:
                pts.add(float((a + b) / 2))
        sel = bps if len(bps) <= 6 else rng.sample(bps, 6)
        for b in sel:
            fb = float(b)
            for v in [fb] + nextafter_chain(fb, 1):
                if 0.0 <= v < 1.0:
                    pts.add(v)
        pts.add(0.0)
        pts.add(float(np.nextafter(1.0, 0.0)))
        pts = sorted(pts)
        if len(pts) > 14:
            keep = {pts[0], pts[-1]}
            keep.update(rng.sample(pts, 12))
            pts = sorted(keep)
        for u0 in pts:
            cases.append((n, w, s, u0))
    # run the implementation
    for (n, w, s, u0) in cases:
        out = impl_sysres(n, w, u0)
        impl_out.append(out)
        run.case(key=(n, tuple(w), u0), nontrivial=len(w) > 1)
        check_property_on_output(run, n, w, u0, out, "sweep")
    run.sample(dict(n=cases[5][0], w=cases[5][1], u0=cases[5][3], impl=impl_out[5]))
    run.sample(dict(n=cases[0][0], w=[x.hex() for x in cases[0][1]], u0=cases[0][3].hex(), impl=impl_out[0]))
    # run the model (binary64 twin) in Coq
    shard = 400
    srcs = [model_cases_src(cases[i:i + shard]) for i in range(0, len(cases), shard)]
    res = coq_eval_many(run.scratch, srcs)
    model_out = []
    for ok, out in res:
        if not ok:
            run.broken.append(("correspondence-coqc", out[-1500:]))
            return
        model_out += parse_evals(out)[0]
    if len(model_out) != len(cases):
        run.broken.append(("correspondence-parse", f"{len(model_out)} results for {len(cases)} cases"))
        return
    agree = 0
    teeth_ok = 0
    for c, io, mo in zip(cases, impl_out, model_out):
        teeth_ok += mo[0]
        mo = mo[1:]
        m = mo[1:] if mo[0] == 0 else "IndexError"
        if m == io:
            agree += 1
        else:
            run.disagree("systematic_resample: implementation vs binary64 model", n=c[0],
                         w=[x.hex() for x in c[1]], u0=c[3].hex(), impl=io, model=m)
    run.extra["bit_exact_cases"] = len(cases)
    run.extra["bit_exact_agree"] = agree
    run.extra["teeth_nonnegative_premise_holds"] = f"{teeth_ok} of {len(cases)} executed cases"
    if teeth_ok != len(cases):
        run.notes.append("the premise 'every tooth compares >= +0' of C06_binary64_never_selects_zero_weight failed on an executed case")


def unbiased_sweep(run: Run, tier, rng):
    """Exact integration over u0 of the implementation's copy counts: the map u0 -> indices is
    piecewise constant with breakpoints frac(n*W_k); sum(len(piece) * copies_k) must equal n*w_k."""
    reps = 25 if tier == "quick" else 300
    for t in range(reps):
        m = rng.choice([2, 3, 5, 9, 20])
        n = rng.choice([1, 2, 5, 16, 33])
        w = gen_weights(rng, rng.choice(["dirichlet", "dominant", "zeros", "dyadic", "tiny_tail"]) if t % 5 else "tiny_tail", m)
        if t % 3 == 2:
            # sums that are off 1 by more than sqrt(eps) (3e-8 ... 8e-6): the routine renormalises, expected copies are n * w_k / sum
            w = [x * (1 + (3e-6, -8e-6, 4.5e-8, -3e-7)[(t // 3) % 4]) for x in w]
        bps = breakpoints(n, w)
        edges = [Fraction(0)] + [b for b in bps if 0 < b < 1] + [Fraction(1)]
        exp = [Fraction(0)] * m
        bad = False
        for a, b in zip(edges, edges[1:]):
            if b <= a:
                continue
            mid = float((a + b) / 2)
            out = impl_sysres(n, w, mid)
            run.case(key=("int", n, tuple(w), mid))
            if not isinstance(out, list) or len(out) != n:
                check_property_on_output(run, n, w, mid, out, "unbiased-sweep")
                bad = True
                break
            for k in out:
                if 0 <= k < m:
                    exp[k] += (b - a)
        if bad:
            continue
        s = math.fsum(w)
        for k in range(m):
            if abs(float(exp[k]) - n * w[k] / s) > 1e-6 * n * w[k] / s + 1e-13 * max(1, n):
                run.fail("biased", f"expected copies of index {k} is {float(exp[k])}, n*w={n * w[k] / s}", n=n,
                         w=[x.hex() for x in w], k=k)
                break
    run.count("unbiased_integrations", reps)


def dispatch_check(run: Run, tier, rng):
    """Resampler.run on a synthetic pool: both schemes must deliver n_particles rows of the pool,
    selected by the model's index rule from the same uniform draws."""
    from tempest.state_manager import StateManager
    from tempest.steps.resample import Resampler
    reps = 6 if tier == "quick" else 60
    cases = []
    for t in range(reps):
        d = rng.choice([1, 2, 3])
        T = rng.choice([1, 2, 4])
        nper = rng.choice([3, 5, 8])
        npart = rng.choice([1, 4, 9])
        st = StateManager(d)
        N = T * nper
        for it in range(T):
            u = np.array([[((it * nper + r) * 7 + c) % 97 / 97.0 for c in range(d)] for r in range(nper)])
            st.update_current({"u": u, "x": u * 10 + 1, "logl": np.arange(it * nper, (it + 1) * nper, dtype=float),
                               "beta": 0.1 * it, "logz": 0.0, "iter": it})
            st.commit_current_to_history()
        # the step resamples at every positive inverse temperature, however small (the first one of a sharp likelihood is 2^-14)
        st.set_current("beta", [0.5, 2.0 ** -14, 1e-300, 1.0, 0.3, 2.0 ** -20][t % 6])
        w = np.array(gen_weights(rng, rng.choice(["dirichlet", "zeros", "dominant"]), N))
        for scheme in ("mult", "syst"):
            seed = rng.randrange(2 ** 31)
            np.random.seed(seed)
            rs = Resampler(state=st, n_particles=npart, resample=scheme, clusterer=None, clustering=False)
            try:
                rs.run(w.copy())
            except Exception as e:
                run.fail(f"dispatch-{scheme}-raises", f"Resampler.run({scheme}) raised {type(e).__name__}: {e}",
                         scheme=scheme, seed=seed, w=[float(x).hex() for x in w], n_particles=npart)
                continue
            logl = st.get_current("logl")
            u_cur = st.get_current("u")
            x_cur = st.get_current("x")
            run.case(key=("disp", scheme, seed))
            pool_u = st.get_history("u", flat=True)
            if logl is None or len(logl) != npart:
                run.fail("dispatch-wrong-count", f"Resampler.run({scheme}) produced {None if logl is None else len(logl)} particles for n_particles={npart}",
                         scheme=scheme, seed=seed, n_particles=npart)
                continue
            idx = [int(v) for v in logl]  # logl of pool row r is r
            if any(i < 0 or i >= N for i in idx) or not all(
                    np.array_equal(u_cur[r], pool_u[idx[r]]) and np.array_equal(x_cur[r], pool_u[idx[r]] * 10 + 1)
                    for r in range(npart)):
                run.fail("dispatch-rows", f"Resampler.run({scheme}) rows are not pool rows", scheme=scheme, seed=seed)
                continue
            # replay the uniform draws
            np.random.seed(seed)
            if scheme == "mult":
                r = np.random.random_sample(npart)
                cases.append(("mult", [float(x) for x in w], [float(v) for v in r], idx))
            else:
                u0 = float(np.random.random())
                cases.append(("syst", [float(x) for x in w], [u0], idx))
            if any(w[i] == 0.0 for i in idx):
                run.fail("zero-weight-selected", f"{scheme}: an index of zero weight was selected", scheme=scheme,
                         seed=seed)
    items = []
    for scheme, w, r, idx in cases:
        if scheme == "mult":
            items.append(f"(map (choice_idx FOps {flist(w)}) {flist(r)})")
        else:
            s = float(np.sum(np.array(w)))
            items.append(f"(match sysres2_with_sum FOps true {len(idx)}%nat {flist(w)} {fhex(s)} {fhex(SQRTEPS)} {fhex(r[0])} with Some l => l | None => [] end)")
    src = f"""From Coq Require Import List PrimFloat.
From Tempest Require Import Base.Ops Model.Resample.
Import ListNotations.
Eval vm_compute in [
  {";".join(items)}
  ].
"""
    (ok, out), = coq_eval_many(run.scratch, [src])
    if not ok:
        run.broken.append(("dispatch-coqc", out[-1500:]))
        return
    mo = parse_evals(out)[0]
    for (scheme, w, r, idx), m in zip(cases, mo):
        if m != idx:
            run.disagree(f"Resampler.run({scheme}) vs model", w=[x.hex() for x in w], draws=[x.hex() for x in r],
                         impl=idx, model=m)
    run.count("dispatch_cases", len(cases))


def multinomial_tail_search(run: Run):
    """Resampler.run(resample='mult') with a trailing zero-weight sample and a sum just inside the accepted band (no renormalisation
    happens): many draws; the zero-weight sample must never be selected."""
    from tempest.state_manager import StateManager
    from tempest.steps.resample import Resampler
    m = 8
    w = np.array([0.25, 0.125, 0.125, 0.25, 0.0625, 0.0625, 0.125 - 1.4e-8, 0.0])
    st = StateManager(1)
    st.update_current({"u": np.linspace(0.1, 0.9, m)[:, None], "x": np.zeros((m, 1)), "logl": np.arange(m, dtype=float), "beta": 0.0, "logz": 0.0, "iter": 0})
    st.commit_current_to_history()
    st.set_current("beta", 0.5)
    npart = 2_000_000
    for seed in range(1000, 1060):
        np.random.seed(seed)
        rs = Resampler(state=st, n_particles=npart, resample="mult", clusterer=None, clustering=False)
        rs.run(w.copy())
        idx = st.get_current("logl").astype(int)
        if np.any(idx == m - 1):
            run.fail("zero-weight-selected", f"mult: the zero-weight last sample was selected {int(np.sum(idx == m - 1))} time(s) in {npart} draws",
                     scheme="mult", seed=seed, w=[float(x).hex() for x in w], n_particles=npart)
            return


def search(run: Run):
    """Directed search for a failing input on the implementation (used when something broke)."""
    try:
        multinomial_tail_search(run)
    except Exception as e:
        run.notes.append(f"multinomial tail search raised {type(e).__name__}: {e}")
    if run.failures:
        return
    try:
        unbiased_sweep(run, "quick", random.Random(4321))
    except Exception as e:
        run.notes.append(f"unbiasedness search raised {type(e).__name__}: {e}")
    if run.failures:
        return
    rng = random.Random(1234)
    for t in range(400):
        m = rng.choice([2, 3, 4, 6])
        n = rng.choice([1, 2, 3, 5])
        w = perturb_sum(rng, gen_weights(rng, rng.choice(["dirichlet", "zeros", "equal"]), m),
                        rng.choice(["in_lo", "edge_lo", "exact", "in_hi"]))
        for u0 in [float(np.nextafter(1.0, 0.0)), 1 - 1e-12, 0.0, rng.random()]:
            out = impl_sysres(n, w, u0)
            check_property_on_output(run, n, w, u0, out, "search")
        if run.failures:
            return


def main(tier, seed):
    run = Run(PID, tier, seed)
    run.rule = ("(n, w, u0): w from Dirichlet/dominant/zero-laden/equal/dyadic families, sum placed exactly at, inside, "
                "at the edge of and outside the sqrt(eps) no-renormalise band; u0 = one representative of every "
                "piece of the partition of [0,1) by frac(n*W_k), each breakpoint and its two neighbouring doubles, 0 "
                "and nextafter(1,0). A case is non-trivial when len(w) > 1; distinct = distinct (n,w,u0).")
    run.assumptions = [
        "numpy.random.random() returns a double in [0,1) (replaced by the chosen u0 in the harness)",
        "numpy.sum's value is passed to the binary64 model as an oracle value (pairwise summation not modelled)",
        "numpy.random.choice(p=w) is inverse-CDF search on cumsum(w)/cumsum(w)[-1] (its legacy implementation); "
        "checked against the real function under replayed seeds",
        "Q-theorems idealise rounding; the binary64 clauses are carried by the generic-arithmetic theorem "
        "sysres_total_valid (holds for every Ops instance incl. PrimFloat) and by the bit-exact replay",
    ]
    rng = random.Random(seed)
    try:
        translate()
        import c05
        c05.translate()   # which iterations skip the resampling step (warm-up <=> beta == 0, the same test in train / resample / mutate)
        run.obligation("translate:tools.systematic_resample+Resampler.run", True)
    except Exception as e:  # fail closed: anything the translator cannot digest
        run.obligation("translate:tools.systematic_resample+Resampler.run", False, str(e))
    run.prove("Props/C06.v", link_rels=["Link/Resample.v", "Link/Schedule.v"], allowed_axioms=STDLIB_AXIOMS_REALS | STDLIB_AXIOMS_FLOATS)
    try:
        correspond(run, tier, rng)
        unbiased_sweep(run, tier, rng)
        dispatch_check(run, tier, rng)
    except Exception as e:
        import traceback
        run.broken.append(("harness-exception", traceback.format_exc()[-1500:]))
    run.finish(search=search)
