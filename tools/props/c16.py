"""C16 — boundary maps fold every real number into the unit interval correctly."""
import ast
import itertools
import math
import random
from fractions import Fraction

import numpy as np

from common import (STDLIB_AXIOMS_REALS, COQ, REPO, ExprTr, Run, TranslateError, coq_eval_many, fhex, flist, get_function,
                    natlist, parse_evals, strip_doc, write_if_changed)

PID = "C16"


def _nospace(n):
    return ast.unparse(n).replace(" ", "")


def translate():
    path = REPO / "tempest" / "mcmc.py"
    w = "mcmc.py:apply_boundary_conditions"
    fn = get_function(path, "apply_boundary_conditions")
    body = strip_doc(fn.body)

    def need(c, node, msg, where=w):
        if not c:
            raise TranslateError(f"{where}: line {getattr(node, 'lineno', '?')}: {msg}: {ast.unparse(node)[:160]}")

    need(len(body) == 4, fn, "statement count")
    need(_nospace(body[0]) == "u=u.copy()", body[0], "defensive copy")
    # periodic block
    pb = body[1]
    need(isinstance(pb, ast.If) and _nospace(pb.test) == "periodicisnotNone" and not pb.orelse and len(pb.body) == 1,
         pb, "periodic guard")
    loop = pb.body[0]
    need(isinstance(loop, ast.For) and _nospace(loop.iter) == "periodic" and len(loop.body) == 1, loop, "periodic loop")
    st = loop.body[0]
    need(isinstance(st, ast.Assign) and _nospace(st.targets[0]) == "u[...,idx]", st, "periodic store")
    v = st.value
    if isinstance(v, ast.BinOp) and isinstance(v.op, ast.Mod):
        need(_nospace(v.left) == "u[...,idx]" and isinstance(v.right, ast.Constant) and float(v.right.value) == 1.0,
             v, "periodic map must be u % 1.0")
    elif isinstance(v, ast.Call) and _nospace(v.func) in ("np.mod", "np.remainder"):
        need(_nospace(v.args[0]) == "u[...,idx]" and isinstance(v.args[1], ast.Constant)
             and float(v.args[1].value) == 1.0, v, "periodic map must be mod(u, 1.0)")
    else:
        need(False, v, "periodic map")
    # reflective block
    rb = body[2]
    need(isinstance(rb, ast.If) and _nospace(rb.test) == "reflectiveisnotNone" and not rb.orelse and len(rb.body) == 1,
         rb, "reflective guard")
    loop = rb.body[0]
    need(isinstance(loop, ast.For) and _nospace(loop.iter) == "reflective" and len(loop.body) == 4, loop,
         "reflective loop")
    s_val, s_n, s_rem, s_store = loop.body
    need(_nospace(s_val) == "val=u[...,idx]", s_val, "val")
    need(isinstance(s_n, ast.Assign) and _nospace(s_n.targets[0]) == "n_reflect", s_n, "n_reflect")
    nsrc = _nospace(s_n.value)
    if nsrc == "np.floor(val).astype(int)":
        int_cast = True
    elif nsrc == "np.floor(val)":
        int_cast = False
    else:
        need(False, s_n, "reflection count must be floor(val)")
    need(isinstance(s_rem, ast.Assign) and _nospace(s_rem.targets[0]) == "remainder", s_rem, "remainder")
    remainder = ExprTr({"val": "val", "n_reflect": "n_reflect"}, where=w).num(s_rem.value)
    need(isinstance(s_store, ast.Assign) and _nospace(s_store.targets[0]) == "u[...,idx]"
         and isinstance(s_store.value, ast.Call) and _nospace(s_store.value.func) == "np.where"
         and len(s_store.value.args) == 3, s_store, "reflective store")
    cond, br_t, br_f = s_store.value.args
    cs = _nospace(cond)
    need(cs in ("n_reflect%2==0", "np.mod(n_reflect,2)==0", "np.mod(n_reflect,2.0)==0", "n_reflect%2.0==0",
                "np.mod(n_reflect,2)==0.0", "np.remainder(n_reflect,2)==0"), cond, "parity test")
    tr = ExprTr({"remainder": "remainder"}, where=w)
    even_branch, odd_branch = tr.num(br_t), tr.num(br_f)
    need(_nospace(body[3]) == "returnu", body[3], "return")

    # check_bounds
    w2 = "mcmc.py:check_bounds"
    fn2 = get_function(path, "check_bounds")
    b2 = strip_doc(fn2.body)
    src2 = [_nospace(s) for s in b2]
    need(src2[0] == "n_dim=u.shape[-1]" and src2[1] == "all_indices=set(range(n_dim))"
         and src2[2] == "special_indices=set()", fn2, "index sets", w2)
    need(src2[3] == "ifperiodicisnotNone:special_indices.update(periodic)".replace(":", ":\n") or
         (isinstance(b2[3], ast.If) and _nospace(b2[3].test) == "periodicisnotNone"
          and _nospace(b2[3].body[0]) == "special_indices.update(periodic)"), b2[3], "periodic special", w2)
    need(isinstance(b2[4], ast.If) and _nospace(b2[4].test) == "reflectiveisnotNone"
         and _nospace(b2[4].body[0]) == "special_indices.update(reflective)", b2[4], "reflective special", w2)
    need(src2[5] == "strict_indices=list(all_indices-special_indices)", b2[5], "strict indices", w2)
    need(isinstance(b2[6], ast.If) and _nospace(b2[6].test) == "len(strict_indices)==0", b2[6], "empty strict", w2)
    need(src2[7] == "u_strict=u[...,strict_indices]", b2[7], "strict slice", w2)
    # 1-D and row-wise conjunctions
    one_d = b2[8]
    need(isinstance(one_d, ast.If) and _nospace(one_d.test) == "u.ndim==1" and len(one_d.body) == 1
         and isinstance(one_d.body[0], ast.Return), one_d, "1-D branch", w2)
    r1 = one_d.body[0].value
    need(isinstance(r1, ast.BoolOp) and isinstance(r1.op, ast.And) and len(r1.values) == 2, r1, "1-D conjunction", w2)
    r2 = b2[9]
    need(isinstance(r2, ast.Return) and isinstance(r2.value, ast.BinOp) and isinstance(r2.value.op, ast.BitAnd),
         r2, "2-D conjunction", w2)

    def bound(call, axis):
        need(isinstance(call, ast.Call) and _nospace(call.func) == "np.all", call, "np.all", w2)
        if axis:
            need(len(call.keywords) == 1 and call.keywords[0].arg == "axis"
                 and _nospace(call.keywords[0].value) == "-1", call, "axis=-1", w2)
        else:
            need(not call.keywords, call, "no axis", w2)
        return ExprTr({"u_strict": "v"}, where=w2).boolean(call.args[0])

    lo1, hi1 = bound(r1.values[0], False), bound(r1.values[1], False)
    lo2, hi2 = bound(r2.value.left, True), bound(r2.value.right, True)
    need(lo1 == lo2 and hi1 == hi2, r2, "1-D and 2-D bounds differ", w2)
    # which of the two is the lower / upper bound is decided by Link (a && b must equal in_unit)
    # the designations travel to the runners positionally: at every hop the arguments are passed under the callee's own parameter
    # names, in the callee's order (a swap of two same-typed arguments such as periodic / reflective changes nothing else)
    tree_all = ast.parse(path.read_text())
    fdefs = {n.name: n for n in ast.walk(tree_all) if isinstance(n, ast.FunctionDef)}
    base_init = next(m for c in ast.walk(tree_all) if isinstance(c, ast.ClassDef) and c.name == "BaseMCMCRunner"
                     for m in c.body if isinstance(m, ast.FunctionDef) and m.name == "__init__")
    hops = [("parallel_mcmc", "parallel_random_walk_metropolis", fdefs["parallel_random_walk_metropolis"]),
            ("parallel_mcmc", "parallel_t_preconditioned_crank_nicolson", fdefs["parallel_t_preconditioned_crank_nicolson"]),
            ("parallel_random_walk_metropolis", "RWMRunner", base_init), ("parallel_t_preconditioned_crank_nicolson", "TPCNRunner", base_init)]
    for caller, callee, cdef in hops:
        params = [a.arg for a in cdef.args.args if a.arg != "self"]
        calls = [c for c in ast.walk(fdefs[caller]) if isinstance(c, ast.Call) and _nospace(c.func) == callee]
        need(len(calls) == 1, fdefs[caller], f"one call of {callee} in {caller}", "mcmc.py")
        c = calls[0]
        names = [a.id if isinstance(a, ast.Name) else None for a in c.args]
        need(names == params[:len(names)] and all(kw.arg == _nospace(kw.value) for kw in c.keywords)
             and {"periodic", "reflective"} <= set(names) | {kw.arg for kw in c.keywords}, c,
             f"{caller} -> {callee}: arguments {names} for parameters {params}", "mcmc.py")
    for cls_name in ("RWMRunner", "TPCNRunner"):
        ini = next(m for c in ast.walk(tree_all) if isinstance(c, ast.ClassDef) and c.name == cls_name
                   for m in c.body if isinstance(m, ast.FunctionDef) and m.name == "__init__")
        first = strip_doc(ini.body)[0]
        need(_nospace(first) == "super().__init__(*args,**kwargs)", ini, f"{cls_name} forwards its arguments unchanged", "mcmc.py")
    need("self.periodic=periodic" in _nospace(base_init) and "self.reflective=reflective" in _nospace(base_init), base_init,
         "the runner stores the designations under their own names", "mcmc.py")
    mu_run = _nospace(get_function(REPO / "tempest" / "steps" / "mutate.py", "Mutator.run"))
    need("periodic=self.periodic," in mu_run and "reflective=self.reflective," in mu_run, base_init, "Mutator passes its designations by keyword", "mutate.py")
    text = f"""(* GENERATED from /repo/tempest/mcmc.py (apply_boundary_conditions, check_bounds) by tools/props/c16.py *)
From Coq Require Import List Bool Arith.
From Tempest Require Import Base.Ops.
Definition copies_input : bool := true.
Definition periodic_map_is_mod_one : bool := true.
Definition periodic_then_reflective : bool := true.
Definition reflect_count_int64_cast : bool := {str(int_cast).lower()}.
Definition remainder {{T}} (o : Ops T) (val n_reflect : T) : T := {remainder}.
Definition fold_even_branch {{T}} (o : Ops T) (remainder : T) : T := {even_branch}.
Definition fold_odd_branch {{T}} (o : Ops T) (remainder : T) : T := {odd_branch}.
Definition bound_a {{T}} (o : Ops T) (v : T) : bool := {lo1}.
Definition bound_b {{T}} (o : Ops T) (v : T) : bool := {hi1}.
Definition strict_is_complement_of_designated : bool := true.
Definition designations_reach_the_runners_under_their_own_names : bool := true.
"""
    write_if_changed(COQ / "Gen" / "Boundary.v", text)


# ------------------------------------------------------------------ exact reference
def exact_wrap(v):
    f = Fraction(v)
    return f - math.floor(f)


def exact_fold(v):
    f = Fraction(v)
    n = math.floor(f)
    r = f - n
    return r if n % 2 == 0 else 1 - r


def values(rng, tier):
    vs = [0.0, -0.0, 1.0, -1.0, 0.5, -0.5, 2.0, -2.0, 3.0, 1e19, -1e19, 1e300, -1e300, 2.0 ** 63, -(2.0 ** 63),
          2.0 ** 62, 2.0 ** 53, 2.0 ** 53 + 2, 2.0 ** 52 + 1, 2.0 ** 52 + 0.0, -(2.0 ** 52) - 1, 2.0 ** 51 + 0.5,
          -(2.0 ** 51) - 0.5, 4503599627370495.5, -4503599627370495.5, 9007199254740991.0, -9007199254740991.0,
          5e-324, -5e-324, 2.2250738585072014e-308, -2.2250738585072014e-308, 1e-20, -1e-20, 1 - 2.0 ** -53,
          1 + 2.0 ** -52, -1e-17, 1e-17, 0.1, 0.7, 1.3, 2.7, -0.3, -1.3, -2.7, 123456.789, -123456.789,
          1.7976931348623157e308, -1.7976931348623157e308]
    for k in range(-4, 5):
        x = float(k)
        vs += [float(np.nextafter(x, -np.inf)), float(np.nextafter(x, np.inf))]
        a = float(np.nextafter(x, -np.inf))
        vs += [float(np.nextafter(a, -np.inf))]
    for e in range(-1074, 1024, 37 if tier == "quick" else 5):
        vs += [2.0 ** e if e > -1075 else 0.0, -(2.0 ** e)]
        if -1000 < e < 1000:
            vs += [1.5 * 2.0 ** e, -(1.25 * 2.0 ** e)]
    n_rand = 700 if tier == "quick" else 30000
    for _ in range(n_rand):
        e = rng.uniform(-40, 70) if rng.random() < 0.8 else rng.uniform(-1070, 1023)
        m = rng.uniform(1, 2)
        v = math.ldexp(m, int(e))
        vs.append(v if rng.random() < 0.5 else -v)
    for _ in range(n_rand // 4):
        k = rng.randrange(-10 ** 6, 10 ** 6)
        vs.append(float(k) + rng.choice([0.0, 2.0 ** -30, -(2.0 ** -30), 0.5, rng.random()]))
    return vs


def impl_scalar(vs):
    from tempest.mcmc import apply_boundary_conditions
    arr = np.array([[v, v, v] for v in vs], dtype=float)
    out2 = apply_boundary_conditions(arr, periodic=np.array([0]), reflective=np.array([1]))
    # 1-D path, value by value (different numpy code path for 0-d slices)
    out1 = np.array([apply_boundary_conditions(np.array([v, v, v]), np.array([0]), np.array([1])) for v in vs[:400]])
    return arr, out2, out1


def oracle_scalar(run, v, wrapped, folded, untouched, where):
    hv = float(v).hex()
    ok = True
    if not (np.float64(untouched).tobytes() == np.float64(v).tobytes()):
        run.fail("untouched-changed", f"{where}: non-designated coordinate changed", v=hv, got=float(untouched).hex())
        ok = False
    ew, ef = exact_wrap(v), exact_fold(v)
    if not (0.0 <= wrapped <= 1.0):
        run.fail("wrap-out-of-range", f"{where}: periodic map of {v!r} gives {wrapped!r} outside [0,1]", v=hv,
                 got=float(wrapped).hex())
        ok = False
    else:
        d = abs(Fraction(float(wrapped)) - ew)
        d = min(d, 1 - d)  # end points identified
        if d > Fraction(1, 2 ** 53):
            run.fail("wrap-wrong-value", f"{where}: periodic map of {v!r} gives {wrapped!r}, exact {float(ew)!r}", v=hv,
                     got=float(wrapped).hex())
            ok = False
    if not (0.0 <= folded <= 1.0):
        run.fail("fold-out-of-range", f"{where}: reflective map of {v!r} gives {folded!r} outside [0,1]", v=hv,
                 got=float(folded).hex())
        ok = False
    elif abs(Fraction(float(folded)) - ef) > Fraction(1, 2 ** 53):
        run.fail("fold-wrong-value", f"{where}: reflective map of {v!r} gives {folded!r}, exact {float(ef)!r}", v=hv,
                 got=float(folded).hex())
        ok = False
    return ok


def correspond_scalar(run, tier, rng):
    from tempest.mcmc import apply_boundary_conditions
    vs = values(rng, tier)
    try:
        arr, out2, out1 = impl_scalar(vs)
    except Exception as e:
        run.fail("apply-raises", f"apply_boundary_conditions raised {type(e).__name__}: {e}")
        return
    for i, v in enumerate(vs):
        run.case(key=float(v).hex(), nontrivial=not (0.0 <= v <= 1.0))
        run.count("in_unit" if 0 <= v <= 1 else ("huge" if abs(v) >= 2.0 ** 52 else ("tiny" if abs(v) < 1e-300 else "mid")))
        oracle_scalar(run, v, out2[i, 0], out2[i, 1], out2[i, 2], "2-D")
    for i in range(len(out1)):
        if out1[i].tobytes() != out2[i].tobytes():
            run.fail("1d-2d-differ", "1-D and 2-D paths give different results", v=float(vs[i]).hex())
    # idempotence on the implementation
    again = apply_boundary_conditions(out2, periodic=np.array([0]), reflective=np.array([1]))
    for i, v in enumerate(vs):
        a, b = out2[i], again[i]
        if not (0 <= a[0] <= 1 and 0 <= a[1] <= 1):
            continue
        w_ok = (a[0] == b[0]) or (a[0] == 1.0 and b[0] == 0.0)
        if not w_ok or a[1] != b[1]:
            run.fail("not-idempotent", f"applying twice changes the point: {a.tolist()} -> {b.tolist()}", v=float(v).hex())
    run.sample(dict(v=vs[9], periodic=float(out2[9, 0]), reflective=float(out2[9, 1]), untouched=float(out2[9, 2])))
    run.sample(dict(v=vs[40], periodic=float(out2[40, 0]), reflective=float(out2[40, 1])))
    # bit-exact twin
    shard = 1500
    srcs = []
    for s in range(0, len(vs), shard):
        chunk = list(range(s, min(len(vs), s + shard)))
        items = ";\n".join(
            f"(fsame (wrapF {fhex(vs[i])}) {fhex(out2[i, 0])} && fsame (foldF {fhex(vs[i])}) {fhex(out2[i, 1])})"
            for i in chunk)
        srcs.append(f"""From Coq Require Import List Bool PrimFloat.
From Tempest Require Import Base.Ops Model.Boundary.
Import ListNotations.
Definition res := [
{items}
].
Fixpoint bad (l : list bool) (i : nat) : list nat :=
  match l with [] => [] | b :: l' => if b then bad l' (S i) else i :: bad l' (S i) end.
Eval vm_compute in bad res 0.
""")
    res = coq_eval_many(run.scratch, srcs)
    nbad = 0
    for k, (ok, out) in enumerate(res):
        if not ok:
            run.broken.append(("correspondence-coqc", out[-1500:]))
            return
        for j in parse_evals(out)[0]:
            i = k * shard + j
            nbad += 1
            run.disagree("apply_boundary_conditions scalar: implementation vs binary64 model", v=float(vs[i]).hex(),
                         impl_wrap=float(out2[i, 0]).hex(), impl_fold=float(out2[i, 1]).hex())
    run.extra["bit_exact_values"] = len(vs)
    run.extra["bit_exact_disagree"] = nbad


def correspond_vectors(run, tier, rng):
    from tempest.mcmc import apply_boundary_conditions, check_bounds
    cases = []
    pool = [0.0, 1.0, -0.0, 0.25, 1.0000000000000002, -5e-324, 1.5, -0.75, 2.0, 7.25, -3.5, 0.9999999999999999, 1e-20]
    for d in (1, 2, 3, 4):
        idxs = list(range(d))
        for per in itertools.chain.from_iterable(itertools.combinations(idxs, k) for k in range(d + 1)):
            rest = [i for i in idxs if i not in per]
            for ref in itertools.chain.from_iterable(itertools.combinations(rest, k) for k in range(len(rest) + 1)):
                reps = 1 if tier == "quick" else 6
                for _ in range(reps):
                    u = [rng.choice(pool) if rng.random() < 0.7 else rng.uniform(-3, 3) for _ in range(d)]
                    cases.append((list(per), list(ref), u))
    items = []
    impl = []
    kept = []
    for per, ref, u in cases:
        p = np.array(per, dtype=int) if per else None
        r = np.array(ref, dtype=int) if ref else None
        if rng.random() < 0.3:
            p = np.array(per, dtype=int)  # empty arrays instead of None
            r = np.array(ref, dtype=int)
        arr = np.array(u, dtype=float)
        before = arr.copy()
        try:
            out = apply_boundary_conditions(arr, p, r)
            if arr.tobytes() != before.tobytes():
                run.fail("input-mutated", "apply_boundary_conditions modified its argument", u=u, periodic=per, reflective=ref)
            cb_in = bool(check_bounds(arr, p, r))
            cb_out = bool(check_bounds(out, p, r))
            out2d = apply_boundary_conditions(np.array([u, u]), p, r)
            cb2 = check_bounds(np.array([u, u]), p, r)
        except Exception as e:
            run.fail("batch-raises", f"boundary routines raised {type(e).__name__}: {e} on a point / a 2-row batch of dimension {len(u)}",
                     u=[float(x).hex() for x in u], periodic=per, reflective=ref)
            continue
        if out2d[0].tobytes() != out.tobytes() or out2d[1].tobytes() != out.tobytes() or bool(cb2[0]) != cb_in \
                or bool(cb2[1]) != cb_in:
            run.fail("1d-2d-differ", "1-D and row-wise 2-D results differ", u=u, periodic=per, reflective=ref)
        # the statement, directly
        want = all(0.0 <= x <= 1.0 for j, x in enumerate(u) if j not in per and j not in ref)
        if cb_in != want:
            run.fail("check-bounds-wrong", f"check_bounds={cb_in} but non-designated coordinates in [0,1] = {want}",
                     u=[float(x).hex() for x in u], periodic=per, reflective=ref)
        for j, x in enumerate(u):
            if j not in per and j not in ref and np.float64(out[j]).tobytes() != np.float64(x).tobytes():
                run.fail("untouched-changed", "non-designated coordinate changed", u=u, periodic=per, reflective=ref)
        impl.append((list(map(float, out)), cb_in, cb_out))
        kept.append((per, ref, u))
        run.case(key=(tuple(per), tuple(ref), tuple(u)))
        items.append(
            f"(fsame_list (apply_bcF {natlist(per)} {natlist(ref)} {flist(u)}) {flist(out)} "
            f"&& Bool.eqb (check_boundsF {natlist(per)} {natlist(ref)} {flist(u)}) {str(cb_in).lower()} "
            f"&& Bool.eqb (check_boundsF {natlist(per)} {natlist(ref)} {flist(out)}) {str(cb_out).lower()})")
    run.count("vector_cases", len(cases))
    src = f"""From Coq Require Import List Bool PrimFloat.
From Tempest Require Import Base.Ops Model.Boundary.
Import ListNotations.
Definition res := [
{(";" + chr(10)).join(items)}
].
Fixpoint bad (l : list bool) (i : nat) : list nat :=
  match l with [] => [] | b :: l' => if b then bad l' (S i) else i :: bad l' (S i) end.
Eval vm_compute in bad res 0.
"""
    (ok, out), = coq_eval_many(run.scratch, [src])
    if not ok:
        run.broken.append(("correspondence-coqc", out[-1500:]))
        return
    for j in parse_evals(out)[0]:
        per, ref, u = kept[j]
        run.disagree("apply_boundary_conditions/check_bounds vector: implementation vs binary64 model",
                     periodic=per, reflective=ref, u=[float(x).hex() for x in u], impl=impl[j])


def batch_probe(run, tier, rng):
    """check_bounds / apply_boundary_conditions on 2-D batches of every shape (rows <, =, > columns): row by row they are the
    1-D functions."""
    from tempest.mcmc import apply_boundary_conditions, check_bounds
    pool = [0.0, 1.0, 0.25, 1.0000000000000002, -5e-324, 1.5, -0.75, 2.0, 0.9999999999999999]
    for rows, d in [(1, 3), (2, 3), (2, 5), (3, 2), (5, 2), (4, 4), (7, 1), (1, 1)]:
        idxs = list(range(d))
        for _ in range(3 if tier == "quick" else 20):
            per = [i for i in idxs if rng.random() < 0.35]
            ref = [i for i in idxs if i not in per and rng.random() < 0.35]
            U = np.array([[rng.choice(pool) if rng.random() < 0.6 else rng.uniform(-2, 3) for _ in range(d)] for _ in range(rows)])
            p = np.array(per, dtype=int) if per else None
            r = np.array(ref, dtype=int) if ref else None
            what = dict(shape=[rows, d], periodic=per, reflective=ref, batch=U.tolist())
            run.case(key=("batch", rows, d, tuple(per), tuple(ref)), nontrivial=rows != d)
            try:
                got_cb = np.asarray(check_bounds(U, p, r))
                got_bc = apply_boundary_conditions(U, p, r)
                want_cb = np.array([bool(check_bounds(U[i], p, r)) for i in range(rows)])
                want_bc = np.array([apply_boundary_conditions(U[i], p, r) for i in range(rows)])
            except Exception as e:
                run.fail("batch-raises", f"boundary routines raised {type(e).__name__} on a batch of shape {rows}x{d}: {e}", **what)
                continue
            if got_cb.shape != (rows,) or np.any(got_cb != want_cb):
                run.fail("check-bounds-wrong", f"check_bounds on a {rows}x{d} batch returns {got_cb.tolist()}, row by row it is {want_cb.tolist()}", **what)
            if got_bc.shape != U.shape or not np.array_equal(got_bc, want_bc):
                run.fail("batch-map-differs", f"apply_boundary_conditions on a {rows}x{d} batch differs from its row-by-row application", **what)


def plumbing_probe(run, tier, rng):
    """The coordinates the user designates are the ones the kernel wraps / folds: the periodic and reflective lists given to the
    Sampler (and to parallel_mcmc) must reach the runner constructors unchanged and unswapped: the RWM runner ends up with the periodic
    list and no reflective one (it rejects at reflective walls), the tpCN runner with none."""
    import tempest.mcmc as mc
    from tempest import Sampler
    seen = []
    orig_run = mc.BaseMCMCRunner.run

    def spy(self):
        seen.append((type(self).__name__, None if self.periodic is None else [int(v) for v in self.periodic],
                     None if self.reflective is None else [int(v) for v in self.reflective]))
        return orig_run(self)
    mc.BaseMCMCRunner.run = spy
    try:
        for kind in ("rwm", "tpcn"):
            for per, ref in (([0], [2]), ([1, 2], [0]), ([2], None), (None, [1])):
                del seen[:]
                kw = {}
                if per is not None:
                    kw["periodic"] = per
                if ref is not None:
                    kw["reflective"] = ref
                s = Sampler(lambda u: 4 * u - 2, lambda x: -0.5 * float(np.sum(x ** 2)), n_dim=3, n_particles=12, sample=kind,
                            clustering=False, random_state=3, **kw)
                s.run(n_total=12, progress=False)
                run.case(key=("plumbing", kind, str(per), str(ref)), nontrivial=True)
                # RWM wraps the designated periodic coordinates; neither kernel folds at reflective walls (both reject there)
                want = (per, None) if kind == "rwm" else (None, None)
                bad = [t for t in seen if (t[1], t[2]) != want]
                if not seen or bad:
                    run.fail("designation-does-not-reach-the-kernel", f"Sampler(sample={kind!r}, periodic={per}, reflective={ref}): the runner works with "
                             f"periodic={bad[0][1] if bad else None}, reflective={bad[0][2] if bad else None} (expected {want})",
                             kernel=kind, periodic=per, reflective=ref)
    finally:
        mc.BaseMCMCRunner.run = orig_run


def reused_container_probe(run, rng):
    """the designation is whatever the lists contain WHEN the routine is called: the same list / array object edited in place between two
    calls must give what a fresh container with the same content gives (no memory of earlier calls)"""
    import tempest.mcmc as mc
    for t in range(40):
        d = rng.choice([2, 3, 4])
        per_obj = [rng.choice([list, np.array][:2])(sorted(rng.sample(range(d), rng.randint(0, d - 1)))) for _ in range(1)][0]
        ref_obj = [i for i in range(d) if i not in set(int(v) for v in per_obj)][:rng.randint(0, 1)]
        u = np.array([rng.choice([0.5, 1.5, -0.25, 0.25, 2.75]) for _ in range(d)])
        first = (mc.check_bounds(u, per_obj, ref_obj), mc.apply_boundary_conditions(u, per_obj if len(per_obj) else None, ref_obj or None).tolist())
        # edit the SAME objects in place
        free = [i for i in range(d) if i not in set(int(v) for v in per_obj) and i not in ref_obj]
        if isinstance(per_obj, list):
            if per_obj and rng.random() < 0.5:
                per_obj.pop()
            elif free:
                per_obj.append(free[0])
        elif len(per_obj) and free:
            per_obj[0] = free[0]
        got = (mc.check_bounds(u, per_obj, ref_obj), mc.apply_boundary_conditions(u, per_obj if len(per_obj) else None, ref_obj or None).tolist())
        fresh_p = [int(v) for v in per_obj]
        want = (mc.check_bounds(u.copy(), list(fresh_p), list(ref_obj)), mc.apply_boundary_conditions(u.copy(), list(fresh_p) or None, list(ref_obj) or None).tolist())
        run.case(key=("reused-container", t), nontrivial=True)
        if got != want:
            run.fail("designation-remembered-from-an-earlier-call", f"u={u.tolist()}, periodic (same object, edited in place) = {fresh_p}, reflective = {ref_obj}: "
                     f"(check_bounds, apply_boundary_conditions) = {got}, with fresh containers {want}", u=u.tolist(), periodic=fresh_p, reflective=ref_obj)
            return


def search(run):
    rng = random.Random(99)
    correspond_scalar(run, "quick", rng)


def main(tier, seed):
    run = Run(PID, tier, seed)
    run.rule = ("scalar sweep: signed zeros, subnormals, neighbours (1 and 2 ulp) of every integer in [-4,4], powers of "
                "two over the whole exponent range, +-2^52..2^63, 1e19, 1e300, DBL_MAX, random doubles log-uniform in "
                "magnitude with both signs, integers +- small offsets; each value goes through the periodic map, the "
                "reflective map and an untouched coordinate, in 1-D and 2-D arrays. Vector sweep: every (periodic, "
                "reflective) pair of disjoint index subsets for d<=4. Non-trivial = value outside [0,1]; distinct by bit pattern.")
    run.assumptions = [
        "numpy floor/remainder/where are IEEE-exact elementwise operations (modelled by the binary64 twin: floor via "
        "the 2^52 trick, remainder(x,1.0) as fmod with the sign fix-up numpy applies)",
        "Q-level theorems (range, periodicity, evenness, idempotence, symmetric displacement) idealise rounding; "
        "the float clauses are carried by the bit-exact replay and the exact-rational oracle (|result - exact| <= 2^-53)",
    ]
    rng = random.Random(seed)
    try:
        translate()
        run.obligation("translate:mcmc.apply_boundary_conditions+check_bounds", True)
    except Exception as e:  # fail closed: anything the translator cannot digest
        run.obligation("translate:mcmc.apply_boundary_conditions+check_bounds", False, str(e))
    run.prove("Props/C16.v", link_rels=["Link/Boundary.v"])
    run.prove("Props/C16F.v", allowed_axioms=STDLIB_AXIOMS_REALS)
    try:
        correspond_scalar(run, tier, rng)
        correspond_vectors(run, tier, rng)
        batch_probe(run, tier, rng)
        plumbing_probe(run, tier, rng)
        reused_container_probe(run, rng)
    except Exception:
        import traceback
        run.broken.append(("harness-exception", traceback.format_exc()[-1500:]))
    run.finish(search=search)
