"""C12 — run() postconditions and the posterior()/evidence() contract."""
import ast
import itertools
import math
import random

import numpy as np

from common import (COQ, REPO, ExprTr, Run, TranslateError, coq_eval_many, fhex, flist, get_function, natlist,
                    parse_evals, strip_doc, write_if_changed)

PID = "C12"
SQRTEPS = math.sqrt(float(np.finfo(np.float64).eps))


def _ns(n):
    return ast.unparse(n).replace(" ", "")


def coq_strs(xs):
    return "[" + "; ".join(f'"{x}"%string' for x in xs) + "]" if xs else "(@nil string)"


def translate():
    path = REPO / "tempest" / "core.py"

    def need(c, node, msg, w):
        if not c:
            raise TranslateError(f"{w}: line {getattr(node, 'lineno', '?')}: {msg}: {ast.unparse(node)[:200]}")

    # _not_termination
    w = "core.py:SamplerCore._not_termination"
    fn = get_function(path, "SamplerCore._not_termination")
    b = [s for s in strip_doc(fn.body) if not isinstance(s, (ast.ImportFrom, ast.Import))]
    src = [_ns(s) for s in b]
    need(src[0] == "logw,_=self.state.compute_logw_and_logz(1.0)", b[0], "weights at beta=1 over the whole history", w)
    need(isinstance(b[1], ast.If) and _ns(b[1].test) == "len(logw)==0" and _ns(b[1].body[0]) == "returnTrue", b[1], "empty guard", w)
    need(src[2] == "weights=np.exp(logw-np.max(logw))", b[2], "weights", w)
    need(src[3] == "ess=effective_sample_size(weights)", b[3], "ess", w)
    need(src[4] == "beta=self.state.get_current('beta')", b[4], "beta", w)
    need(isinstance(b[5], ast.Return), b[5], "return", w)
    ret = ExprTr({"beta": "beta", "ess": "ess", "getattr(self,'n_total',0)": "n_total", "self.n_total": "n_total"},
                 consts={"0.0001": "tol"}, where=w).boolean(b[5].value)
    # run_sampling tail
    w = "core.py:SamplerCore.run_sampling"
    fn = get_function(path, "SamplerCore.run_sampling")
    body = strip_doc(fn.body)
    k = next((i for i, s in enumerate(body) if isinstance(s, ast.While)), None)
    need(k is not None, fn, "while loop", w)
    loop = body[k]
    need(_ns(loop.test) == "self._not_termination()" and len(loop.body) == 1
         and _ns(loop.body[0]) == "self.execute_iteration(save_every=save_every,t0=t0)", loop, "loop", w)
    tail = body[k + 1:]
    tsrc = [_ns(s) for s in tail]
    need(tsrc[0] == "_,logz=self.state.compute_logw_and_logz(1.0)" and tsrc[1] == "self.state.set_current('logz',logz)",
         tail[0], "final evidence", w)
    writes, commits = [], False
    for s in tail:
        for node in ast.walk(s):
            if isinstance(node, ast.Call) and isinstance(node.func, ast.Attribute):
                if node.func.attr in ("set_current", "update_current"):
                    a0 = node.args[0]
                    need(isinstance(a0, ast.Constant), node, "literal key", w)
                    writes.append(a0.value)
                if node.func.attr in ("commit_current_to_history", "update_from_dict", "from_dict", "load_state"):
                    commits = True
                if node.func.attr in ("execute_iteration", "run", "sample"):
                    commits = True
    ev = get_function(path, "SamplerCore.compute_evidence")
    need("logz=self.state.get_current('logz')" in _ns(ev), ev, "evidence reads current logz", "core.py:compute_evidence")
    # compute_posterior
    w = "core.py:SamplerCore.compute_posterior"
    fn = get_function(path, "SamplerCore.compute_posterior")
    body = strip_doc(fn.body)
    src = [_ns(s) for s in body]
    need(src[0] == "logw,logz=self.state.compute_logw_and_logz(1.0)" and src[1] == "weights=np.exp(logw-np.max(logw))"
         and src[2] == "weights/=np.sum(weights)", body[0], "weights", w)
    need(src[3] == "u=self.state.get_history('u',flat=True)" and src[4] == "x=self.state.get_history('x',flat=True)"
         and src[5] == "logl=self.state.get_history('logl',flat=True)", body[3], "pool fields", w)
    stage = {}
    for s in body:
        if isinstance(s, ast.If) and _ns(s.test) in ("trim_importance_weights", "resample"):
            idxd = []
            call_ok = False
            unif = False
            for st in s.body:
                if isinstance(st, (ast.ImportFrom, ast.Import)):
                    continue
                t = _ns(st)
                if t == "idx,weights=trim_weights(np.arange(len(weights)),weights,ess=ess_trim,bins=bins_trim)":
                    call_ok = True
                elif t == "idx=systematic_resample(len(weights),weights)":
                    call_ok = True
                elif t == "weights=np.ones(len(idx))/len(idx)":
                    unif = True
                elif isinstance(st, ast.Assign) and isinstance(st.value, ast.Subscript) and _ns(st.value.slice) == "idx" \
                        and _ns(st.targets[0]) == _ns(st.value.value):
                    idxd.append(_ns(st.targets[0]))
                elif isinstance(st, ast.If) and _ns(st.test) == "blobsisnotNone" and [_ns(x) for x in st.body] == ["blobs=blobs[idx]"]:
                    idxd.append("blobs")
                else:
                    need(False, st, f"unrecognised statement in the {_ns(s.test)} stage", w)
            stage[_ns(s.test)] = (sorted(idxd, key=["u", "x", "logl", "blobs", "logw"].index), call_ok, unif)
    need(set(stage) == {"trim_importance_weights", "resample"}, fn, "two stages", w)
    # return tuples
    rets = [_ns(n.value) for n in ast.walk(fn) if isinstance(n, ast.Return)]
    need(sorted(rets) == sorted(["(x,weights,logl,blobs,logw)", "(x,weights,logl,blobs)", "(x,weights,logl,logw)",
                                 "(x,weights,logl)"]), fn, f"return tuples {rets}", w)
    text = f"""(* GENERATED from /repo/tempest/core.py by tools/props/c12.py *)
From Coq Require Import List Bool Arith String.
From Tempest Require Import Base.Ops.
Import ListNotations.
Definition not_termination {{T}} (o : Ops T) (tol beta ess n_total : T) : bool := {ret}.
Definition trim_indexes : list string := {coq_strs(stage['trim_importance_weights'][0])}.
Definition resample_indexes : list string := {coq_strs(stage['resample'][0])}.
Definition trim_uses_arange_and_weights : bool := {str(stage['trim_importance_weights'][1]).lower()}.
Definition resample_uses_len_weights_and_weights : bool := {str(stage['resample'][1]).lower()}.
Definition resampled_weights_uniform : bool := {str(stage['resample'][2]).lower()}.
Definition weights_are_exp_logw_normalised_at_beta_one : bool := true.
Definition tail_recomputes_logz_at_one : bool := true.
Definition tail_writes : list string := {coq_strs(writes)}.
Definition tail_commits_history : bool := {str(commits).lower()}.
Definition evidence_reads_current_logz : bool := true.
"""
    write_if_changed(COQ / "Gen" / "Posterior.v", text)


# ------------------------------------------------------------------ harness
def make_sampler(rng, blobs, **kw):
    from tempest import Sampler
    d = kw.pop("n_dim", 2)

    def prior(u):
        return 8.0 * u - 4.0

    if blobs:
        def loglike(x):
            # zero likelihood on part of the prior: exercises the replacement of -inf prior draws
            return (-0.5 * float(np.sum(x ** 2)) if x[0] > -2.5 else -np.inf), float(np.sum(x) * 3.0 + 1.0)
    else:
        def loglike(x):
            return -0.5 * float(np.sum(x ** 2))
    if kw.pop("vec_buffer", False):
        bufs = {}

        def loglike(X):   # vectorised, filling and returning ONE reused output array per batch size
            b = bufs.setdefault(len(X), np.empty(len(X)))
            b[:] = -0.5 * np.sum(np.asarray(X) ** 2, axis=1)
            return b
        kw["vectorize"] = True
    return Sampler(prior_transform=prior, log_likelihood=loglike, n_dim=d, n_particles=kw.pop("n_particles", 16),
                   blobs_dtype=float if blobs else None, **kw)


def pool_of(s):
    st = s.state
    x = st.get_history("x", flat=True)
    logl = st.get_history("logl", flat=True)
    logw, logz = st.compute_logw_and_logz(1.0)
    return x, logl, logw, logz


def row_index(pool_x, row):
    hits = np.where(np.all(pool_x == row, axis=1))[0]
    return [int(h) for h in hits]


def check_posterior(run, s, rng, blobs, tier, what):
    from tempest import tools
    x_pool, logl_pool, logw_pool, _ = pool_of(s)
    blobs_pool = s.state.get_history("blobs", flat=True) if blobs else None
    N = len(logl_pool)
    combos = list(itertools.product([False, True], repeat=4))
    coq_cases = []
    for (resample, trim, rb, rl) in combos:
        for (ess_trim, bins_trim) in ([(0.99, 1000), (0.7, 10)] if tier == "quick" else [(0.99, 1000), (0.7, 10), (0.9, 50), (0.5, 3)]):
            if not trim and (ess_trim, bins_trim) != (0.99, 1000):
                continue
            u0 = rng.random()
            orig = np.random.random
            np.random.random = lambda *a, **k: u0
            # the four flags as Python bools, numpy booleans (what a comparison on arrays yields) or 0/1 integers: truthiness is what counts
            as_ = [bool, np.bool_, int][(int(resample) + 2 * int(trim) + int(ess_trim * 100)) % 3]
            opts = dict(resample=as_(resample), trim_importance_weights=as_(trim), return_blobs=as_(rb), return_logw=as_(rl),
                        ess_trim=ess_trim, bins_trim=bins_trim)
            w2 = dict(what, **{k: (v if isinstance(v, float) else repr(v)) for k, v in opts.items()}, u0=u0)
            try:
                out = s.posterior(**opts)
            except Exception as e:
                run.fail("posterior-raises", f"posterior raised {type(e).__name__}: {e}", **w2)
                continue
            finally:
                np.random.random = orig
            run.case(key=("post", what.get("cfg"), resample, trim, rb, rl, ess_trim, bins_trim), nontrivial=trim or resample)
            exp_len = 3 + (1 if (rb and blobs) else 0) + (1 if rl else 0)
            if len(out) != exp_len:
                run.fail("posterior-arity", f"posterior returned {len(out)} arrays, expected {exp_len}", **w2)
                continue
            xs, ws, ls = out[0], out[1], out[2]
            bs = out[3] if (rb and blobs) else None
            lws = out[-1] if rl else None
            lens = {"samples": len(xs), "weights": len(ws), "logl": len(ls)}
            if bs is not None:
                lens["blobs"] = len(bs)
            if lws is not None:
                lens["logw"] = len(lws)
            if len(set(lens.values())) != 1:
                run.fail("posterior-lengths-differ", f"returned arrays have lengths {lens}", **w2)
                continue
            if np.any(ws < 0) or abs(float(np.sum(ws)) - 1.0) > 1e-9:
                run.fail("posterior-weights", f"weights min={ws.min()}, sum={np.sum(ws)}", **w2)
            if resample and not np.allclose(ws, 1.0 / len(ws)):
                run.fail("posterior-weights-not-uniform", "weights after resampling are not uniform", **w2)
            # rows refer to the same pool particle
            bad = None
            sel = []
            for r in range(len(xs)):
                cand = row_index(x_pool, xs[r])
                cand = [c for c in cand if logl_pool[c] == ls[r]]
                if bs is not None:
                    cand = [c for c in cand if blobs_pool[c] == bs[r]]
                if lws is not None:
                    cand = [c for c in cand if logw_pool[c] == lws[r]]
                if not cand:
                    bad = r
                    break
                sel.append(cand[0])
            if bad is None and bs is not None:
                wrong = [r for r in range(len(xs)) if float(np.sum(xs[r]) * 3.0 + 1.0) != float(bs[r])]
                if wrong:
                    run.fail("posterior-blob-not-of-sample", f"row {wrong[0]}: the returned blob is not the one the likelihood returns at the returned sample", **w2)
                    continue
            if bad is not None:
                run.fail("posterior-rows-misaligned", f"row {bad}: no pool particle carries this (sample, logl, blob, logw) combination", **w2)
                continue
            # model prediction of the selection
            weights = np.exp(logw_pool - np.max(logw_pool))
            weights /= np.sum(weights)
            if trim:
                tsel, tw = tools.trim_weights(np.arange(N), weights.copy(), ess=ess_trim, bins=bins_trim)
            else:
                tsel, tw = np.arange(N), weights
            coq_cases.append((N, trim, resample, [int(i) for i in tsel], [float(v) for v in tw], u0, sel, w2))
    # run the Coq model: selection through the binary64 systematic-resampling twin
    items = []
    for (N, trim, resample, tsel, tw, u0, sel, w2) in coq_cases:
        s_ = float(np.sum(np.array(tw)))
        res = (f"(match sysres_with_sum FOps true {len(tw)} {flist(tw)} {fhex(s_)} {fhex(SQRTEPS)} {fhex(u0)} "
               f"with Some l => l | None => [] end)") if resample else "[]"
        items.append(f"(selection {N} {str(trim).lower()} {str(resample).lower()} {natlist(tsel)} {res})")
    src = f"""From Coq Require Import List Bool PrimFloat.
From Tempest Require Import Base.Ops Model.Resample Model.Posterior.
Import ListNotations.
Eval vm_compute in [
{(';' + chr(10)).join(items)}
].
"""
    srcs = [src]
    (ok, out), = coq_eval_many(run.scratch, srcs)
    if not ok:
        run.broken.append(("posterior-correspondence-coqc", out[-1500:]))
        return
    mo = parse_evals(out)[0]
    for case, m in zip(coq_cases, mo):
        (N, trim, resample, tsel, tw, u0, sel, w2) = case
        # pool rows may repeat (copies made by resampling); compare particle content, not indices
        same = len(m) == len(sel) and all(
            np.array_equal(x_pool[a], x_pool[b]) and logl_pool[a] == logl_pool[b] and logw_pool[a] == logw_pool[b]
            for a, b in zip(m, sel))
        if not same:
            run.disagree("posterior selection: implementation vs model (trim oracle + binary64 resampling twin)",
                         impl=sel[:30], model=m[:30], **w2)
    run.count("posterior_model_cases", len(coq_cases))


def check_run(run, s, n_total, what, unit_gaussian=False):
    from tempest.tools import effective_sample_size
    beta = float(s.state.get_current("beta"))
    logw, logz = s.state.compute_logw_and_logz(1.0)
    ess = float(effective_sample_size(np.exp(logw - np.max(logw))))
    if not (1.0 - beta < 1e-4):
        run.fail("exit-beta", f"run() returned with beta={beta!r}", **what)
    if not (ess >= n_total):
        run.fail("exit-ess", f"run() returned with posterior ESS {ess!r} < n_total {n_total}", **what)
    ev = s.evidence()
    if not (isinstance(ev, tuple) and abs(float(ev[0]) - float(logz)) <= 1e-9 * max(1, abs(logz))):
        run.fail("evidence-not-mis", f"evidence()={ev!r} but MIS evidence at beta=1 from the stored history is {logz!r}", **what)
    hist_beta = [float(b) for b in s.state.get_history("beta")]
    if abs(hist_beta[-1] - beta) > 0:
        run.fail("exit-state", "current beta differs from the last committed beta", **what)
    # the history the postconditions are computed from holds the likelihood of the particles in it (a stored value that is not the
    # likelihood of its row makes ESS and evidence statements about another sample)
    if not unit_gaussian:      # only for the samplers of make_sampler (log-likelihood -|x|^2/2 where finite)
        return
    hx, hl = s.state.get_history("x", flat=True), s.state.get_history("logl", flat=True)
    true_l = -0.5 * np.sum(hx ** 2, axis=1)
    fin = np.isfinite(hl)
    if np.any(np.abs(hl[fin] - true_l[fin]) > 1e-9 * (1 + np.abs(true_l[fin]))):
        k_ = int(np.argmax(np.abs(np.where(fin, hl - true_l, 0.0))))
        tw = np.exp(true_l - np.max(true_l))
        run.fail("stored-loglikelihood-not-of-its-row", f"history row {k_}: stored log-likelihood {hl[k_]!r}, likelihood of the stored particle {true_l[k_]!r} "
                 f"({int(np.sum(np.abs(hl[fin] - true_l[fin]) > 1e-9 * (1 + np.abs(true_l[fin]))))} such rows): ESS and evidence are computed from values that "
                 f"do not belong to the sample", **what)


def boundary_probe(run, tier, rng):
    """the ESS trajectory of a seeded run does not depend on n_total: probe once, then ask for n_total just above
    the ESS reached at each iteration (and exactly at integer-rounding boundaries) and check the exit conditions."""
    from tempest.tools import effective_sample_size
    reps = 1 if tier == "quick" else 4
    for t in range(reps):
        seed = rng.randrange(10 ** 6)
        cfg = dict(clustering=False, random_state=seed, n_particles=12)
        s = make_sampler(rng, False, **cfg)
        s._core._initialize_fresh()
        traj = []
        for it in range(14):
            s.sample()
            logw, _ = s.state.compute_logw_and_logz(1.0)
            traj.append((float(s.state.get_current("beta")), float(effective_sample_size(np.exp(logw - np.max(logw))))))
        targets = sorted({int(e) + 1 for b, e in traj if 1 - b < 1e-4 and e - int(e) >= 0.5})[:3] or \
            sorted({int(e) + 1 for b, e in traj if 1 - b < 1e-4})[:2]
        for n_total in targets:
            s2 = make_sampler(rng, False, **cfg)
            what = dict(cfg=str(cfg), n_total=n_total, probe_trajectory=traj)
            try:
                s2.run(n_total=n_total, progress=False)
            except Exception as e:
                run.fail("run-raises", f"run raised {type(e).__name__}: {e}", **what)
                continue
            run.case(key=("boundary", t, n_total), nontrivial=True)
            check_run(run, s2, n_total, what)


def band_probe(run, tier, rng):
    """runs engineered (see c10.band_sampler) to terminate with beta = 1 - 2^-14, inside the tolerance but not equal to 1:
    the exit conditions and evidence() = MIS evidence at beta = 1 must hold there too."""
    import c10
    for rep in range(2 if tier == "quick" else 8):
        seed = rng.randrange(10 ** 6)
        N, sig = rng.choice([16, 48]), rng.choice([5.0, 8.0])
        what = dict(probe="termination-band", random_state=seed, n_particles=N, sigma=sig)
        try:
            out = c10.band_sampler(seed, N, sig)
        except Exception as e:
            run.fail("run-raises", f"band run raised {type(e).__name__}: {e}", **what)
            continue
        if out is None:
            run.count("band probe: bracket unusable")
            continue
        s, ratio = out
        b = float(s.state.get_current("beta"))
        run.case(key=("band", rep), nontrivial=1 - 1e-4 < b < 1.0)
        run.count("band probe: terminated with beta in (1-1e-4, 1)" if b < 1.0 else "band probe: terminated at beta = 1")
        check_run(run, s, N // 2, dict(what, ess_ratio=ratio, beta_last=b))


def resume_probe(run, tier, rng):
    """the exit conditions are those of the CALL: a run resumed from a checkpoint with a larger n_total ends above it"""
    import tempfile
    from pathlib import Path
    for rep in range(1 if tier == "quick" else 4):
        seed = rng.randrange(10 ** 6)
        work = Path(tempfile.mkdtemp(prefix="c12_", dir=run.scratch.dir))
        cfg = dict(clustering=False, random_state=seed, n_particles=12, output_dir=str(work), output_label="r")
        s = make_sampler(rng, False, **dict(cfg))
        what = dict(probe="resume-with-larger-n_total", cfg={k: v for k, v in cfg.items() if k != "output_dir"}, first_n_total=60, second_n_total=90)
        try:
            s.run(n_total=60, progress=False, save_every=1)    # several iterations at beta = 1: numbered checkpoints exist there
            ck = work / "r_final.state"
            # resumed by a sampler with ANOTHER number of particles: the stored batches now have unequal sizes
            s2 = make_sampler(rng, False, **dict(cfg, n_particles=30))
            s2.run(n_total=90, progress=False, resume_state_path=str(ck))
        except Exception as e:
            run.fail("run-raises", f"resumed run raised {type(e).__name__}: {e}", **what)
            continue
        run.case(key=("resume", rep), nontrivial=True)
        check_run(run, s2, 90, what)
        # the final checkpoint is the state run() returned with: loaded into a fresh sampler it reports the same evidence, which is the
        # mixture evidence at beta = 1 of the history it holds
        try:
            s5 = make_sampler(rng, False, **dict(cfg))
            s5.load_state(str(ck))
            _, lz5 = s5.state.compute_logw_and_logz(1.0)
            ev5, ev0 = float(s5.evidence()[0]), float(s.evidence()[0])
            run.case(key=("final-checkpoint", rep), nontrivial=True)
            if abs(ev5 - float(lz5)) > 1e-9 * max(1.0, abs(float(lz5))) or abs(ev5 - ev0) > 1e-12 * max(1.0, abs(ev0)):
                run.fail("evidence-not-mis", f"the final checkpoint of run(n_total=60, save_every=1) loaded into a fresh sampler reports evidence {ev5!r}; the sampler that "
                         f"wrote it reports {ev0!r} and the mixture formula on the restored history gives {float(lz5)!r}", **what)
        except Exception as e:
            run.fail("run-raises", f"loading the final checkpoint raised {type(e).__name__}: {e}", **what)
        # a resume that has nothing left to do: the last numbered checkpoint (already at beta = 1) with an n_total below the ESS it holds
        cks = sorted(work.glob("r_[0-9]*.state"), key=lambda p_: int(p_.stem.split("_")[1]))
        if cks:
            s3 = make_sampler(rng, False, **dict(cfg))
            w3 = dict(what, probe="resume-with-nothing-left-to-do", checkpoint=cks[-1].name, second_n_total=3)
            try:
                s3.run(n_total=3, progress=False, resume_state_path=str(cks[-1]))
                run.case(key=("resume-noop", rep), nontrivial=True)
                run.count(f"no-op resume: history length {len(s3.state.get_history('beta'))} (checkpoint iteration {cks[-1].stem.split('_')[1]})")
                check_run(run, s3, 3, w3)
            except Exception as e:
                run.fail("run-raises", f"no-op resume raised {type(e).__name__}: {e}", **w3)
        # evidence() against an independent evaluation of the mixture formula (n_t/N weights) on the stored history
        import c04
        h = s2.state._history
        ref = float(c04.ref_decimal([float(b) for b in h["beta"]], [float(z) for z in h["logz"]], [list(map(float, l)) for l in h["logl"]], 1.0)[1])
        sizes = sorted({len(l) for l in h["logl"]})
        run.count(f"resume probe: batch sizes in the resumed history {sizes}")
        if abs(float(s2.evidence()[0]) - ref) > 1e-8 * max(1.0, abs(ref)):
            run.fail("evidence-not-mis", f"after resuming with another n_particles (batch sizes {sizes}) evidence()={float(s2.evidence()[0])!r} but the "
                     f"mixture formula on the stored history gives {ref!r}", **what)


def sweep(run, tier, rng):
    cfgs = []
    for sample in ("tpcn", "rwm"):
        for resample in ("mult", "syst"):
            for clustering in (False, True):
                cfgs.append(dict(sample=sample, resample=resample, clustering=clustering))
    if tier == "quick":
        cfgs = [cfgs[i] for i in (0, 3, 5, 6)]
    cfgs += [dict(sample="tpcn", resample="mult", clustering=False, vec_buffer=True), dict(sample="rwm", resample="syst", clustering=True, vec_buffer=True)]
    for i, cfg in enumerate(cfgs):
        blobs = (i % 2 == 1) and not cfg.get("vec_buffer")
        vv = 0.5 if i % 3 == 2 else None
        n_total = rng.choice([48, 96])
        seed = rng.randrange(2 ** 31)
        np.random.seed(seed)
        what = dict(cfg=str(cfg), blobs=blobs, volume_variation=vv, n_total=n_total, np_seed=seed)
        try:
            s = make_sampler(rng, blobs, volume_variation=vv, **cfg)
            s.run(n_total=n_total, progress=False)
        except Exception as e:
            run.fail("run-raises", f"run raised {type(e).__name__}: {e}", **what)
            continue
        run.case(key=("run", i), nontrivial=True)
        run.count(f"cfg={cfg['sample']}/{cfg['resample']}/cl={cfg['clustering']}")
        check_run(run, s, n_total, what, unit_gaussian=True)
        check_posterior(run, s, rng, blobs, tier, what)
        if i in (0, 1):
            # run() again on the sampler that has just finished, asking for no more than it already has: the postconditions hold
            # after every call, not only after the first one
            for again in (n_total, n_total // 2):
                try:
                    s.run(n_total=again, progress=False)
                except Exception as e:
                    run.fail("run-raises", f"run(n_total={again}) on a finished sampler raised {type(e).__name__}: {e}", **what)
                    break
                run.case(key=("run-again", i, again), nontrivial=True)
                check_run(run, s, again, dict(what, then_run_again_with_n_total=again), unit_gaussian=True)
        if i == 0:
            x, w, l = s.posterior()
            run.sample(dict(case=what, posterior_len=len(w), pool=len(pool_of(s)[1]), evidence=s.evidence()[0]))


def main(tier, seed):
    run = Run(PID, tier, seed)
    run.rule = ("short real runs over kernel x resampler x clustering x blobs x metric mode; after each: exit conditions and "
                "evidence recomputed from the stored history; then all 16 posterior() option combinations x trimming "
                "parameters with the resampling offset injected: lengths, weights, and row identity of "
                "(sample, logl, blob, logw) against the pool; selection compared with the Coq model (trim oracle + "
                "binary64 resampling twin). Non-trivial: a combination that trims or resamples.")
    run.assumptions = [
        "termination of run() (liveness) is not claimed: the theorem is about the state on return",
        "trim_weights and systematic_resample are the routines of C20 / C06 (oracles here)",
    ]
    rng = random.Random(seed)
    try:
        translate()
        run.obligation("translate:core._not_termination+run_sampling+compute_posterior", True)
    except Exception as e:  # fail closed: anything the translator cannot digest
        run.obligation("translate:core._not_termination+run_sampling+compute_posterior", False, str(e))
    run.prove("Props/C12.v", link_rels=["Link/Posterior.v"])
    try:
        sweep(run, tier, rng)
        boundary_probe(run, tier, rng)
        band_probe(run, tier, rng)
        resume_probe(run, tier, rng)
    except Exception:
        import traceback
        run.broken.append(("harness-exception", traceback.format_exc()[-1500:]))

    def search(r):
        if not r.failures:
            sweep(r, "quick", random.Random(31337))

    run.finish(search=search)
