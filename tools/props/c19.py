"""C19 — Student-t proposal fit is well-posed and equivariant."""
import ast
import math
import random
from fractions import Fraction

import numpy as np

from common import COQ, REPO, Run, TranslateError, coq_eval_many, get_function, parse_evals, qlist, qlit, strip_doc, write_if_changed

PID = "C19"


def _ns(n):
    return ast.unparse(n).replace(" ", "")


def translate():
    def need(c, node, msg, w):
        if not c:
            raise TranslateError(f"{w}: line {getattr(node, 'lineno', '?')}: {msg}: {ast.unparse(node)[:200]}")

    st = REPO / "tempest" / "student.py"
    w = "student.py:fit_mvstud"
    fn = get_function(st, "fit_mvstud")
    t = _ns(fn).replace("\n", "")
    f = {}
    f["delta_is_mahalanobis_of_centred_rows_with_current_scale"] = "diffs=data-mu" in t and "delta_iobs=np.sum(diffs*np.linalg.solve(Sigma,diffs),0)" in t
    f["weights_are_nu_plus_dim_over_nu_plus_delta"] = t.count("w_iobs=(nu+dim)/(nu+delta_iobs)") == 2
    f["scale_update_is_weighted_outer_products_over_n_with_old_location"] = "Sigma=np.dot(w_iobs*diffs,diffs.T)/n" in t
    f["location_update_is_weighted_mean_normalised_by_weight_sum"] = "mu=np.sum(w_iobs*data,1)/sum(w_iobs)" in t
    # func0 reads nu, dim, delta_iobs, n only
    func0 = next(n for n in ast.walk(fn) if isinstance(n, ast.FunctionDef) and n.name == "func0")
    names = {n.id for n in ast.walk(func0) if isinstance(n, ast.Name)} - {"nu", "dim", "delta_iobs", "n", "special", "np", "w_iobs", "f"}
    f["nu_update_reads_only_deltas_dim_and_n"] = not names
    loop = next(n for n in ast.walk(fn) if isinstance(n, ast.While))
    f["stopping_test_reads_only_nu"] = _ns(loop.test) == "np.abs(last_nu-nu)>toleranceandi<max_iter"
    f["initial_location_is_coordinate_median"] = "mu=np.array([np.median(data,1)]).T" in t
    f["initial_scale_is_biased_covariance_plus_diagonal_variance_over_n"] = "Sigma=np.cov(data)*(n-1)/n+1/n*np.diag(np.var(data,axis=1))" in t
    f["infinite_nu_returned_when_root_bracket_has_no_sign_change"] = "iffunc0(1e+300)>=0:nu=np.infelse:nu=optimize.bisect(func0,1e-300,1e+300)" in t
    mo = REPO / "tempest" / "modes.py"
    for nm in ("from_particles", "from_global"):
        m = _ns(get_function(mo, f"ModeStatistics.{nm}")).replace("\n", "")
        f[f"nonfinite_dof_replaced_in_{nm}"] = "mean,covariance,dof=fit_mvstud(u_resampled)if~np.isfinite(dof):dof=dof_fallback" in m
    # each mode is fitted to the (weighted resample of the) particles of its own cluster
    fp = _ns(get_function(mo, "ModeStatistics.from_particles")).replace("\n", "")
    f["each_mode_fitted_to_its_own_cluster"] = all(x in fp for x in (
        "idx_cluster=np.where(labels==label)[0]", "u_cluster=u[idx_cluster]", "weights_cluster=weights[idx_cluster]",
        "idx_resample=np.random.choice(n_cluster,size=n_resample,replace=True,p=weights_cluster)", "u_resampled=u_cluster[idx_resample]"))
    fg = _ns(get_function(mo, "ModeStatistics.from_global")).replace("\n", "")
    f["global_mode_fitted_to_a_weighted_resample_of_all_particles"] = "u_resampled=u[idx_resample]" in fg and "p=weights" in fg
    # the configured fallback is the one that reaches the kernel: every construction of mode statistics in the trainer passes its
    # own DOF_FALLBACK, and the core hands the package constant to the trainer
    tr_fn = get_function(REPO / "tempest" / "steps" / "train.py", "Trainer.run")
    calls = [c for c in ast.walk(tr_fn) if isinstance(c, ast.Call) and _ns(c.func) in ("ModeStatistics.from_particles", "ModeStatistics.from_global")]
    f["trainer_passes_its_fallback_to_every_mode_construction"] = len(calls) == 3 and all(
        any(kw.arg == "dof_fallback" and _ns(kw.value) == "self.DOF_FALLBACK" for kw in c.keywords) for c in calls) \
        and "degrees_of_freedom=np.array([self.DOF_FALLBACK])" in _ns(tr_fn)
    tr_init = _ns(get_function(REPO / "tempest" / "steps" / "train.py", "Trainer.__init__"))
    co_init = _ns(get_function(REPO / "tempest" / "core.py", "SamplerCore.__init__"))
    f["core_hands_the_configured_fallback_to_the_trainer"] = "self.DOF_FALLBACK=DOF_FALLBACK" in tr_init and "DOF_FALLBACK=DOF_FALLBACK" in co_init \
        and any(isinstance(n, ast.ImportFrom) and any(a.name == "DOF_FALLBACK" for a in n.names)
                for n in ast.walk(ast.parse((REPO / "tempest" / "core.py").read_text())))
    for k, v in f.items():
        need(v, fn, k, w)
    text = "(* GENERATED from student.py and modes.py by tools/props/c19.py *)\n" + \
        "\n".join(f"Definition {k} : bool := {str(bool(v)).lower()}." for k, v in f.items()) + "\n"
    write_if_changed(COQ / "Gen" / "Student.v", text)


def gen(rng, nr, d=None, n=None):
    d = d or rng.choice([1, 2, 3, 4, 6, 8])
    n = n or rng.choice([4 * d, 6 * d + 1, 80, 300])
    law = rng.choice(["gauss", "t3", "skewed", "contaminated", "correlated"])
    if law == "gauss":
        X = nr.randn(n, d)
    elif law == "t3":
        X = nr.standard_t(3, size=(n, d))
    elif law == "skewed":
        X = nr.gamma(2.0, size=(n, d))
    elif law == "contaminated":
        X = nr.randn(n, d)
        X[: max(1, n // 10)] *= 15
    else:
        L = np.tril(nr.randn(d, d)) + 2 * np.eye(d)
        X = nr.randn(n, d) @ L.T
    return X, law


def check_fit(run, tier, rng):
    from tempest.student import fit_mvstud
    reps = 40 if tier == "quick" else 500
    for t in range(reps):
        nr = np.random.RandomState(rng.randrange(2 ** 31))
        X, law = gen(rng, nr)
        n, d = X.shape
        what = dict(case=t, n=n, d=d, law=law)
        try:
            mu, S, nu = fit_mvstud(X.copy())
        except Exception as e:
            run.fail("fit-raises", f"fit_mvstud raised {type(e).__name__}: {e}", **what)
            continue
        run.case(key=("fit", t), nontrivial=True)
        run.count(f"law={law}")
        lo, hi = X.min(axis=0), X.max(axis=0)
        if not np.all(np.isfinite(mu)) or np.any(mu < lo - 1e-9 * (1 + np.abs(lo))) or np.any(mu > hi + 1e-9 * (1 + np.abs(hi))):
            run.fail("location-outside-box", f"location {mu} outside the bounding box [{lo},{hi}]", **what)
        if not np.all(np.isfinite(S)) or np.max(np.abs(S - S.T)) > 1e-10 * np.max(np.abs(S)) or np.min(np.linalg.eigvalsh((S + S.T) / 2)) <= 0:
            run.fail("scale-not-spd", "scale matrix not symmetric positive-definite", **what)
        if not (nu > 0):
            run.fail("dof-not-positive", f"degrees of freedom {nu}", **what)
        # equivariance: per-coordinate scaling, translation, permutation
        sc = np.array([10.0 ** rng.uniform(-6, 6) for _ in range(d)])
        b = nr.randn(d) * rng.choice([0.0, 1.0, 1e3])
        perm = nr.permutation(d)
        Y = (X * sc + b)[:, perm]
        try:
            mu2, S2, nu2 = fit_mvstud(Y.copy())
        except Exception as e:
            run.fail("fit-raises", f"fit_mvstud on the transformed data raised {type(e).__name__}: {e}", **what)
            continue
        mu_exp = (mu * sc + b)[perm]
        S_exp = (S * np.outer(sc, sc))[np.ix_(perm, perm)]
        tol = 1e-5
        ok_nu = (np.isinf(nu) and np.isinf(nu2)) or abs(nu2 - nu) <= tol * max(1.0, abs(nu))
        ok_mu = np.all(np.abs(mu2 - mu_exp) <= tol * (np.abs(sc[perm]) * (1 + np.abs(mu[perm])) + 0) + 1e-9 * np.abs(b[perm]))
        ok_S = np.all(np.abs(S2 - S_exp) <= tol * np.sqrt(np.outer(np.diag(S_exp), np.diag(S_exp))))
        if not (ok_nu and ok_mu and ok_S):
            run.fail("fit-not-equivariant", f"fit(g(X)) != g(fit(X)) for g = scale {sc}, shift {b}, permutation {perm}: "
                     f"nu {nu} vs {nu2}; max location error {np.max(np.abs(mu2 - mu_exp))}", **what)
    # recovery of generating parameters of large t-samples
    for (d, nu_true) in ([(2, 5.0)] if tier == "quick" else [(1, 3.0), (2, 5.0), (4, 8.0)]):
        nr = np.random.RandomState(1234 + d)
        n = 20000
        L = np.tril(nr.randn(d, d)) * 0.3 + np.eye(d)
        g = nr.chisquare(nu_true, size=n) / nu_true
        X = (nr.randn(n, d) / np.sqrt(g)[:, None]) @ L.T + 1.5
        mu, S, nu = fit_mvstud(X)
        run.case(key=("recovery", d), nontrivial=True)
        if np.max(np.abs(mu - 1.5)) > 0.08 or np.max(np.abs(S - L @ L.T)) > 0.15 * np.max(np.abs(L @ L.T)) or abs(nu - nu_true) > 0.25 * nu_true:
            run.fail("parameters-not-recovered", f"d={d}: nu={nu} (true {nu_true}), location error {np.max(np.abs(mu - 1.5))}, "
                     f"scale error {np.max(np.abs(S - L @ L.T))}", d=d)


def loop_body_variant():
    """fit_mvstud compiled from /repo's CURRENT source with the root bracket 1e300 replaced by 1e6, so that the ECME loop
    body (which the unmodified routine never reaches: known finding) can be executed and compared with the model"""
    import scipy.optimize
    import scipy.special
    src = (REPO / "tempest" / "student.py").read_text()
    tree = ast.parse(src)
    n_rep = 0
    for node in ast.walk(tree):
        if isinstance(node, ast.Constant) and isinstance(node.value, float) and node.value == 1e300:
            node.value = 1e6
            n_rep += 1
    ns = {}
    exec(compile(tree, "student_variant", "exec"), ns)
    return ns["fit_mvstud"], n_rep


def check_step_model(run, tier, rng):
    """one real iteration (max_iter=1) from the code's own initial values, replayed exactly in Coq (Q) with the code's nu as oracle"""
    fit_mvstud, n_rep = loop_body_variant()
    run.extra["loop_body_variant_constants_replaced"] = n_rep
    cases = []
    reps = 14 if tier == "quick" else 80
    for t in range(reps):
        nr = np.random.RandomState(rng.randrange(2 ** 31))
        d = rng.choice([1, 2] if tier == "quick" else [1, 2, 3])
        n = rng.choice([4 * d, 5 * d + 2])
        X = np.round(nr.standard_t(1.5, size=(n, d)) * 8) / 8 + rng.choice([0.0, 2.0])
        mu1, S1, nu1 = fit_mvstud(X.copy(), max_iter=1, tolerance=0.0)
        if not np.isfinite(nu1):
            continue
        data = X.T
        mu0 = np.median(data, 1)
        S0 = np.cov(data) * (n - 1) / n + (1 / n) * np.diag(np.var(data, axis=1))
        S0 = np.atleast_2d(S0)
        # initial values enter the model as nearby rationals with small denominators (error << the 1e-9 comparison tolerance)
        mu0 = np.array([float(Fraction(float(v)).limit_denominator(2 ** 20)) for v in mu0])
        S0q = [[Fraction(float(v)).limit_denominator(10 ** 9) for v in r] for r in S0]
        cases.append((X, mu0, S0q, float(nu1), mu1, np.atleast_2d(S1)))
        run.case(key=("step", t), nontrivial=True)
    items = []
    for (X, mu0, S0, nu1, mu1, S1) in cases:
        xs = "[" + "; ".join(qlist(r) for r in X) + "]"
        Sq = "[" + "; ".join(qlist(r) for r in S0) + "]"
        items.append(f"(step {xs} {qlist(mu0)} {Sq} {qlit(Fraction(nu1).limit_denominator(10 ** 12))})")
    if not items:
        return
    src = f"""From Coq Require Import List QArith.
From Tempest Require Import Model.StudentQ.
Import ListNotations.
Definition enc (q : Q) : Z * Z := (Qnum q, Zpos (Qden q)).
Eval vm_compute in map (fun p => (map (map enc) (fst p), map enc (snd p))) [
{(';' + chr(10)).join(items)}
].
"""
    (ok, out), = coq_eval_many(run.scratch, [src], timeout=600)
    if not ok:
        run.broken.append(("step-coqc", out[-1500:]))
        return
    res = parse_evals(out)[0]
    for (X, mu0, S0, nu1, mu1, S1), (Sm, mm) in zip(cases, res):
        Smod = np.array([[a / b for (a, b) in row] for row in Sm])
        mmod = np.array([a / b for (a, b) in mm])
        if np.max(np.abs(Smod - S1)) > 1e-9 * (1 + np.max(np.abs(S1))) or np.max(np.abs(mmod - mu1)) > 1e-9 * (1 + np.max(np.abs(mu1))):
            run.disagree("one ECME iteration: fit_mvstud(max_iter=1) vs Coq model (exact Q, nu as oracle)", X=X.tolist(), nu=nu1,
                         impl=dict(mu=mu1.tolist(), Sigma=S1.tolist()), model=dict(mu=mmod.tolist(), Sigma=Smod.tolist()))
    run.count("step_model_cases", len(cases))
    run.sample(dict(kind="step", X=cases[0][0].tolist()[:4], nu=cases[0][3], mu=cases[0][4].tolist()))


def check_init_model(run, tier, rng):
    """the starting point of fit_mvstud (what max_iter=0 returns, and what a fit returns whenever nu comes out infinite) vs the Coq
    twin `init` in exact rationals: coordinate medians, biased covariance + diag(biased variances)/n"""
    from tempest.student import fit_mvstud
    cases = []
    reps = 16 if tier == "quick" else 90
    for t in range(reps):
        nr = np.random.RandomState(rng.randrange(2 ** 31))
        d = rng.choice([1, 2, 3] if tier == "quick" else [1, 2, 3, 4])
        n = rng.choice([4 * d, 4 * d + 1, 5 * d + 2, 5 * d + 3])
        X = np.round(nr.standard_t(1.5, size=(n, d)) * 8) / 8 * rng.choice([1.0, 2.0 ** -10, 2.0 ** 10]) + rng.choice([0.0, 2.0, -64.0])
        if t % 4 == 0:
            X[: n // 2] = X[0]                                          # ties around the middle of the sorted column
        mu_i, S_i, nu_i = fit_mvstud(X.copy(), max_iter=0)
        mu_f, S_f, nu_f = fit_mvstud(X.copy())
        cases.append((X, np.asarray(mu_i, float), np.atleast_2d(S_i), np.asarray(mu_f, float), np.atleast_2d(S_f), float(nu_f)))
        run.case(key=("init", t), nontrivial=True)
    items = ["(init [" + "; ".join(qlist(r) for r in c[0]) + "])" for c in cases]
    src = f"""From Coq Require Import List QArith.
From Tempest Require Import Model.StudentQ.
Import ListNotations.
Definition enc (q : Q) : Z * Z := (Qnum q, Zpos (Qden q)).
Eval vm_compute in map (fun p => (map (map enc) (fst p), map enc (snd p))) [
{(';' + chr(10)).join(items)}
].
"""
    (ok, out), = coq_eval_many(run.scratch, [src], timeout=600)
    if not ok:
        run.broken.append(("init-coqc", out[-1500:]))
        return
    res = parse_evals(out)[0]
    n_inf = 0
    for (X, mu_i, S_i, mu_f, S_f, nu_f), (Sm, mm) in zip(cases, res):
        Smod = np.array([[a / b for (a, b) in row] for row in Sm]).reshape(S_i.shape)
        mmod = np.array([a / b for (a, b) in mm])
        tolS = 1e-9 * np.max(np.abs(Smod)) + 1e-300
        tolm = 1e-12 * (np.max(np.abs(X)) + 1e-300)
        if np.max(np.abs(Smod - S_i)) > tolS or np.max(np.abs(mmod - mu_i)) > tolm:
            run.disagree("starting point: fit_mvstud(max_iter=0) vs Coq model init (exact Q)", X=X.tolist(),
                         impl=dict(mu=mu_i.tolist(), Sigma=S_i.tolist()), model=dict(mu=mmod.tolist(), Sigma=Smod.tolist()))
        if not np.isfinite(nu_f):
            n_inf += 1
            if np.max(np.abs(Smod - S_f)) > tolS or np.max(np.abs(mmod - mu_f)) > tolm:
                run.disagree("fit with infinite nu does not return the starting point of the Coq model", X=X.tolist(),
                             impl=dict(mu=mu_f.tolist(), Sigma=S_f.tolist()), model=dict(mu=mmod.tolist(), Sigma=Smod.tolist()))
    run.count("init_model_cases", len(cases))
    run.count("init_model_cases_returned_with_infinite_nu", n_inf)


def check_fallback(run):
    from tempest.modes import ModeStatistics
    import tempest.modes as modes
    orig = modes.fit_mvstud
    nr = np.random.RandomState(0)
    u = nr.rand(40, 2)
    w = np.ones(40) / 40
    for bad in (np.inf, np.nan):
        modes.fit_mvstud = lambda X, _b=bad: (np.mean(X, axis=0), np.cov(X.T), _b)
        try:
            np.random.seed(0)
            a = ModeStatistics.from_global(u, w, dof_fallback=123.0)
            b = ModeStatistics.from_particles(u, w, np.zeros(40, dtype=int), dof_fallback=123.0)
        finally:
            modes.fit_mvstud = orig
        run.case(key=("fallback", str(bad)), nontrivial=True)
        for nm, ms in (("from_global", a), ("from_particles", b)):
            if not np.all(ms.degrees_of_freedom == 123.0):
                run.fail("nonfinite-dof-reaches-kernel", f"{nm}: degrees of freedom {ms.degrees_of_freedom} with fit returning {bad}")


def check_per_cluster(run, rng):
    """ModeStatistics.from_particles with several labels: every mode is well-posed and fitted to ITS cluster (location in that
    cluster's bounding box), whatever the order of the rows."""
    from tempest.modes import ModeStatistics
    for t in range(6):
        nr = np.random.RandomState(rng.randrange(2 ** 31))
        K, d, n = rng.choice([2, 3]), rng.choice([1, 2, 3]), 40
        centres = nr.rand(K, d) * 0.8 + 0.1
        labels = np.repeat(np.arange(K), n)
        u = np.vstack([c + 0.01 * nr.randn(n, d) for c in centres])
        perm = nr.permutation(len(u))
        u, labels = u[perm], labels[perm]
        w = nr.gamma(1.0, size=len(u))
        np.random.seed(t)
        try:
            ms = ModeStatistics.from_particles(u, w, labels, dof_fallback=7.0)
        except Exception as e:
            run.fail("from-particles-raises", f"{type(e).__name__}: {e}", K=K, d=d, data_seed=t)
            continue
        run.case(key=("per-cluster", t), nontrivial=True)
        # the precision matrix the kernel reads is the inverse of the scale matrix, also for per-coordinate scalings of the data
        for scal in (np.ones(d), 10.0 ** np.linspace(-4, 4, d) if d > 1 else np.array([1e-4]), 10.0 ** np.linspace(6, -6, d) if d > 1 else np.array([1e6])):
            np.random.seed(t)
            try:
                shift = (0.0, 3.0, -2.0)[t % 3]            # the modes follow the data wherever it lies, also outside the unit cube
                ms2 = ModeStatistics.from_particles(u * scal + shift, w, labels, dof_fallback=7.0)
            except Exception as e:
                run.fail("from-particles-raises", f"{type(e).__name__}: {e} for coordinates scaled by {scal.tolist()}", K=K, d=d, data_seed=t)
                break
            for k in range(K):
                pts_k = (u * scal + shift)[np.asarray(labels) == k]
                if len(pts_k):
                    lo_k, hi_k = pts_k.min(axis=0), pts_k.max(axis=0)
                    slack_k = 1e-9 * (np.abs(lo_k) + np.abs(hi_k) + (hi_k - lo_k))
                    if np.any(ms2.means[k] < lo_k - slack_k) or np.any(ms2.means[k] > hi_k + slack_k):
                        run.fail("location-outside-bounding-box", f"mode {k}: location {ms2.means[k].tolist()} outside the bounding box [{lo_k.tolist()}, {hi_k.tolist()}] of its cluster "
                                 f"(coordinates scaled by {scal.tolist()}, shifted by {shift})", K=K, d=d, data_seed=t)
                        break
                Lk = np.asarray(ms2.chol_covariances[k])
                sdk = np.sqrt(np.diag(ms2.covariances[k]))
                if not np.allclose(Lk, np.tril(Lk)) or not np.allclose((Lk @ Lk.T) / np.outer(sdk, sdk), ms2.covariances[k] / np.outer(sdk, sdk), atol=1e-8):
                    run.fail("cholesky-factor-not-of-the-scale", f"mode {k}: chol_covariances is not the lower factor L with L L^T = covariances "
                             f"(L L^T / (sd sd^T) = {((Lk @ Lk.T) / np.outer(sdk, sdk)).tolist()}, correlation matrix {(ms2.covariances[k] / np.outer(sdk, sdk)).tolist()}) "
                             f"for coordinates scaled by {scal.tolist()}", K=K, d=d, data_seed=t)
                    break
                sd = np.sqrt(np.diag(ms2.covariances[k]))
                Pm = (ms2.inv_covariances[k] @ ms2.covariances[k]) * sd[:, None] / sd[None, :]      # in the data's own units
                if not np.allclose(Pm, np.eye(d), atol=1e-6):
                    run.fail("precision-not-inverse-of-scale", f"mode {k}: inv_covariances @ covariances (rescaled to unit variances) = {Pm.tolist()} for coordinates scaled by {scal.tolist()}",
                             K=K, d=d, data_seed=t)
                    break
        for k in range(K):
            pts = u[labels == k]
            lo, hi = pts.min(axis=0) - 1e-12, pts.max(axis=0) + 1e-12
            C = ms.covariances[k]
            if np.any(ms.means[k] < lo) or np.any(ms.means[k] > hi):
                run.fail("location-outside-own-cluster", f"mode {k}: location {ms.means[k]} outside the bounding box of the particles labelled {k} "
                         f"[{lo}, {hi}]", K=K, d=d, data_seed=t)
                break
            if not (np.allclose(C, C.T, rtol=1e-10, atol=1e-300) and np.min(np.linalg.eigvalsh((C + C.T) / 2)) > 0
                    and np.max(np.sqrt(np.diag(C))) < 0.2):
                run.fail("scale-not-of-own-cluster", f"mode {k}: scale matrix {C.tolist()} is not a positive-definite scale of a cluster of spread 0.01",
                         K=K, d=d, data_seed=t)
                break


def check_fallback_end_to_end(run):
    """the degrees of freedom that reach the kernels: with the fit returning nu = inf (it always does on this tree, see the
    listed finding) they must be the configured fallback - the package constant in Sampler runs, the Trainer's own value when a
    Trainer is built directly, on refit AND on reuse iterations"""
    import tempest.steps.mutate as mut
    import tempest.config as cfgmod
    from tempest import Sampler
    seen = []
    orig = mut.parallel_mcmc

    located = []

    def pm(*a, **k):
        ms_ = k["mode_stats"]
        seen.append([float(v) for v in np.asarray(ms_.degrees_of_freedom)])
        # the modes are fitted to unit-cube particles: location inside the bounding box of the pool's u, scale of a sub-cube cloud
        pool = np.concatenate(located_state[0].state._history["u"]) if located_state else None
        if pool is not None:
            lo, hi = pool.min(axis=0) - 1e-12, pool.max(axis=0) + 1e-12
            for j in range(ms_.K):
                if np.any(ms_.means[j] < lo) or np.any(ms_.means[j] > hi) or np.max(np.diag(ms_.covariances[j])) > 1.0:
                    located.append((j, ms_.means[j].tolist(), np.diag(ms_.covariances[j]).tolist()))
                sd_ = np.sqrt(np.diag(ms_.covariances[j]))
                P = (ms_.inv_covariances[j] @ ms_.covariances[j]) * sd_[:, None] / sd_[None, :]
                if not np.allclose(P, np.eye(len(P)), atol=1e-6):
                    located.append((j, "inverse", P.tolist()))
        return orig(*a, **k)
    located_state = []
    mut.parallel_mcmc = pm
    from tempest.modes import ModeStatistics as _MS
    orig_fp, orig_fg = _MS.from_particles.__func__, _MS.from_global.__func__

    def rows_are_pool_rows(uu):
        if not located_state:
            return
        pool_rows = {r.tobytes() for r in np.concatenate(located_state[0].state._history["u"])}
        arr = np.ascontiguousarray(np.asarray(uu, dtype=float))
        n_bad = sum(1 for r in arr if r.tobytes() not in pool_rows)
        if n_bad:
            located.append((-1, f"{n_bad} of {len(arr)} rows handed to the Student-t fit are not rows of the stored particle pool", arr[:2].tolist()))

    def fp(cls, uu, *a, **k):
        rows_are_pool_rows(uu)
        return orig_fp(cls, uu, *a, **k)

    def fg(cls, uu, *a, **k):
        rows_are_pool_rows(uu)
        return orig_fg(cls, uu, *a, **k)
    _MS.from_particles, _MS.from_global = classmethod(fp), classmethod(fg)
    try:
        for cfg in (dict(clustering=False), dict(clustering=True, cluster_every=1), dict(clustering=True, cluster_every=2)):
            del seen[:]
            del located[:]
            s = Sampler(lambda u: 10 * u + 5, lambda x: -0.5 * float(np.sum((x - 8.0) ** 2)) / 0.25, n_dim=2, n_particles=16, random_state=5, **cfg)
            located_state[:] = [s]
            s.run(n_total=32, progress=False)
            run.case(key=("fallback-e2e", str(cfg)), nontrivial=True)
            if located:
                j, m_, v_ = located[0]
                run.fail("mode-not-fitted-to-the-unit-cube-particles", f"Sampler({cfg}) with prior transform x = 10u + 5: the kernel received mode {j} with "
                         f"location / check {m_}, variances {v_}: not a fit of the stored unit-cube particles (or an inverse that is not the inverse)", cfg=cfg)
            bad = [d for d in seen if any(v != cfgmod.DOF_FALLBACK for v in d)]
            if not seen or bad:
                run.fail("nonfinite-dof-reaches-kernel" if bad and not all(np.isfinite(bad[0])) else "fallback-not-the-configured-one",
                         f"Sampler({cfg}): the kernel received degrees of freedom {bad[0] if bad else None}; the fit returns inf and the "
                         f"configured fallback is {cfgmod.DOF_FALLBACK}", cfg=cfg)
    finally:
        mut.parallel_mcmc = orig
        _MS.from_particles, _MS.from_global = classmethod(orig_fp), classmethod(orig_fg)
    # a Trainer built directly with its own fallback, driven through a refit and a reuse iteration
    from tempest.state_manager import StateManager
    from tempest.steps.train import Trainer
    from tempest.cluster import HierarchicalGaussianMixture
    from tempest.config import TRIM_ESS, TRIM_BINS
    nr = np.random.RandomState(3)
    u = np.clip(np.vstack([0.3 + 0.03 * nr.randn(60, 2), 0.7 + 0.03 * nr.randn(60, 2)]), 0.01, 0.99)
    st = StateManager(2)
    st.update_current({"u": u, "x": u.copy(), "logl": np.zeros(len(u)), "beta": 0.0, "logz": 0.0, "iter": 1})
    st.commit_current_to_history()
    tr = Trainer(state=st, clusterer=HierarchicalGaussianMixture(n_init=1, normalize=True), cluster_every=3, clustering=True,
                 TRIM_ESS=TRIM_ESS, TRIM_BINS=TRIM_BINS, DOF_FALLBACK=7.5)
    for it in (3, 4, 5, 6):
        st.set_current("beta", 0.1 * it)
        st.set_current("iter", it)
        np.random.seed(it)
        ms = tr.run(np.ones(len(u)) / len(u))
        run.case(key=("fallback-trainer", it), nontrivial=True)
        if any(float(v) != 7.5 for v in ms.degrees_of_freedom):
            run.fail("fallback-not-the-configured-one", f"Trainer(DOF_FALLBACK=7.5, cluster_every=3) at iteration {it} "
                     f"({'refit' if it % 3 == 0 else 'reuse'}): degrees of freedom {[float(v) for v in ms.degrees_of_freedom]}", iteration=it)


def main(tier, seed):
    run = Run(PID, tier, seed)
    run.rule = ("data sets d in {1,2,3,4,6,8}, n from 4d to 300 from Gaussian, t3, skewed (Gamma), contaminated and correlated "
                "laws: finite location in the bounding box, symmetric positive-definite scale, positive dof; metamorphic "
                "check fit(g(X)) = g(fit(X)) for per-coordinate scalings 1e-6..1e6, translations and coordinate "
                "permutations; recovery on 20000-point t samples; one real ECME iteration replayed exactly (Q) through the "
                "Coq twin with the code's nu as oracle; the starting point (max_iter=0, and every fit that returns with nu = inf) against the "
                "exact-Q twin `init` on dyadic data incl. ties at the median and scales 2^-10..2^10; the dof fallback with a stubbed fit; "
                "per-cluster modes (precision = inverse of the scale under per-coordinate scalings 1e-6..1e6); real runs: modes at the kernel "
                "entry are fits of the stored unit-cube particles.")
    run.assumptions = [
        "the dof update (digamma root by bisection) is an oracle of the Mahalanobis distances, d and n",
        "numpy.linalg.solve is the exact solution; float rounding idealised (tolerances 1e-5 relative in the metamorphic check)",
        "the theorems on the starting point (C19_init_*) are over an arbitrary real field; on doubles the equivariance is checked "
        "numerically; recovery of generating parameters is statistical and checked on seeded samples only",
    ]
    rng = random.Random(seed)
    try:
        translate()
        run.obligation("translate:fit_mvstud structure + dof fallback", True)
    except Exception as e:  # fail closed: anything the translator cannot digest
        run.obligation("translate:fit_mvstud structure + dof fallback", False, str(e))
    run.prove("Props/C19.v", link_rels=["Link/Student.v"], extra_targets=["Model/StudentQ.v"])
    try:
        check_fit(run, tier, rng)
        check_step_model(run, tier, rng)
        check_init_model(run, tier, rng)
        check_fallback(run)
        check_per_cluster(run, rng)
        check_fallback_end_to_end(run)
    except Exception:
        import traceback
        run.broken.append(("harness-exception", traceback.format_exc()[-1500:]))
    run.finish(search=None)
