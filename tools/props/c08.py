"""C08 — checkpoints restore exactly, resume continues the run, saves are crash-safe."""
import ast
import copy
import os
import random
import shutil
import subprocess
import sys
import tempfile
from pathlib import Path

import numpy as np

from fractions import Fraction

from common import COQ, REPO, VERIF, Run, TranslateError, coq_eval_many, get_function, parse_evals, strip_doc, write_if_changed
import c17

PID = "C08"


def _ns(n):
    return ast.unparse(n).replace(" ", "")


def translate():
    c17.translate()
    path = REPO / "tempest" / "core.py"
    w = "core.py:SamplerCore.save_sampler_state"

    def need(c, node, msg, where=w):
        if not c:
            raise TranslateError(f"{where}: line {getattr(node, 'lineno', '?')}: {msg}: {ast.unparse(node)[:200]}")

    fn = get_function(path, "SamplerCore.save_sampler_state")
    body = strip_doc(fn.body)
    names = {"path": 0}
    ops = []
    frozen_assign = False
    restored_in_finally = True
    to_dict = False
    for node in ast.walk(fn):
        if isinstance(node, ast.Assign) and _ns(node.targets[0]) == "self.config.pool":
            frozen_assign = True
        if isinstance(node, ast.Assign) and _ns(node) == "d=self.state.to_dict()":
            to_dict = True
    # pool restore must sit in a finally block
    txt = _ns(fn)
    if "object.__setattr__(self.config,'pool',None)" in txt:
        fin = [n for n in ast.walk(fn) if isinstance(n, ast.Try) and n.finalbody]
        restored_in_finally = any("object.__setattr__(self.config,'pool',pool_state)" in _ns(t.finalbody[0]) for t in fin)
    for st in body:
        if isinstance(st, ast.Assign) and isinstance(st.targets[0], ast.Name) and st.targets[0].id != "path":
            v = _ns(st.value)
            if v.startswith("path.with_name(") or v.startswith("path.with_suffix(") or v.startswith("Path(str(path)+"):
                need(v not in ("path.with_name(path.name)", "path.with_suffix(path.suffix)"), st, "temporary name equals the final name")
                names[st.targets[0].id] = 1
        if isinstance(st, ast.Expr) and _ns(st.value).startswith("path.parent.mkdir("):
            ops.append("Mkdir")
        if isinstance(st, ast.With):
            need(len(st.items) == 1, st, "single context manager")
            call = st.items[0].context_expr
            need(isinstance(call, ast.Call) and _ns(call.func) == "open" and len(call.args) == 2
                 and isinstance(call.args[1], ast.Constant), st, "open(<name>, <mode>)")
            tgt = _ns(call.args[0])
            need(tgt in names, st, f"unknown file name {tgt}")
            mode = call.args[1].value
            need(mode == "wb", st, "mode wb")
            n = names[tgt]
            fvar = _ns(st.items[0].optional_vars)
            ops.append(f"Open_trunc {n}")
            for b in st.body:
                t = _ns(b)
                if t in (f"dill.dump(d,{fvar})", f"dill.dump(obj=d,file={fvar})", f"dill.dump(file={fvar},obj=d)"):
                    ops.append(f"WRITES {n}")
                elif t == f"{fvar}.flush()":
                    ops.append(f"Flush {n}")
                elif t == f"os.fsync({fvar}.fileno())":
                    ops.append(f"Fsync {n}")
                else:
                    need(False, b, "unrecognised statement inside the write block")
            ops.append(f"Close {n}")
        if isinstance(st, ast.Expr) and isinstance(st.value, ast.Call) and _ns(st.value.func) in ("os.replace", "os.rename"):
            a, b = [_ns(x) for x in st.value.args]
            need(a in names and b in names, st, "rename operands")
            ops.append(f"Rename {names[a]} {names[b]}")
    need(any(o.startswith("WRITES") for o in ops), fn, "no dump found")
    i = next(k for k, o in enumerate(ops) if o.startswith("WRITES"))
    n = ops[i].split()[1]
    pre = "; ".join(ops[:i])
    post = "; ".join(ops[i + 1:])
    save_io = f"[{pre}] ++ map (Write {n}) chunks ++ [{post}]"
    # load
    lfn = get_function(path, "SamplerCore.load_sampler_state")
    ltxt = [_ns(s) for s in strip_doc(lfn.body)]
    load_ok = "self.state.update_from_dict(d)" in ltxt
    # cadence
    ex = get_function(path, "SamplerCore.execute_iteration")
    cond = None
    for node in ast.walk(ex):
        if isinstance(node, ast.If) and "save_every" in _ns(node.test) and "%" in _ns(node.test):
            cond = node
    need(cond is not None, ex, "save cadence test", "core.py:execute_iteration")
    need(_ns(cond.test) == "(iter_val-t0)%int(save_every)==0anditer_val!=t0", cond, "cadence expression", "core.py:execute_iteration")
    need("iter_val=self.state.get_current('iter')" in _ns(ex), ex, "cadence reads the iteration counter", "core.py:execute_iteration")
    rs = _ns(get_function(path, "SamplerCore.run_sampling"))
    resume_ok = "self._initialize_from_resume(resume_state_path)" in rs and "iter_val=self.state.get_current('iter')" in rs \
        and "t0=int(iter_val)ifiter_valisnotNoneelse0" in rs

    # ---- the iteration pipeline and the counters (Model/RunBook.v)
    body = [_ns(x) for x in strip_doc(ex.body)]
    order = ["weights=self.reweighter.run()", "mode_stats=self.trainer.run(weights)", "self.resampler.run(weights)", "self.mutator.run(mode_stats)",
             "self.state.commit_current_to_history()"]
    need(all(o in body for o in order), ex, "reweight, train, resample, mutate, commit are statements of execute_iteration", "core.py:execute_iteration")
    pos = [body.index(o) for o in order]
    need(pos == sorted(pos) and isinstance(strip_doc(ex.body)[0], ast.If) and "save_every" in _ns(strip_doc(ex.body)[0].test) and pos[0] == 1
         and sum(1 for x in body if ".run(" in x) == 4 and sum(1 for x in body if "commit_current_to_history" in x) == 1, ex,
         "checkpoint test first, then reweight -> train -> resample -> mutate (once each), then one commit", "core.py:execute_iteration")
    # the iteration counter is advanced once per iteration (in Reweighter.run) and set nowhere else in the steps / kernels
    iter_writes = []
    for f in sorted((REPO / "tempest").rglob("*.py")):
        for node in ast.walk(ast.parse(f.read_text())):
            if isinstance(node, ast.Call) and _ns(node.func).endswith(("set_current",)) and node.args and _ns(node.args[0]) in ("'iter'", '"iter"'):
                iter_writes.append((f.name, _ns(node)))
            if isinstance(node, ast.Call) and _ns(node.func).endswith(("update_current",)) and node.args and isinstance(node.args[0], ast.Dict):
                if any(isinstance(k_, ast.Constant) and k_.value == "iter" for k_ in node.args[0].keys):
                    iter_writes.append((f.name, "update_current({...'iter'...})"))
    need(sorted(iter_writes) == sorted([("core.py", "self.state.set_current('iter',0)"), ("core.py", "self.state.set_current('iter',t0)"),
                                        ("reweight.py", "self.state.set_current('iter',iter_val)")]), ex, f"writes of the iteration counter: {iter_writes}", "package")
    rwsrc = _ns(get_function(REPO / "tempest" / "steps" / "reweight.py", "Reweighter.run"))
    need(rwsrc.count("iter_val=self.state.get_current('iter')+1") == 1 and rwsrc.count("self.state.set_current('iter',iter_val)") == 1, ex,
         "Reweighter.run advances the iteration counter by one, once", "reweight.py")
    fresh = _ns(get_function(path, "SamplerCore._initialize_fresh"))
    need("self.state.set_current('iter',0)" in fresh and "self.state.set_current('calls',0)" in fresh, ex, "a fresh run starts both counters at 0", "core.py")

    def b(x):
        return str(bool(x)).lower()

    text = f"""(* GENERATED from /repo/tempest/core.py (save/load/cadence) by tools/props/c08.py *)
From Coq Require Import List Bool Arith.
From Tempest Require Import Model.Crash.
Import ListNotations.
(* names: 0 = the checkpoint's final path, 1 = the temporary path *)
Definition save_io (chunks : list bytes) : list io := {save_io}.
Definition load_updates_state_manager_in_place : bool := {b(load_ok)}.
Definition pool_detached_without_frozen_assignment : bool := {b(not frozen_assign)}.
Definition pool_restored_in_finally : bool := {b(restored_in_finally)}.
Definition save_exports_state_with_to_dict : bool := {b(to_dict)}.
Definition resume_sets_t0_from_restored_iter : bool := {b(resume_ok)}.
Definition saves_at (iter t0 every : nat) : bool := Nat.eqb ((iter - t0) mod every) 0 && negb (Nat.eqb iter t0).
Definition iteration_is_checkpoint_reweight_train_resample_mutate_commit : bool := true.
Definition iteration_counter_advanced_once_per_iteration_in_reweight : bool := true.
Definition fresh_run_starts_counters_at_zero : bool := true.
"""
    write_if_changed(COQ / "Gen" / "Checkpoint.v", text)


# ------------------------------------------------------------------ harness
class PoolLike:
    def map(self, f, xs):
        return list(map(f, xs))


def pt(u):
    return 6.0 * u - 3.0


def ll(x):
    return -0.5 * float(np.sum(x ** 2))


def ll_blob(x):
    return -0.5 * float(np.sum(x ** 2)), float(x[0] * 2.0)


def snap(d):
    return copy.deepcopy({"_current": d["_current"], "_history": d["_history"]})


def same_value(a, b):
    if a is None or b is None:
        return a is None and b is None
    if isinstance(a, np.ndarray) or isinstance(b, np.ndarray):
        a, b = np.asarray(a), np.asarray(b)
        return a.shape == b.shape and a.dtype == b.dtype and a.tobytes() == b.tobytes()
    return type(a) == type(b) and a == b or (isinstance(a, (int, float, np.floating, np.integer)) and float(a) == float(b))


def compare_state(sm, snapshot):
    probs = []
    for k, v in snapshot["_current"].items():
        if not same_value(sm._current.get(k), v):
            probs.append(f"current[{k}]")
    for k, lst in snapshot["_history"].items():
        got = sm._history.get(k, [])
        if len(got) != len(lst):
            probs.append(f"history[{k}] length {len(got)} != {len(lst)}")
        elif any(not same_value(a, b) for a, b in zip(got, lst)):
            probs.append(f"history[{k}] content")
    return probs


def make(cfg, outdir, **kw):
    from tempest import Sampler
    like = ll_blob if cfg.get("blobs") else ll
    if "random_state" in cfg:
        kw = dict(kw, random_state=cfg["random_state"])
    return Sampler(pt, like, n_dim=2, n_particles=12, clustering=cfg.get("clustering", False),
                   sample=cfg.get("sample", "tpcn"), resample=cfg.get("resample", "mult"),
                   blobs_dtype=float if cfg.get("blobs") is True else None, pool=(cfg["pool"] if isinstance(cfg.get("pool"), int) and not isinstance(cfg.get("pool"), bool) else PoolLike()) if cfg.get("pool") else None,
                   output_dir=str(outdir), output_label="ck", **({"cluster_every": cfg["cluster_every"]} if "cluster_every" in cfg else {}), **kw)


def roundtrip_and_resume(run, tier, rng, work):
    from tempest.tools import effective_sample_size
    # pool=2 is the integer form: the library creates real worker processes itself
    # resume_all: resume from EVERY checkpoint (on and off the refit cadence, warm-up ones included), not only a middle one
    cfgs = [dict(), dict(pool=True), dict(blobs=True, sample="rwm"), dict(clustering=True, resample="syst"), dict(pool=2),
            dict(clustering=True, cluster_every=3, sample="rwm", resume_all=True),
            # blobs whose dtype is inferred, and a seed that is a numpy integer: both must survive save / load / resume from every checkpoint
            dict(blobs="inferred", sample="rwm", resume_all=True), dict(random_state=np.int64(7), resume_all=True)]
    if tier != "quick":
        cfgs += [dict(pool=True, blobs=True), dict(clustering=True, pool=True, sample="rwm"), dict(resample="syst", sample="rwm")]
    for ci, cfg in enumerate(cfgs):
        outdir = work / f"cfg{ci}"
        seed = rng.randrange(2 ** 31)
        what = dict(cfg=cfg, np_seed=seed)
        np.random.seed(seed)
        s = make(cfg, outdir)
        snaps = {}
        orig_save = s._core.save_sampler_state

        def rec(path, _orig=orig_save, _s=s, _snaps=snaps):
            _snaps[Path(path).name] = snap(_s.state.to_dict())
            return _orig(path)

        s._core.save_sampler_state = rec
        try:
            s.run(n_total=48, progress=False, save_every=1)
        except Exception as e:
            run.fail("save-raises", f"run(save_every=1) raised {type(e).__name__}: {e}", **what)
            continue
        files = sorted(p.name for p in outdir.iterdir())
        leftovers = [f for f in files if not f.endswith(".state")]
        if leftovers:
            run.fail("temporary-left-behind", f"files left next to the checkpoints: {leftovers}", **what)
        n_iter = s.state.get_history_length()
        run.count(f"cfg={sorted(cfg)}")
        for name, snapshot in snaps.items():
            run.case(key=("rt", ci, name), nontrivial=len(snapshot["_history"]["beta"]) > 0)
            s2 = make(cfg, outdir)
            try:
                s2.load_state(outdir / name)
            except Exception as e:
                run.fail("load-raises", f"load_state({name}) raised {type(e).__name__}: {e}", **what)
                continue
            probs = compare_state(s2.state, snapshot)
            if probs:
                run.fail("restore-differs", f"checkpoint {name} restored into a fresh sampler differs from the state that was saved: {probs[:4]}", **what)
        # resume from a middle checkpoint
        ks = sorted(int(n.split("_")[1].split(".")[0]) for n in snaps if n.split("_")[1].split(".")[0].isdigit())
        if not ks:
            run.fail("no-checkpoints", "run(save_every=1) wrote no intermediate checkpoint", **what)
            continue
        for k in (ks if cfg.get("resume_all") else [ks[len(ks) // 2]] if tier == "quick" else [ks[0], ks[len(ks) // 2], ks[-1]]):
            snapshot = snaps[f"ck_{k}.state"]
            s3 = make(cfg, work / f"cfg{ci}_resume{k}")
            try:
                s3.run(n_total=48, progress=False, resume_state_path=outdir / f"ck_{k}.state")
            except Exception as e:
                run.fail("resume-raises", f"resume from checkpoint {k} raised {type(e).__name__}: {e}", k=k, **what)
                continue
            run.case(key=("resume", ci, k), nontrivial=True)
            w2 = dict(k=k, **what)
            its = [int(v) for v in s3.state.get_history("iter")]
            if its != list(range(1, len(its) + 1)) or len(its) < k:
                run.fail("resume-iteration-numbering", f"iteration numbers after resuming from checkpoint {k}: {its}", **w2)
                continue
            for key, lst in snapshot["_history"].items():
                got = s3.state._history[key][:len(lst)]
                if len(got) != len(lst) or any(not same_value(a, b) for a, b in zip(got, lst)):
                    run.fail("resume-prefix-changed", f"history prefix of '{key}' is not bit-identical to the checkpoint", **w2)
                    break
            # the batches added after the resume: coherent records, and not bit-identical copies of stored batches (a replayed random stream)
            nb = len(snapshot["_history"]["u"])
            new_u = [np.asarray(b) for b in s3.state._history["u"][nb:]]
            old_u = [np.asarray(b) for b in s3.state._history["u"][:nb]]
            dup = [(nb + i + 1, j + 1) for i, a_ in enumerate(new_u) for j, b_ in enumerate(old_u) if a_.shape == b_.shape and np.array_equal(a_, b_)]
            if dup:
                run.fail("resume-replays-stored-batches", f"resuming from checkpoint {k}: new iterations repeat stored batches bit for bit (new, stored): {dup[:3]}", **w2)
            if cfg.get("blobs"):
                for kk in range(nb, len(s3.state._history["x"])):
                    xb, bb = np.asarray(s3.state._history["x"][kk]), np.asarray(s3.state._history["blobs"][kk]).ravel()
                    if len(bb) != len(xb) or np.any(bb != xb[:, 0] * 2.0):
                        run.fail("resume-record-incoherent", f"resuming from checkpoint {k}: in iteration {kk + 1} (added after the resume) "
                                 f"{int(np.sum(bb != xb[:, 0] * 2.0)) if len(bb) == len(xb) else -1} stored blobs are not the blobs of the particles in their rows", **w2)
                        break
            calls = [int(c) for c in s3.state.get_history("calls")]
            betas = [float(b) for b in s3.state.get_history("beta")]
            if any(b2 < b1 for b1, b2 in zip(betas, betas[1:])) or any(c2 < c1 for c1, c2 in zip(calls, calls[1:])):
                run.fail("resume-not-continuing", f"beta / call counter do not continue monotonically: betas={betas}, calls={calls}", **w2)
            logw, logz = s3.state.compute_logw_and_logz(1.0)
            ess = float(effective_sample_size(np.exp(logw - np.max(logw))))
            # the caller of the resumed run may ask for more samples than the checkpointed run did
            s4 = make(cfg, work / f"cfg{ci}_resume{k}_more")
            try:
                s4.run(n_total=120, progress=False, resume_state_path=outdir / f"ck_{k}.state")
                lw4, _ = s4.state.compute_logw_and_logz(1.0)
                ess4 = float(effective_sample_size(np.exp(lw4 - np.max(lw4))))
                if ess4 < 120:
                    run.fail("resume-postconditions", f"run(n_total=120, resume from a checkpoint written by run(n_total=48)) returned with posterior ESS {ess4}", **w2)
            except Exception as e:
                run.fail("resume-raises", f"resume with a larger n_total raised {type(e).__name__}: {e}", **w2)
            if not (1 - betas[-1] < 1e-4 and ess >= 48 and abs(s3.evidence()[0] - logz) < 1e-9 * max(1, abs(logz))):
                run.fail("resume-postconditions", f"resumed run ended with beta={betas[-1]}, ESS={ess}, evidence={s3.evidence()[0]} vs {logz}", **w2)
    run.sample(dict(kind="roundtrip", cfgs=[str(c) for c in cfgs], checkpoints_first_cfg=len(snaps)))


def runbook_probe(run, tier, rng, work):
    """The run-level bookkeeping (iteration numbers, call counter, recorded steps, checkpoints written) of fresh and resumed runs
    against the Coq state machine Model/RunBook.v, driven by what the adaptive parts decided (beta, kernel steps, batch size)."""
    from tempest import Sampler

    def like(x):
        return -np.inf if x[0] < -1.0 else -0.5 * float(np.sum(x ** 2))

    def mk(outdir, n, **kw):
        return Sampler(pt, like, n_dim=2, n_particles=n, clustering=False, output_dir=str(outdir), output_label="ck", **kw)

    def trace(s):
        st = s.state
        return [dict(iter=int(i), calls=int(c), steps=int(sp), beta=float(b), n=len(l)) for i, c, sp, b, l in
                zip(st.get_history("iter"), st.get_history("calls"), st.get_history("steps"), st.get_history("beta"), st._history["logl"])]

    def written(outdir):
        return sorted(int(p.name.split("_")[1].split(".")[0]) for p in Path(outdir).iterdir()
                      if p.name.startswith("ck_") and p.name.split("_")[1].split(".")[0].isdigit())

    def orc(r):
        fr = Fraction(r["beta"])
        return f"(mkOrc ({fr.numerator} # {fr.denominator}) {r['steps']}%nat {r['n']}%nat)"

    jobs = []
    reps = 3 if tier == "quick" else 10
    for t in range(reps):
        seed = rng.randrange(2 ** 31)
        e1, e2 = rng.choice([1, 2, 3]), rng.choice([1, 2, 3])
        n1, n2 = rng.choice([8, 12]), rng.choice([8, 12, 20])
        what = dict(np_seed=seed, save_every=e1, resume_save_every=e2, n_particles=n1, resume_n_particles=n2)
        d1 = work / f"rb{t}"
        try:
            np.random.seed(seed)
            s = mk(d1, n1, ess_ratio=3.0, sample=rng.choice(["tpcn", "rwm"]))
            s.run(n_total=40, progress=False, save_every=e1)
            tr1 = trace(s)
            ks = written(d1)
            if not ks:
                run.fail("no-checkpoints", f"run(save_every={e1}) over {len(tr1)} iterations wrote no numbered checkpoint", **what)
                continue
            k = rng.choice(ks)
            d2 = work / f"rb{t}_resume"
            s2 = mk(d2, n2, ess_ratio=3.0)
            s2.run(n_total=90, progress=False, save_every=e2, resume_state_path=d1 / f"ck_{k}.state")
            tr2 = trace(s2)
            ks2 = written(d2)
        except Exception as e:
            run.fail("run-raises", f"{type(e).__name__}: {e}", **what)
            continue
        run.case(key=("runbook", t), nontrivial=True)
        jobs.append((what, e1, e2, k, tr1, ks, tr2, ks2))
    if not jobs:
        return
    items = []
    for (what, e1, e2, k, tr1, ks, tr2, ks2) in jobs:
        os1 = "[" + "; ".join(orc(r) for r in tr1) + "]"
        pre = "[" + "; ".join(orc(r) for r in tr1[:k]) + "]"
        os2 = "[" + "; ".join(orc(r) for r in tr2[k:]) + "]"
        items.append(f"(enc (run (Some {e1}%nat) 0%nat {os1} fresh), "
                     f"enc (run (Some {e2}%nat) (iter (run (Some {e1}%nat) 0%nat {pre} fresh)) {os2} (resume_from (run (Some {e1}%nat) 0%nat {pre} fresh))))")
    src = f"""From Coq Require Import List QArith.
From Tempest Require Import Model.RunBook.
Import ListNotations.
Definition enc (s : book) := (map (fun r => [h_iter r; h_calls r; h_steps r]) (hist s), saved s).
Eval vm_compute in [
{(';' + chr(10)).join(items)}
].
"""
    (ok, out), = coq_eval_many(run.scratch, [src], timeout=300)
    if not ok:
        run.broken.append(("runbook-coqc", out[-1500:]))
        return
    res = parse_evals(out)[0]
    for (what, e1, e2, k, tr1, ks, tr2, ks2), item in zip(jobs, res):
        h1, sv1, (h2, sv2) = item            # Coq prints ((a, b), (c, d)) as (a, b, (c, d))
        got1 = [[r["iter"], r["calls"], r["steps"]] for r in tr1]
        got2 = [[r["iter"], r["calls"], r["steps"]] for r in tr2]
        if got1 != [list(x) for x in h1] or ks != list(sv1):
            run.disagree("fresh run: (iteration, calls, steps) per committed iteration and numbered checkpoints vs Model/RunBook.v",
                         impl=dict(history=got1, checkpoints=ks), model=dict(history=[list(x) for x in h1], checkpoints=list(sv1)), **what)
            run.fail("run-bookkeeping", f"fresh run: history {got1} / checkpoints {ks}; the bookkeeping model driven by the run's own decisions gives "
                     f"{[list(x) for x in h1]} / {list(sv1)}", **what)
        if got2 != [list(x) for x in h2] or ks2 != list(sv2):
            run.disagree("resumed run: (iteration, calls, steps) per committed iteration and numbered checkpoints vs Model/RunBook.v",
                         impl=dict(history=got2, checkpoints=ks2), model=dict(history=[list(x) for x in h2], checkpoints=list(sv2)), resumed_from=k, **what)
            run.fail("resume-bookkeeping", f"resumed from checkpoint {k}: history {got2} / checkpoints {ks2}; the model continuing the run gives "
                     f"{[list(x) for x in h2]} / {list(sv2)}", resumed_from=k, **what)
    run.count("runbook_cases", len(jobs))


def crash_injection(run, tier, work):
    env = dict(os.environ)
    env["PYTHONPATH"] = str(REPO)
    drv = str(VERIF / "tools" / "crash_driver.py")

    def launch(i, frac, mode):
        d = Path(tempfile.mkdtemp(prefix=f"crash{i}_", dir=work))
        p = subprocess.Popen([sys.executable, drv, str(d), str(i), str(frac), mode], stdout=subprocess.PIPE,
                             stderr=subprocess.STDOUT, text=True, env=env)
        return d, p

    d0, p0 = launch(-1, 0.0, "count")
    out, _ = p0.communicate(timeout=300)
    if p0.returncode != 0 or "EVENTS " not in out:
        run.broken.append(("crash-driver", out[-1500:]))
        return
    events = out.split("EVENTS ", 1)[1].strip().split("|")
    run.extra["save_io_events"] = events
    import dill
    with open(d0 / "ckpt.state", "rb") as f:
        new_ref = dill.load(f)
    # IO trace must follow the atomic protocol
    opens = [e for e in events if e.startswith("open:")]
    if any(e.startswith("open:ckpt.state:") for e in opens):
        run.fail("final-name-opened-for-writing", f"the save opens the checkpoint's final name for writing: {events}")
    if not any(e.startswith(("replace:", "rename:")) and e.endswith("->ckpt.state") for e in events):
        if not any(e.startswith("open:ckpt.state:") for e in opens):
            run.fail("no-rename-into-place", f"the save never renames a file onto the final name: {events}")
    ren = next((k for k, e in enumerate(events) if e.startswith(("replace:", "rename:"))), None)
    if ren is not None and "fsync" not in events[:ren]:
        run.fail("rename-before-fsync", f"temporary file is renamed into place without fsync: {events}")
    points = []
    for i, e in enumerate(events):
        fracs = [0.0] if e != "write" else ([0.0, 0.5] if tier == "quick" else [0.0, 0.01, 0.5, 0.99])
        points += [(i, fr) for fr in fracs]
    procs = [(i, fr, *launch(i, fr, "crash")) for (i, fr) in points]
    for (i, fr, d, p) in procs:
        out, _ = p.communicate(timeout=300)
        run.case(key=("crash", i, fr), nontrivial=True)
        what = dict(crash_before_event=i, event=events[i], partial_write_fraction=fr, events=events)
        if p.returncode != 17:
            run.broken.append(("crash-driver-exit", f"driver exit {p.returncode} at event {i}: {out[-500:]}"))
            continue
        final = d / "ckpt.state"
        if not final.exists():
            run.fail("checkpoint-destroyed", "the previously complete checkpoint disappeared after a crash during the next save", **what)
            continue
        try:
            with open(final, "rb") as f:
                got = dill.load(f)
        except Exception as e:
            run.fail("truncated-checkpoint", f"after a crash the final name holds an unloadable file ({final.stat().st_size} bytes): {type(e).__name__}", **what)
            continue
        its = got["_current"].get("iter")
        if its not in (1, 3):
            run.fail("checkpoint-neither-old-nor-new", f"after a crash the final name holds iteration {its}", **what)
    # the same save where the system's temporary directory is another filesystem than the output directory (renames across directories
    # fail with EXDEV, as they do between /tmp and a scratch or network mount): staging the file anywhere but next to the final name
    # turns the "rename into place" into a copy onto the final name
    env_x = dict(env, C08_XDEV="1", TMPDIR=str(Path(tempfile.mkdtemp(prefix="othertmp_", dir=work))))

    def launch_x(i, frac, mode):
        d = Path(tempfile.mkdtemp(prefix=f"xdev{i}_", dir=work))
        return d, subprocess.Popen([sys.executable, drv, str(d), str(i), str(frac), mode], stdout=subprocess.PIPE, stderr=subprocess.STDOUT, text=True, env=env_x)
    dx, px = launch_x(-1, 0.0, "count")
    outx, _ = px.communicate(timeout=300)
    run.case(key=("xdev", "trace"), nontrivial=True)
    if px.returncode != 0 or "EVENTS " not in outx:
        run.fail("save-raises", f"the save fails when the temporary directory is on another filesystem than the output directory: {outx[-400:]}")
    else:
        ev_x = outx.split("EVENTS ", 1)[1].strip().split("|")
        run.extra["save_io_events_with_tmp_on_another_filesystem"] = ev_x
        first_open = next((k for k, e in enumerate(ev_x) if e.startswith("open:ckpt.state:")), None)
        if first_open is not None:
            # die right after the final name was opened for writing
            for (i, d, p) in [(i, *launch_x(i, 0.0, "crash")) for i in range(first_open + 1, min(len(ev_x), first_open + 3))]:
                p.communicate(timeout=300)
                final = d / "ckpt.state"
                try:
                    with open(final, "rb") as f:
                        dill.load(f)
                except Exception as e:
                    run.fail("truncated-checkpoint", f"temporary directory on another filesystem: after a crash before IO event {i} ({ev_x[i]}) the final name holds an "
                             f"unloadable file ({final.stat().st_size if final.exists() else -1} bytes): {type(e).__name__}", crash_before_event=i, events=ev_x)
                    break
            else:
                run.fail("final-name-opened-for-writing", f"temporary directory on another filesystem: the save opens the checkpoint's final name for writing: {ev_x}")
    # an I/O error (disk full) raised by a write / flush / fsync instead of the process dying: the save fails, the process lives on,
    # and the final name must still hold a complete checkpoint
    io_points = [(i, 0.5 if e == "write" else 0.0) for i, e in enumerate(events) if e in ("write", "flush", "fsync")]
    if tier == "quick":
        io_points = io_points[:2] + io_points[-2:]
    for (i, fr, d, p) in [(i, fr, *launch(i, fr, "ioerror")) for (i, fr) in io_points]:
        out, _ = p.communicate(timeout=300)
        run.case(key=("ioerror", i), nontrivial=True)
        what = dict(io_error_at_event=i, event=events[i], partial_write_fraction=fr, events=events)
        if p.returncode not in (18, 0):
            run.broken.append(("crash-driver-exit", f"driver exit {p.returncode} for an injected I/O error at event {i}: {out[-500:]}"))
            continue
        final = d / "ckpt.state"
        try:
            with open(final, "rb") as f:
                got = dill.load(f)
            if got["_current"].get("iter") not in (1, 3):
                run.fail("checkpoint-neither-old-nor-new", f"after a failed save the final name holds iteration {got['_current'].get('iter')}", **what)
        except Exception as e:
            run.fail("truncated-checkpoint", f"a save that FAILED with an I/O error (disk full at event {i}, {events[i]}) left an unloadable file under the "
                     f"final name ({final.stat().st_size if final.exists() else 'missing'} bytes): {type(e).__name__}", **what)
    # power loss right after the rename: only bytes handed to the OS before the last fsync survive
    d, p = launch(0, 0.0, "powerloss")
    out, _ = p.communicate(timeout=300)
    run.case(key=("powerloss",), nontrivial=True)
    if p.returncode != 17:
        # a save that never renames (direct write) is reported by the crash points above
        if "POWERLOSS" not in out and not any(e.startswith(("replace:", "rename:")) for e in events):
            pass
        else:
            run.broken.append(("crash-driver-powerloss", f"exit {p.returncode}: {out[-400:]}"))
    else:
        final = d / "ckpt.state"
        try:
            with open(final, "rb") as f:
                got = dill.load(f)
            if got["_current"].get("iter") not in (1, 3):
                run.fail("checkpoint-neither-old-nor-new", "after a power loss following the rename the final name holds neither checkpoint")
        except Exception as e:
            run.fail("renamed-before-durable", f"power loss right after the rename leaves an unloadable checkpoint under the final name "
                     f"({type(e).__name__}; {out.strip().splitlines()[-1] if out.strip() else ''}): the temporary file was renamed before all of its bytes were fsynced")
    run.count("crash_points", len(points))
    run.sample(dict(kind="crash-injection", events=events, points=len(points)))


def main(tier, seed):
    run = Run(PID, tier, seed)
    run.rule = ("(i) every checkpoint of short runs (save_every=1) over {plain, pool-like, blobs+rwm, clustering+syst,...} "
                "is loaded into a fresh sampler and compared bit for bit with the state snapshotted when it was "
                "written; (ii) resume from first/middle/last checkpoint: numbering, bit-identical prefix, monotone "
                "beta/calls, run postconditions; (iii) the save's IO trace; (iv) the save is re-run in a subprocess "
                "that dies (os._exit) before each IO event and inside each write at several byte fractions, after "
                "which the final name must hold the old or the new complete checkpoint; (v) fresh and resumed runs (other save cadence, other "
                "n_particles) against the bookkeeping machine Model/RunBook.v evaluated in Coq on the run's own decisions: iteration numbers, "
                "call counter, recorded steps, numbered checkpoints written.")
    run.assumptions = [
        "file-system crash model: un-fsynced bytes may survive in any prefix, rename is atomic, a directory entry "
        "survives once created; dill.load accepts complete dumps and rejects strict prefixes",
        "the pickled sampler object inside the checkpoint (d['sampler']) is not used by load_state and is not compared",
    ]
    rng = random.Random(seed)
    try:
        translate()
        import c13
        import c05
        c13.translate()    # call accounting (rows per iteration) of the bookkeeping machine
        c05.translate()    # which iterations draw a fresh prior batch (warm-up <=> beta == 0)
        run.obligation("translate:core.save_sampler_state+load_sampler_state+cadence", True)
    except Exception as e:  # fail closed: anything the translator cannot digest
        run.obligation("translate:core.save_sampler_state+load_sampler_state+cadence", False, str(e))
    run.prove("Props/C08.v", link_rels=["Link/Alias.v", "Link/Checkpoint.v", "Link/Dispatch.v", "Link/Schedule.v"], extra_targets=["Model/RunBook.v"])
    work = Path(tempfile.mkdtemp(prefix="c08_", dir=run.scratch.dir))
    cwd = os.getcwd()
    try:
        os.chdir(work)
        roundtrip_and_resume(run, tier, rng, work)
        runbook_probe(run, tier, rng, work)
        crash_injection(run, tier, work)
    except Exception:
        import traceback
        run.broken.append(("harness-exception", traceback.format_exc()[-1500:]))
    finally:
        os.chdir(cwd)
    run.finish(search=None)
