"""C09 — seeded runs are reproducible and the library never resets the global RNG."""
import ast
import random

import numpy as np

from common import COQ, REPO, Run, TranslateError, get_function, write_if_changed

PID = "C09"


def _ns(n):
    return ast.unparse(n).replace(" ", "")


def translate():
    """find every call that seeds numpy's GLOBAL generator anywhere in the package and classify its argument."""
    pkg = REPO / "tempest"
    sites = []
    literal_attrs = {}   # class -> literal passed as random_state= at construction sites inside the package
    trees = {}
    for p in sorted(pkg.rglob("*.py")):
        trees[p] = ast.parse(p.read_text())
    # constructor call sites with a literal random_state
    for p, tree in trees.items():
        for node in ast.walk(tree):
            if isinstance(node, ast.Call):
                for kw in node.keywords:
                    if kw.arg == "random_state" and isinstance(kw.value, ast.Constant) and isinstance(kw.value.value, int):
                        literal_attrs.setdefault(_ns(node.func), set()).add(kw.value.value)
    # fail-closed inventory of randomness sources: draws from numpy's global stream, one private generator seeded with the
    # object's own random_state, and the seeding calls classified below - nothing else (no unseeded generators, no reseeding of a
    # generator object that may be the global module, no other entropy)
    draw_ok = {"rand", "randn", "random", "random_sample", "gamma", "choice"}
    for p, tree in trees.items():
        rel = p.relative_to(REPO)
        for node in ast.walk(tree):
            if isinstance(node, (ast.Import, ast.ImportFrom)):
                mods = [a.name for a in node.names] + ([node.module] if isinstance(node, ast.ImportFrom) and node.module else [])
                if any(m.split(".")[0] in ("random", "secrets") or m in ("numpy.random",) for m in mods):
                    raise TranslateError(f"{rel}:{node.lineno}: unexpected import of a randomness module: {mods}")
            if isinstance(node, ast.Call):
                f = _ns(node.func)
                last = f.split(".")[-1]
                if f.startswith(("np.random.", "numpy.random.")):
                    if last in draw_ok or last == "seed":
                        continue
                    if last in ("set_state", "get_state"):
                        continue   # placed and classified below (checkpoint save / load only)
                    if last == "RandomState" and [_ns(a) for a in node.args] == ["self.random_state"] and not node.keywords:
                        continue
                    raise TranslateError(f"{rel}:{node.lineno}: unexpected randomness source {f}({', '.join(_ns(a) for a in node.args)})")
                if last in ("default_rng", "SeedSequence", "Generator", "urandom", "token_bytes", "getrandbits") or \
                        (last == "seed" and not f.startswith(("np.random", "numpy.random"))) or last == "RandomState":
                    raise TranslateError(f"{rel}:{node.lineno}: unexpected randomness source / reseeding {f}(...)")
                if f.startswith("self._rng.") and last not in draw_ok:
                    raise TranslateError(f"{rel}:{node.lineno}: unexpected use of the private generator: {f}")
    for p, tree in trees.items():
        for node in ast.walk(tree):
            if isinstance(node, (ast.FunctionDef, ast.ClassDef)):
                for dec in node.decorator_list:
                    if _ns(dec).split("(")[0].split(".")[-1] in ("lru_cache", "cache", "cached_property", "memoize"):
                        raise TranslateError(f"{p.relative_to(REPO)}:{node.lineno}: memoised factory / attribute ({_ns(dec)}): objects built by it are shared "
                                             f"between samplers, so a run can depend on the runs before it")
    run_path_funcs = {"run_sampling", "execute_iteration", "_initialize_fresh", "fit", "predict", "predict_proba", "run",
                      "sample", "compute_posterior", "_propose", "from_particles", "from_global", "_initialize_parameters",
                      "_e_step", "_m_step", "fit_mvstud", "systematic_resample", "trim_weights", "__init__"}
    fresh_seeds = False
    for p, tree in trees.items():
        rel = p.relative_to(REPO)
        for cls_or_fn in ast.walk(tree):
            if not isinstance(cls_or_fn, ast.FunctionDef):
                continue
            fn = cls_or_fn
            owner = next((c.name for c in ast.walk(tree) if isinstance(c, ast.ClassDef) and fn in c.body), None)
            for node in ast.walk(fn):
                if isinstance(node, ast.Call) and _ns(node.func) in ("np.random.seed", "numpy.random.seed", "np.random.set_state"):
                    if any(isinstance(x, ast.FunctionDef) and x is not fn and node in list(ast.walk(x)) for x in ast.walk(fn)):
                        continue
                    arg = _ns(node.args[0]) if node.args else "None"
                    a0 = node.args[0] if node.args else None
                    if isinstance(a0, ast.Constant) and isinstance(a0.value, int):
                        cls = f"Literal {a0.value}"
                    elif arg in ("self.config.random_state",):
                        cls = "ConfigRandomState"
                    elif arg in ("d['random_state']",):
                        cls = "CheckpointRandomState"
                        # legacy fallback only: it must sit in the else-branch of "the checkpoint holds a generator state"
                        in_fallback = any(isinstance(anc, ast.If) and _ns(anc.test) == "d.get('rng_state')isnotNone"
                                          and any(node in list(ast.walk(o)) for o in anc.orelse) for anc in ast.walk(fn))
                        if not in_fallback:
                            raise TranslateError(f"{rel}:{node.lineno}: a load seeds with the checkpoint's random_state although it may hold the "
                                                 f"generator state (a resumed run would replay the stream)")
                    elif arg in ("d['rng_state']",) and _ns(node.func) == "np.random.set_state" and fn.name == "load_sampler_state":
                        cls = "CheckpointStreamState"
                    elif arg == "self.random_state":
                        lits = literal_attrs.get(owner, set())
                        cls = f"AttributeSetFromLiteral {sorted(lits)[0]}" if lits else "CallerArgument"
                    elif arg == "random_state" and "random_state" in [a.arg for a in fn.args.args]:
                        # is any caller inside the package passing a literal?
                        lits = literal_attrs.get(fn.name, set())
                        cls = f"AttributeSetFromLiteral {sorted(lits)[0]}" if lits else "CallerArgument"
                    else:
                        raise TranslateError(f"{rel}:{node.lineno}: cannot classify seeding argument {arg}")
                    # guard
                    guarded = False
                    for anc in ast.walk(fn):
                        if isinstance(anc, ast.If) and node in list(ast.walk(anc)) and "isnotNone" in _ns(anc.test):
                            guarded = True
                    on_path = fn.name in run_path_funcs and fn.name != "load_sampler_state"
                    if fn.name == "_initialize_fresh" and cls == "ConfigRandomState":
                        fresh_seeds = True
                    sites.append((f"{rel}:{node.lineno}:{fn.name}", cls, on_path, guarded))
    # the generator state is read in one place (a seeded sampler writing a checkpoint) and restored in one place (load)
    gs = [(p.relative_to(REPO), node) for p, tree in trees.items() for node in ast.walk(tree)
          if isinstance(node, ast.Call) and _ns(node.func).split(".")[-1] in ("get_state", "set_state") and _ns(node.func).startswith(("np.random", "numpy.random"))]
    core_py = REPO / "tempest" / "core.py"
    save_src = _ns(get_function(core_py, "SamplerCore.save_sampler_state")).replace("\n", "")
    load_src = _ns(get_function(core_py, "SamplerCore.load_sampler_state")).replace("\n", "")
    stores_stream = "d['rng_state']=np.random.get_state()ifself.config.random_stateisnotNoneelseNone" in save_src
    restores_stream = "ifd.get('rng_state')isnotNone:np.random.set_state(d['rng_state'])" in load_src
    if len(gs) != int(stores_stream) + int(restores_stream) or (gs and not (stores_stream and restores_stream)):
        raise TranslateError(f"generator state read / written outside the checkpoint save / load pair: {[(str(r), n.lineno) for r, n in gs]}")
    # package-internal calls that hand a seed to a routine which seeds the GLOBAL stream with it
    seeding_funcs = {w.split(":")[-1] for (w, cls, on, g) in sites if cls == "CallerArgument"}
    n_forward = 0
    for p, tree in trees.items():
        rel = p.relative_to(REPO)
        for node in ast.walk(tree):
            if isinstance(node, ast.Call) and _ns(node.func).split(".")[-1] in seeding_funcs:
                vals = [kw.value for kw in node.keywords if kw.arg == "random_state"]
                if len(node.args) >= 3:
                    vals.append(node.args[2])
                for v in vals:
                    if not (isinstance(v, ast.Constant) and v.value is None):
                        n_forward += 1
                        sites.append((f"{rel}:{node.lineno}:forwards {_ns(v)} to {_ns(node.func)}",
                                      "Literal 0" if isinstance(v, ast.Constant) else "AttributeSetFromLiteral 0", True, False))
    # calls that create private generators are fine; calls to np.random.default_rng / RandomState with literals are private
    lines = "\n".join(
        f"  mkSite {i} ({cls}) {str(on).lower()} {str(g).lower()} (* {w} *)" + (";" if i < len(sites) - 1 else "")
        for i, (w, cls, on, g) in enumerate(sites))
    text = f"""(* GENERATED from every module under /repo/tempest by tools/props/c09.py *)
From Coq Require Import List Bool ZArith.
From Tempest Require Import Model.Seeding.
Import ListNotations.
Local Open Scope Z_scope.
Definition seed_sites : list seed_site := [
{lines}
].
Definition fresh_init_seeds_with_config_random_state : bool := {str(fresh_seeds).lower()}.
Definition seeds_forwarded_to_global_seeding_routines : nat := {n_forward}.
Definition seeded_checkpoint_records_the_stream_and_load_restores_it : bool := {str(bool(stores_stream and restores_stream)).lower()}.
"""
    write_if_changed(COQ / "Gen" / "Seeding.v", text)
    return sites


# ------------------------------------------------------------------ harness
def pt(u):
    return 8 * u - 4


def ll(x):
    return -0.5 * float(np.sum(x ** 2))


def ll_hole(x):
    # zero likelihood on part of the prior: the warm-up replacement of -inf draws (a random choice) is exercised
    return -np.inf if x[0] < -1.0 else -0.5 * float(np.sum(x ** 2))


def ll_bimodal(x):
    return float(np.logaddexp(-0.5 * np.sum((x - 2.5) ** 2) / 0.0225, -0.5 * np.sum((x + 2.5) ** 2) / 0.0225))


def run_once(random_state, pre_seed, cfg, save_dir=None):
    from tempest import Sampler
    cfg = dict(cfg)
    like = ll_hole if cfg.pop("hole", False) else ll
    if cfg.pop("bimodal", False):
        like = ll_bimodal
    calls = []
    orig = np.random.seed

    def rec(*a, **k):
        calls.append(a[0] if a else None)
        return orig(*a, **k)

    np.random.seed = rec
    try:
        orig(pre_seed)
        extra = dict(output_dir=str(save_dir), output_label="c09") if save_dir is not None else {}
        npart = cfg.pop("n_particles", 12)
        s = Sampler(pt, like, n_dim=2, n_particles=npart, random_state=random_state, **cfg, **extra)
        s.run(n_total=40 if npart == 12 else 2 * npart, progress=False, save_every=1 if save_dir is not None else None)
    finally:
        np.random.seed = orig
    h = s.state
    digest = (tuple(np.concatenate([np.ravel(a) for a in h._history["u"]]).tobytes() for _ in [0]),
              tuple(float(b) for b in h.get_history("beta")), float(s.evidence()[0]))
    x, w, l = s.posterior()
    after_run = float(np.random.rand())
    # library operations after the run must not reset the stream either
    probes = {}
    for name, op in (("posterior(resample=True)", lambda: s.posterior(resample=True)),
                     ("posterior()", lambda: s.posterior()), ("results()", lambda: s.results()),
                     ("evidence()", lambda: s.evidence())) + \
            ((("save_state()", lambda: s.save_state(str(save_dir) + "/probe.state")),) if save_dir is not None else ()):
        nxt = []
        for pre in (31, 32):
            np.random.seed(pre)
            n0 = len(calls)
            np.random.seed = rec
            try:
                op()
            finally:
                np.random.seed = orig
            nxt.append((float(np.random.rand()), calls[n0:]))
        probes[name] = nxt
    return digest, (x.tobytes(), w.tobytes()), calls, after_run, probes


def sweep(run, tier, rng):
    cfgs = [dict(clustering=False), dict(clustering=True), dict(clustering=True, sample="rwm", resample="syst"),
            dict(clustering=False, hole=True),
            # two modes and a clustering that is reused between refits: anything one sampler leaves behind for the next one shows here
            dict(clustering=True, cluster_every=3, bimodal=True, n_particles=128, resample="syst"), dict(clustering=True, cluster_every=2, bimodal=True, n_particles=128)]
    if tier != "quick":
        cfgs += [dict(clustering=False, sample="rwm"), dict(clustering=True, cluster_every=2), dict(clustering=False, resample="syst", volume_variation=0.5)]
    for ci, cfg in enumerate(cfgs):
        rs = 0 if ci == 0 else rng.randrange(1000)
        what = dict(cfg=cfg, random_state=rs)
        try:
            a = run_once(rs, 111, cfg)
            b = run_once(rs, 222, cfg)     # different global state before construction: must not matter
            c = run_once(rs + 1, 111, cfg)
        except Exception as e:
            run.fail("run-raises", f"seeded run raised {type(e).__name__}: {e}", **what)
            continue
        run.case(key=("repro", ci), nontrivial=True)
        run.count(f"cfg={sorted(cfg.items())}")
        if a[0] != b[0] or a[1] != b[1]:
            run.fail("seeded-run-not-reproducible", f"two runs with random_state={rs} differ (evidence {a[0][2]!r} vs {b[0][2]!r})", **what)
        for name, nxt in a[4].items():
            if nxt[0][1] or nxt[1][1]:
                run.fail("library-reseeds-global-stream", f"{name} called np.random.seed with {nxt[0][1] or nxt[1][1]}", **what)
            elif nxt[0][0] == nxt[1][0]:
                run.fail("stream-after-operation-independent-of-prior-seed",
                         f"after {name} the next global draw is the same whatever the seed in force before", **what)
        if ci < 2:
            # writing checkpoints is not an event of the random stream: same trace, same run, bit for bit
            import tempfile
            try:
                d = run_once(rs, 111, cfg, save_dir=tempfile.mkdtemp(prefix="c09_", dir=run.scratch.dir))
            except Exception as e:
                run.fail("run-raises", f"seeded run with save_every=1 raised {type(e).__name__}: {e}", **what)
                d = None
            if d is not None:
                run.case(key=("repro-with-checkpoints", ci), nontrivial=True)
                if d[2] != a[2]:
                    run.disagree("seeding trace of a checkpointing run vs the same run without checkpoints", impl=d[2], model=a[2], **what)
                    run.fail("library-reseeds-global-stream", f"a run with save_every=1 called np.random.seed with {d[2]} (without checkpoints: {a[2]})", **what)
                if d[0] != a[0]:
                    run.fail("checkpointing-changes-the-run", f"random_state={rs}: the run with save_every=1 differs from the run without checkpoints "
                             f"(evidence {d[0][2]!r} vs {a[0][2]!r})", **what)
                for name, nxt in d[4].items():
                    if nxt[0][1] or nxt[1][1]:
                        run.fail("library-reseeds-global-stream", f"{name} called np.random.seed with {nxt[0][1] or nxt[1][1]}", **what)
                    elif nxt[0][0] == nxt[1][0]:
                        run.fail("stream-after-operation-independent-of-prior-seed",
                                 f"after {name} the next global draw is the same whatever the seed in force before", **what)
        if a[0] == c[0]:
            run.fail("different-seeds-same-result", f"random_state={rs} and {rs + 1} give identical histories", **what)
        if cfg.get("cluster_every", 1) > 1:
            # a third run in the same process: nothing a sampler leaves behind (fitted models, caches) may reach the next one
            try:
                b2 = run_once(rs, 333, cfg)
                if b2[0] != a[0]:
                    run.fail("seeded-run-not-reproducible", f"the third run with random_state={rs} in one process differs from the first "
                             f"(evidence {b2[0][2]!r} vs {a[0][2]!r})", **what)
            except Exception as e:
                run.fail("run-raises", f"seeded run raised {type(e).__name__}: {e}", **what)
        # trace: the only seeding call of a fresh seeded run is seed(random_state)
        if a[2][:1] != [rs] or [v for v in a[2][1:] if True]:
            run.disagree("seeding trace of a fresh seeded run vs model ([SeedUser random_state])", impl=a[2], model=[rs], **what)
            consts = [v for v in a[2] if v != rs]
            if consts:
                run.fail("library-reseeds-global-stream", f"during a run the library called np.random.seed with {sorted(set(consts))}", **what)
        # unseeded run: no seeding call at all, and the stream after the run depends on the seed before it
        try:
            u1 = run_once(None, 5, cfg)
            u2 = run_once(None, 6, cfg)
        except Exception as e:
            run.fail("run-raises", f"unseeded run raised {type(e).__name__}: {e}", **what)
            continue
        if u1[2] != []:
            run.disagree("seeding trace of an unseeded run vs model ([])", impl=u1[2], model=[], **what)
            run.fail("library-reseeds-global-stream", f"an unseeded run called np.random.seed with {u1[2][:5]}", **what)
        if u1[3] == u2[3] or u1[0] == u2[0]:
            run.fail("stream-after-run-independent-of-prior-seed",
                     "after an unseeded run the next global draw / the history do not depend on the seed in force before it", **what)
    # the ends of numpy's legal seed range, as Python and numpy integers: legal, distinct, reproducible
    try:
        ends = [run_once(sd, 111, cfgs[0]) for sd in (0, 2 ** 32 - 1, np.int64(2 ** 32 - 1), 1, 2 ** 32 - 2)]
        run.case(key=("repro", "seed-range-ends"), nontrivial=True)
        if ends[1][0] != ends[2][0]:
            run.fail("seeded-run-not-reproducible", "random_state=4294967295 as a Python int and as numpy.int64 give different runs", random_state=2 ** 32 - 1)
        for (i, j) in ((0, 1), (0, 3), (1, 4), (3, 4)):
            if ends[i][0] == ends[j][0]:
                sds = (0, 2 ** 32 - 1, 2 ** 32 - 1, 1, 2 ** 32 - 2)
                run.fail("different-seeds-same-result", f"random_state={sds[i]} and {sds[j]} give identical histories", cfg=cfgs[0], random_states=[sds[i], sds[j]])
    except Exception as e:
        run.fail("run-raises", f"seeded run at the end of the seed range raised {type(e).__name__}: {e}")
    run.sample(dict(kind="repro", cfg=str(cfgs[0]), evidence=a[0][2], trace=a[2]))


def lifecycle_probe(run):
    """(i) the seed takes effect when a fresh run starts, not when the object is built: whatever happens to the global stream
    between construction and run() (other samplers being built, the caller drawing numbers) does not change a seeded run, and
    building a seeded sampler does not disturb the caller's stream; (ii) loading the checkpoint of an UNSEEDED sampler leaves
    the caller's stream alone."""
    import tempfile
    from tempest import Sampler

    def digest(s):
        h = s.state
        return (np.concatenate([np.ravel(a) for a in h._history["u"]]).tobytes(), float(s.evidence()[0]))
    ref = Sampler(pt, ll, n_dim=2, n_particles=12, random_state=21, clustering=False)
    ref.run(n_total=30, progress=False)
    want = digest(ref)
    np.random.seed(99)
    expect_next = float(np.random.RandomState(99).rand())
    a = Sampler(pt, ll, n_dim=2, n_particles=12, random_state=21, clustering=False)
    got_next = float(np.random.rand())
    run.case(key=("lifecycle", "construction"), nontrivial=True)
    if got_next != expect_next:
        run.fail("library-reseeds-global-stream", "constructing a seeded Sampler changed the caller's global random stream",
                 ops=["np.random.seed(99)", "Sampler(random_state=21)", "np.random.rand()"])
    Sampler(pt, ll, n_dim=2, n_particles=12, random_state=22, clustering=False)   # another sampler built in between
    np.random.rand(7)                                                             # the caller draws in between
    a.run(n_total=30, progress=False)
    run.case(key=("lifecycle", "run-after-other-activity"), nontrivial=True)
    if digest(a) != want:
        run.fail("seeded-run-not-reproducible", "a seeded run depends on what happened to the global stream between the construction of the "
                 "Sampler and run() (another Sampler built, numbers drawn)", ops=["a = Sampler(random_state=21)", "Sampler(random_state=22)", "np.random.rand(7)", "a.run()"])
    # unseeded sampler: checkpoint, then load into a fresh unseeded sampler under a seed chosen by the caller
    d = tempfile.mkdtemp(prefix="c09_", dir=run.scratch.dir)
    np.random.seed(5)
    u = Sampler(pt, ll, n_dim=2, n_particles=12, random_state=None, clustering=False, output_dir=d, output_label="u")
    u.run(n_total=30, progress=False, save_every=1)
    ck = sorted(p for p in __import__("pathlib").Path(d).glob("u_[0-9]*.state"))
    calls = []
    orig = np.random.seed

    def rec(*a_, **k_):
        calls.append(a_[0] if a_ else None)
        return orig(*a_, **k_)
    nxt = []
    for pre in (41, 42):
        v = Sampler(pt, ll, n_dim=2, n_particles=12, random_state=None, clustering=False)
        orig(pre)
        np.random.seed = rec
        try:
            v.load_state(str(ck[len(ck) // 2]))
        finally:
            np.random.seed = orig
        nxt.append((float(np.random.rand()), float(np.random.RandomState(pre).rand())))
    run.case(key=("lifecycle", "load-unseeded"), nontrivial=True)
    if calls or any(g != w for g, w in nxt):
        run.fail("library-reseeds-global-stream", f"loading the checkpoint of an unseeded sampler touched the global stream (np.random.seed called with "
                 f"{calls}; next draws {[g for g, _ in nxt]} instead of {[w for _, w in nxt]})", ops=["unseeded run with save_every=1", "np.random.seed(41)", "fresh.load_state(ckpt)"])

    # (iii) a resumed SEEDED run continues the random stream; it does not replay the innovations of the first iterations of the run that
    # wrote the checkpoint (seeding again with random_state on load makes a resumed warm-up redraw the first prior batch)
    d2 = tempfile.mkdtemp(prefix="c09r_", dir=run.scratch.dir)
    hole = lambda x: -np.inf if x[0] < 0.0 else ll(x)      # half the prior has zero likelihood: several prior-sampling iterations
    w = Sampler(pt, hole, n_dim=2, n_particles=12, random_state=8, clustering=False, ess_ratio=4.0, output_dir=d2, output_label="w")
    w.run(n_total=30, progress=False, save_every=1)
    full_u = [np.array(b) for b in w.state._history["u"]]
    for k in (1, 2, len(full_u) - 1):
        ckp = __import__("pathlib").Path(d2) / f"w_{k}.state"
        if not ckp.exists():
            continue
        r = Sampler(pt, hole, n_dim=2, n_particles=12, random_state=8, clustering=False, ess_ratio=4.0)
        r.run(n_total=30, progress=False, resume_state_path=str(ckp))
        run.case(key=("lifecycle", "resume-seeded", k), nontrivial=True)
        new = [np.array(b) for b in r.state._history["u"][k:]]
        # rows of a new batch that are bit-identical to rows of batch j <= k drawn at the same position of the stream: a replay. (Resampled
        # copies of stored particles are legitimate: only FRESH prior batches (beta = 0) are compared, they are independent draws.)
        betas = [float(b) for b in r.state.get_history("beta")]
        replay = [(k + i + 1, j + 1) for i, nb in enumerate(new) if betas[k + i] == 0.0
                  for j, ob in enumerate(full_u[:k]) if nb.shape == ob.shape and np.array_equal(nb, ob)]
        st_after_load = None
        probe = Sampler(pt, hole, n_dim=2, n_particles=12, random_state=8, clustering=False, ess_ratio=4.0)
        probe.load_state(str(ckp))
        st_after_load = np.random.get_state()[1].tobytes()
        np.random.seed(8)
        st_fresh = np.random.get_state()[1].tobytes()
        if replay or st_after_load == st_fresh:
            run.fail("resume-replays-the-stream", f"Sampler(random_state=8): resuming from checkpoint {k} "
                     + (f"redraws earlier batches bit for bit (new iteration, replayed iteration): {replay[:3]}; " if replay else "")
                     + ("after load_state the global generator is in the state np.random.seed(8) produces: the resumed run consumes the stream of the "
                        "first iterations again" if st_after_load == st_fresh else ""),
                     ops=["Sampler(random_state=8).run(save_every=1)", f"fresh Sampler(random_state=8).run(resume_state_path=w_{k}.state)"], checkpoint=k)
            break

    # (iv) the generator state is restored WHOLE: a checkpoint written while the generator holds a cached normal deviate (an odd number
    # of normal draws so far) restores that deviate too
    d3 = tempfile.mkdtemp(prefix="c09s_", dir=run.scratch.dir)
    sv = Sampler(pt, ll, n_dim=2, n_particles=12, random_state=4, clustering=False)
    sv.run(n_total=24, progress=False)
    np.random.seed(123)
    np.random.randn(3)                      # an odd number of normal draws: one deviate is cached
    sv.save_state(d3 + "/s.state")
    want_state = np.random.get_state()
    np.random.seed(999)
    ld = Sampler(pt, ll, n_dim=2, n_particles=12, random_state=4, clustering=False)
    ld.load_state(d3 + "/s.state")
    got_state = np.random.get_state()
    run.case(key=("lifecycle", "full-generator-state"), nontrivial=bool(want_state[3]))
    same = want_state[0] == got_state[0] and np.array_equal(want_state[1], got_state[1]) and tuple(want_state[2:]) == tuple(got_state[2:])
    if not same:
        run.fail("resume-replays-the-stream", f"a seeded sampler's checkpoint written with generator position {want_state[2]}, cached deviate flag {want_state[3]} "
                 f"({want_state[4]!r}) restores position {got_state[2]}, flag {got_state[3]} ({got_state[4]!r}): the resumed run does not continue the stream "
                 f"of the run that wrote the checkpoint", ops=["np.random.randn(3)", "save_state", "np.random.seed(999)", "fresh.load_state"])


def fit_probe(run, tier, rng):
    from tempest.cluster import GaussianMixture, HierarchicalGaussianMixture
    reps = 6 if tier == "quick" else 40
    for t in range(reps):
        nr = np.random.RandomState(rng.randrange(2 ** 31))
        X = np.vstack([nr.randn(40, 2) * 0.05 + 0.3, nr.randn(40, 2) * 0.05 + 0.7])
        w = nr.rand(80)
        after = []
        calls = []
        orig = np.random.seed

        def rec(*a, **k):
            calls.append(a[0] if a else None)
            return orig(*a, **k)

        for pre in (1, 2):
            orig(pre)
            np.random.seed = rec
            try:
                m = HierarchicalGaussianMixture(normalize=bool(t % 2)).fit(X, w)
                m.predict(X)
                GaussianMixture(n_components=2, random_state=None).fit(X, w)
                GaussianMixture(n_components=2, random_state=None, n_init=3).fit(X, w)
            finally:
                np.random.seed = orig
            after.append(float(np.random.rand()))
        run.case(key=("fit", t), nontrivial=True)
        if calls:
            run.fail("library-reseeds-global-stream", f"clustering fit called np.random.seed with {sorted(set(calls))}", data_seed=t)
        elif after[0] == after[1]:
            run.fail("stream-after-fit-independent-of-prior-seed",
                     f"after HierarchicalGaussianMixture.fit the next global draw is {after[0]} whatever the seed before", data_seed=t)
        # a model given its OWN random_state neither depends on nor consumes the global stream (several components, several restarts)
        outs = []
        for pre in (11, 12):
            np.random.seed(pre)
            g = GaussianMixture(n_components=3, random_state=5, n_init=2).fit(X, w)
            outs.append((np.asarray(g.means_).tobytes(), np.asarray(g.weights_).tobytes(), float(np.random.rand()), float(np.random.RandomState(pre).rand())))
        if outs[0][:2] != outs[1][:2]:
            run.fail("seeded-run-not-reproducible", "GaussianMixture(n_components=3, random_state=5).fit(X, w) gives different models under different "
                     "states of the global generator: part of its randomness comes from the global stream", data_seed=t)
        elif any(o[2] != o[3] for o in outs):
            run.fail("library-reseeds-global-stream", "a GaussianMixture with its own random_state consumed numbers from the global stream during fit", data_seed=t)
    run.count("fit_probes", reps)


def main(tier, seed):
    run = Run(PID, tier, seed)
    run.rule = ("per configuration (clustering on/off, kernels, resamplers): two runs with the same random_state but a "
                "different global generator state beforehand must give bit-identical histories, posterior and evidence; "
                "random_state+1 must differ; unseeded runs started from two different global seeds must differ and leave "
                "the stream seed-dependent; np.random.seed is wrapped and the recorded seeding trace is compared with the "
                "trace predicted from the extracted call sites. Clustering fits are probed the same way.")
    run.assumptions = [
        "independence of differently seeded runs is carried as 'no shared innovations by construction' (state is a "
        "function of the seed with no constant reseed on the path), not as a statistical statement",
        "loading a checkpoint re-seeds with the checkpoint's random_state (a user-supplied value, classified CheckpointRandomState)",
        "the abstract generator's advance map is additive (and injective for the dependence clause)",
    ]
    rng = random.Random(seed)
    try:
        sites = translate()
        run.obligation("translate:seeding call sites in tempest/*", True)
        run.extra["seed_sites"] = [list(map(str, s)) for s in sites]
    except Exception as e:  # fail closed: anything the translator cannot digest
        run.obligation("translate:seeding call sites in tempest/*", False, str(e))
    run.prove("Props/C09.v", link_rels=["Link/Seeding.v"])
    try:
        sweep(run, tier, rng)
        fit_probe(run, tier, rng)
        lifecycle_probe(run)
    except Exception:
        import traceback
        run.broken.append(("harness-exception", traceback.format_exc()[-1500:]))
    run.finish(search=None)
