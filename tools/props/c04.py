"""C04 — importance weights follow the balance-heuristic mixture formula."""
import ast
import math
import random
import re
from decimal import Decimal, getcontext
from fractions import Fraction

import numpy as np

from common import (COQ, REPO, STDLIB_AXIOMS_REALS, RExprTr, Run, TranslateError, coq_eval_many, get_function,
                    strip_doc, write_if_changed)

PID = "C04"
getcontext().prec = 60


def _ns(n):
    return ast.unparse(n).replace(" ", "")


def translate():
    path = REPO / "tempest" / "state_manager.py"
    w = "state_manager.py:StateManager.compute_logw_and_logz"
    fn = get_function(path, "StateManager.compute_logw_and_logz")
    body = strip_doc(fn.body)

    def need(c, node, msg):
        if not c:
            raise TranslateError(f"{w}: line {getattr(node, 'lineno', '?')}: {msg}: {ast.unparse(node)[:160]}")

    src = [_ns(s) for s in body]
    need(len(body) == 16, fn, f"statement count {len(body)}")
    need(src[0] == "beta=np.asarray(self.get_history('beta'))", body[0], "beta history")
    need(isinstance(body[1], ast.If) and _ns(body[1].test) == "beta.size==0"
         and _ns(body[1].body[0]) == "return(np.array([]),-np.inf)", body[1], "empty-history guard")
    need(src[2] == "logz_iter=np.asarray(self.get_history('logz'))", body[2], "logz history")
    need(src[3] == "logl_all=self.get_history('logl',flat=True)", body[3], "flat logl")
    need(isinstance(body[4], ast.Assign) and _ns(body[4].targets[0]) == "A", body[4], "A")
    A = RExprTr({"logl_all": "l", "beta_final": "beta_final"}, w).num(body[4].value)
    need(src[5] == "logl_per_iter=self._history.get('logl')", body[5], "per-iteration logl")
    need(src[6] == "n_per_iter=np.array([len(logl_per_iter[t])fortinrange(len(beta))])", body[6], "n_per_iter")
    need(src[7] == "N_total=n_per_iter.sum()", body[7], "N_total")
    need(isinstance(body[8], ast.Assign) and _ns(body[8].targets[0]) == "b", body[8], "b")
    b = RExprTr({"logl_all[:,None]": "l", "beta[None,:]": "beta_t", "logz_iter[None,:]": "z_t"}, w).num(body[8].value)
    need(isinstance(body[9], ast.Assign) and _ns(body[9].targets[0]) == "log_mixture_weights", body[9], "mixture weights")
    lmw = RExprTr({"n_per_iter": "n_t", "N_total": "N"}, w).num(body[9].value)
    need(isinstance(body[10], ast.Assign) and _ns(body[10].targets[0]) == "b_weighted", body[10], "b_weighted")
    bw = RExprTr({"b": "b", "log_mixture_weights[None,:]": "lmw"}, w).num(body[10].value)
    need(src[11] == "B=np.logaddexp.reduce(b_weighted,axis=1)", body[11], "reduction over iterations")
    need(isinstance(body[12], ast.Assign) and _ns(body[12].targets[0]) == "logw", body[12], "logw")
    logw = RExprTr({"A": "A", "B": "B"}, w).num(body[12].value)
    need(isinstance(body[13], ast.Assign) and _ns(body[13].targets[0]) == "logz_new", body[13], "logz_new")
    logz = RExprTr({"np.logaddexp.reduce(logw)": "lse_logw", "logw.size": "size"}, w).num(body[13].value)
    nb = body[14]
    need(isinstance(nb, ast.If) and _ns(nb.test) == "normalizeandlogw.size" and len(nb.body) == 1
         and isinstance(nb.body[0], ast.Assign) and _ns(nb.body[0].targets[0]) == "logw", nb, "normalisation")
    norm = RExprTr({"logw": "logw", "np.logaddexp.reduce(logw)": "lse_logw"}, w).num(nb.body[0].value)
    rest = strip_doc(fn.body)
    need(_ns(fn.body[-1]) == "return(logw,logz_new)", fn.body[-1], "return")
    text = f"""(* GENERATED from /repo/tempest/state_manager.py (compute_logw_and_logz) by tools/props/c04.py *)
From Coq Require Import Reals.
Local Open Scope R_scope.
Definition A (l beta_final : R) : R := {A}.
Definition b (l beta_t z_t : R) : R := {b}.
Definition log_mixture_weight (n_t N : R) : R := {lmw}.
Definition b_weighted (b lmw : R) : R := {bw}.
Definition logw (A B : R) : R := {logw}.
Definition logz_new (lse_logw size : R) : R := {logz}.
Definition logw_normalised (logw lse_logw : R) : R := {norm}.
Definition reduces_with_logaddexp_over_iterations : bool := true.
Definition n_per_iter_is_batch_length : bool := true.
Definition N_total_is_sum_of_batch_lengths : bool := true.
Definition empty_history_returns_empty_and_neg_inf : bool := true.
Definition logz_uses_unnormalised_logw : bool := true.
"""
    write_if_changed(COQ / "Gen" / "MIS.v", text)


# ------------------------------------------------------------------ implementation
def build_state(betas, logzs, batches):
    from tempest.state_manager import StateManager
    st = StateManager(1)
    for b, z, ls in zip(betas, logzs, batches):
        n = len(ls)
        st.update_current({"u": np.zeros((n, 1)), "x": np.zeros((n, 1)), "logl": np.array(ls, dtype=float),
                           "beta": float(b), "logz": float(z), "iter": 0})
        st.commit_current_to_history()
    return st


def gen_history(rng, T, nmax, lmag, zmag):
    betas = [rng.choice([0.0, 1.0, rng.random(), rng.random() ** 3]) for _ in range(T)]
    if rng.random() < 0.5:
        betas.sort()
    logzs = [rng.uniform(-zmag, zmag) for _ in range(T)]
    batches = []
    for _ in range(T):
        n = rng.randint(1, nmax)
        scale = rng.choice([1.0, 30.0, lmag])
        batches.append([rng.uniform(-scale, scale) if rng.random() < 0.9 else -abs(rng.gauss(0, scale)) for _ in range(n)])
    return betas, logzs, batches


def ref_decimal(betas, logzs, batches, beta):
    """60-digit reference of (unnormalised logw, logz, normalised logw)."""
    D = Decimal
    ns = [len(b) for b in batches]
    N = sum(ns)
    ls = [D(x) for b in batches for x in b]
    out = []
    for l in ls:
        exps = [D(bt) * l - D(z) for bt, z in zip(betas, logzs)]
        m = max(exps)
        mix = sum(D(n) / D(N) * (e - m).exp() for n, e in zip(ns, exps))
        out.append(D(beta) * l - (m + mix.ln()))
    m = max(out)
    lse = m + sum((o - m).exp() for o in out).ln()
    logz = lse - D(N).ln()
    return out, logz, [o - lse for o in out]


def rq(x):
    fr = Fraction(x)
    return f"({fr.numerator}/{fr.denominator})" if fr.denominator != 1 else f"({fr.numerator})"


def interval_src(cases):
    """cases: list of (tag, betas, logzs, batches, beta, sample_indices)."""
    goals = []
    for (tag, betas, logzs, batches, beta, picks) in cases:
        ns = [len(b) for b in batches]
        N = sum(ns)
        flat = [x for b in batches for x in b]

        def logw_expr(l):
            terms = " + ".join(f"{rq(n)}/{rq(N)} * exp ({rq(bt)} * {rq(l)} - {rq(z)})" for n, bt, z in zip(ns, betas, logzs))
            return f"({rq(beta)} * {rq(l)} - ln ({terms}))"

        for s in picks:
            goals.append(f'  interval_intro {logw_expr(flat[s])} with (i_prec 100) as H.\n'
                         f'  match type of H with (?a <= _ <= ?b) => idtac "RES {tag} w{s} LO" a "HI" b end. clear H.')
        zexpr = "(ln ((" + " + ".join(f"exp {logw_expr(l)}" for l in flat) + f") / {rq(N)}))"
        goals.append(f'  interval_intro {zexpr} with (i_prec 100) as H.\n'
                     f'  match type of H with (?a <= _ <= ?b) => idtac "RES {tag} z LO" a "HI" b end. clear H.')
    return ("From Coq Require Import Reals.\nFrom Interval Require Import Tactic.\nOpen Scope R_scope.\nGoal True.\n"
            + "\n".join(goals) + "\n  exact I.\nQed.\n")


def parse_interval(out):
    res = {}
    out = out.replace("\n", " ")
    for m in re.finditer(r"RES (\S+) (\S+) LO \(?\s*(-?\d+)\s*(?:/\s*(\d+))?\s*\)? HI \(?\s*(-?\d+)\s*(?:/\s*(\d+))?\s*\)?", out):
        tag, what, ln_, ld, hn, hd = m.groups()
        res[(tag, what)] = (Fraction(int(ln_), int(ld or 1)), Fraction(int(hn), int(hd or 1)))
    return res


def check_against_reference(run, tier, rng):
    """implementation vs 60-digit reference of the closed formula + direct statement clauses."""
    reps = 120 if tier == "quick" else 1500
    for t in range(reps):
        T = rng.randint(1, 6)
        lmag = rng.choice([5.0, 300.0, 1e4, 1e6])
        betas, logzs, batches = gen_history(rng, T, 7, lmag, 50.0)
        beta = rng.choice([1.0, 0.0, rng.random()])
        st = build_state(betas, logzs, batches)
        run.count(f"T={T}")
        run.count(f"lmag={lmag:g}")
        try:
            logw, logz = st.compute_logw_and_logz(beta)
            logw_u, logz_u = st.compute_logw_and_logz(beta, normalize=False)
        except Exception as e:
            run.fail("raises", f"compute_logw_and_logz raised {type(e).__name__}: {e}", betas=betas, logzs=logzs,
                     batches=batches, beta=beta)
            continue
        run.case(key=("ref", t), nontrivial=T > 1)
        ref_u, ref_z, ref_n = ref_decimal(betas, logzs, batches, beta)
        what = dict(betas=betas, logzs=logzs, batches=batches, beta=beta)
        scale = max(1.0, max(abs(x) for b in batches for x in b) * 1.0 + max(abs(z) for z in logzs))
        tol = 1e-11 * scale + 1e-10
        if not np.all(np.isfinite(logw)) or not np.isfinite(logz):
            run.fail("non-finite", "non-finite log-weights or evidence for finite inputs", **what)
            continue
        if len(logw) != sum(len(b) for b in batches):
            run.fail("wrong-length", "one weight per stored sample expected", **what)
            continue
        if any(abs(Decimal(float(a)) - r) > Decimal(tol) for a, r in zip(logw_u, ref_u)):
            k = next(i for i, (a, r) in enumerate(zip(logw_u, ref_u)) if abs(Decimal(float(a)) - r) > Decimal(tol))
            run.fail("logw-formula", f"unnormalised log-weight {k} = {logw_u[k]!r}, balance-heuristic formula gives {float(ref_u[k])!r}", **what)
            continue
        if abs(Decimal(float(logz)) - ref_z) > Decimal(tol) or abs(Decimal(float(logz_u)) - ref_z) > Decimal(tol):
            run.fail("logz-formula", f"logz = {logz!r}, log of mean unnormalised weight = {float(ref_z)!r}", **what)
            continue
        if any(abs(Decimal(float(a)) - r) > Decimal(tol) for a, r in zip(logw, ref_n)):
            run.fail("normalised-formula", "normalised log-weights deviate from logw - logsumexp(logw)", **what)
            continue
        ssum = math.fsum(math.exp(v) for v in logw)
        if abs(ssum - 1) > 1e-9:
            run.fail("not-normalised", f"normalised weights sum to {ssum}", **what)
        # order independence
        perm = list(range(T))
        rng.shuffle(perm)
        st2 = build_state([betas[i] for i in perm], [logzs[i] for i in perm], [batches[i] for i in perm])
        lw2, lz2 = st2.compute_logw_and_logz(beta)
        d1 = {}
        pos = 0
        for b in batches:
            pos += len(b)
        off = np.cumsum([0] + [len(b) for b in batches])
        off2 = np.cumsum([0] + [len(batches[i]) for i in perm])
        okp = abs(lz2 - logz) <= tol
        for j, i in enumerate(perm):
            if not np.allclose(lw2[off2[j]:off2[j + 1]], logw[off[i]:off[i + 1]], rtol=0, atol=tol):
                okp = False
        if not okp:
            run.fail("order-dependent", "weights/evidence change when the iterations are reordered", perm=perm, **what)
        # likelihood rescaling
        c = rng.choice([-1000.0, -37.5, -1.0, 1e-3, 1.0, 37.5, 1000.0])
        st3 = build_state(betas, [z + b * c for z, b in zip(logzs, betas)], [[x + c for x in b] for b in batches])
        lw3, lz3 = st3.compute_logw_and_logz(beta)
        tol3 = tol + 1e-11 * abs(c)
        if abs(lz3 - (logz + beta * c)) > tol3 or not np.allclose(lw3, logw, rtol=0, atol=tol3):
            run.fail("shift-inconsistent", f"shifting logL by {c} (and logZ_t by beta_t*c) must shift logZ by beta*c "
                     f"and leave normalised weights unchanged: dlogz={lz3 - logz}, beta*c={beta * c}", c=c, **what)
    # empty history
    from tempest.state_manager import StateManager
    lw, lz = StateManager(2).compute_logw_and_logz(1.0)
    if len(lw) != 0 or lz != -np.inf:
        run.fail("empty-history", f"empty history must give ([], -inf); got ({lw}, {lz})")


def correspond_interval(run, tier, rng):
    n_cases = 24 if tier == "quick" else 240
    cases = []
    impl = {}
    for t in range(n_cases):
        T = rng.randint(1, 5)
        lmag = rng.choice([5.0, 300.0, 1e4, 1e6])
        betas, logzs, batches = gen_history(rng, T, 3, lmag, 50.0)
        beta = rng.choice([1.0, rng.random()])
        st = build_state(betas, logzs, batches)
        logw_u, logz = st.compute_logw_and_logz(beta, normalize=False)
        N = len(logw_u)
        if not (np.all(np.isfinite(logw_u)) and np.isfinite(logz)):
            run.fail("non-finite", "non-finite log-weights or evidence for finite inputs", betas=betas, logzs=logzs, batches=batches, beta=beta)
            continue
        picks = sorted(set([0, N - 1, rng.randrange(N)]))
        tag = f"c{t}"
        cases.append((tag, betas, logzs, batches, beta, picks))
        scale = max(1.0, max(abs(x) for b in batches for x in b) + max(abs(z) for z in logzs))
        for s in picks:
            impl[(tag, f"w{s}")] = (float(logw_u[s]), scale)
        impl[(tag, "z")] = (float(logz), scale)
        run.case(key=("interval", t), nontrivial=T > 1)
    run.sample(dict(kind="interval-case", betas=cases[0][1], logzs=cases[0][2], batches=cases[0][3], beta=cases[0][4],
                    impl_logz=impl[("c0", "z")][0]))
    shard = 2
    srcs = [interval_src(cases[i:i + shard]) for i in range(0, len(cases), shard)]
    res = coq_eval_many(run.scratch, srcs, timeout=600, jobs=14)
    enc = {}
    for ok, out in res:
        if not ok:
            run.broken.append(("interval-coqc", out[-1500:]))
            return
        enc.update(parse_interval(out))
    missing = [k for k in impl if k not in enc]
    if missing:
        run.broken.append(("interval-parse", f"{len(missing)} enclosures missing, e.g. {missing[:3]}"))
        return
    n_in = 0
    for k, (v, scale) in impl.items():
        lo, hi = enc[k]
        tol = Fraction(1e-11 * scale + 1e-10)
        if lo - tol <= Fraction(v) <= hi + tol:
            n_in += 1
        else:
            case = next(c for c in cases if c[0] == k[0])
            run.disagree("compute_logw_and_logz vs verified enclosure of the Coq specification", which=k[1],
                         impl=v, lo=float(lo), hi=float(hi), betas=case[1], logzs=case[2], batches=case[3], beta=case[4])
    run.extra["interval_values"] = len(impl)
    run.extra["interval_inside"] = n_in
    run.extra["max_enclosure_width"] = float(max(hi - lo for lo, hi in enc.values()))


def reuse_probe(run, tier, rng):
    """The weights are a function of the stored history only: one manager instance that has already computed weights for
    other histories (replaced through update_from_dict / load paths, or grown by commits) must return, bit for bit, what
    a fresh manager returns for the same history."""
    reps = 6 if tier == "quick" else 60
    for t in range(reps):
        hs = [gen_history(rng, rng.randint(1, 5), 6, 30.0, 5.0) for _ in range(3)]
        one = build_state(*hs[0])
        one.compute_logw_and_logz(rng.random())
        for j, h in enumerate(hs[1:], 1):
            fresh = build_state(*h)
            one.update_from_dict(fresh.to_dict())
            b = rng.choice([0.0, 1.0, rng.random()])
            got, want = one.compute_logw_and_logz(b), fresh.compute_logw_and_logz(b)
            run.case(key=("reuse", t, j), nontrivial=True)
            if not (np.array_equal(got[0], want[0], equal_nan=True) and (got[1] == want[1] or (np.isnan(got[1]) and np.isnan(want[1])))):
                run.fail("weights-depend-on-earlier-history", "a manager whose history was replaced returns other weights than a fresh "
                         f"manager holding the same history (logz {got[1]!r} vs {want[1]!r})", histories=[dict(betas=x[0], sizes=[len(q) for q in x[2]]) for x in hs[:j + 1]],
                         beta=b)
                break
        # growth by commits with a computation after every commit
        betas, logzs, batches = gen_history(rng, rng.randint(2, 5), 6, 30.0, 5.0)
        grown = build_state(betas[:1], logzs[:1], batches[:1])
        for k in range(2, len(betas) + 1):
            grown.compute_logw_and_logz(1.0)
            n = len(batches[k - 1])
            grown.update_current({"u": np.zeros((n, 1)), "x": np.zeros((n, 1)), "logl": np.array(batches[k - 1], dtype=float),
                                  "beta": float(betas[k - 1]), "logz": float(logzs[k - 1]), "iter": 0})
            grown.commit_current_to_history()
            got, want = grown.compute_logw_and_logz(1.0), build_state(betas[:k], logzs[:k], batches[:k]).compute_logw_and_logz(1.0)
            if not np.array_equal(got[0], want[0], equal_nan=True):
                run.fail("weights-depend-on-earlier-history", "a manager grown by commits (with a computation after each) disagrees with a fresh one",
                         betas=betas[:k], sizes=[len(q) for q in batches[:k]])
                break


def results_overwrite_probe(run, rng):
    """results()['logw'] post-processed in place by the caller (a common idiom: subtract the max, exponentiate) - the next results() must
    still give the formula's log-weights"""
    betas, logzs, batches = gen_history(rng, 4, 6, 30.0, 5.0)
    n0 = len(batches[0])
    batches = [b[:n0] + [0.0] * (n0 - len(b[:n0])) for b in batches]      # equal batch sizes: results() stacks the history
    st = build_state(betas, logzs, batches)
    try:
        r1 = st.compute_results()
        ref = np.array(r1["logw"], dtype=float).copy()
        lw = r1["logw"]
        lw -= lw.max()
        np.exp(lw, out=lw)
        r2 = st.compute_results()
    except Exception as e:
        run.notes.append(f"results overwrite probe skipped: {type(e).__name__}: {e}")
        return
    run.case(key=("results-overwrite",), nontrivial=True)
    if not np.allclose(np.asarray(r2["logw"], dtype=float), ref, rtol=0, atol=1e-12):
        run.fail("logw-formula", f"results()['logw'] after the caller post-processed an earlier results()['logw'] in place: max deviation "
                 f"{float(np.max(np.abs(np.asarray(r2['logw'], dtype=float) - ref))):.3g} from the log-weights returned the first time",
                 ops=["r = results()", "r['logw'] -= max; exp in place", "results()"])


def long_history_probe(run, T=64, n_lo=200, n_hi=2600, seed=77):
    """a LONG stored history (N*T several million entries, the sizes a long real run reaches): normalised / unnormalised log-weights
    and the evidence against an independent double evaluation of the same formula, sample by sample in row blocks"""
    nr = np.random.RandomState(seed)
    ns = [int(v) for v in nr.randint(n_lo, n_hi, size=T)]
    betas = np.sort(np.concatenate([[0.0, 0.0], nr.rand(T - 3), [1.0]]))
    logzs = np.cumsum(nr.randn(T)) * 0.5
    batches = [(-0.5 * nr.chisquare(3, size=n) * (1 + 10 * (1 - b))) for n, b in zip(ns, betas)]
    st = build_state(betas, logzs, batches)
    N = sum(ns)
    logl = np.concatenate(batches)
    off = np.log(np.array(ns) / N) - logzs
    what = dict(T=T, N=N, elements=N * T, seed=seed)
    for bt in (1.0, 0.37):
        try:
            lw, lz = st.compute_logw_and_logz(bt, normalize=False)
            lwn, _ = st.compute_logw_and_logz(bt)
        except Exception as e:
            run.fail("long-history-raises", f"compute_logw_and_logz on a history of {N} samples x {T} iterations raised {type(e).__name__}: {e}", **what)
            return
        run.case(key=("long-history", bt), nontrivial=True)
        ref = np.empty(N)
        for a in range(0, N, 5000):
            blk = logl[a:a + 5000, None] * betas[None, :] + off[None, :]
            m = blk.max(axis=1)
            ref[a:a + 5000] = bt * logl[a:a + 5000] - (m + np.log(np.exp(blk - m[:, None]).sum(axis=1)))
        mx = ref.max()
        lse = mx + math.log(np.exp(ref - mx).sum())
        if np.max(np.abs(np.asarray(lw) - ref)) > 1e-8 or abs(float(lz) - (lse - math.log(N))) > 1e-8 or np.max(np.abs(np.asarray(lwn) - (ref - lse))) > 1e-8:
            run.fail("logw-formula", f"history of {N} samples x {T} iterations ({N * T} matrix entries), beta={bt}: max |logw - formula| = "
                     f"{float(np.max(np.abs(np.asarray(lw) - ref))):.3g}, logz {float(lz)!r} vs {lse - math.log(N)!r}", beta=bt, **what)
            return


def main(tier, seed):
    run = Run(PID, tier, seed)
    run.rule = ("histories with T in 1..6 iterations, unequal batch sizes 1..7, beta_t in [0,1] in any order (incl. 0 and 1), "
                "logz_t in +-50, log-likelihoods spanning +-5 .. +-1e6; target beta in {0,1,random}. Each case: closed-formula "
                "reference (60 digits), normalisation, reordering of iterations, likelihood shift c in +-1e3; a subset goes "
                "through verified interval enclosures computed in Coq from the specification. Non-trivial: T>1.")
    run.assumptions = [
        "np.logaddexp.reduce(v) is ln(sum(exp v)) up to rounding (modelled as lse over R)",
        "float rounding idealised; the implementation's doubles must lie inside the Coq-verified enclosure widened by "
        "1e-11*(max|logl|+max|logz|)+1e-10",
        "'stay finite' is carried by the real bound C04_bounded plus the finiteness checks of the magnitude stream",
    ]
    rng = random.Random(seed)
    try:
        translate()
        import c05
        c05.translate()   # where the stored evidences come from: Reweighter.run records compute_logw_and_logz(beta) at the chosen beta
        run.obligation("translate:StateManager.compute_logw_and_logz", True)
    except Exception as e:  # fail closed: anything the translator cannot digest
        run.obligation("translate:StateManager.compute_logw_and_logz", False, str(e))
    run.prove("Props/C04.v", link_rels=["Link/MIS.v", "Link/Schedule.v"], allowed_axioms=STDLIB_AXIOMS_REALS)
    try:
        check_against_reference(run, tier, rng)
        correspond_interval(run, tier, rng)
        reuse_probe(run, tier, rng)
        # the evidences the formula divides by are the ones the reweighter stored: each must be the formula's own value at its batch's
        # temperature, given the batches before it (ESS mode incl. several iterations at one temperature; binding dynamic mode)
        import c01
        c01.stored_evidence_probe(run, tier)
        import c05
        c05.second_run_probe(run, tier, rng)    # the weights/evidence of every step of a second run() on one Sampler
        results_overwrite_probe(run, rng)
        long_history_probe(run)                 # 64 iterations, ~90000 samples: 5.8 million matrix entries
    except Exception:
        import traceback
        run.broken.append(("harness-exception", traceback.format_exc()[-1500:]))

    def search(r):
        check_against_reference(r, "quick", random.Random(4242))
        if not r.failures:
            long_history_probe(r, T=96, n_lo=1500, n_hi=3500, seed=78)   # ~23 million entries

    run.finish(search=search)
