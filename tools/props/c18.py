"""C18 — invalid configurations are rejected up front; valid ones always run."""
import ast
import itertools
import multiprocessing as mp
import os
import random
import shutil
import tempfile
from fractions import Fraction
from pathlib import Path

import numpy as np

from common import COQ, REPO, Run, TranslateError, coq_eval_many, get_function, parse_evals, qlit, strip_doc, write_if_changed

PID = "C18"


def _ns(n):
    return ast.unparse(n).replace(" ", "")


def translate():
    def need(c, node, msg, w):
        if not c:
            raise TranslateError(f"{w}: line {getattr(node, 'lineno', '?')}: {msg}: {ast.unparse(node)[:200]}")

    cfg = REPO / "tempest" / "config.py"
    w = "config.py:SamplerConfig"
    post = get_function(cfg, "SamplerConfig.__post_init__")
    val = get_function(cfg, "SamplerConfig.validate")
    pt = _ns(post)
    vt = _ns(val).replace("\n", "")
    f = {}
    f["checks_n_dim_is_positive_int"] = "ifnotisinstance(self.n_dim,int):raiseValueError(" in pt.replace("\n", "") and \
        "ifnotisinstance(self.n_dim,int)orself.n_dim<=0:errors.append(" in vt
    f["checks_n_particles_is_positive_int"] = "ifnotisinstance(self.n_particles,int):errors.append(" in vt and "ifself.n_particles<=0:errors.append(" in vt
    f["checks_ess_ratio_positive_number"] = "ifnotisinstance(self.ess_ratio,(int,float)):errors.append(" in vt and "ifself.ess_ratio<=0:errors.append(" in vt
    f["checks_volume_variation_positive_number_or_none"] = "ifself.volume_variationisnotNone:ifnotisinstance(self.volume_variation,(int,float)):errors.append(" in vt \
        and "elifself.volume_variation<=0:errors.append(" in vt
    f["checks_sampler_name"] = "ifself.samplenotin['tpcn','rwm']:errors.append(" in vt
    f["checks_resampler_name"] = "ifself.resamplenotin['mult','syst']:errors.append(" in vt
    f["checks_vectorize_blobs_conflict"] = "ifself.vectorizeandself.blobs_dtypeisnotNone:errors.append(" in vt
    f["checks_periodic_reflective_overlap"] = "overlap=set(self.periodic).intersection(set(self.reflective))ifoverlap:errors.append(" in vt
    f["checks_periodic_indices_in_range"] = "ifself.periodicisnotNone:ifnotall((isinstance(i,int)and0<=i<self.n_dimforiinself.periodic)):errors.append(" in vt
    f["checks_reflective_indices_in_range"] = "ifself.reflectiveisnotNone:ifnotall((isinstance(i,int)and0<=i<self.n_dimforiinself.reflective)):errors.append(" in vt
    # every check stands on its own: none is chained to another one by else / elif (a chained check is skipped whenever the one before fires
    # or merely applies), and none sits inside another check's body
    tops = [st_ for st_ in strip_doc(val.body) if isinstance(st_, ast.If)]
    need(all(not st_.orelse for st_ in tops), val, "a validation check is chained to the previous one by else/elif", w)
    heads = [_ns(st_.test) for st_ in tops]
    for h in ("self.periodicisnotNone", "self.reflectiveisnotNone", "self.volume_variationisnotNone", "self.samplenotin['tpcn','rwm']",
              "self.resamplenotin['mult','syst']", "self.vectorizeandself.blobs_dtypeisnotNone", "errors"):
        need(h in heads, val, f"check `{h}` is a statement of validate() itself", w)
    f["errors_raise_value_error"] = "iferrors:raiseValueError(" in vt
    f["post_init_calls_validate"] = "self.validate()" in pt
    f["default_n_particles_is_twice_n_dim"] = "ifself.n_particlesisNone:object.__setattr__(self,'n_particles',2*self.n_dim)" in pt.replace("\n", "")
    # construction path
    sm = get_function(REPO / "tempest" / "sampler.py", "Sampler.__init__")
    order = [_ns(s.targets[0]) if isinstance(s, ast.Assign) else "" for s in strip_doc(sm.body)]
    need(order.index("config") < order.index("self._core"), sm, "config is built before the core", "sampler.py")
    f["config_built_before_core_and_steps"] = True
    n_calls = 0
    sites = [sm, post, val, get_function(REPO / "tempest" / "core.py", "SamplerCore.__init__")]
    for rel, cls in (("steps/reweight.py", "Reweighter"), ("steps/train.py", "Trainer"), ("steps/resample.py", "Resampler"),
                     ("steps/mutate.py", "Mutator"), ("state_manager.py", "StateManager"), ("tools.py", "FunctionWrapper")):
        sites.append(get_function(REPO / "tempest" / rel, f"{cls}.__init__"))
    for fn in sites:
        for node in ast.walk(fn):
            if isinstance(node, ast.Call):
                name = _ns(node.func)
                if name.split(".")[-1] in ("prior_transform", "log_likelihood", "_log_like", "f") and name != "callable":
                    n_calls += 1
    lines = "\n".join(f"Definition {k} : bool := {str(bool(v)).lower()}." for k, v in f.items())
    text = f"""(* GENERATED from config.py, sampler.py, core.py and the step constructors by tools/props/c18.py *)
{lines}
Definition callbacks_called_during_construction : nat := {n_calls}.
"""
    write_if_changed(COQ / "Gen" / "Config.v", text)
    # ---- the kernel's inner loop: int(min(max(n_steps*n_dim, adaptive), n_max*n_dim)) steps, iteration counted from 1
    mc = REPO / "tempest" / "mcmc.py"
    w2 = "mcmc.py:BaseMCMCRunner"
    cas = get_function(mc, "BaseMCMCRunner._calculate_adaptive_steps")
    asg = {_ns(x.targets[0]): x.value for x in strip_doc(cas.body) if isinstance(x, ast.Assign)}
    ret = strip_doc(cas.body)[-1]
    need(isinstance(ret, ast.Return) and _ns(ret.value) == "int(min(n_steps_final,n_steps_max))", ret, "int(min(final, max))", w2)
    need(_ns(asg.get("n_steps_final")) == "max(n_steps_min,n_steps_adaptive)", cas, "final = max(min, adaptive)", w2)
    need(_ns(asg.get("n_steps_min")) == "self.n_steps*self.n_dim" and _ns(asg.get("n_steps_max")) == "self.n_max*self.n_dim", cas, "bounds", w2)
    cc = get_function(mc, "BaseMCMCRunner._check_convergence")
    need("returnself.iteration>=adaptive_steps" in _ns(cc).replace("\n", "") and
         "adaptive_steps=self._calculate_adaptive_steps(current_acceptance)" in _ns(cc), cc, "stop test", w2)
    rn = get_function(mc, "BaseMCMCRunner.run")
    loop = next(x for x in strip_doc(rn.body) if isinstance(x, ast.While))
    need(_ns(loop.test) == "True" and _ns(loop.body[0]) == "self.iteration+=1" and
         _ns(loop.body[-1]).replace("\n", "") == "ifself._check_convergence(current_acceptance):break"
         and sum(isinstance(n, ast.Break) for n in ast.walk(loop)) == 1
         and not any(isinstance(n, ast.Continue) for st_ in loop.body if not isinstance(st_, (ast.For, ast.While)) for n in ast.walk(st_)),
         loop, "loop shape: count, step, test-and-break", w2)
    ini = _ns(get_function(mc, "BaseMCMCRunner.__init__"))
    need("self.iteration=0" in ini, rn, "iteration starts at 0", w2)
    text2 = """(* GENERATED from mcmc.py (_calculate_adaptive_steps, _check_convergence, run) by tools/props/c18.py *)
From Coq Require Import ZArith QArith.
From Tempest Require Import Model.KernelLoop.
Definition adaptive_steps (smin smax adaptive : Q) : Z := pyint (pymin (pymax smin adaptive) smax).
Definition stop_test (it : Z) (steps : Z) : bool := Z.leb steps it.
Definition loop_counts_then_steps_then_tests : bool := true.
Definition iteration_starts_at_zero : bool := true.
"""
    write_if_changed(COQ / "Gen" / "KernelLoop.v", text2)


# ------------------------------------------------------------------ invalid values
def pyval(v):
    if v is None:
        return "PNone"
    if isinstance(v, bool):
        return f"(PBool {str(v).lower()})"
    if isinstance(v, int):
        return f"(PInt ({v}))"
    if isinstance(v, float) and v == v and abs(v) != float("inf"):
        return f"(PFloat {qlit(Fraction(v))})"
    return "POther"


def coq_cfg(c):
    def lst(x):
        return "None" if x is None else "(Some [" + "; ".join(pyval(v) for v in x) + "])"

    return (f'(mkConfig {pyval(c["n_dim"])} {pyval(c["n_particles"])} {pyval(c["ess_ratio"])} {pyval(c["volume_variation"])} '
            f'"{c["sample"]}" "{c["resample"]}" {str(bool(c["vectorize"])).lower()} {str(c["blobs_dtype"] is not None).lower()} '
            f'{lst(c["periodic"])} {lst(c["reflective"])})')


BASE = dict(n_dim=3, n_particles=None, ess_ratio=2.0, volume_variation=None, sample="tpcn", resample="mult",
            vectorize=False, blobs_dtype=None, periodic=None, reflective=None)


def factor_cases():
    cases = [dict(BASE)]
    for k, vals in dict(
            n_dim=[0, -1, 2.0, "3", None, 1, 10],
            n_particles=[0, -5, 7.5, "8", 1, 64],
            ess_ratio=[0, 0.0, -1.0, -3, 1, 0.5, 1e-9, "2"],
            volume_variation=[0, 0.0, -0.1, 1e-3, 5, "x"],
            # unknown names, incl. the empty string, fragments, concatenations and other spellings of the valid names
            sample=["hmc", "", "TPCN", "rwm", "tpc", "rw", "t", "tpcnrwm", "tpcn ", " rwm"],
            resample=["multinomial", "systematic", "syst", "", "sys", "mul", "m", "ts", "multsyst", "MULT", "syst "],
            periodic=[[0], [2], [3], [-1], [0, 0], [1.0], []],
            reflective=[[0], [3], [-1], ["a"], []]).items():
        for v in vals:
            c = dict(BASE)
            c[k] = v
            cases.append(c)
    for (p, r) in [([0], [0]), ([0, 1], [1, 2]), ([0], [1]), ([2], [0, 1])]:
        c = dict(BASE, periodic=p, reflective=r)
        cases.append(c)
    cases.append(dict(BASE, vectorize=True, blobs_dtype="float"))
    cases.append(dict(BASE, vectorize=True))
    cases.append(dict(BASE, blobs_dtype="float"))
    # two factors: every value above again, next to valid non-default settings of the OTHER options (a check must not depend on
    # whether another option is given)
    singles = list(cases[1:])
    for other in (dict(periodic=[1]), dict(reflective=[1]), dict(sample="rwm", resample="syst", vectorize=True),
                  dict(volume_variation=0.5, ess_ratio=2.0), dict(volume_variation=0.5), dict(ess_ratio=0.7), dict(n_particles=5),
                  dict(periodic=[0], reflective=[1], blobs_dtype="float")):
        for c in singles:
            changed = [k for k in c if c[k] != BASE.get(k, None) or k not in BASE]
            if any(k in other for k in changed):
                continue
            c2 = dict(c, **other)
            if c2 not in cases:
                cases.append(c2)
    return cases


def check_validation(run):
    from tempest import Sampler
    cases = factor_cases()
    called = [0]

    def pt(u):
        called[0] += 1
        return u

    def ll(x):
        called[0] += 1
        return 0.0

    impl = []
    for c in cases:
        called[0] = 0
        try:
            Sampler(pt, ll, **c)
            ok = True
            err = None
        except Exception as e:
            ok = False
            err = type(e).__name__
        impl.append((ok, err))
        run.case(key=("cfg", str(c)), nontrivial=not ok)
        if called[0]:
            run.fail("callback-called-during-construction", f"the prior transform / likelihood was called {called[0]} times while constructing", config=c)
    run.count("validation_cases", len(cases))
    run.count("rejected", sum(1 for ok, _ in impl if not ok))
    items = ";\n".join(f"accepts {coq_cfg(c)}" for c in cases)
    src = f"""From Coq Require Import List Bool ZArith QArith String.
From Tempest Require Import Model.Config.
Import ListNotations.
Local Open Scope string_scope.
Eval vm_compute in [
{items}
].
"""
    (ok, out), = coq_eval_many(run.scratch, [src])
    if not ok:
        run.broken.append(("validation-coqc", out[-1500:]))
        return
    model = parse_evals(out)[0]
    for c, (iok, err), m in zip(cases, impl, model):
        if iok != m:
            run.disagree("constructor accepts/rejects vs Coq model of the validator", config=c, impl="accepts" if iok else f"rejects ({err})",
                         model="accepts" if m else "rejects")
            if iok and not m:
                run.fail("invalid-configuration-accepted", "a configuration violating a documented constraint was accepted", config=c)
    run.sample(dict(kind="validation", example=cases[3], impl=impl[3]))


# ------------------------------------------------------------------ valid configurations
class PoolLike:
    def map(self, f, xs):
        return list(map(f, xs))


class LazyPool:
    """a pool whose map hands back an iterator (concurrent.futures executors do)"""

    def map(self, f, xs):
        return map(f, xs)


def pt(u):
    return 8.0 * u - 4.0


def ll_scalar(x):
    return -0.5 * float(np.sum(x ** 2))


def ll_vec(X):
    return -0.5 * np.sum(X ** 2, axis=1)


def ll_blob(x):
    return -0.5 * float(np.sum(x ** 2)), float(x[0])


def run_valid(args):
    row, seed, workdir = args
    import warnings
    warnings.simplefilter("ignore")
    from tempest import Sampler
    from tempest.tools import effective_sample_size
    if row.get("nested_dir"):
        workdir = workdir + "/levels/that/do/not/exist/yet"          # output_dir may be any path: missing parents included
    kw = dict(n_dim=2, n_particles=row.get("n_particles", 10), sample=row["sample"], resample=row["resample"], clustering=row["clustering"],
              normalize=row["normalize"], cluster_every=row["cluster_every"], n_max_clusters=row["n_max_clusters"],
              split_threshold=row["split_threshold"], volume_variation=row["vv"], n_steps=row["n_steps"],
              n_max_steps=row["n_max_steps"], random_state=seed, output_dir=workdir, output_label="v")
    like = ll_scalar
    if row["like"] == "vectorized":
        like, kw["vectorize"] = ll_vec, True
    elif row["like"] == "blobs":
        like, kw["blobs_dtype"] = ll_blob, float
    if row["bc"] == "periodic":
        kw["periodic"] = [0]
    elif row["bc"] == "reflective":
        kw["reflective"] = [1]
    elif row["bc"] == "mixed":
        kw["periodic"], kw["reflective"] = [1], [0]
    if row["pool"] == "int1":
        kw["pool"] = 1   # one process
    elif row["pool"] == "npint2":
        kw["pool"] = np.int64(2)
    elif row["pool"] == "int2":
        kw["pool"] = 2   # the integer form: the library starts its own worker processes
    elif row["pool"] == "lazy":
        kw["pool"] = LazyPool()
    elif row["pool"]:
        kw["pool"] = PoolLike()
    try:
        s = Sampler(pt, like, **kw)
        s.run(n_total=30, progress=False, save_every=row["save_every"])
        beta = float(s.state.get_current("beta"))
        logw, logz = s.state.compute_logw_and_logz(1.0)
        ess = float(effective_sample_size(np.exp(logw - np.max(logw))))
        x, w, l = s.posterior()
        post_ok = len(x) == len(w) == len(l) and abs(float(np.sum(w)) - 1) < 1e-9
        return dict(row=row, seed=seed, error=None, beta=beta, ess=ess, ev=float(s.evidence()[0]), logz=float(logz), post_ok=post_ok)
    except Exception as e:
        import traceback
        return dict(row=row, seed=seed, error=f"{type(e).__name__}: {e}", tb=traceback.format_exc()[-600:], tb_full=traceback.format_exc())


def covering(rng, opts, strength, limit):
    keys = list(opts)
    want = set()
    for combo in itertools.combinations(keys, strength):
        for vals in itertools.product(*[opts[k] for k in combo]):
            want.add(tuple(zip(combo, vals)))
    rows = []
    while want and len(rows) < limit:
        best, bc = None, -1
        for _ in range(60):
            r = {k: rng.choice(v) for k, v in opts.items()}
            if r["like"] != "scalar" and r["pool"]:
                pass
            c = sum(1 for w in want if all(r[k] == v for k, v in w))
            if c > bc:
                best, bc = r, c
        rows.append(best)
        want = {w for w in want if not all(best[k] == v for k, v in w)}
    return rows, len(want)


def known_abort_probe(run):
    """the listed finding (shared with C14) reached by a valid configuration: a plain bimodal target, rwm + clustering, 64 particles"""
    import ensemble as ens
    r = ens.one(("bimodal", dict(clustering=True, sample="rwm"), 9554, 64))
    run.case(key=("known-abort", 9554), nontrivial=True)
    if not r["ok"] and r.get("known_c14"):
        run.fail("single-point-cluster-singular-scale", f"Sampler(n_dim=2, n_particles=64, sample='rwm', clustering=True, random_state=9554) on a two-mode "
                 f"Gaussian mixture aborts: {r['err']}", target="bimodal 0.3/0.7", random_state=9554)
    elif not r["ok"]:
        run.fail("valid-configuration-raises", f"a valid configuration failed to run: {r['err']}", random_state=9554)


def check_valid(run, tier, rng, work):
    opts = dict(sample=["tpcn", "rwm"], resample=["mult", "syst"], clustering=[True, False], normalize=[True, False],
                cluster_every=[1, 2, 3], n_max_clusters=[None, 1, 2, 3], split_threshold=[0.5, 1.0, 2.0], vv=[None, 0.5],
                n_steps=[None, 1, 3], n_max_steps=[None, 5], like=["scalar", "vectorized", "blobs"],
                bc=["none", "periodic", "reflective", "mixed"], pool=[False, True, "lazy"], save_every=[None, 2])
    rows, uncovered = covering(rng, opts, 2 if tier == "quick" else 3, 40 if tier == "quick" else 400)
    # the integer pool option with and without checkpoints (run in this process: pool workers cannot have children)
    for k, sv in enumerate([2, None][:2 if tier != "quick" else 1]):
        r = dict(rows[k % len(rows)], pool="int2", like="scalar", save_every=sv)
        rows.append(r)
    jobs = [(r, rng.randrange(10 ** 6), str(work / f"r{i}")) for i, r in enumerate(rows)]
    # "a number of processes" includes 1, and integers that come out of numpy
    rows_extra = [dict(rows[0], pool="int1", like="scalar", save_every=None), dict(rows[1 % len(rows)], pool="int1", like="blobs", save_every=2),
                  dict(rows[2 % len(rows)], pool="npint2", like="scalar", save_every=None)]
    # the smallest particle counts (1, 2, 3) with and without blobs / clustering off, and an output directory several levels deep
    base_r = dict(rows[0], clustering=False, pool=False)
    rows_extra += [dict(base_r, n_particles=1, like="blobs", save_every=None), dict(base_r, n_particles=1, like="scalar", save_every=2),
                   dict(base_r, n_particles=2, like="blobs", save_every=None), dict(base_r, n_particles=3, like="vectorized", save_every=None),
                   dict(rows[1 % len(rows)], nested_dir=True, save_every=2, pool=False), dict(rows[2 % len(rows)], nested_dir=True, save_every=2, pool=False)]
    jobs += [(r, rng.randrange(10 ** 6), str(work / f"x{i}")) for i, r in enumerate(rows_extra)]
    par = [j for j in jobs if j[0]["pool"] not in ("int2", "npint2")]
    with mp.get_context("fork").Pool(min(14, os.cpu_count() or 4)) as pool:
        results = pool.map(run_valid, par)
    results += [run_valid(j) for j in jobs if j[0]["pool"] in ("int2", "npint2")]
    for res in results:
        run.case(key=("valid", str(res["row"])), nontrivial=True)
        what = dict(config=res["row"], random_state=res["seed"])
        if res["error"]:
            if res["error"].startswith("LinAlgError") and "fit_mvstud" in (res.get("tb_full") or "") and "from_particles" in (res.get("tb_full") or ""):
                run.fail("single-point-cluster-singular-scale", f"a valid configuration aborted in ModeStatistics.from_particles: {res['error']}", **what)
            else:
                run.fail("valid-configuration-raises", f"a valid configuration failed to run: {res['error']}", traceback=res.get("tb"), **what)
            continue
        if not (1 - res["beta"] < 1e-4 and res["ess"] >= 30 and abs(res["ev"] - res["logz"]) <= 1e-9 * max(1, abs(res["logz"])) and res["post_ok"]):
            run.fail("valid-configuration-postconditions", f"run finished with beta={res['beta']}, ESS={res['ess']}, evidence={res['ev']} vs {res['logz']}", **what)
    run.count("valid_runs", len(rows))
    run.extra["covering_strength"] = 2 if tier == "quick" else 3
    run.extra["uncovered_tuples"] = uncovered
    run.sample(dict(kind="valid-run", row=rows[0]))


def main(tier, seed):
    run = Run(PID, tier, seed)
    run.rule = ("(i) one-factor-at-a-time invalid and boundary values for every documented constraint (wrong type, zero, "
                "negative, unknown names, overlapping / out-of-range / non-integer indices, vectorize+blobs) against the real "
                "constructor (with callbacks that record being called) and against the Coq model of the validator; "
                "(ii) a pairwise (quick) / 3-wise (thorough) covering array over 14 constructor options run to completion "
                "in parallel on a cheap target, each checked against the run postconditions. Non-trivial: a rejected "
                "configuration / every valid run.")
    run.assumptions = [
        "cluster_every = 0, NaN ratios and booleans passed as integers are outside the documented constraints and are not demanded",
        "liveness of valid runs is covered by the covering-array executions only (partial correctness + runs)",
    ]
    rng = random.Random(seed)
    try:
        translate()
        run.obligation("translate:SamplerConfig checks + construction path", True)
    except Exception as e:  # fail closed: anything the translator cannot digest
        run.obligation("translate:SamplerConfig checks + construction path", False, str(e))
    run.prove("Props/C18.v", link_rels=["Link/Config.v", "Link/KernelLoop.v"])
    work = Path(tempfile.mkdtemp(prefix="c18_", dir=run.scratch.dir))
    try:
        check_validation(run)
        check_valid(run, tier, rng, work)
        known_abort_probe(run)
    except Exception:
        import traceback
        run.broken.append(("harness-exception", traceback.format_exc()[-1500:]))
    run.finish(search=None)
