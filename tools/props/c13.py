"""C13 — likelihood evaluation strategy is transparent; calls are counted exactly."""
import ast
import random

import numpy as np

from common import COQ, REPO, Run, TranslateError, get_function, strip_doc, write_if_changed

PID = "C13"


def _ns(n):
    return ast.unparse(n).replace(" ", "")


def translate():
    def need(c, node, msg, w):
        if not c:
            raise TranslateError(f"{w}: line {getattr(node, 'lineno', '?')}: {msg}: {ast.unparse(node)[:200]}")

    core = REPO / "tempest" / "core.py"
    w = "core.py:SamplerCore._log_like"
    fn = get_function(core, "SamplerCore._log_like")
    body = [s for s in strip_doc(fn.body) if not isinstance(s, (ast.Import, ast.ImportFrom))]
    d = body[0]
    need(isinstance(d, ast.If) and _ns(d.test) == "self.config.vectorize"
         and _ns(d.body[0]) == "return(np.asarray(self.config.log_likelihood(x),dtype=float),None)", d, "vectorised branch: one call on the whole batch, result as float64", w)
    e1 = d.orelse[0]
    need(isinstance(e1, ast.If) and _ns(e1.test) == "self.config.poolisnotNone"
         and _ns(e1.body[0]) == "results=list(self._get_distribute_func()(self.config.log_likelihood,x))", e1, "pool branch", w)
    need(_ns(e1.orelse[0]) == "results=list(map(self.config.log_likelihood,x))", e1, "scalar branch", w)
    txt = _ns(fn)
    need("blob=[item[1:]foriteminresults]" in txt and "logl=np.array([float(item[0])foriteminresults])" in txt
         and "logl=np.array([float(value)forvalueinresults])" in txt, fn, "result assembly", w)
    gd = _ns(get_function(core, "SamplerCore._get_distribute_func"))
    need("returnpool.map" in gd and "returnself.config.pool.map" in gd and gd.count("returnmap") == 2
         and "ifself.config.pool<=1:returnmap" in gd.replace("\n", "") and "pool=Pool(int(self.config.pool))" in gd, fn,
         "distribute function: builtin map without a pool and for one process, Pool(n).map for a number, pool.map for an object", "core.py:_get_distribute_func")
    # accounting
    mc = REPO / "tempest" / "mcmc.py"
    w = "mcmc.py:BaseMCMCRunner._evaluate_likelihood"
    ev = get_function(mc, "BaseMCMCRunner._evaluate_likelihood")
    calls = [n for n in ast.walk(ev) if isinstance(n, ast.Call) and _ns(n.func) == "self.log_likelihood"]
    # one call per control-flow path (if/else), i.e. two syntactic calls in exclusive branches
    top_if = [s for s in strip_doc(ev.body) if isinstance(s, ast.If)]
    need(len(top_if) == 1 and len(calls) == 2 and all(_ns(c.args[0]) == "x_prime" for c in calls), ev, "one likelihood call per path", w)
    inc = [s for s in strip_doc(ev.body) if isinstance(s, ast.AugAssign)]
    need(len(inc) == 1 and _ns(inc[0]) == "self.n_calls+=self.n_walkers", ev, "increment", w)
    runfn = get_function(mc, "BaseMCMCRunner.run")
    n_eval = [n for n in ast.walk(runfn) if isinstance(n, ast.Call) and _ns(n.func) == "self._evaluate_likelihood"]
    need(len(n_eval) == 1, runfn, "one evaluation per MCMC step", "mcmc.py:BaseMCMCRunner.run")
    need("self.n_walkers,self.n_dim=x.shape" in _ns(get_function(mc, "BaseMCMCRunner.__init__")), runfn, "n_walkers = rows", "mcmc.py")
    mu = REPO / "tempest" / "steps" / "mutate.py"
    w = "mutate.py:Mutator.run"
    mfn = get_function(mu, "Mutator.run")
    mt = _ns(mfn)
    need("calls=self.state.get_current('calls')+self.n_particles" in mt, mfn, "warm-up increment", w)
    need("calls=self.state.get_current('calls')+mcmc_calls" in mt, mfn, "annealing increment", w)
    ll_calls = [n for n in ast.walk(mfn) if isinstance(n, ast.Call) and _ns(n.func) == "self.log_likelihood"]
    need(len(ll_calls) == 1 and _ns(ll_calls[0].args[0]) == "x", mfn, "one warm-up likelihood call", w)
    need("u=np.random.rand(self.n_particles,self.n_dim)" in mt, mfn, "warm-up batch size", w)
    text = """(* GENERATED from /repo/tempest/core.py, mcmc.py, steps/mutate.py by tools/props/c13.py *)
Definition branch_order_vectorize_pool_map : bool := true.
Definition pool_results_consumed_in_order_via_list : bool := true.
Definition blobs_split_from_same_results : bool := true.
Definition likelihood_called_once_per_batch_in_evaluate : bool := true.
Definition mcmc_increment_is_n_walkers : bool := true.
Definition warmup_increment_is_n_particles : bool := true.
Definition mutate_adds_mcmc_calls : bool := true.
Definition warmup_likelihood_calls : nat := 1.
Definition evaluate_likelihood_calls : nat := 1.
"""
    write_if_changed(COQ / "Gen" / "Dispatch.v", text)


class Counter:
    def __init__(self, blobs, hole=False, f32=False):
        self.rows = 0
        self.blobs = blobs
        self.hole = hole
        self.f32 = f32      # the likelihood hands out single-precision values (a JAX / float32 model): the same values in every strategy

    def scalar(self, x):
        self.rows += 1
        if getattr(self, "logpath", None):
            # evaluations in worker processes are invisible to self.rows: every evaluation, wherever it happens, appends one byte
            with open(self.logpath, "ab") as fh:
                fh.write(b"x")
        v = -0.5 * float(np.sum(x ** 2)) - 0.1 * float(np.sum(np.cos(3 * x)))
        if getattr(self, "corner", False):
            v = -2.0 * float(np.sum((x - 2.9) ** 2))      # mass in a corner of the prior box: many proposals leave the cube
        if self.hole and x[0] < -1.0:
            v = -np.inf  # a hard constraint: zero likelihood on a third of the prior
        if self.f32:
            v = np.float32(v)
        return (v, float(x[0] + 1.0)) if self.blobs else v

    def vec(self, X):
        if getattr(self, "as_list", False):
            return [self.scalar(x) for x in X]        # a vectorised likelihood may return any sequence of numbers
        return np.array([self.scalar(x) for x in X], dtype=np.float32 if self.f32 else float)

    def vec_buffer(self, X):
        # a vectorised likelihood that writes into one preallocated output array and returns it every time (legal: the values are
        # those of the scalar likelihood; whoever keeps results must copy them)
        vals = [self.scalar(x) for x in X]
        if getattr(self, "_buf", None) is None or len(self._buf) != len(vals):
            self._buf = np.empty(len(vals))
        self._buf[:] = vals
        return self._buf


class PoolLike:
    """evaluates in a scrambled order and returns results in task order, like a real pool"""

    def __init__(self, mode, seed):
        self.mode, self.rng = mode, random.Random(seed)

    def map(self, f, xs):
        xs = list(xs)
        order = list(range(len(xs)))
        if self.mode == "reversed":
            order.reverse()
        elif self.mode == "shuffled":
            self.rng.shuffle(order)
        out = [None] * len(xs)
        for i in order:
            out[i] = f(xs[i])
        # "lazy": the ordered results as an iterator (what concurrent.futures executors hand back)
        return iter(out) if self.mode == "lazy" else out


class RichPool(PoolLike):
    """like multiprocessing.Pool: an ordered map plus the unordered / lazy variants a caller must NOT substitute"""

    def __init__(self, seed):
        super().__init__("shuffled", seed)

    def imap(self, f, xs, chunksize=1):
        return iter(self.map(f, xs))

    def imap_unordered(self, f, xs, chunksize=1):
        out = [f(x) for x in xs]
        self.rng.shuffle(out)
        return iter(out)

    def map_async(self, f, xs):
        raise RuntimeError("map_async result objects are not lists")

    def starmap(self, f, xs):
        return [f(*x) for x in xs]


def one(cfg, strategy, seed, blobs):
    from tempest import Sampler
    kw = dict(cfg)
    c = Counter(blobs, hole=kw.pop("hole", False), f32=kw.pop("f32", False))
    c.corner = kw.pop("corner", False)
    if strategy == "vectorize-list":
        c.as_list = True
        like, kw["vectorize"] = c.vec, True
    elif strategy == "vectorize":
        like, kw["vectorize"] = c.vec, True
    elif strategy == "vectorize-buffer":
        like, kw["vectorize"] = c.vec_buffer, True
    elif strategy == "intpool":
        like, kw["pool"] = c.scalar, 2          # the library starts its own worker processes
        import tempfile
        c.logpath = tempfile.mkstemp(prefix="c13_rows_")[1]
    else:
        like = c.scalar
        if strategy == "richpool":
            kw["pool"] = RichPool(seed)
        elif strategy != "scalar":
            kw["pool"] = PoolLike(strategy, seed)
    f32x = kw.pop("f32x", False)     # single-precision coordinates from the prior transform (the likelihood still returns doubles)
    s = Sampler((lambda u: (6 * u - 3).astype(np.float32)) if f32x else (lambda u: 6 * u - 3), like, n_dim=2, n_particles=10, random_state=seed,
                blobs_dtype=float if blobs else None, **kw)
    s.run(n_total=40, progress=False)
    hist = s.state
    keys = ["u", "x", "logl", "beta", "logz", "calls", "iter"] + (["blobs"] if blobs else [])
    dig = {k: b"".join(np.ascontiguousarray(a).tobytes() for a in hist._history[k]) for k in keys}
    x, w, l = s.posterior()
    dig["post"] = x.tobytes() + w.tobytes() + l.tobytes()
    dig["evidence"] = np.float64(s.evidence()[0]).tobytes()
    rows = c.rows
    if getattr(c, "logpath", None):
        import os
        rows = os.path.getsize(c.logpath)      # one byte per evaluation, in whatever process
        os.unlink(c.logpath)
    return dig, int(hist.get_current("calls")), rows, [int(v) for v in hist.get_history("calls")]


def sweep(run, tier, rng):
    cfgs = [dict(clustering=False), dict(clustering=True, sample="rwm"), dict(clustering=False, resample="syst", hole=True),
            dict(clustering=False, f32=True), dict(clustering=True, sample="rwm", resample="syst", f32=True, hole=True),
            dict(clustering=False, f32x=True), dict(clustering=False, sample="rwm", corner=True), dict(clustering=False, corner=True, resample="syst")]
    if tier != "quick":
        cfgs += [dict(clustering=True, resample="syst"), dict(clustering=False, sample="rwm", volume_variation=0.5)]
    for ci, cfg in enumerate(cfgs):
        for blobs in ([False, True] if tier != "quick" or ci == 0 else [False]):
            seed = rng.randrange(10 ** 6)
            strategies = ["scalar", "inorder", "reversed", "shuffled", "lazy", "richpool"] + ([] if blobs else ["vectorize", "vectorize-buffer", "vectorize-list"]) \
                + (["intpool"] if ci in (0, 2) and not blobs else [])   # two samplers with integer pools and DIFFERENT likelihoods in one process
            res = {}
            for st in strategies:
                what = dict(cfg=cfg, blobs=blobs, strategy=st, random_state=seed)
                try:
                    res[st] = one(cfg, st, seed, blobs)
                except Exception as e:
                    run.fail("strategy-raises", f"run with strategy {st} raised {type(e).__name__}: {e}", **what)
                    continue
                run.case(key=(ci, blobs, st), nontrivial=st != "scalar")
                run.count(f"strategy={st}")
                dig, calls, rows, hist_calls = res[st]
                if calls != rows:
                    run.fail("calls-miscounted", f"reported calls={calls} but the likelihood was evaluated at {rows} points", **what)
                if any(b < a for a, b in zip(hist_calls, hist_calls[1:])):
                    run.fail("calls-not-monotone", f"recorded call counter decreases: {hist_calls}", **what)
            if "scalar" in res:
                for st, (dig, calls, rows, _) in res.items():
                    diff = [k for k in dig if dig[k] != res["scalar"][0][k]]
                    if diff:
                        run.fail("strategy-changes-results", f"strategy {st} differs from scalar evaluation in {diff}",
                                 cfg=cfg, blobs=blobs, strategy=st, random_state=seed)
            if ci == 0 and not blobs and "scalar" in res:
                run.sample(dict(cfg=cfg, seed=seed, calls=res["scalar"][1], rows=res["scalar"][2], strategies=strategies))


def batch_size_probe(run, rng):
    """the core's batch evaluation (what every step calls) is map(f) for every batch size, in every strategy: sizes around
    powers of two and large odd sizes included"""
    from tempest import Sampler
    f = Counter(False, hole=True)
    for strategy in ("scalar", "vectorize", "inorder"):
        kw = {}
        like = f.scalar
        if strategy == "vectorize":
            like, kw["vectorize"] = f.vec, True
        elif strategy == "inorder":
            kw["pool"] = PoolLike("inorder", 1)
        s = Sampler(lambda u: 6 * u - 3, like, n_dim=2, n_particles=8, random_state=1, clustering=False, **kw)
        for n in (1, 7, 64, 1023, 1024, 1025, 2500):
            X = np.random.RandomState(n).randn(n, 2) * 1.5
            want = np.array([Counter(False, hole=True).scalar(x) for x in X])
            before = int(s._core.state.get_current("calls") or 0) if hasattr(s._core, "state") else 0
            out = s._core._log_like(X)
            got = np.asarray(out[0] if isinstance(out, tuple) else out, dtype=float)
            run.case(key=("batch", strategy, n), nontrivial=n > 1)
            if got.shape != want.shape or not np.array_equal(got, want):
                bad = int(np.sum(got != want)) if got.shape == want.shape else -1
                run.fail("strategy-changes-results", f"{strategy} evaluation of a batch of {n} points differs from point-by-point evaluation in {bad} entries",
                         strategy=strategy, batch_size=n)
                break


def manual_loop(run, rng):
    """manual sample() loop: counter after every iteration equals the rows evaluated so far"""
    from tempest import Sampler
    c = Counter(False)
    s = Sampler(lambda u: 6 * u - 3, c.scalar, n_dim=2, n_particles=8, random_state=rng.randrange(10 ** 6), clustering=False)
    s._core._initialize_fresh()
    for it in range(8):
        s.sample()
        run.case(key=("manual", it))
        if int(s.state.get_current("calls")) != c.rows:
            run.fail("calls-miscounted", f"after iteration {it + 1}: calls={s.state.get_current('calls')} rows={c.rows}")
            break


def main(tier, seed):
    run = Run(PID, tier, seed)
    run.rule = ("the same seeded run under scalar map, vectorised call (built row-wise from the scalar likelihood, hence "
                "pointwise bit-identical), and pool-like objects computing in order / reversed / shuffled; histories, "
                "posterior and evidence compared bit for bit with the scalar run; an instrumented likelihood counts the "
                "rows evaluated and is compared with the reported calls, also after every iteration of a manual loop.")
    run.assumptions = [
        "real OS worker pools are covered only as 'any completion order with index-ordered assembly'",
        "the vectorised likelihood is pointwise identical to the scalar one (hypothesis of the statement)",
    ]
    rng = random.Random(seed)
    try:
        translate()
        run.obligation("translate:_log_like dispatch + call accounting", True)
    except Exception as e:  # fail closed: anything the translator cannot digest
        run.obligation("translate:_log_like dispatch + call accounting", False, str(e))
    run.prove("Props/C13.v", link_rels=["Link/Dispatch.v"])
    try:
        sweep(run, tier, rng)
        manual_loop(run, rng)
        batch_size_probe(run, rng)
    except Exception:
        import traceback
        run.broken.append(("harness-exception", traceback.format_exc()[-1500:]))
    run.finish(search=None)
