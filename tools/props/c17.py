"""C17 — accessors never alias internal state; committed history is append-only."""
import ast
import json
import random

import numpy as np

from common import (COQ, REPO, Run, TranslateError, coq_eval_many, get_function, parse_evals, strip_doc,
                    write_if_changed, zlist)

PID = "C17"
KEYS = ["logl", "x"]
ALEN = 3


def _ns(n):
    return ast.unparse(n).replace(" ", "")


def _copies(expr: ast.AST) -> bool:
    """does this expression produce a fresh array (given the value it is applied to is an ndarray)?"""
    s = _ns(expr)
    if isinstance(expr, ast.Call):
        f = _ns(expr.func)
        if f in ("self._ensure_copy", "instance._ensure_copy", "np.array", "np.concatenate", "np.copy", "copy.deepcopy", "_copy_value"):
            return True
        if f.endswith(".copy") and not f.startswith("self._current") and not f.startswith("self._history") \
                and not f.startswith("self._results_dict"):
            return True  # ndarray.copy()
    if isinstance(expr, ast.IfExp):
        return False
    return False


def translate():
    path = REPO / "tempest" / "state_manager.py"
    w = "state_manager.py"

    def need(c, node, msg, where=w):
        if not c:
            raise TranslateError(f"{where}: line {getattr(node, 'lineno', '?')}: {msg}: {ast.unparse(node)[:200]}")

    # _ensure_copy
    ec = get_function(path, "StateManager._ensure_copy")
    need("ifisinstance(value,np.ndarray):returnvalue.copy()" in _ns(ec).replace("\n", ""), ec, "_ensure_copy copies ndarrays")

    def returns(fn):
        rs = [n for n in ast.walk(fn) if isinstance(n, ast.Return) and n.value is not None]
        return [n.value for n in sorted(rs, key=lambda n: (n.lineno, n.col_offset))]

    # get_current
    fn = get_function(path, "StateManager.get_current")
    rs = returns(fn)
    need(len(rs) == 2, fn, "two returns")
    r_all, r_one = rs
    ok_all = isinstance(r_all, ast.DictComp) and _copies(r_all.value) and _ns(r_all.generators[0].iter) == "self._current.items()"
    one_src = _ns(r_one)
    ok_one = one_src == "self._ensure_copy(value)" and "value=self._current[key]" in _ns(fn)
    fresh_get_current = ok_all and ok_one
    # set_current / update_current
    fresh_set = True
    for name in ("set_current", "update_current"):
        fn = get_function(path, f"StateManager.{name}")
        asg = [n for n in ast.walk(fn) if isinstance(n, ast.Assign) and _ns(n.targets[0]) == "self._current[key]"]
        need(len(asg) == 1, fn, "one store")
        v = asg[0].value
        need(isinstance(v, ast.IfExp) and _ns(v.test) == "copy", v, "copy switch")
        fresh_set = fresh_set and _copies(v.body)
        d = {a.arg: dv for a, dv in zip(fn.args.args[-len(fn.args.defaults):], fn.args.defaults)}
        need("copy" in d and _ns(d["copy"]) == "True", fn, "copy defaults to True")
    # get_history
    fn = get_function(path, "StateManager.get_history")
    rs = returns(fn)
    need(len(rs) == 3, fn, "three returns")
    srcs = [_ns(r) for r in rs]
    fresh_hist_all = srcs[0] == "np.concatenate(self._history[key])" and srcs[1] == "np.array(self._history[key])"
    fresh_hist_idx = srcs[2] == "self._ensure_copy(self._history[key][index])"
    fn = get_function(path, "StateManager.get_last_history")
    rs = [_ns(r) for r in returns(fn)]
    fresh_hist_idx = fresh_hist_idx and rs[-1] == "self._ensure_copy(history[-1])" and "history=self._history[key]" in _ns(fn)
    # commit
    fn = get_function(path, "StateManager.commit_current_to_history")
    app = [n for n in ast.walk(fn) if isinstance(n, ast.Call) and _ns(n.func) == "self._history[current_key].append"]
    need(len(app) == 1, fn, "one append")
    fresh_commit = _copies(app[0].args[0]) and "value=self._current[current_key]" in _ns(fn)
    # the manager owns exactly three containers (current state, history, the results cache): no other attribute may hold arrays
    cls_sm = next(n for n in ast.walk(ast.parse(path.read_text())) if isinstance(n, ast.ClassDef) and n.name == "StateManager")
    attrs = sorted({_ns(t) for m in cls_sm.body if isinstance(m, ast.FunctionDef) for n in ast.walk(m)
                    if isinstance(n, (ast.Assign, ast.AugAssign, ast.AnnAssign))
                    for t in (n.targets if isinstance(n, ast.Assign) else [n.target]) if _ns(t).startswith("self.") and "[" not in _ns(t)})
    need(attrs == ["self._current", "self._history", "self._results_dict", "self.n_dim"], cls_sm, f"attributes of the state manager: {attrs}")
    # a rejected strict commit changes nothing: the validation (and its raise) precedes the loop that appends
    cb = strip_doc(fn.body)
    i_val = next((i for i, x in enumerate(cb) if isinstance(x, ast.If) and _ns(x.test) == "strict"), None)
    i_app = next((i for i, x in enumerate(cb) if isinstance(x, ast.For) and any(n is app[0] for n in ast.walk(x))), None)
    raises = [n for n in ast.walk(fn) if isinstance(n, ast.Raise)]
    strict_validated_first = (i_val is not None and i_app is not None and i_val < i_app
                              and len(raises) >= 1 and all(any(r is n for n in ast.walk(cb[i_val])) for r in raises))
    # to_dict
    fn = get_function(path, "StateManager.to_dict")
    r = returns(fn)[0]
    need(isinstance(r, ast.Dict), r, "dict literal")
    items = {k.value: v for k, v in zip(r.keys, r.values)}
    cur_v, hist_v = items.get("_current"), items.get("_history")

    def dictcomp_copies(v, src):
        return isinstance(v, ast.DictComp) and _ns(v.generators[0].iter) == src and _copies(v.value)

    def hist_copies(v, src):
        if not (isinstance(v, ast.DictComp) and _ns(v.generators[0].iter) == src):
            return False
        inner = v.value
        return isinstance(inner, ast.ListComp) and _copies(inner.elt)

    fresh_to_dict = dictcomp_copies(cur_v, "self._current.items()") and hist_copies(hist_v, "self._history.items()")
    # import
    fresh_import = True
    for name, tgt in (("from_dict", "instance"), ("update_from_dict", "self")):
        fn = get_function(path, f"StateManager.{name}")
        ups = [n for n in ast.walk(fn) if isinstance(n, ast.Call) and _ns(n.func) in (f"{tgt}._current.update", f"{tgt}._history.update")]
        need(len(ups) == 2, fn, "two updates")
        for u in ups:
            a = u.args[0]
            if _ns(u.func).endswith("_current.update"):
                fresh_import = fresh_import and dictcomp_copies(a, "state_dict['_current'].items()")
            else:
                fresh_import = fresh_import and hist_copies(a, "state_dict['_history'].items()")
    # results
    fn = get_function(path, "StateManager.compute_results")
    r = returns(fn)[-1]
    fresh_results = dictcomp_copies(r, "self._results_dict.items()")
    core = REPO / "tempest" / "core.py"
    ex = get_function(core, "SamplerCore.execute_iteration")
    sample_ok = _ns(returns(ex)[-1]) == "self.state.get_current()"
    smp = REPO / "tempest" / "sampler.py"
    res_ok = _ns(returns(get_function(smp, "Sampler.results"))[-1]) == "self.state.compute_results()"
    cp = _ns(get_function(core, "SamplerCore.compute_posterior"))
    post_ok = all(f"{k}=self.state.get_history('{k}',flat=True)" in cp for k in ("u", "x", "logl"))

    def b(x):
        return str(bool(x)).lower()

    text = f"""(* GENERATED from /repo/tempest/state_manager.py, core.py, sampler.py by tools/props/c17.py *)
From Tempest Require Import Model.Alias.
Definition policy_of_source : policy :=
  mkPolicy {b(fresh_set)} {b(fresh_get_current)} {b(fresh_hist_idx)} {b(fresh_hist_all)} {b(fresh_commit)}
           {b(fresh_to_dict)} {b(fresh_import)} {b(fresh_results)}.
Definition sample_returns_get_current : bool := {b(sample_ok)}.
Definition results_returns_compute_results : bool := {b(res_ok)}.
Definition posterior_built_from_flat_history : bool := {b(post_ok)}.
Definition ensure_copy_copies_ndarrays : bool := true.
Definition rejected_commit_raises_before_any_append : bool := {b(strict_validated_first)}.
"""
    write_if_changed(COQ / "Gen" / "Alias.v", text)


# ------------------------------------------------------------------ op sequences
def gen_ops(rng, n):
    ops = []
    n_hist = [0, 0]
    n_held = 0
    n_dicts = 0
    cur_set = [False, False]
    for _ in range(n):
        r = rng.random()
        k = rng.randrange(2)
        ct = [rng.randrange(-50, 50) for _ in range(ALEN)]
        if r < 0.2:
            ops.append(("SetCurrent", k, ct)); n_held += 1; cur_set[k] = True
        elif r < 0.28:
            ops.append(("GetCurrent", k)); n_held += 1 if cur_set[k] else 0
        elif r < 0.33:
            ops.append(("GetCurrentAll",)); n_held += sum(cur_set)
        elif r < 0.43:
            i = rng.randrange(0, max(1, n_hist[k] + 1))
            ops.append(("GetHistory", k, i)); n_held += 1 if i < n_hist[k] else 0
        elif r < 0.5:
            if n_hist[k] > 0:
                ops.append(("GetHistoryAll", k)); n_held += 1
        elif r < 0.62:
            ops.append(("Commit",))
            for j in range(2):
                n_hist[j] += 1 if cur_set[j] else 0
        elif r < 0.7:
            ops.append(("ToDict",)); n_held += sum(cur_set) + sum(n_hist); n_dicts += 1
        elif r < 0.76:
            if n_dicts:
                ops.append(("Import", rng.randrange(n_dicts)))
                # lengths after import are those at export time; recomputed by the executors
                n_hist = None
        elif r < 0.84:
            ops.append(("Results",)); n_held += 2
        else:
            if n_held:
                ops.append(("Scribble", rng.randrange(n_held), ct))
        if n_hist is None:
            # resynchronise the generator's bookkeeping by simulating on the abstract level
            n_hist, cur_set, n_held, n_dicts = simulate_counts(ops)
    return ops


def simulate_counts(ops):
    cur = [False, False]
    hist = [0, 0]
    held = 0
    dicts = []
    for o in ops:
        t = o[0]
        if t == "SetCurrent":
            cur[o[1]] = True; held += 1
        elif t == "GetCurrent":
            held += 1 if cur[o[1]] else 0
        elif t == "GetCurrentAll":
            held += sum(cur)
        elif t == "GetHistory":
            held += 1 if o[2] < hist[o[1]] else 0
        elif t == "GetHistoryAll":
            held += 1
        elif t == "Commit":
            for j in range(2):
                hist[j] += 1 if cur[j] else 0
        elif t == "ToDict":
            held += sum(cur) + sum(hist); dicts.insert(0, (list(cur), list(hist)))
        elif t == "Import":
            cur, hist = list(dicts[o[1]][0]), list(dicts[o[1]][1])
        elif t == "Results":
            held += 2
    return hist, cur, held, len(dicts)


def run_real(ops):
    """execute on a real StateManager; after every op record (aliased?, view)."""
    from tempest.state_manager import StateManager
    sm = StateManager(1)
    held = []
    dicts = []
    trace = []

    def internal_arrays():
        out = [v for k, v in sm._current.items() if isinstance(v, np.ndarray)]
        for k, lst in sm._history.items():
            out += [a for a in lst if isinstance(a, np.ndarray)]
        if sm._results_dict is not None:
            out += [v for v in sm._results_dict.values() if isinstance(v, np.ndarray)]
        return out

    def view():
        cur = [None if sm._current[k] is None else [int(v) for v in np.ravel(sm._current[k])] for k in KEYS]
        hist = [[[int(v) for v in np.ravel(a)] for a in sm._history[k]] for k in KEYS]
        return cur, hist

    for o in ops:
        t = o[0]
        if t == "SetCurrent":
            arr = np.array(o[2], dtype=float)
            sm.set_current(KEYS[o[1]], arr)
            held = [arr] + held
        elif t == "GetCurrent":
            v = sm.get_current(KEYS[o[1]])
            if v is not None:
                held = [v] + held
        elif t == "GetCurrentAll":
            d = sm.get_current()
            held = [d[k] for k in KEYS if d[k] is not None] + held
        elif t == "GetHistory":
            try:
                v = sm.get_history(KEYS[o[1]], index=o[2])
                held = [v] + held
            except IndexError:
                pass
        elif t == "GetHistoryAll":
            v = sm.get_history(KEYS[o[1]], flat=True)
            held = [v] + held
        elif t == "Commit":
            sm.commit_current_to_history()
        elif t == "ToDict":
            d = sm.to_dict()
            new = [d["_current"][k] for k in KEYS if d["_current"][k] is not None]
            for k in KEYS:
                new += list(d["_history"][k])
            held = new + held
            dicts = [d] + dicts
        elif t == "Import":
            sm.update_from_dict(dicts[o[1]])
        elif t == "Results":
            r = sm.compute_results()
            held = [r[k] for k in KEYS] + held
        elif t == "Scribble":
            a = held[o[1]]
            if a.size:
                flat = np.resize(np.array(o[2], dtype=float), a.size).reshape(a.shape)
                a[...] = flat
        ints = internal_arrays()
        aliased = any(np.shares_memory(h, a) for h in held for a in ints if h.size and a.size)
        trace.append((aliased, view()))
    return trace


def coq_op(o):
    t = o[0]
    if t == "SetCurrent":
        return f"SetCurrent {o[1]} {zlist(o[2])}"
    if t in ("GetCurrent", "GetHistoryAll"):
        return f"{t} {o[1]}"
    if t == "GetHistory":
        return f"GetHistory {o[1]} {o[2]}"
    if t == "Import":
        return f"Import {o[1]}"
    if t == "Scribble":
        return f"Scribble {o[1]} {zlist(o[2])}"
    return t


COQ_HEAD = """From Coq Require Import List Bool ZArith Arith.
From Tempest Require Import Model.Alias Proofs.Alias.
From Tempest Require Gen.Alias.
Import ListNotations.
Definition aliased (sc : sm * caller) : bool :=
  existsb (fun l => existsb (Nat.eqb l) (internal (fst sc))) (held (snd sc)).
(* Scribble on a stacked/flat array: the harness resizes the content to the array size; the model
   overwrites with the given content; views compare current/history only *)
Definition enc_view (s : sm) : list (list Z) * list (list (list Z)) :=
  (map (fun o => match o with Some c => 1%Z :: c | None => [0%Z] end) (fst (view s)), snd (view s)).
Fixpoint trace (ops : list op) (sc : sm * caller) : list (bool * (list (list Z) * list (list (list Z)))) :=
  match ops with [] => [] | o :: r => let sc' := step Gen.Alias.policy_of_source sc o in
                                       (aliased sc', enc_view (fst sc')) :: trace r sc' end.
"""


def sweep(run, tier, rng):
    n_seq = 60 if tier == "quick" else 1500
    seqs = []
    for t in range(n_seq):
        ops = gen_ops(rng, rng.choice([6, 12, 25, 40]))
        if not ops:
            continue
        try:
            tr = run_real(ops)
        except Exception as e:
            run.fail("state-manager-raises", f"operation sequence raised {type(e).__name__}: {e}", ops=ops)
            continue
        run.case(key=("seq", t), nontrivial=any(o[0] == "Scribble" for o in ops))
        for o in ops:
            run.count(f"op={o[0]}")
        # the statement, directly: no caller-held array shares memory with internal state, and a caller's
        # overwrite never changes current values / committed history
        prev_view = ([None, None], [[], []])
        for j, (o, (al, vw)) in enumerate(zip(ops, tr)):
            if al:
                run.fail("accessor-aliases-internal-state",
                         f"after op #{j} {o[0]} a caller-held array shares memory with internal state", ops=ops[:j + 1])
                break
            if o[0] == "Scribble" and vw != prev_view:
                run.fail("caller-overwrite-changed-state",
                         f"op #{j}: overwriting a returned array changed current/history", ops=ops[:j + 1])
                break
            if o[0] not in ("Import",):
                # append-only: earlier batches unchanged
                for k in range(2):
                    old, new = prev_view[1][k], vw[1][k]
                    if new[:len(old)] != old or len(new) - len(old) > (1 if o[0] == "Commit" else 0):
                        run.fail("history-not-append-only", f"op #{j} {o[0]} altered committed history of {KEYS[k]}", ops=ops[:j + 1])
                        break
            prev_view = vw
        seqs.append((ops, tr))
    if seqs:
        run.sample(dict(ops=seqs[0][0][:10], trace_tail=str(seqs[0][1][-1])))
    # model vs implementation (alias flag and view after every op)
    shard = 40
    srcs = []
    for s in range(0, len(seqs), shard):
        items = ";\n".join("(trace [" + "; ".join(coq_op(o) for o in ops) + f"] (init 2))" for ops, _ in seqs[s:s + shard])
        srcs.append(COQ_HEAD + f"Eval vm_compute in [\n{items}\n].\n")
    res = coq_eval_many(run.scratch, srcs)
    k = 0
    for ok, out in res:
        if not ok:
            run.broken.append(("correspondence-coqc", out[-1500:]))
            return
        for mtrace in parse_evals(out)[0]:
            ops, tr = seqs[k]
            k += 1
            for j, ((mal, (mcur, mhist)), (al, (cur, hist))) in enumerate(zip(mtrace, tr)):
                mc = [None if c[0] == 0 else c[1:] for c in mcur]
                if mal != al or mc != cur or mhist != hist:
                    run.disagree("StateManager vs heap model after an operation", op_index=j, op=ops[j], ops=ops[:j + 1],
                                 impl=dict(aliased=al, cur=cur, hist=hist), model=dict(aliased=mal, cur=mc, hist=mhist))
                    break
    run.extra["sequences_compared"] = k


def sampler_level(run, tier, rng):
    """Sampler.sample() / results() / posterior(): returned arrays are overwritten, later results must not change."""
    from tempest import Sampler
    n = 2 if tier == "quick" else 10
    for t in range(n):
        np.random.seed(rng.randrange(2 ** 31))
        s = Sampler(prior_transform=lambda u: 6 * u - 3, log_likelihood=lambda x: -0.5 * float(np.sum(x ** 2)), n_dim=2,
                    n_particles=8, clustering=bool(t % 2), resample=rng.choice(["mult", "syst"]))
        s._core._initialize_fresh()
        for it in range(4):
            st = s.sample()
            before = json.dumps([[float(v) for v in np.ravel(a)] for k in ("u", "x", "logl") for a in s.state._history[k]])
            cur_before = {k: np.array(s.state._current[k]).copy() for k in ("u", "x", "logl")}
            for k, v in st.items():
                if isinstance(v, np.ndarray) and v.size:
                    if any(np.shares_memory(v, a) for kk in s.state._history for a in s.state._history[kk] if isinstance(a, np.ndarray)) \
                            or any(isinstance(a, np.ndarray) and np.shares_memory(v, a) for a in s.state._current.values()):
                        run.fail("accessor-aliases-internal-state", f"sample() result '{k}' shares memory with internal state", iteration=it)
                    v[...] = 12345.0
            r = s.results()
            for k, v in r.items():
                if isinstance(v, np.ndarray) and v.size and v.dtype != object:
                    v[...] = 777.0
            r2 = s.results()
            if any(isinstance(v, np.ndarray) and v.size and v.dtype != object and np.all(v == 777.0) for v in r2.values()):
                run.fail("accessor-aliases-internal-state", "overwriting results() changes the next results()", iteration=it)
            out = s.posterior(return_logw=True, trim_importance_weights=bool(it % 2), resample=bool(it // 2 % 2))
            for a in out:
                a[...] = -1.0
            after = json.dumps([[float(v) for v in np.ravel(a)] for k in ("u", "x", "logl") for a in s.state._history[k]])
            if after != before or any(not np.array_equal(cur_before[k], s.state._current[k]) for k in cur_before):
                run.fail("caller-overwrite-changed-state", "overwriting sample()/results()/posterior() arrays changed the sampler state",
                         iteration=it)
            run.case(key=("sampler", t, it))


def nocopy_probe(run):
    """set_current(copy=False) hands the caller's buffer to the manager (documented); committed history must
    still be the manager's own: reusing the buffer afterwards must not rewrite earlier batches."""
    from tempest.state_manager import StateManager
    for method in ("set", "update"):
        sm = StateManager(1)
        buf = np.array([1.0, 2.0, 3.0])
        for it in range(3):
            buf[...] = [10 * it + 1, 10 * it + 2, 10 * it + 3]
            if method == "set":
                sm.set_current("logl", buf, copy=False)
            else:
                sm.update_current({"logl": buf}, copy=False)
            sm.commit_current_to_history()
        hist = [[float(v) for v in a] for a in sm._history["logl"]]
        run.case(key=("nocopy", method))
        if hist != [[1.0, 2.0, 3.0], [11.0, 12.0, 13.0], [21.0, 22.0, 23.0]]:
            run.fail("history-not-append-only", f"reusing a buffer passed with copy=False rewrote committed batches: {hist}",
                     ops=[f"{method}_current(logl, buf, copy=False)", "commit", "buf[...] = next", "..."])


def zero_dim_probe(run):
    """scalar-valued quantities supplied as 0-d ndarrays are arrays too: whatever crosses the API is a copy, and committed batches
    do not change when the caller's (or a returned) 0-d array is overwritten in place"""
    from tempest.state_manager import StateManager
    for key in ("beta", "logz"):
        sm = StateManager(1)
        a = np.array(0.25)
        sm.set_current(key, a)
        a[()] = 9.0
        run.case(key=("zero-dim", key), nontrivial=True)
        if float(sm.get_current(key)) != 0.25:
            run.fail("state-aliased-with-caller", f"set_current({key!r}, 0-d array) keeps the caller's array: overwriting it changed the state to "
                     f"{float(sm.get_current(key))}", ops=[f"a = np.array(0.25); set_current({key!r}, a); a[()] = 9.0"])
            continue
        g = sm.get_current(key)
        if isinstance(g, np.ndarray):
            g[()] = 7.0
            if float(sm.get_current(key)) != 0.25:
                run.fail("state-aliased-with-caller", f"get_current({key!r}) returns the internal 0-d array", ops=["g = get_current(key); g[()] = 7.0"])
                continue
        b = np.array(0.1)
        sm.set_current(key, b, copy=False)
        sm.set_current("logl", np.zeros(3))
        sm.set_current("beta" if key != "beta" else "logz", 0.0)
        sm.commit_current_to_history()
        b[()] = 0.4
        sm.commit_current_to_history()
        hist = [float(v) for v in sm._history[key]]
        if hist[0] != 0.1:
            run.fail("history-not-append-only", f"a committed 0-d {key} batch changed from 0.1 to {hist[0]} when the caller's buffer (copy=False) was reused",
                     ops=[f"set_current({key!r}, b, copy=False)", "commit", "b[()] = 0.4", "commit"])
        h = sm.get_history(key, index=0) if hasattr(sm, "get_history") else None
        if isinstance(h, np.ndarray) and h.ndim == 0:
            h[()] = 5.0
            if float(sm._history[key][0]) != 0.1:
                run.fail("state-aliased-with-caller", f"get_history({key!r}, index=0) returns the stored 0-d array", ops=["h = get_history(key, index=0); h[()] = 5.0"])


def clone_and_ragged_probe(run):
    """(i) a manager built from an exported dictionary (StateManager.from_dict) owns its arrays: overwriting the dictionary afterwards
    changes nothing in it; (ii) a history whose batches differ in length (a run continued with another n_particles): whatever
    get_history / results() hand out - or refuse to - shares no memory with the committed batches"""
    from tempest.state_manager import StateManager

    def mk(sizes):
        sm = StateManager(2)
        for t, n in enumerate(sizes):
            sm.update_current({"u": np.full((n, 2), 0.1 * (t + 1)), "x": np.full((n, 2), 1.0 * (t + 1)), "logl": np.arange(n, dtype=float) - t,
                               "beta": 0.5 * t, "logz": -1.0 * t, "iter": t + 1, "calls": 10 * (t + 1)})
            sm.commit_current_to_history()
        return sm

    def arrays_of(obj, out):
        if isinstance(obj, np.ndarray):
            if obj.dtype == object:
                for e in obj.ravel():
                    arrays_of(e, out)
            else:
                out.append(obj)
        elif isinstance(obj, dict):
            for v in obj.values():
                arrays_of(v, out)
        elif isinstance(obj, (list, tuple)):
            for v in obj:
                arrays_of(v, out)
        return out

    def internal(sm):
        return arrays_of([sm._current, sm._history], [])

    # (i)
    src = mk([4, 4])
    d = src.to_dict()
    clone = StateManager.from_dict(d)
    run.case(key=("clone", "from_dict"), nontrivial=True)
    shared = [a for a in arrays_of(d, []) for b in internal(clone) if a.size and b.size and np.shares_memory(a, b)]
    before = [b.copy() for b in internal(clone)]
    for a in arrays_of(d, []):
        if a.size:
            a[...] = 123.0
    changed = any(not np.array_equal(x, y) for x, y in zip(before, internal(clone)))
    if shared or changed:
        run.fail("state-aliased-with-caller", f"StateManager.from_dict(d) keeps {len(shared)} arrays of the caller's dictionary: overwriting d afterwards "
                 f"{'changed' if changed else 'can change'} the new manager's state and history", ops=["d = s.to_dict()", "clone = StateManager.from_dict(d)", "d[...][:] = 123"])
    # (i') every array-valued current key, with the dtype it naturally has (labels are int64): set, overwrite the caller's array, get,
    # overwrite what was returned - the state keeps the values it was given
    for key, val in (("assignments", np.arange(4, dtype=np.int64)), ("logl", np.arange(4, dtype=float)), ("u", np.full((4, 2), 0.25)),
                     ("x", np.full((4, 2), 1.5)), ("blobs", np.arange(4, dtype=float))):
        sm = StateManager(2)
        mine = val.copy()
        sm.set_current(key, mine)
        mine[...] = 77
        run.case(key=("set-get", key), nontrivial=True)
        if not np.array_equal(np.asarray(sm.get_current(key)), val):
            run.fail("state-aliased-with-caller", f"set_current({key!r}, a) keeps the caller's {val.dtype} array: overwriting a changed the state", ops=[f"set_current({key!r}, a)", "a[...] = 77"])
            continue
        sm2 = StateManager(2)
        sm2.update_current({key: (mine2 := val.copy())})
        mine2[...] = 77
        if not np.array_equal(np.asarray(sm2.get_current(key)), val):
            run.fail("state-aliased-with-caller", f"update_current({{{key!r}: a}}) keeps the caller's {val.dtype} array", ops=[f"update_current({{{key!r}: a}})", "a[...] = 77"])
            continue
        got = sm.get_current(key)
        got[...] = 55
        if not np.array_equal(np.asarray(sm.get_current(key)), val):
            run.fail("state-aliased-with-caller", f"get_current({key!r}) returns the internal array", ops=[f"g = get_current({key!r})", "g[...] = 55"])
    # (i'') every way of asking for one committed batch: index alone, index with flat - none hands out the batch itself
    smh = mk([4, 4])
    for key in ("u", "x", "logl"):
        for kw in (dict(index=0), dict(index=0, flat=True), dict(index=1, flat=False), dict(flat=True)):
            try:
                got = smh.get_history(key, **kw)
            except Exception:
                continue
            run.case(key=("history-accessor", key, str(sorted(kw.items()))), nontrivial=True)
            if any(isinstance(got, np.ndarray) and b.size and np.shares_memory(got, b) for b in internal(smh)):
                run.fail("state-aliased-with-caller", f"get_history({key!r}, {', '.join(f'{a}={b}' for a, b in kw.items())}) returns (a view of) the committed batch",
                         ops=[f"h = get_history({key!r}, {kw})", "h[...] = 0"])
    # (ii)
    sm = mk([4, 6])
    for key in ("u", "x", "logl"):
        run.case(key=("ragged", key), nontrivial=True)
        try:
            got = sm.get_history(key)
        except Exception:
            continue          # refusing is fine: nothing is handed out
        sh = [a for a in arrays_of(got, []) for b in internal(sm) if a.size and b.size and np.shares_memory(a, b)]
        if sh:
            run.fail("state-aliased-with-caller", f"get_history({key!r}) on a history with batches of 4 and 6 particles hands out the committed batches themselves",
                     ops=["commit 4 particles", "commit 6 particles", f"h = get_history({key!r}); h[0][:] = ..."])
    try:
        res = sm.compute_results()
        sh = [a for a in arrays_of(res, []) for b in internal(sm) if a.size and b.size and np.shares_memory(a, b)]
        if sh:
            run.fail("state-aliased-with-caller", "compute_results() on a history with batches of 4 and 6 particles hands out committed batches",
                     ops=["commit 4 particles", "commit 6 particles", "r = compute_results(); r['x'][0][:] = ..."])
    except Exception:
        pass


def export_probe(run, rng):
    """Exporting (StateManager.save_state with any exclude list, Sampler-level posterior(return_logw=True) in every option
    combination) is read-only: the manager's view is the same afterwards, and arrays handed out are not internal ones."""
    import tempfile
    import contextlib
    import io
    from tempest.state_manager import StateManager
    sm = StateManager(2)
    for it in range(3):
        sm.update_current({"u": np.full((4, 2), 0.1 * it), "x": np.full((4, 2), 1.0 + it), "logl": np.arange(4.0) - it, "beta": 0.3 * it,
                           "logz": -0.5 * it, "iter": it, "blobs": np.arange(4.0) * it})
        sm.commit_current_to_history()

    def view():
        return ({k: (None if v is None else np.array(v).tolist()) for k, v in sm._current.items()},
                {k: [np.array(a).tolist() for a in lst] for k, lst in sm._history.items()})
    d = tempfile.mkdtemp(prefix="c17_", dir=run.scratch.dir)
    for exclude in (None, [], ["blobs"], ["x", "logz"], ["pbar"], ["u", "beta", "logl"]):
        before = view()
        with contextlib.redirect_stdout(io.StringIO()):
            sm.save_state(d + "/s.state", exclude=exclude)
        run.case(key=("save-state", str(exclude)), nontrivial=True)
        if view() != before:
            run.fail("export-changes-state", f"StateManager.save_state(exclude={exclude}) changed the manager's current state / committed history",
                     ops=["3 commits", f"save_state(path, exclude={exclude})"])
            break
        sm.commit_current_to_history()
        lens = {len(v) for k, v in sm._history.items() if sm._current.get(k) is not None}
        if len(lens) != 1:
            run.fail("history-not-append-only", f"after save_state(exclude={exclude}) a commit leaves histories of different lengths", ops=["save_state", "commit"])
            break
    # Sampler level: log-weights returned by posterior() in the combinations that do not re-index them
    from tempest import Sampler
    s = Sampler(lambda u: 6 * u - 3, lambda x: -0.5 * float(np.sum(x ** 2)), n_dim=2, n_particles=12, clustering=False, random_state=2)
    s.run(n_total=24, progress=False)
    for resample in (False, True):
        for trim in (False, True):
            ref = s.posterior(resample=resample, trim_importance_weights=trim, return_logw=True)
            np.random.seed(9)
            a = s.posterior(resample=resample, trim_importance_weights=trim, return_logw=True)
            for arr in a:
                if isinstance(arr, np.ndarray) and arr.size:
                    arr[...] = 12345.0
            np.random.seed(9)
            b = s.posterior(resample=resample, trim_importance_weights=trim, return_logw=True)
            np.random.seed(9)
            c = s.posterior(resample=resample, trim_importance_weights=trim, return_logw=True)
            run.case(key=("posterior-logw-overwrite", resample, trim), nontrivial=True)
            if any(not np.array_equal(x1, x2) for x1, x2 in zip(b, c)) or any(np.any(np.asarray(x1) == 12345.0) for x1 in b if isinstance(x1, np.ndarray)):
                run.fail("state-aliased-with-caller", f"overwriting the arrays returned by posterior(resample={resample}, trim_importance_weights={trim}, "
                         f"return_logw=True) changes what the next call returns", ops=["posterior(...)", "overwrite every returned array", "posterior(...)"])


def rejected_commit_probe(run, rng):
    """commit_current_to_history(strict=True) with a required key missing must raise and leave the history exactly as it was;
    after the missing value is supplied, one commit appends exactly one batch per set key."""
    from tempest.state_manager import StateManager
    for missing in ("logl", "beta"):
        sm = StateManager(2)
        for it in range(3):
            n = 4
            vals = {"u": np.full((n, 2), float(it)), "x": np.full((n, 2), float(it) + 0.5), "logl": np.arange(n, dtype=float) + it,
                    "beta": 0.1 * it, "logz": -float(it), "iter": it}
            sm.update_current({k: v for k, v in vals.items() if k != missing})
            sm.set_current(missing, None)
            before = {k: len(v) for k, v in sm._history.items()}
            raised = False
            try:
                sm.commit_current_to_history(strict=True)
            except ValueError:
                raised = True
            after = {k: len(v) for k, v in sm._history.items()}
            run.case(key=("rejected-commit", missing, it), nontrivial=True)
            ops = [f"update_current(all but {missing})", f"set_current({missing}, None)", "commit_current_to_history(strict=True)"]
            if not raised:
                run.fail("strict-commit-not-rejected", f"strict commit with {missing}=None did not raise", ops=ops, iteration=it)
                break
            if after != before:
                changed = {k: (before[k], after[k]) for k in before if before[k] != after[k]}
                run.fail("history-not-append-only", f"a REJECTED strict commit (missing {missing}) appended batches: {changed}", ops=ops, iteration=it)
                break
            sm.set_current(missing, vals[missing])
            sm.commit_current_to_history(strict=True)
            lens = {k: len(v) for k, v in sm._history.items() if k in vals}
            if any(v != it + 1 for v in lens.values()):
                run.fail("history-not-append-only", f"after iteration {it} the history lengths are {lens} (one batch per iteration expected)",
                         ops=ops + [f"set_current({missing}, value)", "commit_current_to_history(strict=True)"], iteration=it)
                break


def main(tier, seed):
    run = Run(PID, tier, seed)
    run.rule = ("random interleavings (6..40 ops) of set/get/get-all/get-history/flat-history/commit/to_dict/import/"
                "results and caller overwrites of every array obtained so far, on a real StateManager; after every op the "
                "real alias graph (np.shares_memory between caller-held and internal arrays) and the current/history "
                "contents are compared with the Coq heap model run under the policy extracted from the source. Plus "
                "Sampler.sample()/results()/posterior() overwrite tests. Non-trivial: the sequence contains an overwrite.")
    run.assumptions = [
        "set_current(copy=False) is a documented transfer of ownership and is excluded from the op language",
        "numpy: ndarray.copy / np.array(list) / np.concatenate / fancy indexing allocate fresh buffers",
        "histories with equal batch shapes (ragged np.array(list) is an error value, not an alias)",
    ]
    rng = random.Random(seed)
    try:
        translate()
        run.obligation("translate:state_manager accessor policy", True)
    except Exception as e:  # fail closed: anything the translator cannot digest
        run.obligation("translate:state_manager accessor policy", False, str(e))
    run.prove("Props/C17.v", link_rels=["Link/Alias.v"])
    try:
        sweep(run, tier, rng)
        sampler_level(run, tier, rng)
        nocopy_probe(run)
        rejected_commit_probe(run, rng)
        zero_dim_probe(run)
        export_probe(run, rng)
        clone_and_ragged_probe(run)
    except Exception:
        import traceback
        run.broken.append(("harness-exception", traceback.format_exc()[-1500:]))

    def search(r):
        if not r.failures:
            sweep(r, "quick", random.Random(2024))

    run.finish(search=search)
