"""C07 — every stored or returned particle is a coherent (u, x, logL, blob) record."""
import ast
import itertools
import random

import numpy as np

from common import COQ, REPO, Run, TranslateError, get_function, strip_doc, write_if_changed

PID = "C07"


def _ns(n):
    return ast.unparse(n).replace(" ", "")


def translate():
    def need(c, node, msg, w):
        if not c:
            raise TranslateError(f"{w}: line {getattr(node, 'lineno', '?')}: {msg}: {ast.unparse(node)[:200]}")

    # ---- Resampler.run
    w = "resample.py:Resampler.run"
    fn = get_function(REPO / "tempest" / "steps" / "resample.py", "Resampler.run")
    t = _ns(fn)
    for k in ("u", "x", "logl"):
        need(f"{k}=self.state.get_history('{k}',flat=True)" in t, fn, f"pool field {k}", w)
    # blobs are carried whenever the state holds some (configured dtype or inferred), with the same selector as the other fields
    need("have_blobs=self.have_blobsorself.state.get_current('blobs')isnotNone" in t
         and "blobs=self.state.get_history('blobs',flat=True)ifhave_blobselseNone" in t
         and "ifhave_blobs:self.state.set_current('blobs',blobs[idx_resampled])" in t.replace("\n", ""), fn, "pool blobs", w)
    sel = {}
    for node in ast.walk(fn):
        if isinstance(node, ast.Subscript) and _ns(node.value) in ("u", "x", "logl", "blobs") and isinstance(node.slice, ast.Name):
            sel.setdefault(_ns(node.value), set()).add(node.slice.id)
    need(set(sel) == {"u", "x", "logl", "blobs"} and all(len(v) == 1 for v in sel.values()), fn, f"selectors {sel}", w)
    need("u_resampled=u[idx_resampled]" in t and "'u':u_resampled" in t and "'x':x[idx_resampled]" in t
         and "'logl':logl[idx_resampled]" in t and "self.state.set_current('blobs',blobs[idx_resampled])" in t, fn, "writes", w)
    resample = [(k, next(iter(sel[k]))) for k in ("u", "x", "logl", "blobs")]
    # ---- accept block
    w = "mcmc.py:BaseMCMCRunner.run"
    fn = get_function(REPO / "tempest" / "mcmc.py", "BaseMCMCRunner.run")
    acc = {}
    for node in ast.walk(fn):
        if isinstance(node, ast.Assign) and isinstance(node.targets[0], ast.Subscript) and _ns(node.targets[0].value).startswith("self."):
            f = _ns(node.targets[0].value)[5:]
            m = _ns(node.targets[0].slice)
            v = node.value
            need(isinstance(v, ast.Subscript) and _ns(v.slice) == m and _ns(v.value) == {"u": "u_prime", "x": "x_prime", "logl": "logl_prime", "blobs": "blobs_prime"}.get(f),
                 node, "masked assignment source", w)
            acc[f] = m
    need(set(acc) == {"u", "x", "logl", "blobs"}, fn, f"masked fields {sorted(acc)}", w)
    t = _ns(fn)
    need("x_prime=np.array([self.prior_transform(u_p)foru_pinu_prime])" in t, fn, "x' = T(u')", w)
    need("logl_prime,blobs_prime=self._evaluate_likelihood(x_prime)" in t, fn, "(l', b') = L(x')", w)
    need("u_prime[k]=self._propose(k)" in t, fn, "proposals", w)
    # every row of u_prime lies in the cube: either proposals are returned only after the bounds check (redraw shape), or
    # run() replaces the rows failing the bounds check by the current rows before anything is derived from them
    tl = t.replace("\n", "")
    replaced = ("inside=np.array([check_bounds(u_p,self.periodic,self.reflective)foru_pinu_prime])" in tl
                and "u_prime[~inside]=self.u[~inside]" in tl
                and tl.index("u_prime[k]=self._propose(k)") < tl.index("inside=np.array([check_bounds(") < tl.index("u_prime[~inside]=self.u[~inside]")
                < tl.index("x_prime=np.array("))
    for cls in ("TPCNRunner", "RWMRunner"):
        p = _ns(get_function(REPO / "tempest" / "mcmc.py", f"{cls}._propose")).replace("\n", "")
        looped = ("proposal=apply_boundary_conditions(proposal,self.periodic,self.reflective)" in p
                  and "ifcheck_bounds(proposal,self.periodic,self.reflective):returnproposal" in p)
        single = p.endswith("returnapply_boundary_conditions(proposal,self.periodic,self.reflective)") and "while" not in p
        need(looped or (single and replaced), fn, f"{cls}: proposals are bounds-checked before they can be accepted", "mcmc.py")
    accept = [(k, acc[k]) for k in ("u", "x", "logl", "blobs")]
    # ---- Mutator.run
    w = "mutate.py:Mutator.run"
    fn = get_function(REPO / "tempest" / "steps" / "mutate.py", "Mutator.run")
    t = _ns(fn)
    need("u=np.random.rand(self.n_particles,self.n_dim)" in t and "x=np.array([self.prior_transform(u[i])foriinrange(self.n_particles)])" in t
         and "logl,blobs=self.log_likelihood(x)" in t, fn, "fresh prior batch", w)
    rep = []
    for node in ast.walk(fn):
        if isinstance(node, ast.Assign) and isinstance(node.targets[0], ast.Subscript) and isinstance(node.value, ast.Subscript) \
                and _ns(node.targets[0].value) == _ns(node.value.value) and _ns(node.targets[0].value) in ("x", "u", "logl", "blobs"):
            rep.append((_ns(node.targets[0].value), _ns(node.targets[0].slice), _ns(node.value.slice)))
    need([r[0] for r in rep] == ["x", "u", "logl", "blobs"], fn, f"replacement fields {rep}", w)
    need("'u':u,'x':x,'logl':logl,'efficiency':efficiency" in t and "self.state.set_current('blobs',blobs.copy())" in t, fn, "write-back", w)
    need("u=self.state.get_current('u'),x=self.state.get_current('x'),logl=self.state.get_current('logl'),blobs=blobs" in t, fn, "kernel inputs", w)
    need("blobs=self.state.get_current('blobs')" in t and "ifblobsisnotNone:self.state.set_current('blobs',blobs.copy())" in t.replace("\n", "")
         and "self.have_blobs" not in t.split("parallel_mcmc(")[0].split("return")[-1], fn, "blobs travel with the particles whenever the state holds some", w)
    cm = _ns(get_function(REPO / "tempest" / "state_manager.py", "StateManager.commit_current_to_history"))
    need("forcurrent_keyinCURRENT_STATE_KEYS:" in cm.replace("\n", "") and "self._history[current_key].append(" in cm, fn, "commit", "state_manager.py")

    def pairs(ps):
        return "[" + "; ".join("(" + ", ".join(f'"{x}"' for x in p) + ")" for p in ps) + "]"

    text = f"""(* GENERATED from steps/resample.py, mcmc.py, steps/mutate.py, state_manager.py by tools/props/c07.py *)
From Coq Require Import List Bool String.
Import ListNotations.
Local Open Scope string_scope.
Definition resample_selectors : list (string * string) := {pairs(resample)}.
Definition accept_selectors : list (string * string) := {pairs(accept)}.
Definition replace_selectors : list (string * string * string) := {pairs(rep)}.
Definition proposal_x_is_prior_transform_of_proposal_u : bool := true.
Definition proposal_logl_blobs_from_one_call_on_proposal_x : bool := true.
Definition proposals_pass_bounds_check : bool := true.
Definition warmup_x_is_prior_transform_of_u : bool := true.
Definition warmup_logl_blobs_from_one_call_on_x : bool := true.
Definition mutate_writes_back_all_fields : bool := true.
Definition commit_copies_every_field : bool := true.
"""
    write_if_changed(COQ / "Gen" / "Coherent.v", text)


# ------------------------------------------------------------------ harness
def T(u):
    return 8.0 * np.asarray(u) - 4.0 + 0.25 * np.sin(3.0 * np.asarray(u))


CENTRE = [0.0]  # set per configuration: 0 = interior target, 3.6 = mass against the upper faces of the prior box


def Lval(x):
    return -0.5 * float(np.sum((x - CENTRE[0]) ** 2)) + 0.3 * float(np.cos(x[0] * 1.7))


MIXED = [False]   # blobs of mixed Python type: an int for part of the space, a float elsewhere (dtype inferred by the library)


def Lblob(x):
    if MIXED[0] == "bytes":
        return (b"inside:" if x[0] > 0 else b"o") + repr(round(float(x[0]), 3 if x[0] > 0 else 1)).encode()   # byte strings of varying length
    if MIXED[0] and x[0] < 0:
        return 0
    return float(x[0] * 3.0 - x[-1] * 0.5 + 7.0)


def check_batch(run, u, x, logl, blobs, where, what):
    if u is None or x is None or logl is None:
        return True
    u, x, logl = np.asarray(u), np.asarray(x), np.asarray(logl)
    if not (len(u) == len(x) == len(logl)) or (blobs is not None and len(blobs) != len(u)):
        run.fail("fields-different-length", f"{where}: u/x/logl/blobs lengths differ", **what)
        return False
    if np.any(u < 0) or np.any(u > 1):
        run.fail("u-outside-cube", f"{where}: unit-cube coordinate outside [0,1]", **what)
        return False
    for i in range(len(u)):
        xi = T(u[i])
        if not np.array_equal(xi, x[i]):
            run.fail("x-not-transform-of-u", f"{where}: particle {i}: x is not the prior transform of u", **what)
            return False
        if np.isfinite(logl[i]) and Lval(x[i]) != logl[i]:
            run.fail("logl-not-likelihood-of-x", f"{where}: particle {i}: logl is not the likelihood at x", **what)
            return False
        if blobs is not None and np.isfinite(logl[i]) and Lblob(x[i]) != np.asarray(blobs)[i]:
            run.fail("blob-not-from-x", f"{where}: particle {i}: blob is not what the likelihood returns at x", **what)
            return False
    return True


def run_cfg(run, cfg, seed, tier):
    from tempest import Sampler
    blobs = cfg.pop("blobs")
    MIXED[0] = "bytes" if blobs == "bytes" else blobs == "mixed"
    vec = cfg.pop("vectorize")
    hole = cfg.pop("hole")
    what = dict(cfg=dict(cfg, blobs=blobs, vectorize=vec, hole=hole), np_seed=seed)

    def scalar(x):
        v = Lval(x)
        if hole and x[0] < -2.0:
            v = -np.inf
        return (v, Lblob(x)) if blobs else v

    bufs = {}

    def vec_buffer(X):
        # a vectorised likelihood that fills and returns ONE reused output array per batch size (an out= style / compiled wrapper)
        b = bufs.setdefault(len(X), np.empty(len(X)))
        b[:] = [scalar(x) for x in X]
        return b

    like = vec_buffer if vec == "buffer" else (lambda X: np.array([scalar(x) for x in X])) if vec else scalar
    np.random.seed(seed)
    # blobs == "inferred": the likelihood returns (logl, blob) but no blobs_dtype is configured (the dtype is inferred from the values)
    s = Sampler(T, like, n_dim=2, n_particles=cfg.pop("n_particles", 10), vectorize=bool(vec), blobs_dtype=float if blobs is True else None, **cfg)
    core = s._core
    ok = [True]

    def wrap(obj, name, label):
        orig = getattr(obj, name)

        def f(*a, **k):
            r = orig(*a, **k)
            st = s.state
            if ok[0]:
                cb = st._current.get("blobs") if blobs else None
                ok[0] = check_batch(run, st._current.get("u"), st._current.get("x"), st._current.get("logl"), cb,
                                    f"after {label}, iteration {st._current.get('iter')}", what)
            return r

        setattr(obj, name, f)

    wrap(core.reweighter, "run", "reweight")
    wrap(core.trainer, "run", "train")
    wrap(core.resampler, "run", "resample")
    wrap(core.mutator, "run", "mutate")
    try:
        s.run(n_total=36, progress=False)
    except Exception as e:
        import traceback
        tb = traceback.format_exc()
        if type(e).__name__ == "LinAlgError" and "fit_mvstud" in tb and "from_particles" in tb:
            # the run was aborted by the singular scale of a one-point cluster: C14's listed finding, not a coherence question;
            # every step executed before the abort has been checked above
            run.count("run aborted in ModeStatistics.from_particles (one-point cluster, C14 finding); steps before it were checked")
            return
        run.fail("run-raises", f"run raised {type(e).__name__}: {e}", **what)
        return
    if not ok[0]:
        return
    st = s.state
    for k in range(st.get_history_length()):
        b = st._history["blobs"][k] if blobs else None
        if not check_batch(run, st._history["u"][k], st._history["x"][k], st._history["logl"][k], b, f"history batch {k}", what):
            return
        if np.any(np.isinf(st._history["logl"][k])):
            run.fail("inf-particle-stored", f"history batch {k} contains -inf log-likelihood", **what)
            return
    for (res, trim) in itertools.product([False, True], repeat=2):
        out = s.posterior(resample=res, trim_importance_weights=trim, return_blobs=bool(blobs), ess_trim=0.8, bins_trim=20)
        x, w, l = out[0], out[1], out[2]
        b = out[3] if blobs else None
        for i in range(len(x)):
            if Lval(x[i]) != l[i] or (b is not None and Lblob(x[i]) != b[i]):
                run.fail("posterior-record-incoherent", f"posterior(resample={res}, trim={trim}) row {i}: logl/blob do not belong to x", **what)
                return
    # what the user does to a returned dictionary must not come back: results(), overwrite every array in place, results() again
    r1 = s.results()
    for v_ in r1.values():
        for a_ in (v_ if isinstance(v_, (list, tuple)) else [v_]):
            if isinstance(a_, np.ndarray) and a_.dtype != object and a_.size:
                try:
                    a_[...] = 0.123
                except (ValueError, TypeError):
                    pass
    r2 = s.results()
    ru, rx, rl = r2.get("u"), r2.get("x"), r2.get("logl")
    if ru is not None and rx is not None and rl is not None:
        for k_, (ub, xb, lb) in enumerate(zip(ru, rx, rl)):
            if not check_batch(run, ub, xb, lb, None, f"results() after the caller overwrote an earlier results() in place, batch {k_}", what):
                return
    if blobs:
        r = s.results()
        rb, rx = r.get("blobs"), r.get("x")
        if rb is not None and any(Lblob(xi) != bi for xb, bb in zip(rx, rb) for xi, bi in zip(xb, np.asarray(bb))):
            run.fail("results-record-incoherent", "results(): a stored blob is not the blob of the particle in its row", **what)


def audit(run, s, blobs, where, what):
    """every stored batch and every posterior() output of a sampler, re-derived from u"""
    st = s.state
    lens = {k: len(v) for k, v in st._history.items() if k in ("u", "x", "logl") or (blobs and k == "blobs")}
    if len(set(lens.values())) != 1:
        run.fail("fields-different-length", f"{where}: the histories of the record fields have different numbers of batches: {lens}", **what)
        return False
    for k in range(st.get_history_length()):
        b = st._history["blobs"][k] if blobs else None
        if not check_batch(run, st._history["u"][k], st._history["x"][k], st._history["logl"][k], b, f"{where}, history batch {k}", what):
            return False
    stored = {np.ascontiguousarray(r).tobytes() for batch in st._history["x"] for r in batch}
    for (res, trim) in itertools.product([False, True], repeat=2):
        out = s.posterior(resample=res, trim_importance_weights=trim, return_blobs=blobs, ess_trim=0.8, bins_trim=20)
        x, l = out[0], out[2]
        b = out[3] if blobs else None
        for i in range(len(x)):
            if Lval(x[i]) != l[i] or (b is not None and Lblob(x[i]) != b[i]):
                run.fail("posterior-record-incoherent", f"{where}: posterior(resample={res}, trim={trim}) row {i}: logl/blob do not belong to x", **what)
                return False
            if np.ascontiguousarray(x[i]).tobytes() not in stored:
                run.fail("posterior-record-incoherent", f"{where}: posterior(resample={res}, trim={trim}) row {i} is not a particle of the stored history", **what)
                return False
    return True


def reuse_probe(run, tier, rng):
    """One Sampler object used more than once: run() called again with a larger n_total; a checkpoint of ANOTHER run loaded into a
    sampler that has already run (then queried, then resumed). Records must stay whole."""
    import tempfile
    from tempest import Sampler

    def like(x):
        return (Lval(x), Lblob(x))
    CENTRE[0] = 0.0
    for kind in ("tpcn", "rwm"):
        d = tempfile.mkdtemp(prefix="c07_", dir=run.scratch.dir)
        kw = dict(n_dim=2, n_particles=10, blobs_dtype=float, sample=kind, clustering=False)
        what = dict(probe="sampler reuse", kernel=kind)
        try:
            a = Sampler(T, like, random_state=11, output_dir=d, output_label="a", **kw)
            a.run(n_total=20, progress=False, save_every=1)
            run.case(key=("reuse", kind, "second-run"), nontrivial=True)
            a.run(n_total=45, progress=False)                       # the same object again, asking for more
            if not audit(run, a, True, "after a second run() on the same Sampler", what):
                continue
            b = Sampler(T, like, random_state=12, **kw)
            b.run(n_total=30, progress=False)
            if kind == "rwm":
                b.results()
                b.posterior()
            b.load_state(d + "/a_final.state")                      # a used sampler takes over another run's state
            run.case(key=("reuse", kind, "load-into-used"), nontrivial=True)
            if not audit(run, b, True, "after load_state() into a sampler that had already run", what):
                continue
            b.run(n_total=40, progress=False, resume_state_path=d + "/a_final.state")
            audit(run, b, True, "after resuming in a sampler that had already run", what)
        except Exception as e:
            run.fail("run-raises", f"reuse scenario raised {type(e).__name__}: {e}", **what)


def edge_planted(run, tier, rng):
    """Runs whose first prior batch contains particles within 1e-9 .. 1e-12 of the faces of the cube (planted through
    numpy.random.rand) and a target that gives them weight: every step must copy such records whole, bit for bit."""
    orig_rand = np.random.rand
    for ci, cfg in enumerate([dict(sample="tpcn", resample="syst", clustering=False, blobs=True, vectorize=False, volume_variation=None, hole=False),
                              dict(sample="rwm", resample="mult", clustering=False, blobs=False, vectorize=False, volume_variation=None, hole=False,
                                   reflective=[0])][:1 if tier == "quick" else 2]):
        planted = [False]

        def rand(*shape):
            out = orig_rand(*shape)
            if not planted[0] and len(shape) == 2 and shape[0] >= 6:
                planted[0] = True
                out[0] = [1 - 1e-12, 1 - 1e-9]
                out[1] = [1 - 1e-10, 0.97]
                out[2] = [0.96, 1 - 2e-16]
                out[3] = [1 - 1e-15, 1 - 1e-15]
                out[4] = [0.0, 1e-12]
            return out
        CENTRE[0] = 3.6
        np.random.rand = rand
        try:
            run.case(key=("edge-planted", ci), nontrivial=True)
            run_cfg(run, dict(cfg), 4242 + ci, tier)
        finally:
            np.random.rand = orig_rand
            CENTRE[0] = 0.0
        run.count("edge-planted run (particles within 1e-9..1e-16 of a face)" if planted[0] else "edge-planted run: nothing planted")


def sweep(run, tier, rng):
    opts = dict(sample=["tpcn", "rwm"], resample=["mult", "syst"], clustering=[False, True], blobs=[False, True, "inferred", "mixed", "bytes"],
                vectorize=[False, True, "buffer"], bc=["none", "periodic", "reflective", "mixed"], vv=[None, 0.5], hole=[False, True],
                centre=[0.0, 3.6])
    keys = list(opts)
    # pairwise covering by random greedy
    want = {(a, va, b, vb) for a, b in itertools.combinations(keys, 2) for va in opts[a] for vb in opts[b]}
    rows = []
    while want and len(rows) < (14 if tier == "quick" else 60):
        best, bc = None, -1
        for _ in range(40):
            r = {k: rng.choice(v) for k, v in opts.items()}
            if r["vectorize"] and r["blobs"]:
                r["blobs"] = False
            c = sum(1 for (a, va, b, vb) in want if r[a] == va and r[b] == vb)
            if c > bc:
                best, bc = r, c
        rows.append(best)
        want -= {(a, va, b, vb) for (a, va, b, vb) in want if best[a] == va and best[b] == vb}
    for i, r in enumerate(rows):
        cfg = dict(sample=r["sample"], resample=r["resample"], clustering=r["clustering"], blobs=r["blobs"],
                   vectorize=r["vectorize"], volume_variation=r["vv"], hole=r["hole"])
        if r["bc"] == "periodic":
            cfg["periodic"] = [0]
        elif r["bc"] == "reflective":
            cfg["reflective"] = [1]
        elif r["bc"] == "mixed":
            cfg["periodic"], cfg["reflective"] = [1], [0]
        run.case(key=("cfg", i), nontrivial=True)
        for k, v in r.items():
            run.count(f"{k}={v}")
        CENTRE[0] = r["centre"]
        run_cfg(run, cfg, rng.randrange(2 ** 31), tier)
    CENTRE[0] = 0.0
    # few walkers and a likelihood that reuses its output array: steps in which EVERY walker accepts alternate with steps that reject
    for kind in ("tpcn", "rwm"):
        cfg = dict(sample=kind, resample="mult", clustering=False, blobs=False, vectorize="buffer", volume_variation=None, hole=False, n_particles=4)
        run.case(key=("cfg", "few-walkers-buffer", kind), nontrivial=True)
        run_cfg(run, cfg, rng.randrange(2 ** 31), tier)
    run.sample(dict(first_rows=[str(r) for r in rows[:3]], uncovered_pairs=len(want)))


def main(tier, seed):
    run = Run(PID, tier, seed)
    run.rule = ("pairwise covering array over kernel x resampler x clustering x blobs x vectorised x boundary types x "
                "metric mode x likelihood-with-hole; in every run, after each of the four steps of every iteration the "
                "current batch, then every committed batch and every posterior() output, is re-derived from u with a "
                "deterministic prior transform and likelihood (blob encodes x) and compared exactly.")
    run.assumptions = [
        "prior transform and likelihood are deterministic functions (the statement's hypothesis)",
        "rows with -inf likelihood are only compared on (u, x); the all -inf warm-up batch is C11's listed finding",
    ]
    rng = random.Random(seed)
    try:
        translate()
        run.obligation("translate:plumbing selectors (resample/accept/replace/commit)", True)
    except Exception as e:  # fail closed: anything the translator cannot digest
        run.obligation("translate:plumbing selectors (resample/accept/replace/commit)", False, str(e))
    run.prove("Props/C07.v", link_rels=["Link/Coherent.v"])
    try:
        sweep(run, tier, rng)
        edge_planted(run, tier, rng)
        reuse_probe(run, tier, rng)
    except Exception:
        import traceback
        run.broken.append(("harness-exception", traceback.format_exc()[-1500:]))
    run.finish(search=None)
