"""C15 — weighted mixture and hierarchical clustering models satisfy their invariants."""
import ast
import random
from fractions import Fraction

import numpy as np

from common import COQ, REPO, ExprTr, Run, TranslateError, coq_eval_many, get_function, parse_evals, qlist, qlit, strip_doc, write_if_changed

PID = "C15"
EPS = 1e-10


def _ns(n):
    return ast.unparse(n).replace(" ", "")


def translate():
    def need(c, node, msg, w):
        if not c:
            raise TranslateError(f"{w}: line {getattr(node, 'lineno', '?')}: {msg}: {ast.unparse(node)[:200]}")

    cl = REPO / "tempest" / "cluster.py"
    w = "cluster.py:GaussianMixture._m_step"
    fn = get_function(cl, "GaussianMixture._m_step")
    t = _ns(fn)
    need("weighted_resp=responsibilities*sample_weight[:,np.newaxis]" in t, fn, "weighted responsibilities", w)
    need("weights=np.sum(weighted_resp,axis=0)" in t and "weights/=np.sum(weights)" in t, fn, "component weights", w)
    mean_asg = next((s for s in strip_doc(fn.body) if isinstance(s, ast.Assign) and _ns(s.targets[0]) == "means"), None)
    need(mean_asg is not None and isinstance(mean_asg.value, ast.BinOp) and isinstance(mean_asg.value.op, ast.Div)
         and _ns(mean_asg.value.left) == "np.dot(weighted_resp.T,X)", fn, "means numerator", w)
    asg_ = {_ns(s.targets[0]): _ns(s.value) for s in strip_doc(fn.body) if isinstance(s, ast.Assign)}
    if _ns(mean_asg.value.right) == "safe_mass[:,np.newaxis]":
        # repaired shape: mass = sum of weighted responsibilities, guarded only against zero
        need(asg_.get("mass") == "np.sum(weighted_resp,axis=0)" and asg_.get("safe_mass") == "np.where(mass>0,mass,1.0)", fn, "guarded mass", w)
        den = "if o_ltb o (o_zero o) m then m else o_one o"
    else:
        den = "o_add o (" + ExprTr({"np.sum(weighted_resp,axis=0)[:,np.newaxis]": "m"}, consts={"1e-10": "o_one o"}, where=w).num(mean_asg.value.right) + ") (o_zero o)"
    cv = _ns(get_function(cl, "GaussianMixture._compute_covariances"))
    full_ok = "covariances[k]=np.dot(weighted_resp[:,k]*diff.T,diff)" in cv and "covariances[k]/=np.sum(weighted_resp[:,k])+1e-10" in cv \
        and "diff=X-means[k]" in cv
    diag_ok = "covariances[k]=np.sum(weighted_resp[:,k,np.newaxis]*diff**2,axis=0)" in cv
    ft = _ns(get_function(cl, "GaussianMixture.fit"))
    norm_ok = "sample_weight=sample_weight/np.sum(sample_weight)" in ft
    # hierarchical
    w = "cluster.py:HierarchicalGaussianMixture.fit"
    hf = _ns(get_function(cl, "HierarchicalGaussianMixture.fit")).replace("\n", "")
    f = {}
    f["split_requires_both_children_min_points"] = "iflen(child1)>=min_pointsandlen(child2)>=min_points:" in hf
    f["children_partition_parent_by_binary_labels"] = ("child1=[indices[i]foriinrange(len(indices))iflabels[i]==0]" in hf
                                                       and "child2=[indices[i]foriinrange(len(indices))iflabels[i]==1]" in hf
                                                       and "labels=child_gmm.predict(data)" in hf and "n_components=2" in hf)
    # the parent index, the children and the running best improvement are recorded together, under the size guard only
    hfn = get_function(cl, "HierarchicalGaussianMixture.fit")
    guard = [n for n in ast.walk(hfn) if isinstance(n, ast.If) and _ns(n.test) == "len(child1)>=min_pointsandlen(child2)>=min_points"]
    best_names = ("best_split", "best_parent_idx", "best_improvement")

    def assigned(nodes):
        out = []
        for b in nodes:
            for n in ast.walk(b):
                if isinstance(n, ast.Assign):
                    out += [_ns(t) for t in n.targets if _ns(t) in best_names]
        return out
    forloops = [n for n in ast.walk(hfn) if isinstance(n, ast.For) and _ns(n.target).strip("()") == "idx,indices"]
    f["best_candidate_recorded_only_under_size_guard"] = (
        len(guard) == 1 and len(forloops) == 1 and not guard[0].orelse
        and sorted(assigned(guard[0].body)) == sorted(best_names)
        and sorted(assigned(forloops[0].body)) == sorted(best_names)
        and "best_split=(child1,child2)" in hf and "best_parent_idx=idx" in hf and "best_improvement=improvement" in hf)
    f["split_replaces_parent_by_two_children"] = "clusters.pop(best_parent_idx)clusters.extend(best_split)" in hf
    f["loop_bounded_by_max_iterations"] = "whileiteration<self.max_iterations:iteration+=1" in hf
    f["labels_assigned_from_partition"] = "labels[indices]=cluster_idx" in hf and "self.n_clusters_=len(clusters)" in hf \
        and "clusters=[[iforiinrange(n_samples)]]" in hf
    co = _ns(get_function(REPO / "tempest" / "core.py", "SamplerCore.__init__"))
    f["core_passes_cap_minus_one_iterations"] = "max_iterations=1000ifconfig.n_max_clustersisNoneelseconfig.n_max_clusters-1" in co
    pr = _ns(get_function(cl, "HierarchicalGaussianMixture.predict")).replace("\n", "")
    f["predict_is_argmax_over_n_clusters_columns"] = "probabilities=self._compute_gaussian_probabilities(X)returnnp.argmax(probabilities,axis=1)" in pr \
        and "log_probabilities=np.zeros((n_samples,self.n_clusters_))" in _ns(get_function(cl, "HierarchicalGaussianMixture._compute_gaussian_probabilities"))
    f["fallback_is_argmin_over_centres"] = "returnnp.argmin(distances,axis=1)" in pr
    for k, v in f.items():
        need(v, get_function(cl, "HierarchicalGaussianMixture.fit"), k, w)
    lines = "\n".join(f"Definition {k} : bool := {str(bool(v)).lower()}." for k, v in f.items())
    text = f"""(* GENERATED from cluster.py and core.py by tools/props/c15.py *)
From Coq Require Import Bool.
From Tempest Require Import Base.Ops.
Definition mean_denominator {{T}} (o : Ops T) (m : T) : T := {den}.
Definition weighted_resp_is_resp_times_sample_weight : bool := true.
Definition weights_are_masses_over_total : bool := true.
Definition full_cov_is_weighted_outer_product_over_mass_plus_eps : bool := {str(full_ok).lower()}.
Definition diag_cov_is_weighted_squares_over_mass_plus_eps : bool := {str(diag_ok).lower()}.
Definition sample_weight_normalised_before_em : bool := {str(norm_ok).lower()}.
{lines}
"""
    write_if_changed(COQ / "Gen" / "Mixture.v", text)


# ------------------------------------------------------------------ data
def gen_data(rng, nr):
    d = rng.choice([1, 2, 3, 4, 6])
    n = rng.choice([2 * d, 4 * d + 3, 60, 200])
    kind = rng.choice(["separated", "overlapping", "degenerate", "duplicated", "single"])
    if kind == "separated":
        X = np.vstack([nr.randn(n // 2, d) * 0.05 + 0.25, nr.randn(n - n // 2, d) * 0.05 + 0.75])
    elif kind == "overlapping":
        X = np.vstack([nr.randn(n // 2, d) * 0.2 + 0.45, nr.randn(n - n // 2, d) * 0.2 + 0.55])
    elif kind == "degenerate":
        X = nr.randn(n, d) * 0.1 + 0.5
        X[:, 0] = 0.3  # a flat direction
    elif kind == "duplicated":
        base = nr.rand(max(2, n // 6), d)
        X = base[nr.randint(len(base), size=n)]
    else:
        X = nr.randn(n, d) * 0.1 + rng.choice([0.5, 5.0, -3.0])
    # the statement is about any data set: the clusters may live at any scale and offset (a unit of 1e3 or 1e-3)
    scale = rng.choice([1.0, 1.0, 1.0, 10.0, 100.0, 1e3, 1e-3])
    if scale != 1.0:
        X = X * scale + rng.choice([0.0, 7.0 * scale])
        kind = f"{kind}*{scale:g}"
    wk = rng.choice(["ones", "skewed", "integer", "extreme"])
    if wk == "ones":
        w = np.ones(n)
    elif wk == "skewed":
        w = nr.gamma(0.3, size=n) + 1e-12
    elif wk == "integer":
        w = nr.randint(1, 4, size=n).astype(float)
    else:
        w = 10.0 ** nr.uniform(-12, 0, size=n)
    return X, w, kind, wk


def check_gmm(run, tier, rng):
    from tempest.cluster import GaussianMixture
    reps = 200 if tier == "quick" else 800
    mstep_cases = []
    for t in range(reps):
        nr = np.random.RandomState(rng.randrange(2 ** 31))
        X, w, kind, wk = gen_data(rng, nr)
        n, d = X.shape
        K = rng.choice([1, 2, 3])
        ct = rng.choice(["full", "full", "diag"])
        what = dict(case=t, n=n, d=d, K=K, data=kind, weights=wk, covariance_type=ct)
        try:
            g = GaussianMixture(n_components=K, covariance_type=ct, random_state=7).fit(X, w)
        except Exception as e:
            run.fail("gmm-fit-raises", f"GaussianMixture.fit raised {type(e).__name__}: {e}", **what)
            continue
        run.case(key=("gmm", t), nontrivial=K > 1)
        run.count(f"data={kind}")
        run.count(f"weights={wk}")
        if np.any(g.weights_ < 0) or abs(float(np.sum(g.weights_)) - 1) > 1e-9 or not np.all(np.isfinite(g.weights_)):
            run.fail("component-weights-not-simplex", f"weights_={g.weights_}", **what)
        lo, hi = X.min(axis=0), X.max(axis=0)
        wn = w / w.sum()
        for k in range(K):
            C = g.covariances_[k] if ct == "full" else np.diag(g.covariances_[k])
            if not np.all(np.isfinite(C)):
                run.fail("covariance-not-finite", f"component {k}", **what)
                continue
            if np.max(np.abs(C - C.T)) > 1e-12 * max(float(np.max(np.abs(C))), 1e-300):
                run.fail("covariance-not-symmetric", f"component {k}", **what)
            if np.min(np.linalg.eigvalsh((C + C.T) / 2)) < -1e-10 * max(1.0, float(np.max(np.abs(C)))):
                run.fail("covariance-not-psd", f"component {k}: min eigenvalue {np.min(np.linalg.eigvalsh((C + C.T) / 2))}", **what)
            if g.weights_[k] > 1e-3:
                # theorem: mean = c * (convex combination of the data), c = S/(S+1e-10), S the component's mass in the
                # last M-step (>= weight * total responsibility mass). For a component of non-negligible weight the shrink
                # is below 1e-6 relative; the literal (unshrunk) box is the listed finding probed separately below.
                slack = 1e-12 * (1 + np.abs(X).max())
                if np.any(g.means_[k] < lo - slack) or np.any(g.means_[k] > hi + slack):
                    run.fail("mean-outside-bounding-box", f"component {k} (weight {float(g.weights_[k])}) mean {g.means_[k]} outside [{lo},{hi}]", **what)
        # the same values stored as integers (counts, pixel coordinates): the fit is a function of the values, not of the dtype
        if t % 6 == 5:
            Xi = np.round(X * 3 / max(1e-12, float(np.std(X)))).astype(np.int64)
            try:
                gi = GaussianMixture(n_components=K, covariance_type=ct, random_state=7).fit(Xi, w)
                gf = GaussianMixture(n_components=K, covariance_type=ct, random_state=7).fit(Xi.astype(float), w)
                Ci, Cf = np.asarray(gi.covariances_, dtype=float), np.asarray(gf.covariances_, dtype=float)
                if Ci.shape != Cf.shape or not np.allclose(Ci, Cf, rtol=1e-8, atol=1e-10) or not np.allclose(gi.means_, gf.means_, rtol=1e-8, atol=1e-10):
                    run.fail("fit-depends-on-dtype", f"GaussianMixture fitted on integer-typed data differs from the fit on the same values as floats: covariances differ by "
                             f"{float(np.max(np.abs(Ci - Cf))) if Ci.shape == Cf.shape else 'shape'}", **what)
            except Exception as e:
                run.fail("gmm-fit-raises", f"fit on integer-typed data raised {type(e).__name__}: {e}", **what)
        # integer weights == replication
        if wk == "integer":
            reps_i = w.astype(int)
            Xr = np.repeat(X, reps_i, axis=0)
            try:
                g1 = GaussianMixture(n_components=K, covariance_type=ct, random_state=7, max_iter=3, tol=-np.inf).fit(X, w)
                g2 = GaussianMixture(n_components=K, covariance_type=ct, random_state=7, max_iter=3, tol=-np.inf).fit(Xr, None)
                ok = np.allclose(g1.weights_, g2.weights_, rtol=1e-6, atol=1e-9) and np.allclose(g1.means_, g2.means_, rtol=1e-6, atol=1e-9) \
                    and np.allclose(g1.covariances_, g2.covariances_, rtol=1e-5, atol=1e-9)
                if not ok:
                    run.fail("integer-weights-not-replication", "three EM steps on (X, integer w) and on the replicated data differ", **what)
                # ... and to convergence with the default stopping rule: the rule itself must see the weights as replication does
                g3 = GaussianMixture(n_components=K, covariance_type=ct, random_state=7).fit(X, w)
                g4 = GaussianMixture(n_components=K, covariance_type=ct, random_state=7).fit(Xr, None)
                sc_ = 1 + np.abs(X).max()
                if not (np.allclose(g3.weights_, g4.weights_, rtol=1e-6, atol=1e-8) and np.allclose(g3.means_, g4.means_, rtol=1e-6, atol=1e-8 * sc_)
                        and np.allclose(g3.covariances_, g4.covariances_, rtol=1e-5, atol=1e-8 * sc_ ** 2)):
                    run.fail("integer-weights-not-replication", f"fits to convergence on (X, integer w) and on the replicated data differ: means differ by "
                             f"{float(np.max(np.abs(g3.means_ - g4.means_))):.3g}, weights by {float(np.max(np.abs(g3.weights_ - g4.weights_))):.3g}", **what)
            except Exception as e:
                run.fail("gmm-fit-raises", f"replication fit raised {type(e).__name__}: {e}", **what)
        # one M-step on small dyadic data for the Coq model
        if len(mstep_cases) < (10 if tier == "quick" else 60) and n <= 13 and d <= 2:
            sc = float(2.0 ** np.round(np.log2(max(1e-300, np.abs(X).max()))))
            Xq = np.round(X / sc * 16) / 16 * sc
            R = np.round(nr.dirichlet(np.ones(K), size=n) * 64) / 64
            sw = np.round(wn * 4096 + 1) / 4096
            weights, means, covs = g._m_step(Xq, R, sw)
            mstep_cases.append((Xq, R, sw, weights, means))
    items = []
    for (Xq, R, sw, weights, means) in mstep_cases:
        K = R.shape[1]
        masses = [qlit(Fraction(float(np.dot(R[:, k], sw)))) for k in range(K)]
        mq = "[" + "; ".join(f"Qred (mass {qlist(R[:, k])} {qlist(sw)})" for k in range(K)) + "]"
        items.append(f"(map Qred (mix_weights {mq}), map (fun r => Qred (mean_guarded r {qlist(sw)} {qlist(Xq[:, 0])})) "
                     f"[{'; '.join(qlist(R[:, k]) for k in range(K))}])")
    src = f"""From Coq Require Import List QArith.
From Tempest Require Import Model.Mixture.
Import ListNotations.
Definition enc (q : Q) : Z * Z := (Qnum q, Zpos (Qden q)).
Eval vm_compute in map (fun p => (map enc (fst p), map enc (snd p))) [
{(';' + chr(10)).join(items)}
].
"""
    if items:
        (ok, out), = coq_eval_many(run.scratch, [src])
        if not ok:
            run.broken.append(("mstep-coqc", out[-1500:]))
            return
        res = parse_evals(out)[0]
        for (Xq, R, sw, weights, means), (mw, mm) in zip(mstep_cases, res):
            for k in range(R.shape[1]):
                w_model = mw[k][0] / mw[k][1]
                m_model = mm[k][0] / mm[k][1]
                if abs(w_model - weights[k]) > 1e-12 or abs(m_model - means[k, 0]) > 1e-12 * (1 + abs(m_model)):
                    run.disagree("GaussianMixture._m_step vs Coq model (exact Q)", component=k, impl=[float(weights[k]), float(means[k, 0])],
                                 model=[w_model, m_model], X=Xq[:, 0].tolist(), R=R[:, k].tolist(), sw=sw.tolist())
        run.count("mstep_model_cases", len(mstep_cases))
    # the listed finding: constant data touching the box from the origin side
    g = GaussianMixture(n_components=1).fit(np.full((10, 1), 5.0))
    run.case(key="constant-data", nontrivial=True)
    if g.means_[0, 0] < 5.0 or g.means_[0, 0] > 5.0:
        run.fail("mean-outside-bounding-box", f"GaussianMixture(1).fit([[5.0]]*10).means_ = {g.means_[0, 0]!r} (outside the degenerate box [5,5])",
                 data="ten copies of the point 5")


def check_hgmm(run, tier, rng, reps=None, only_groups=False):
    from tempest.cluster import HierarchicalGaussianMixture
    if reps is None:
        reps = 150 if tier == "quick" else 500
    for t in range(reps):
        nr = np.random.RandomState(rng.randrange(2 ** 31))
        X, w, kind, wk = gen_data(rng, nr)
        n, d = X.shape
        cap = rng.choice([None, 1, 2, 3])
        min_points = None if cap is None else 4 * d
        if t % 3 == 0 or only_groups:
            # several groups of unequal size, some with a satellite smaller than min_points: more than one candidate
            # split per round, and the most "improving" candidate may be the one the size guard must refuse
            d = rng.choice([1, 2, 3])
            min_points = rng.choice([2 * d + 2, 8, 12, 1, 2])     # incl. minimum sizes below the dimension (clusters of fewer than d points)
            groups, centre = [], 0.0
            for g in range(rng.choice([2, 3, 4])):
                centre += rng.choice([2.0, 6.0, 30.0])
                c = np.zeros(d)
                c[0] = centre
                groups.append(nr.randn(rng.choice([3 * min_points, 60, 120]), d) * 0.3 + c)
                if rng.random() < 0.6:
                    c2 = c.copy()
                    c2[-1] += rng.choice([5.0, 12.0])
                    groups.append(nr.randn(rng.randrange(1, max(min_points, d + 1)), d) * 0.05 + c2)
            order = list(range(len(groups)))
            rng.shuffle(order)
            X = np.vstack([groups[i] for i in order])
            n = len(X)
            kind = "groups+satellites"
            wk = rng.choice(["ones", "cyclic"])
            w = np.ones(n) if wk == "ones" else 1.0 + (np.arange(n) % 5)
            cap = rng.choice([None, 1, 1, 2, 3, 6, 11])
        norm = bool(t % 2)
        mod = rng.choice([0.5, 1.0, 2.0])
        what = dict(case=t, n=n, d=d, data=kind, weights=wk, cap=cap, normalize=norm, threshold_modifier=mod)
        m = HierarchicalGaussianMixture(n_init=1, max_iterations=1000 if cap is None else cap - 1, min_points=min_points,
                                        threshold_modifier=mod, covariance_type="full", normalize=norm)
        try:
            m.fit(X, w)
        except Exception as e:
            run.fail("hgmm-fit-raises", f"HierarchicalGaussianMixture.fit raised {type(e).__name__}: {e}", **what)
            continue
        K = m.n_clusters_
        run.case(key=("hgmm", t), nontrivial=K > 1)
        run.count(f"K={K}")
        lab = np.asarray(m.labels_)
        if lab.shape != (n,) or lab.min() < 0 or lab.max() >= K:
            run.fail("training-label-out-of-range", f"labels_ range [{lab.min()},{lab.max()}] for K={K}", **what)
        if cap is not None and K > cap:
            run.fail("cluster-cap-exceeded", f"K={K} > cap={cap}", **what)
        mp = min_points if min_points is not None else 2 * d
        sizes = np.bincount(lab[(lab >= 0) & (lab < K)], minlength=K)
        if K > 1 and sizes.min() < mp:
            run.fail("child-below-min-points", f"cluster sizes {sizes.tolist()} with min_points={mp}", **what)
        if len(m.cluster_centers_) != K or len(m.cluster_covariances_) != K or len(m.cluster_weights_) != K:
            run.fail("inconsistent-cluster-count", "centres/covariances/weights lists disagree with n_clusters_", **what)
        Q = np.vstack([X, nr.rand(20, d), nr.randn(10, d) * 50, np.full((1, d), 1e6), np.zeros((1, d))])
        try:
            pl = m.predict(Q)
            pp = m.predict_proba(Q)
        except Exception as e:
            run.fail("hgmm-predict-raises", f"predict raised {type(e).__name__}: {e}", **what)
            continue
        if pl.shape != (len(Q),) or pl.min() < 0 or pl.max() >= K:
            run.fail("predicted-label-out-of-range", f"predict range [{pl.min()},{pl.max()}] for K={K}", **what)
        if pp.shape != (len(Q), K):
            run.fail("predict-proba-shape", f"{pp.shape} for K={K}", **what)
    run.sample(dict(kind="hgmm", last=what, K=K))


def refit_sequence_probe(run, rng):
    """one HierarchicalGaussianMixture object fitted on 2-d data and then on 5-d data: the second fit must obey the rules of the
    second data set (default minimum child size 2 * n_features = 10), not anything remembered from the first"""
    from tempest.cluster import HierarchicalGaussianMixture
    for t in range(3):
        nr = np.random.RandomState(rng.randrange(2 ** 31))
        m = HierarchicalGaussianMixture(n_init=1, max_iterations=1000, min_points=None, threshold_modifier=1.0, covariance_type="full", normalize=False)
        X2 = np.vstack([nr.randn(60, 2) * 0.3, nr.randn(60, 2) * 0.3 + 6.0])
        m.fit(X2, np.ones(len(X2)))
        m.predict(X2)
        m.predict_proba(X2)             # queries between the two fits: nothing may be remembered from them either
        k_small = rng.choice([5, 6, 8])  # between 2*2 and 2*5 - 1
        X5 = np.vstack([nr.randn(120, 5) * 0.3, nr.randn(k_small, 5) * 0.05 + 12.0])
        m.fit(X5, np.ones(len(X5)))
        lab = np.asarray(m.labels_)
        K = m.n_clusters_
        sizes = np.bincount(lab[(lab >= 0) & (lab < K)], minlength=K)
        run.case(key=("refit-sequence", t), nontrivial=True)
        if lab.min() < 0 or lab.max() >= K:
            run.fail("training-label-out-of-range", f"second fit: labels_ range [{lab.min()},{lab.max()}] for K={K}", first_dim=2, second_dim=5)
        Qp = np.vstack([X5, nr.randn(15, 5) * 3.0 + 4.0])
        fresh = HierarchicalGaussianMixture(n_init=1, max_iterations=1000, min_points=None, threshold_modifier=1.0, covariance_type="full", normalize=False)
        fresh.fit(X5, np.ones(len(X5)))
        pl, pp = m.predict(Qp), m.predict_proba(Qp)
        if pl.min() < 0 or pl.max() >= K or pp.shape != (len(Qp), K):
            run.fail("predicted-label-out-of-range", f"after a refit: predict range [{pl.min()},{pl.max()}], predict_proba shape {pp.shape} for K={K}",
                     first_dim=2, second_dim=5)
        elif fresh.n_clusters_ == K and not np.array_equal(pl, fresh.predict(Qp)):
            run.fail("predict-depends-on-earlier-fit", "a refitted clusterer predicts other labels than a fresh clusterer fitted on the same data",
                     first_dim=2, second_dim=5)
        if K > 1 and sizes.min() < 10:
            run.fail("child-below-min-points", f"a clusterer first fitted on 2-d data accepts, on 5-d data, a split with cluster sizes {sizes.tolist()} "
                     f"(default minimum 2 * n_features = 10)", first_dim=2, second_dim=5, small_group=k_small)


def refit_fewer_clusters_probe(run, rng):
    """fit on three blobs, query, refit the same object on one blob: labels and probabilities refer to the second model"""
    from tempest.cluster import HierarchicalGaussianMixture
    for norm in (False, True):
        nr = np.random.RandomState(rng.randrange(2 ** 31))
        A = np.vstack([nr.randn(80, 2) * 0.2 + c for c in ([0, 0], [8, 0], [0, 8])])
        B = nr.randn(100, 2) * 0.2 + 3.0
        m = HierarchicalGaussianMixture(n_init=1, normalize=norm)
        m.fit(A, np.ones(len(A)))
        m.predict(A)
        m.predict_proba(A)
        m.fit(B, np.ones(len(B)))
        K = m.n_clusters_
        Qp = np.vstack([A, B])
        pl, pp = m.predict(Qp), m.predict_proba(Qp)
        run.case(key=("refit-fewer", norm), nontrivial=True)
        if pl.min() < 0 or pl.max() >= K or pp.shape != (len(Qp), K):
            run.fail("predicted-label-out-of-range", f"fit(3 blobs), predict, fit(1 blob): predict range [{pl.min()},{pl.max()}], predict_proba shape {pp.shape} "
                     f"for K={K}", normalize=norm)


def main(tier, seed):
    run = Run(PID, tier, seed)
    run.rule = ("data sets d in {1,2,3,4,6}, n from 2d to 200: separated / overlapping / with a flat direction / duplicated "
                "points / single blob; weights: ones, Gamma(0.3), integers, 1e-12..1 log-uniform; GaussianMixture ('full', "
                "'diag') invariants, integer-weight vs replication over 3 EM steps, one M-step replayed through the Coq "
                "model in exact rationals; HierarchicalGaussianMixture with caps {None,1,2,3}, normalisation, threshold "
                "modifiers: labels, cap, min size, predict/predict_proba on training, random, far and extreme queries.")
    run.assumptions = [
        "E-step responsibilities are an oracle (non-negative); EM optimum quality / BIC meaning not carried",
        "'tied' and 'spherical' covariance structures are excluded by the statement",
        "the covariance denominators keep their +1e-10 (a slightly shrunk, still symmetric positive-semidefinite matrix)",
    ]
    rng = random.Random(seed)
    try:
        translate()
        run.obligation("translate:cluster.py M-step + split loop", True)
    except Exception as e:  # fail closed: anything the translator cannot digest
        run.obligation("translate:cluster.py M-step + split loop", False, str(e))
    run.prove("Props/C15.v", link_rels=["Link/Mixture.v"])
    try:
        check_gmm(run, tier, rng)
        check_hgmm(run, tier, rng)
        refit_sequence_probe(run, rng)
        refit_fewer_clusters_probe(run, rng)
    except Exception:
        import traceback
        run.broken.append(("harness-exception", traceback.format_exc()[-1500:]))
    def search(r):
        # something no longer checks and the sweep found nothing new: widen the sweeps that exercise the split loop
        check_hgmm(r, tier, random.Random(seed + 1), reps=150, only_groups=True)
        if all(f["key"] == "mean-shrunk-by-1e-10" for f in r.failures):
            check_gmm(r, "thorough", random.Random(seed + 2))
    run.finish(search=search)
