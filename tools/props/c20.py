"""C20 — weight utilities: ESS bounds, trimming contract, affine-invariant volume metric."""
import ast
import math
import random
from fractions import Fraction

import numpy as np

from common import (COQ, REPO, ExprTr, Run, TranslateError, coq_eval_many, get_function, parse_evals, qlist, qlit,
                    strip_doc, write_if_changed)

PID = "C20"


def _ns(n):
    return ast.unparse(n).replace(" ", "")


def translate():
    path = REPO / "tempest" / "tools.py"

    def need(c, node, msg, w):
        if not c:
            raise TranslateError(f"{w}: line {getattr(node, 'lineno', '?')}: {msg}: {ast.unparse(node)[:160]}")

    # effective_sample_size
    w = "tools.py:effective_sample_size"
    fn = get_function(path, "effective_sample_size")
    b = strip_doc(fn.body)
    need(len(b) == 2, fn, "statement count", w)
    need(_ns(b[0]) in ("weights=weights/np.sum(weights)",), b[0], "normalisation", w)
    need(isinstance(b[1], ast.Return), b[1], "return", w)
    tr = ExprTr({"np.sum(weights**2.0)": "sumsq_normalised", "np.sum(weights**2)": "sumsq_normalised",
                 "np.sum(weights*weights)": "sumsq_normalised"}, where=w)
    ess_expr = tr.num(b[1].value)
    # trim_weights
    w = "tools.py:trim_weights"
    fn = get_function(path, "trim_weights")
    b = strip_doc(fn.body)
    need(len(b) == 6, fn, "statement count", w)
    need(_ns(b[0]) == "weights/=np.sum(weights)", b[0], "in-place normalisation", w)
    need(isinstance(b[1], ast.Assign) and _ns(b[1].targets[0]) == "ess_total", b[1], "ess_total", w)
    tr1 = ExprTr({"np.sum(weights**2.0)": "sumsq_w"}, where=w)
    ess_total = tr1.num(b[1].value)
    need(_ns(b[2]) == "percentiles=np.linspace(0,99,bins)", b[2], "percentile grid", w)
    need(_ns(b[3]) == "i=bins-1", b[3], "start index", w)
    loop = b[4]
    need(isinstance(loop, ast.While) and _ns(loop.test) == "True" and len(loop.body) == 8, loop, "loop shape", w)
    s = loop.body
    need(_ns(s[0]) == "p=percentiles[i]", s[0], "grid lookup", w)
    need(_ns(s[1]) == "threshold=np.percentile(weights,p)", s[1], "threshold", w)
    need(isinstance(s[2], ast.Assign) and _ns(s[2].targets[0]) == "mask", s[2], "mask", w)
    mask = ExprTr({"weights": "x", "threshold": "t"}, where=w).boolean(s[2].value)
    need(_ns(s[3]) == "weights_trimmed=weights[mask]", s[3], "masked weights", w)
    need(_ns(s[4]) == "weights_trimmed/=np.sum(weights_trimmed)", s[4], "renormalisation", w)
    need(isinstance(s[5], ast.Assign) and _ns(s[5].targets[0]) == "ess_trimmed", s[5], "ess_trimmed", w)
    ess_trimmed = ExprTr({"np.sum(weights_trimmed**2.0)": "sumsq_t"}, where=w).num(s[5].value)
    need(isinstance(s[6], ast.If) and len(s[6].body) == 1 and isinstance(s[6].body[0], ast.Break) and not s[6].orelse,
         s[6], "accept test", w)
    # the ratio test, or the bottom of the grid (where every sample is kept and the test can only fail through rounding)
    need(isinstance(s[6].test, ast.BoolOp) and isinstance(s[6].test.op, ast.Or) and len(s[6].test.values) == 2
         and _ns(s[6].test.values[1]) == "i==0", s[6], "accept test: ratio test or i == 0", w)
    accept = ExprTr({"ess_trimmed": "ess_trimmed", "ess_total": "ess_total", "ess": "frac"}, where=w).boolean(s[6].test.values[0])
    need(_ns(s[7]) == "i-=1", s[7], "step", w)
    need(_ns(b[5]) in ("returnsamples[mask],weights_trimmed", "return(samples[mask],weights_trimmed)"), b[5], "return", w)
    # volume_variation: the shape the theorems of Proofs/Volume.v speak about (vvgen K g), statement by statement
    w = "tools.py:volume_variation"
    vfn = get_function(path, "volume_variation")
    vs = [_ns(x).replace("\n", "") for x in strip_doc(vfn.body)]
    vtxt = "|".join(vs)
    for frag, msg in (("w=w/np.sum(w)", "weights normalised by their sum"),
                      ("weighted_mean=np.sum(x*w[:,np.newaxis],axis=0)", "weighted mean"),
                      ("xc=x-weighted_mean", "rows centred at the weighted mean"),
                      ("cov=np.dot(xc.T,xc*w[:,np.newaxis])", "weighted covariance of the centred rows"),
                      ("ifnp.linalg.matrix_rank(cov)<n_dim:reg=1e-06*np.trace(cov)cov=cov+np.eye(n_dim)*reg", "rank test regularises by 1e-6 trace"),
                      ("cov_inv=np.linalg.inv(cov)", "inverse of the (possibly regularised) covariance"),
                      ("d2=np.sum(xc@cov_inv*xc,axis=1)", "squared Mahalanobis distances of the centred rows"),
                      ("deviation=np.clip(d2-n_dim,-1000000.0,1000000.0)", "deviation d2 - d, clipped"),
                      ("cv=0.5*np.sqrt(np.sum(w**2*deviation**2))", "half the root of the sum of squared weighted deviations"),
                      ("returncv", "returns it")):
        need(frag in vtxt, vfn, msg, w)
    order_v = [vtxt.index(f) for f in ("w=w/np.sum(w)", "weighted_mean=", "xc=x-weighted_mean", "cov=np.dot(", "np.linalg.matrix_rank(cov)", "cov_inv=np.linalg.inv(cov)",
                                       "d2=np.sum(", "deviation=np.clip(", "cv=0.5*")]
    need(order_v == sorted(order_v), vfn, "order of the statements", w)
    need(sum(1 for x in vs if x.startswith(("w=", "xc=", "cov=", "d2=", "deviation=", "cv="))) == 7, vfn,
         "w (default and normalisation), xc, cov, d2, deviation, cv are assigned once each (cov once more inside the rank test)", w)
    text = f"""(* GENERATED from /repo/tempest/tools.py (effective_sample_size, trim_weights) by tools/props/c20.py *)
From Coq Require Import List Bool Arith.
From Tempest Require Import Base.Ops.
Definition ess_of_normalised {{T}} (o : Ops T) (sumsq_normalised : T) : T := {ess_expr}.
Definition ess_total {{T}} (o : Ops T) (sumsq_w : T) : T := {ess_total}.
Definition ess_trimmed {{T}} (o : Ops T) (sumsq_t : T) : T := {ess_trimmed}.
Definition mask_test {{T}} (o : Ops T) (x t : T) : bool := {mask}.
Definition accept_test {{T}} (o : Ops T) (ess_trimmed ess_total frac : T) : bool := {accept}.
Definition starts_at_top_and_steps_down : bool := true.
Definition stops_at_grid_index_zero_whatever_the_ratio : bool := true.
Definition same_mask_for_samples_and_weights : bool := true.
Definition normalises_input_and_trimmed : bool := true.
Definition volume_metric_is_half_root_of_squared_normalised_weights_times_clipped_deviation_of_mahalanobis_distance : bool := true.
Definition volume_metric_regularises_only_when_rank_deficient_by_trace_times_1e_6 : bool := true.
"""
    write_if_changed(COQ / "Gen" / "Weights.v", text)


# ------------------------------------------------------------------ generators
def gen_w(rng, kind, n):
    if kind == "dirichlet_tiny":
        return [max(rng.gammavariate(0.02, 1.0), 1e-300) for _ in range(n)]
    if kind == "dirichlet":
        return [rng.gammavariate(rng.choice([0.3, 1, 5]), 1.0) + 1e-300 for _ in range(n)]
    if kind == "geometric":
        r = rng.choice([0.5, 0.9, 0.99, 0.1])
        return [r ** k + 1e-300 for k in range(n)]
    if kind == "onehot_dust":
        w = [rng.random() * 1e-280 for _ in range(n)]
        w[rng.randrange(n)] = 1.0
        return w
    if kind == "ties":
        vals = [rng.random() for _ in range(3)]
        return [rng.choice(vals) for _ in range(n)]
    if kind == "uniform":
        c = rng.choice([1.0, 1e-200, 1e200, 0.3, 1e-300, 1e300])
        return [c] * n
    if kind == "zeros":
        w = [rng.random() if rng.random() < 0.6 else 0.0 for _ in range(n)]
        w[0] = w[0] or 0.5
        return w
    if kind == "near_normalised":
        # weights that sum to 1 up to a relative 1e-9 .. 1e-5 (normalised elsewhere in lower precision, or rescaled slightly)
        base = [rng.gammavariate(rng.choice([0.3, 1, 5]), 1.0) + 1e-300 for _ in range(n)] if rng.random() < 0.7 else [1.0] * n
        tot = math.fsum(base)
        f = 1.0 + rng.choice([-1, 1]) * rng.choice([3e-9, 1e-7, 1e-6, 8e-6])
        return [x / tot * f for x in base]
    if kind == "huge":
        return [rng.uniform(0.5, 1.0) * 1e290 for _ in range(n)]
    if kind == "tiny":
        return [rng.uniform(0.5, 1.0) * 1e-290 for _ in range(n)]
    raise ValueError(kind)


def exact_ess(w):
    if len(w) > 40:
        # long vectors: correctly-rounded float sums of the max-scaled weights (error ~1e-15)
        m = max(w)
        v = [x / m for x in w]
        s = math.fsum(v)
        return Fraction(s * s / math.fsum(x * x for x in v))
    f = [Fraction(x) for x in w]
    s = sum(f)
    return s * s / sum(x * x for x in f)


def check_ess(run, tier, rng):
    from tempest.tools import compute_ess, effective_sample_size
    kinds = ["dirichlet_tiny", "dirichlet", "geometric", "onehot_dust", "ties", "uniform", "zeros", "huge", "tiny", "near_normalised"]
    reps = 150 if tier == "quick" else 2000
    small = []
    for t in range(reps):
        kind = kinds[t % len(kinds)]
        n = rng.choice([1, 2, 3, 5, 17, 100, 1000] if tier == "quick" else [1, 2, 3, 5, 17, 100, 1000, 10000])
        if kind in ("huge", "tiny"):
            n = min(n, 100)
        w = gen_w(rng, kind, n)
        run.count(f"ess:{kind}")
        arr = np.array(w, dtype=float)
        before = arr.copy()
        e = float(effective_sample_size(arr))
        run.case(key=("ess", kind, n, t), nontrivial=n > 1)
        if arr.tobytes() != before.tobytes():
            run.fail("ess-mutates-input", "effective_sample_size modified its argument", w=w[:8])
        ex = exact_ess(w)
        if not math.isfinite(e):
            run.fail("ess-not-finite", f"effective_sample_size returned {e!r} for a non-negative weight vector with positive sum "
                     f"(exact value {float(ex)!r})", n=n, w=[float(x).hex() for x in w[:20]], kind=kind)
            continue
        if not (abs(Fraction(e) - ex) <= ex * Fraction(1, 10 ** 9)):
            run.fail("ess-wrong-value", f"effective_sample_size={e!r}, exact (sum w)^2/sum w^2={float(ex)!r}",
                     n=n, w=[float(x).hex() for x in w[:20]], kind=kind)
        if not (1 - 1e-9 <= e <= n * (1 + 1e-9)):
            run.fail("ess-out-of-bounds", f"ESS {e} outside [1,{n}]", n=n, w=[float(x).hex() for x in w[:20]])
        c = rng.choice([2.0, 0.125, 1e-8, 1e8, 3.7])
        if max(w) * c < 1e300 and min(x for x in w if x > 0) * c > 1e-290:
            e2 = float(effective_sample_size(arr * c))
            if not math.isfinite(e2) or abs(e2 - e) > 1e-9 * e:
                run.fail("ess-not-scale-invariant", f"ESS(w)={e}, ESS({c}*w)={e2}", n=n, c=c,
                         w=[float(x).hex() for x in w[:20]])
        if kind == "uniform" and abs(e - n) > 1e-9 * n:
            run.fail("ess-uniform", f"ESS of {n} equal weights is {e}", n=n)
        pos = [x for x in w if x > 0]
        if len(pos) == n and max(w) / min(w) < 1e250:
            lw = np.log(arr) + rng.uniform(-500, 500)
            ce = float(compute_ess(lw))
            if abs(ce * n - float(ex)) > 1e-6 * float(ex):
                run.fail("compute_ess-wrong", f"compute_ess*n={ce * n}, exact={float(ex)}", n=n,
                         w=[float(x).hex() for x in w[:20]])
        if n <= 5 and min(w) > 0 and max(w) / min(w) < 1e9 and 1e-30 < max(w) < 1e30 \
                and len(small) < (40 if tier == "quick" else 200):
            small.append((w, e))
    run.sample(dict(kind="ess", w=small[3][0], impl=small[3][1]))
    # model (Coq, exact Q) vs implementation on the small vectors
    items = ";\n".join(f"(Qred (ess {qlist(w)}))" for w, _ in small)
    src = f"""From Coq Require Import List QArith.
From Tempest Require Import Model.Weights.
Import ListNotations.
Definition enc (q : Q) : Z * Z := (Qnum q, Zpos (Qden q)).
Eval vm_compute in map enc [
{items}
].
"""
    (ok, out), = coq_eval_many(run.scratch, [src])
    if not ok:
        run.broken.append(("ess-correspondence-coqc", out[-1500:]))
        return
    vals = parse_evals(out)[0]
    for (w, e), (num, den) in zip(small, vals):
        m = Fraction(num, den)
        if abs(Fraction(e) - m) > m * Fraction(1, 10 ** 9):
            run.disagree("effective_sample_size vs Coq model (exact Q)", w=[float(x).hex() for x in w], impl=e,
                         model=float(m))
    run.count("ess_model_cases", len(small))


def run_trim(w, frac, bins):
    """run the implementation, recording the thresholds numpy.percentile returned."""
    from tempest import tools
    thr = []
    orig = np.percentile

    def rec(a, q, *args, **kw):
        v = orig(a, q, *args, **kw)
        thr.append((float(q), float(v)))
        return v

    np.percentile = rec
    arr = np.array(w, dtype=float)
    try:
        idx, wt = tools.trim_weights(np.arange(len(w)), arr, ess=frac, bins=bins)
    finally:
        np.percentile = orig
    return [int(i) for i in idx], [float(x) for x in wt], thr, [float(x) for x in arr]


def exact_ratio(wn, t):
    if len(wn) > 40:
        sel = [float(x) for x in wn if x >= t]
        s = math.fsum(sel)
        if s == 0:
            return None, sel
        q_t = math.fsum((x / s) ** 2 for x in sel)
        q_w = math.fsum(float(x) ** 2 for x in wn)
        return Fraction(q_w / q_t), sel
    sel = [x for x in wn if x >= t]
    s = sum(sel)
    if s == 0:
        return None, sel
    q_t = sum((x / s) ** 2 for x in sel)
    q_w = sum(x * x for x in wn)
    return q_w / q_t, sel  # (1/q_t)/(1/q_w)


def check_trim(run, tier, rng):
    reps = 60 if tier == "quick" else 700
    kinds = ["dirichlet_tiny", "dirichlet", "geometric", "onehot_dust", "ties", "zeros"]
    coq_cases = []
    for t in range(reps):
        kind = kinds[t % len(kinds)]
        n = rng.choice([2, 3, 6, 9, 12, 30, 200] if tier == "quick" else [2, 3, 6, 9, 12, 30, 200, 3000])
        w = gen_w(rng, kind, n)
        # incl. fractions within a few ulp of 1 (inside the open interval (0,1)): the request "lose nothing" must end at the full set
        frac = rng.choice([0.5, 0.9, 0.99, 0.999, 0.2, 0.75, 1 - 2.0 ** -53, 1 - 2.0 ** -52, 1 - 1e-12])
        bins = rng.choice([2, 5, 10, 50, 1000] if n > 30 else [2, 3, 5, 10, 20])
        run.count(f"trim:{kind}")
        try:
            idx, wt, thr, wn = run_trim(w, frac, bins)
        except Exception as e:
            run.fail("trim-raises", f"trim_weights raised {type(e).__name__}: {e}", w=[float(x).hex() for x in w[:30]],
                     ess=frac, bins=bins)
            continue
        run.case(key=("trim", t, n, frac, bins), nontrivial=len(idx) < n)
        # threshold-set clause, independent of how the threshold was obtained: every kept weight exceeds every dropped one,
        # and no dropped weight equals a kept one (ties are kept or dropped together)
        kept = set(idx)
        dropped = [float(wn[j]) for j in range(n) if j not in kept]
        if idx and dropped and max(dropped) >= min(float(wn[j]) for j in idx):
            run.fail("trim-not-upper-set", f"a dropped sample has weight {max(dropped)!r} >= the smallest kept weight "
                     f"{min(float(wn[j]) for j in idx)!r}: the result is not 'all samples at or above a threshold'",
                     w=[float(x).hex() for x in w[:30]], n=n, ess=frac, bins=bins, kept=idx[:20])
            continue
        if not thr:
            run.fail("trim-threshold-not-a-percentile", "trim_weights returned without evaluating any percentile of the weights",
                     w=[float(x).hex() for x in w[:30]], n=n, ess=frac, bins=bins)
            continue
        k = bins - len(thr)  # grid index at which the loop stopped
        grid = np.linspace(0, 99, bins)
        fw = [Fraction(x) for x in wn] if n <= 40 else list(wn)
        tfin = Fraction(thr[-1][1]) if n <= 40 else thr[-1][1]
        what = dict(w=[float(x).hex() for x in w[:30]], n=n, ess=frac, bins=bins, stopped_at=k)
        if k < 0 or abs(thr[-1][0] - grid[k]) > 1e-9:
            run.fail("trim-grid", "percentile queried off the grid / below index 0", **what)
            continue
        # upper set at the final threshold, aligned samples
        want_idx = [j for j, x in enumerate(fw) if x >= tfin]
        if idx != want_idx:
            run.fail("trim-not-upper-set", f"returned samples {idx[:10]}.. are not exactly the samples with weight >= threshold",
                     **what)
            continue
        s_sel = sum(fw[j] for j in idx) if n <= 40 else math.fsum(fw[j] for j in idx)
        if len(wt) != len(idx) or any(abs(a - float(fw[j] / s_sel)) > 1e-12 for a, j in zip(wt, idx)):
            run.fail("trim-weights-misaligned", "returned weights are not the selected weights renormalised, row by row", **what)
            continue
        if abs(math.fsum(wt) - 1) > 1e-9:
            run.fail("trim-not-normalised", f"trimmed weights sum to {math.fsum(wt)}", **what)
        r_fin, _ = exact_ratio(fw, tfin)
        ffrac = Fraction(frac)
        if r_fin < ffrac * (1 - Fraction(1, 10 ** 9)):
            run.fail("trim-ess-below-request", f"ESS ratio {float(r_fin)} < requested {frac}", **what)
        # maximality: every grid index visited before the final one failed the test
        decisive = abs(r_fin - ffrac) > Fraction(1, 10 ** 9)
        for (q, tv) in thr[:-1]:
            r, _ = exact_ratio(fw, Fraction(tv) if n <= 40 else tv)
            if r is None:
                continue
            if abs(r - ffrac) <= Fraction(1, 10 ** 9):
                decisive = False
            elif r >= ffrac:
                run.fail("trim-not-maximal", f"grid percentile {q} already satisfied the request (ratio {float(r)}) but was skipped",
                         **what)
        if len(thr) != bins - k or [round(q, 9) for q, _ in thr] != [round(float(grid[j]), 9) for j in range(bins - 1, k - 1, -1)]:
            run.fail("trim-search-order", "thresholds were not searched from the top grid index downwards", **what)
        benign = n <= 12 and bins <= 20 and min(wn) > 0 and max(wn) / min(wn) < 1e6
        if decisive and benign and len(coq_cases) < (40 if tier == "quick" else 150):
            thr_by_index = {bins - 1 - j: tv for j, (_, tv) in enumerate(thr)}
            coq_cases.append((wn, thr_by_index, frac, bins, k, idx))
    if coq_cases:
        run.sample(dict(kind="trim", w=coq_cases[0][0][:8], ess=coq_cases[0][2], bins=coq_cases[0][3],
                        stopped_at=coq_cases[0][4], kept=coq_cases[0][5][:8]))
    items = []
    for wn, thr_by_index, frac, bins, k, idx in coq_cases:
        arms = " ".join(f"| {i}%nat => {qlit(v)}" for i, v in sorted(thr_by_index.items()))
        items.append(
            f"(match trim_core (seq 0 {len(wn)}) {qlist(wn)} (fun i => match i with {arms} | _ => 2 end) {qlit(frac)} {bins} "
            f"with Some (s, _, k) => k :: s | None => [] end)")
    src = f"""From Coq Require Import List QArith.
From Tempest Require Import Model.Weights.
Import ListNotations.
Eval vm_compute in [
{(";" + chr(10)).join(items)}
].
"""
    (ok, out), = coq_eval_many(run.scratch, [src])
    if not ok:
        run.broken.append(("trim-correspondence-coqc", out[-1500:]))
        return
    res = parse_evals(out)[0]
    for (wn, thr_by_index, frac, bins, k, idx), m in zip(coq_cases, res):
        if m != [k] + idx:
            run.disagree("trim_weights vs Coq model (exact Q, recorded percentile oracle)",
                         w=[float(x).hex() for x in wn], ess=frac, bins=bins, impl=[k] + idx, model=m)
    run.count("trim_model_cases", len(coq_cases))


def exact_vv2(x, w):
    """4*cv^2 in exact rationals on the full-rank branch; None when the covariance is singular."""
    n, d = len(x), len(x[0])
    fw = [Fraction(v) for v in w]
    s = sum(fw)
    fw = [v / s for v in fw]
    fx = [[Fraction(v) for v in row] for row in x]
    mean = [sum(fw[i] * fx[i][j] for i in range(n)) for j in range(d)]
    xc = [[fx[i][j] - mean[j] for j in range(d)] for i in range(n)]
    cov = [[sum(fw[i] * xc[i][a] * xc[i][b] for i in range(n)) for b in range(d)] for a in range(d)]
    # Gauss-Jordan inverse
    M = [row[:] + [Fraction(int(a == b)) for b in range(d)] for a, row in enumerate(cov)]
    for c in range(d):
        p = next((r for r in range(c, d) if M[r][c] != 0), None)
        if p is None:
            return None
        M[c], M[p] = M[p], M[c]
        pv = M[c][c]
        M[c] = [v / pv for v in M[c]]
        for r in range(d):
            if r != c and M[r][c] != 0:
                f = M[r][c]
                M[r] = [a - f * b for a, b in zip(M[r], M[c])]
    inv = [row[d:] for row in M]
    tot = Fraction(0)
    for i in range(n):
        d2 = sum(xc[i][a] * inv[a][b] * xc[i][b] for a in range(d) for b in range(d))
        tot += fw[i] ** 2 * (d2 - d) ** 2
    return tot


def check_volume(run, tier, rng):
    from tempest.tools import volume_variation
    reps = 40 if tier == "quick" else 400
    nrng = np.random.RandomState(rng.randrange(2 ** 31))
    for t in range(reps):
        d = rng.choice([1, 2, 3, 4])
        n = rng.choice([d + 2, 3 * d + 1, 40])
        x = nrng.randn(n, d) @ (np.eye(d) + 0.3 * nrng.randn(d, d)) + nrng.randn(d)
        x = np.round(x * 64) / 64  # dyadic inputs: exact rational reference stays small
        w = np.array(gen_w(rng, rng.choice(["dirichlet", "uniform", "ties"]), n))
        v = float(volume_variation(x, w))
        run.case(key=("vv", t, n, d))
        what = dict(n=n, d=d, x=x.tolist()[:6], w=w.tolist()[:6])
        if not (v >= 0):
            run.fail("vv-negative", f"volume_variation={v}", **what)
            continue
        ex = exact_vv2(x.tolist(), w.tolist()) if n <= 13 else None
        if ex is not None and ex > 0:
            # below the clip (|d2-d| <= 1e6 always here): cv = 0.5*sqrt(sum)
            if abs(4 * v * v - float(ex)) > 1e-6 * max(float(ex), 1e-12):
                run.fail("vv-wrong-value", f"volume_variation={v}, exact 0.5*sqrt(sum w^2 (d2-d)^2)={0.5 * math.sqrt(float(ex))}", **what)
        if t % 4 == 1:
            # the same sample values stored as integers: the metric is a function of the values, not of the dtype
            xi = np.round(x * 64).astype(np.int64)
            try:
                vi, vf = float(volume_variation(xi, w)), float(volume_variation(xi.astype(float), w))
                if not (abs(vi - vf) <= 1e-9 * max(vf, 1e-12)):
                    run.fail("vv-depends-on-dtype", f"volume_variation on integer-typed samples = {vi}, on the same values as floats = {vf}", **what)
            except Exception as e:
                run.fail("vv-raises", f"volume_variation on integer-typed samples raised {type(e).__name__}: {e}", **what)
        c = rng.choice([3.0, 1e-6, 1e5])
        v2 = float(volume_variation(x, w * c))
        if abs(v2 - v) > 1e-8 * max(v, 1e-12):
            run.fail("vv-weight-scale", f"vv(x,w)={v} but vv(x,{c}*w)={v2}", **what)
        # affine invariance (moderately conditioned maps)
        cond = rng.choice([1.0, 10.0, 1e3] if tier == "quick" else [1.0, 10.0, 1e3, 1e4])
        U, _ = np.linalg.qr(nrng.randn(d, d))
        V, _ = np.linalg.qr(nrng.randn(d, d))
        sv = np.geomspace(1.0, cond, d) if d > 1 else np.array([cond])
        # overall scales from 2^-17 (standard deviations of 1e-5, covariance eigenvalues of 1e-10) to 250: rank is a relative notion
        A = U @ np.diag(sv) @ V.T * ([2.0 ** -17, 1e-3, 1.0, 250.0][t % 4] if t % 3 == 0 else rng.choice([1.0, 1e-3, 250.0]))
        b = nrng.randn(d) * rng.choice([0.0, 1.0, 1e3])
        v3 = float(volume_variation(x @ A + b, w))
        if abs(v3 - v) > 1e-6 * cond * max(v, 1e-9):
            run.fail("vv-not-affine-invariant", f"vv(x)={v}, vv(xA+b)={v3}, cond(A)={cond}", A=A.tolist(), b=b.tolist(), **what)
    run.count("volume_cases", reps)


def posterior_trim_probe(run):
    """the trimming contract as the user meets it (Sampler.posterior with trim_importance_weights=True): every returned array
    has the trimmed length and the rows stay aligned - the returned log-weights are those of the returned samples"""
    from tempest import Sampler
    s = Sampler(lambda u: 8 * u - 4, lambda x: -0.5 * float(np.sum(x ** 2)), n_dim=2, n_particles=16, clustering=False, random_state=4)
    s.run(n_total=40, progress=False)
    logw_all, _ = s.state.compute_logw_and_logz(1.0)
    x_all = s.state.get_history("x", flat=True)
    for ess_trim in (0.99, 0.9, 0.6):
        x, w, l, lw = s.posterior(resample=False, trim_importance_weights=True, return_logw=True, ess_trim=ess_trim, bins_trim=50)
        run.case(key=("posterior-trim", ess_trim), nontrivial=len(x) < len(x_all))
        what = dict(ess_trim=ess_trim, bins_trim=50, pool=len(x_all), kept=len(x))
        if not (len(x) == len(w) == len(l) == len(lw)):
            run.fail("trim-weights-misaligned", f"posterior(trim) returns arrays of lengths {len(x)}, {len(w)}, {len(l)}, {len(lw)}", **what)
            continue
        # row identity: each returned sample is a pool row; its returned log-weight must be that row's log-weight
        for i in range(len(x)):
            j = np.where(np.all(x_all == x[i], axis=1))[0]
            if len(j) == 0 or not np.any(np.isclose(logw_all[j], lw[i], rtol=0, atol=1e-12)):
                run.fail("trim-weights-misaligned", f"posterior(trim): returned sample {i} comes with a log-weight that is not its own", **what)
                break
        if abs(float(np.sum(w)) - 1) > 1e-9:
            run.fail("trim-not-normalised", f"posterior(trim) weights sum to {float(np.sum(w))}", **what)


def search(run):
    rng = random.Random(7)
    check_ess(run, "quick", rng)
    check_trim(run, "quick", rng)
    check_volume(run, "quick", rng)


def main(tier, seed):
    run = Run(PID, tier, seed)
    run.rule = ("weight vectors: Dirichlet with tiny concentration, geometric, one-hot plus 1e-280 dust, ties, uniform, "
                "zero-laden; lengths 1..1000 (10^4 thorough); ESS checked against exact rationals; trim_weights run with "
                "numpy.percentile recorded, its decisions re-derived exactly and replayed through the Coq model (Q) on "
                "decisive small cases; volume metric on random correlated clouds (d<=4) against an exact rational "
                "reference and under affine maps (cond up to 1e3/1e4) and weight rescaling. Non-trivial: n>1 (ESS), "
                "trimming removed a sample (trim).")
    run.assumptions = [
        "numpy.percentile is an oracle: the theorems hold for every threshold function; termination needs thr(0) <= min w",
        "float rounding idealised in the Q/field theorems; decisions within 1e-9 of the threshold are not compared",
        "volume metric: theorems cover the full-rank unclipped branch (regularised / clipped branches are not invariant "
        "and are excluded by hypothesis); numpy.linalg.inv modelled as the exact inverse",
    ]
    rng = random.Random(seed)
    try:
        translate()
        run.obligation("translate:tools.effective_sample_size+trim_weights", True)
    except Exception as e:  # fail closed: anything the translator cannot digest
        run.obligation("translate:tools.effective_sample_size+trim_weights", False, str(e))
    run.prove("Props/C20.v", link_rels=["Link/Weights.v"])
    run.prove("Props/C20V.v")
    try:
        check_ess(run, tier, rng)
        check_trim(run, tier, rng)
        check_volume(run, tier, rng)
        posterior_trim_probe(run)
    except Exception:
        import traceback
        run.broken.append(("harness-exception", traceback.format_exc()[-1500:]))
    run.finish(search=None)
